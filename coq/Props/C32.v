(** C32 — cleanup never loses an assigned repository.
    Model: Model/Cleanup.v ([cleanup d repos now shardMerging] = cmd/zoekt-sourcegraph-indexserver/cleanup.go
    after the repairs `fix: indexserver cleanup: tombstone unassigned repos in compound shards even when
    they also have simple shards` and `fix: indexserver cleanup: keep compound shards that still serve
    other repositories when shard merging is disabled`).  Proofs: Proofs/CleanupProofs.v. *)
From ZV Require Import Lib.Base Model.Cleanup Proofs.CleanupProofs Proofs.CleanupUnassigned Proofs.CleanupTrash Proofs.CleanupRevive Proofs.CleanupRestore Proofs.CleanupFailure Proofs.CleanupFailure2 Proofs.CleanupAllOrNothing.
Open Scope Z_scope.

(** assigned_kept (FULL).  For every well-formed index directory, every assigned list, every time and both
    settings of shardMerging: a shard file f that serves an assigned repository r whose shards agree
    on its name is still in the index after cleanup, under the same name and kind, with r's metadata
    (alive, name, dates) untouched.  (Holds for shardMerging = false since the repair `fix: indexserver
    cleanup: keep compound shards that still serve other repositories when shard merging is disabled`.) *)
Theorem C32_assigned_kept : forall d repos now sm f e r,
  wf d -> In f (d_index d) -> In e (alive_entries f) -> e_id e = r ->
  In r repos -> consistent (group (get_shards (d_index d)) r) = true ->
  exists f', In f' (d_index (cleanup d repos now sm)) /\ f_base f' = f_base f /\
             f_compound f' = f_compound f /\ proj r f' = proj r f.
Proof. intros. eapply assigned_kept; eauto. Qed.
Print Assumptions C32_assigned_kept.

(** what was wrong before that repair: shardMerging = false, a compound shard holding assigned repository 1
    and unassigned repository 2 was deleted outright ([cleanup_before_fix2] = the model of the code before) *)
Theorem C32_assigned_kept_no_merging_before_fix_refuted :
  exists d repos now f e r,
    wf d /\ In f (d_index d) /\ In e (alive_entries f) /\ e_id e = r /\ In r repos /\
    consistent (group (get_shards (d_index d)) r) = true /\
    d_index (cleanup_before_fix2 d repos now false) = [].
Proof. exact assigned_kept_no_merging_before_fix_refuted. Qed.
Print Assumptions C32_assigned_kept_no_merging_before_fix_refuted.

(** what was wrong before the first repair (shardMerging = true; unassigned repository 2 alive in a simple
    shard and in the compound shard that also serves assigned repository 1) *)
Theorem C32_assigned_kept_before_fix_refuted :
  exists d repos now f e r,
    wf d /\ In f (d_index d) /\ In e (alive_entries f) /\ e_id e = r /\ In r repos /\
    consistent (group (get_shards (d_index d)) r) = true /\
    d_index (cleanup_before_fix d repos now true) = [].
Proof. exact assigned_kept_before_fix_refuted. Qed.
Print Assumptions C32_assigned_kept_before_fix_refuted.

(** ---- moveAll's failure fallback.  [cleanup_f d repos now sm mvfail]: the same cleanup in which the os.Rename of
    shard file b into the index ([mvfail true b]) or into the trash ([mvfail false b]) fails; moveAll then removes
    what it had already moved for that repository and every shard it was still asked to move ("failed to move shard,
    deleting all shards").  Without failures it IS [cleanup]; with ANY failures the two safety clauses survive:
    assigned repositories keep every indexed shard, and no unassigned repository stays searchable. *)
Theorem C32_no_failure_is_cleanup : forall d repos now sm,
  cleanup_f d repos now sm (fun _ _ => false) = cleanup d repos now sm.
Proof. exact cleanup_f_nofail. Qed.
Print Assumptions C32_no_failure_is_cleanup.

Theorem C32_assigned_kept_any_rename_failure : forall d repos now sm mvfail f e r,
  wf d -> In f (d_index d) -> In e (alive_entries f) -> e_id e = r ->
  In r repos -> consistent (group (get_shards (d_index d)) r) = true ->
  exists f', In f' (d_index (cleanup_f d repos now sm mvfail)) /\ f_base f' = f_base f /\
             f_compound f' = f_compound f /\ proj r f' = proj r f.
Proof. intros. eapply assigned_kept_any_failure; eauto. Qed.
Print Assumptions C32_assigned_kept_any_rename_failure.

Theorem C32_unassigned_not_searchable_any_rename_failure : forall d repos now sm mvfail id,
  wf d -> wf_trash d -> ~ In id repos ->
  forall g e, In g (d_index (cleanup_f d repos now sm mvfail)) -> In e (alive_entries g) -> e_id e <> id.
Proof. intros d repos now sm mvfail id H1 H2 H3. exact (unassigned_not_alive_after_any_failure d repos now sm mvfail id H1 H2 H3). Qed.
Print Assumptions C32_unassigned_not_searchable_any_rename_failure.

(** the trash rule ("deleted only if old, conflicting or assigned") also holds under any rename failures, and an
    assigned repository is restored from the trash whenever no rename of ITS trashed shards fails (other renames may);
    if one of them fails moveAll deletes all of its trashed shards (ex_big_rename_failures) *)
Theorem C32_trash_kept_any_rename_failure : forall d repos now sm mvfail t e id,
  wf d -> wf_trash d -> In t (d_trash d) -> In e (alive_entries t) -> e_id e = id ->
  trash_drop d now id = false -> ~ In id repos ->
  exists t', In t' (d_trash (cleanup_f d repos now sm mvfail)) /\ f_base t' = f_base t /\ f_repos t' = f_repos t.
Proof. intros. eapply trash_kept_any_failure; eauto. Qed.
Print Assumptions C32_trash_kept_any_rename_failure.

Theorem C32_assigned_restored_from_trash_other_renames_may_fail : forall d repos now sm mvfail t e id,
  wf d -> wf_trash d -> In t (d_trash d) -> alive_entries t = [e] -> f_compound t = false -> e_id e = id ->
  In id repos -> NoDup repos -> In id (trash_keys d now) ->
  (forall s, In s (group (get_shards (d_trash d)) id) -> mvfail true (s_base s) = false) ->
  (exists f', In f' (d_index (cleanup_f d repos now sm mvfail)) /\ f_base f' = f_base t /\ f_repos f' = f_repos t /\
              f_compound f' = false) /\
  (forall t', In t' (d_trash (cleanup_f d repos now sm mvfail)) -> f_base t' <> f_base t).
Proof. intros. eapply assigned_restored_from_trash_f; eauto. Qed.
Print Assumptions C32_assigned_restored_from_trash_other_renames_may_fail.

(** moveAll is ALL-OR-NOTHING under any rename failures (first, second or any later shard), from any directory
    state: for the simple shards [g] of one repository (distinct file names; the destination holds no file of these
    names — restore: the repository is not in the index; trashing: its trashed copies went in the first phase), after
    moveAll's loop ([moves], the code cleanup_f runs for every restore / trashing) EITHER no rename failed and every
    shard of [g] is at the destination with the content it had at the source and none is left at the source, OR a
    rename failed and no shard of [g] is left anywhere — never a strict subset at the destination (a partially
    restored repository would answer searches with part of its files; a partial copy in the trash would be restored
    as such).  Files of other names are untouched in both directories.  [srcd]/[dstd] = trash/index for a restore
    ([ti] = true), index/trash for trashing.  This is what `shards[i] = dstShard` is for: without it
    ([moves_forgetful], Example below) the shards moved before the failure stay at the destination. *)
Theorem C32_moveAll_all_or_nothing_any_rename_failure : forall mvfail now ti id g x,
  (forall s, In s g -> s_compound s = false) ->
  NoDup (map s_base g) ->
  (forall s, In s g -> find_file (s_base s) (dstd ti x) = None) ->
  let x' := fold_left (apply now) (moves mvfail ti id [] g) x in
  (forall b, in_bases b g = false ->
     find_file b (srcd ti x') = find_file b (srcd ti x) /\ find_file b (dstd ti x') = find_file b (dstd ti x)) /\
  ((any_fail mvfail ti g = false /\
    forall s, In s g -> find_file (s_base s) (srcd ti x') = None /\
                        find_file (s_base s) (dstd ti x') = find_file (s_base s) (srcd ti x)) \/
   (any_fail mvfail ti g = true /\
    forall s, In s g -> find_file (s_base s) (srcd ti x') = None /\ find_file (s_base s) (dstd ti x') = None)).
Proof. exact moveAll_all_or_nothing. Qed.
Print Assumptions C32_moveAll_all_or_nothing_any_rename_failure.

(** Non-vacuity + the contrast: a three-shard repository in the trash, the rename of its SECOND shard fails. The
    modelled moveAll leaves nothing in index and trash; the forgetful fallback leaves shard 1 live in the index. *)
Example C32_moveAll_second_shard_fails :
  map f_base (d_index (fold_left (apply 0) (moves_forgetful aon_fail2 true [aon_s 1; aon_s 2; aon_s 3]) aon_dir)) = [1%N] /\
  d_index (fold_left (apply 0) (moves aon_fail2 true 7 [] [aon_s 1; aon_s 2; aon_s 3]) aon_dir) = [] /\
  d_trash (fold_left (apply 0) (moves aon_fail2 true 7 [] [aon_s 1; aon_s 2; aon_s 3]) aon_dir) = [].
Proof. exact moves_forgetful_partial. Qed.

(** ... lifted to the whole cleanup for the restore direction: a FAILED restore drops the repository completely.
    If the rename of any trashed shard of an assigned repository in [trash_keys] fails (the first, the second, any
    later one — [any_fail_simple]: only simple shards are renamed) then after cleanup_f NO file with the name of any of
    its trashed simple shards [t] exists, neither in the index nor in the trash ([no_name]): never a strict subset of
    its shards live in the index, never a partial copy left in the trash.  (Its shard files have distinct names; compound
    entries in the list are allowed: moveAll deletes them in place and they do not disturb the rest.  Together with
    [C32_assigned_restored_from_trash_other_renames_may_fail]: restored completely when none of its renames fails.)
    No duplicate-freeness of [repos] is needed here. *)
Theorem C32_failed_restore_drops_whole_repository : forall d repos now sm mvfail t e id,
  wf d -> wf_trash d -> In t (d_trash d) -> alive_entries t = [e] -> e_id e = id ->
  In id repos -> In id (trash_keys d now) ->
  f_compound t = false ->
  NoDup (map s_base (group (get_shards (d_trash d)) id)) ->
  any_fail_simple mvfail true (group (get_shards (d_trash d)) id) = true ->
  (forall g, In g (d_index (cleanup_f d repos now sm mvfail)) -> f_base g <> f_base t) /\
  (forall g, In g (d_trash (cleanup_f d repos now sm mvfail)) -> f_base g <> f_base t).
Proof. intros. eapply failed_restore_drops_all; eauto. Qed.
Print Assumptions C32_failed_restore_drops_whole_repository.

Example C32_failed_restore_nonvacuous :
  In 7%N (trash_keys aon_dir 0) /\ any_fail_simple aon_fail2 true (group (get_shards (d_trash aon_dir)) 7) = true /\
  any_fail_simple aon_fail2 true (firstn 1 (group (get_shards (d_trash aon_dir)) 7)) = false /\
  cleanup_f aon_dir [7%N] 0 true aon_fail2 = mkD [] [] 0 /\
  map f_base (d_index (cleanup_f aon_dir [7%N] 0 true (fun _ _ => false))) = [1%N; 2%N; 3%N].
Proof. vm_compute. repeat split; try reflexivity. left. reflexivity. Qed.

(** ... and for the trashing direction: an UNASSIGNED, consistently named repository whose simple shards cleanup
    moves to the trash ([G] = the shards moveAll is given: all of them, minus the compound ones when shardMerging is on;
    distinct file names; with shardMerging off [G] may contain compound shards, which moveAll tombstones or removes in
    place) and for which the rename of ANY of its simple shards fails ends up with no file of any of its simple
    shards' names [g0] anywhere: not in the index and not in the trash — no partial copy that a later cleanup would
    restore as a partial repository.  (The trash holds only shards with a live repository, as moveAll puts them
    there; a conflicting trashed copy is removed by the first phase.) *)
Theorem C32_failed_trashing_drops_whole_repository : forall d repos now sm mvfail g0 e id,
  wf d -> (forall t, In t (d_trash d) -> alive_entries t <> []) ->
  In g0 (d_index d) -> f_compound g0 = false -> In e (alive_entries g0) -> e_id e = id ->
  ~ In id repos -> consistent (group (get_shards (d_index d)) id) = true ->
  let G := filter (fun s => negb (sm && s_compound s)) (group (get_shards (d_index d)) id) in
  NoDup (map s_base G) -> any_fail_simple mvfail false G = true ->
  (forall g, In g (d_index (cleanup_f d repos now sm mvfail)) -> f_base g <> f_base g0) /\
  (forall g, In g (d_trash (cleanup_f d repos now sm mvfail)) -> f_base g <> f_base g0).
Proof. intros. eapply failed_trashing_drops_all; eauto. Qed.
Print Assumptions C32_failed_trashing_drops_whole_repository.

Definition ex_trashing_dir : dir := mkD [aon_f 1; aon_f 2; aon_f 3; mkF 9 false 0 [mkE 8 8 false 0]] [] 0.
Example C32_failed_trashing_nonvacuous :
  any_fail_simple aon_fail2 false (filter (fun s => negb (true && s_compound s)) (group (get_shards (d_index ex_trashing_dir)) 7)) = true /\
  cleanup_f ex_trashing_dir [8%N] 0 true aon_fail2 = mkD [mkF 9 false 0 [mkE 8 8 false 0]] [] 0 /\
  map f_base (d_trash (cleanup_f ex_trashing_dir [8%N] 0 true (fun _ _ => false))) = [1%N; 2%N; 3%N].
Proof. vm_compute. repeat split; reflexivity. Qed.

(** the same with shardMerging OFF and a compound shard in moveAll's list: the unassigned repository 7 has three simple
    shards and is alive in compound shard 5 together with the assigned repository 8; the rename of its second simple
    shard fails: its simple shards are gone from index and trash, it is tombstoned in the compound shard, 8 untouched *)
Definition ex_trashing_mixed : dir :=
  mkD [aon_f 1; aon_f 2; aon_f 3; mkF 5 true 0 [mkE 7 7 false 0; mkE 8 8 false 0]] [] 0.
Example C32_failed_trashing_mixed_nonvacuous :
  map s_base (filter (fun s => negb (false && s_compound s)) (group (get_shards (d_index ex_trashing_mixed)) 7)) = [1; 2; 3; 5]%N /\
  any_fail_simple aon_fail2 false (filter (fun s => negb (false && s_compound s)) (group (get_shards (d_index ex_trashing_mixed)) 7)) = true /\
  cleanup_f ex_trashing_mixed [8%N] 0 false aon_fail2 = mkD [mkF 5 true 0 [mkE 7 7 true 0; mkE 8 8 false 0]] [] 0.
Proof. vm_compute. repeat split; reflexivity. Qed.

(** unassigned_not_searchable_after: for every well-formed directory, every assigned set and both settings
    of shardMerging, no repository outside the assigned set is alive in any index shard after cleanup
    (it was trashed, tombstoned, or deleted; nothing revived it). *)
Theorem C32_unassigned_not_searchable_after : forall d repos now sm id,
  wf d -> wf_trash d -> ~ In id repos ->
  forall g e, In g (d_index (cleanup d repos now sm)) -> In e (alive_entries g) -> e_id e <> id.
Proof. intros d repos now sm id H1 H2 H3. exact (unassigned_not_alive_after d repos now sm id H1 H2 H3). Qed.
Print Assumptions C32_unassigned_not_searchable_after.

(** assigned_untombstoned (shardMerging = true): an assigned repository that is not alive in the index, has no
    restorable trashed shards, and is tombstoned in a compound shard is alive again afterwards, in the
    compound shard getTombstonedRepos selects (latest commit date, later file on ties).
    (With shardMerging = false the rename purge may delete that shard first when nothing but a renamed repository
    is alive in it: C32_assigned_untombstoned_no_merging_refuted, the remaining known finding.) *)
Theorem C32_assigned_untombstoned : forall d repos now id,
  wf d -> In id repos -> ~ In id (ids_of (ix d)) -> ~ In id (trash_keys d now) -> In id (tomb_ids (d_index d)) ->
  exists b, tomb_pick (tomb_candidates (d_index d) id) = Some b /\ alive_at b id (cleanup d repos now true).
Proof. intros. eapply assigned_untombstoned; eauto. Qed.
Print Assumptions C32_assigned_untombstoned.

(** both modes: the same, provided no renamed repository (same id, several names) is alive in the selected shard;
    without that proviso and shardMerging = false it is refuted below *)
Theorem C32_assigned_untombstoned_any_mode : forall d repos now sm id,
  wf d -> In id repos -> ~ In id (ids_of (ix d)) -> ~ In id (trash_keys d now) -> In id (tomb_ids (d_index d)) ->
  (forall b, tomb_pick (tomb_candidates (d_index d) id) = Some b ->
     forall s i, In s (group (ix d) i) -> s_base s = b -> consistent (group (ix d) i) = true) ->
  exists b, tomb_pick (tomb_candidates (d_index d) id) = Some b /\ alive_at b id (cleanup d repos now sm).
Proof. intros. eapply assigned_untombstoned_any; eauto. Qed.
Print Assumptions C32_assigned_untombstoned_any_mode.

Theorem C32_assigned_untombstoned_no_merging_refuted :
  exists d repos now id,
    wf d /\ In id repos /\ ~ In id (ids_of (ix d)) /\ ~ In id (trash_keys d now) /\ In id (tomb_ids (d_index d)) /\
    d_index (cleanup d repos now false) = [] /\
    (exists b, alive_at b id (cleanup d repos now true)).
Proof. exact assigned_untombstoned_no_merging_refuted. Qed.
Print Assumptions C32_assigned_untombstoned_no_merging_refuted.

(** trash_deleted_only_if_old_or_conflict (contrapositive): a trashed shard of a repository that is not
    assigned (assigned ones are restored), none of whose trashed shards is older than 24 h
    ([trash_old]: mtime < now - 86400, strict) and that is not alive in the index ([trash_drop] = false
    is exactly "no conflict and not old") is still in the trash afterwards, with its content. *)
Theorem C32_trash_kept_unless_old_conflicting_or_assigned : forall d repos now sm t e id,
  wf d -> wf_trash d -> In t (d_trash d) -> In e (alive_entries t) -> e_id e = id ->
  trash_drop d now id = false -> ~ In id repos ->
  exists t', In t' (d_trash (cleanup d repos now sm)) /\ f_base t' = f_base t /\ f_repos t' = f_repos t.
Proof. intros. eapply trash_kept; eauto. Qed.
Print Assumptions C32_trash_kept_unless_old_conflicting_or_assigned.

(** assigned_restored_from_trash: an assigned repository that is in the trash with no trashed shard older than
    24 h and that is not alive in the index ([trash_keys], spelled out by C32_trash_keys_spec) gets each of
    its trashed simple shards back into the index, with its content, and the trash no longer has a file of
    that name.  The assigned list must be duplicate-free: see the refutation below. *)
Theorem C32_assigned_restored_from_trash : forall d repos now sm t e id,
  wf d -> wf_trash d -> In t (d_trash d) -> alive_entries t = [e] -> f_compound t = false -> e_id e = id ->
  In id repos -> NoDup repos -> In id (trash_keys d now) ->
  (exists f', In f' (d_index (cleanup d repos now sm)) /\ f_base f' = f_base t /\ f_repos f' = f_repos t /\
              f_compound f' = false) /\
  (forall t', In t' (d_trash (cleanup d repos now sm)) -> f_base t' <> f_base t).
Proof. intros. eapply assigned_restored_from_trash; eauto. Qed.
Print Assumptions C32_assigned_restored_from_trash.

Theorem C32_trash_keys_spec : forall d now id,
  In id (trash_keys d now) <->
  (exists s, In s (get_shards (d_trash d)) /\ s_id s = id) /\ trash_drop d now id = false.
Proof.
  intros. unfold trash_keys. rewrite filter_In, negb_true_iff. unfold tr. rewrite in_ids_of. reflexivity.
Qed.
Print Assumptions C32_trash_keys_spec.

(** with a duplicate id in the assigned list the second moveAll(indexDir, ...) first removes its destination
    (the shard just restored) and then finds nothing to move: the repository is lost from index AND trash.
    (The caller passes the ids Sourcegraph assigns; the property speaks of assigned SETS.) *)
Theorem C32_assigned_restored_duplicate_id_refuted :
  exists d repos now sm t e id,
    wf d /\ wf_trash d /\ In t (d_trash d) /\ alive_entries t = [e] /\ f_compound t = false /\ e_id e = id /\
    In id repos /\ In id (trash_keys d now) /\
    cleanup d repos now sm = mkD [] [] 0.
Proof. exact assigned_restored_duplicate_id_refuted. Qed.
Print Assumptions C32_assigned_restored_duplicate_id_refuted.

(** the converse of the trash rule: a trashed shard of a repository that is old (one of its trashed shards is
    older than 24 h) or conflicts with the index ([trash_drop] = true) IS deleted: by the first phase, which
    touches nothing in the index; cleanup continues from that state ... *)
Theorem C32_trash_old_or_conflicting_deleted : forall d repos now sm t e id,
  In t (d_trash d) -> In e (alive_entries t) -> e_id e = id -> trash_drop d now id = true ->
  cleanup d repos now sm =
    fold_left (apply now) (plan3 d sm ++ plan4 d repos now ++ plan5 d repos sm ++ [ClearTmp]) (after_trash_phase d now) /\
  d_index (after_trash_phase d now) = d_index d /\
  (forall t', In t' (d_trash (after_trash_phase d now)) -> f_base t' <> f_base t).
Proof.
  intros d repos now sm t e id Ht He Hid Hd. split; [apply cleanup_after_trash_phase|].
  eapply trash_dropped_in_first_phase; eauto.
Qed.
Print Assumptions C32_trash_old_or_conflicting_deleted.

(** ... and nothing brings it back: unless the index itself had a shard file of that name (which the later phases
    may move to the trash in its place), no file of that name is in the index or in the trash afterwards *)
Theorem C32_trash_old_or_conflicting_gone : forall d repos now sm t e id,
  In t (d_trash d) -> In e (alive_entries t) -> e_id e = id -> trash_drop d now id = true ->
  (forall g, In g (d_index d) -> f_base g <> f_base t) ->
  (forall g, In g (d_index (cleanup d repos now sm)) -> f_base g <> f_base t) /\
  (forall t', In t' (d_trash (cleanup d repos now sm)) -> f_base t' <> f_base t).
Proof. intros. eapply trash_dropped_final; eauto. Qed.
Print Assumptions C32_trash_old_or_conflicting_gone.

Theorem C32_trash_24h_boundary_exact : forall now s,
  trash_old now [s] = (s_mtime s <? now - 86400).
Proof. exact trash_old_boundary. Qed.
Print Assumptions C32_trash_24h_boundary_exact.

Theorem C32_tmp_files_removed : forall d repos now sm, d_tmps (cleanup d repos now sm) = 0%nat.
Proof. exact tmp_removed. Qed.
Print Assumptions C32_tmp_files_removed.

(** ---- non-vacuity: a directory exercising every phase (trash old / fresh / conflicting, tombstones,
    a renamed repository, compound shards shared by assigned and unassigned repositories, tmp files) *)
Definition ex_big : dir :=
  mkD [ mkF 0 false (-3600) [mkE 1 1 false 1000];                                  (* repo 1, assigned *)
        mkF 1 false (-3600) [mkE 2 2 false 1000];                                  (* repo 2, unassigned *)
        mkF 2 false (-3600) [mkE 3 3 false 1000];                                  (* repo 3 under two names *)
        mkF 3 false (-3600) [mkE 3 33 false 1000];
        mkF 4 true (-3600) [mkE 1 1 true 1000; mkE 4 4 false 2000; mkE 5 5 false 1000; mkE 6 6 true 3000] ]
      [ mkF 5 false (-86401) [mkE 7 7 false 1000];                                 (* old *)
        mkF 6 false (-86400) [mkE 8 8 false 1000];                                 (* exactly 24h: kept, restored *)
        mkF 0 false (-60) [mkE 1 1 false 1000];                                    (* conflicts with the index *)
        mkF 7 false (-86400) [mkE 9 9 false 1000] ]                                (* unassigned, exactly 24h: kept *)
      2.
Definition ex_repos : list N := [1; 4; 6; 8]%N.

Example ex_big_wf : wf ex_big.
Proof.
  constructor.
  - simpl. repeat constructor; simpl; intuition discriminate.
  - simpl. intros f e e' Hf C. repeat (destruct Hf as [<-|Hf]; [try discriminate; simpl; intuition congruence|]). contradiction.
  - simpl. intros t f e Ht Hf Hb He.
    repeat (destruct Ht as [<-|Ht]; [repeat (destruct Hf as [<-|Hf]; [try discriminate|]); try contradiction|]); try contradiction.
    simpl in He. destruct He as [<-|[]]. vm_compute. left. reflexivity.
Qed.

Example ex_big_wf_trash : wf_trash ex_big.
Proof.
  constructor.
  - simpl. repeat constructor; simpl; intuition discriminate.
  - simpl. intros t e e' Ht. repeat (destruct Ht as [<-|Ht]; [simpl; intuition congruence|]). contradiction.
Qed.

(* the result: 1 kept (simple), 2 trashed, 3 purged, compound shard kept with 4 alive, 5 tombstoned, 6 revived;
   trash: 7 expired, 8 restored, conflicting copy of 1 deleted, 9 kept; tmp files gone *)
Example ex_big_result :
  let x := cleanup ex_big ex_repos 0 true in
  map f_base (d_index x) = [0; 4; 6]%N /\ map f_base (d_trash x) = [7; 1]%N /\ d_tmps x = 0%nat /\
  option_map (fun f => map (fun e => (e_id e, e_tomb e)) (f_repos f)) (find_file 4 (d_index x))
    = Some [(1, true); (4, false); (5, true); (6, false)]%N.
Proof. vm_compute. repeat split; reflexivity. Qed.

(* repository 6 satisfies the hypotheses of C32_assigned_untombstoned in ex_big *)
Example ex_big_revive_hyps :
  In 6%N ex_repos /\ ~ In 6%N (ids_of (ix ex_big)) /\ ~ In 6%N (trash_keys ex_big 0) /\ In 6%N (tomb_ids (d_index ex_big)).
Proof. vm_compute. repeat split; try (intros H; repeat (destruct H as [H|H]; [discriminate|]); exact H); auto 10. Qed.

(* repository 8 (trashed exactly 24 h ago, assigned) satisfies the hypotheses of C32_assigned_restored_from_trash;
   repository 7 (trashed 24 h + 1 s ago) those of C32_trash_old_or_conflicting_gone; the trashed copy of
   repository 1 conflicts with the index (C32_trash_old_or_conflicting_deleted) *)
Example ex_big_restore_hyps :
  In 8%N ex_repos /\ NoDup ex_repos /\ In 8%N (trash_keys ex_big 0) /\
  trash_drop ex_big 0 7 = true /\ trash_drop ex_big 0 1 = true /\
  (forall g, In g (d_index ex_big) -> f_base g <> 5%N).
Proof.
  split; [vm_compute; auto 10|]. split; [repeat constructor; simpl; intuition discriminate|].
  split; [vm_compute; auto|]. split; [reflexivity|]. split; [reflexivity|].
  simpl. intros g Hg. repeat (destruct Hg as [<-|Hg]; [discriminate|]). contradiction.
Qed.

(* a failing rename while restoring repository 8 (shard 6) drops it from index and trash; repository 1 is untouched;
   a failing rename while trashing repository 2 (shard 1) deletes that shard instead *)
Example ex_big_rename_failures :
  let x := cleanup_f ex_big ex_repos 0 true (fun ti b => if ti then N.eqb b 6 else N.eqb b 1) in
  map f_base (d_index x) = [0; 4]%N /\ map f_base (d_trash x) = [7]%N /\
  cleanup_f ex_big ex_repos 0 true (fun _ _ => false) = cleanup ex_big ex_repos 0 true.
Proof. vm_compute. repeat split; reflexivity. Qed.
