(** C32 — cleanup never loses an assigned repository.
    Model: Model/Cleanup.v ([cleanup d repos now shardMerging] = cmd/zoekt-sourcegraph-indexserver/cleanup.go
    after the repair `fix: indexserver cleanup: tombstone unassigned repos in compound shards even when
    they also have simple shards`).  Proofs: Proofs/CleanupProofs.v. *)
From ZV Require Import Lib.Base Model.Cleanup Proofs.CleanupProofs Proofs.CleanupUnassigned Proofs.CleanupTrash Proofs.CleanupRevive.
Open Scope Z_scope.

(** assigned_kept.  For every well-formed index directory, every assigned set, every time and both
    settings of shardMerging: a shard file f that serves an assigned repository r whose shards agree
    on its name is still in the index after cleanup, under the same name and kind, with r's metadata
    (alive, name, dates) untouched — provided shardMerging is on or f is not a compound shard.
    (FULL statement without that proviso is refuted below: C32_assigned_kept_no_merging_refuted.) *)
Theorem C32_assigned_kept_partial : forall d repos now sm f e r,
  wf d -> In f (d_index d) -> In e (alive_entries f) -> e_id e = r ->
  In r repos -> consistent (group (get_shards (d_index d)) r) = true ->
  sm = true \/ f_compound f = false ->
  exists f', In f' (d_index (cleanup d repos now sm)) /\ f_base f' = f_base f /\
             f_compound f' = f_compound f /\ proj r f' = proj r f.
Proof. intros. eapply assigned_kept; eauto. Qed.
Print Assumptions C32_assigned_kept_partial.

(** the open finding: shardMerging = false, a compound shard holding assigned repository 1 and unassigned
    repository 2 is deleted outright *)
Theorem C32_assigned_kept_no_merging_refuted :
  exists d repos now f e r,
    wf d /\ In f (d_index d) /\ In e (alive_entries f) /\ e_id e = r /\ In r repos /\
    consistent (group (get_shards (d_index d)) r) = true /\
    d_index (cleanup d repos now false) = [].
Proof. exact assigned_kept_no_merging_refuted. Qed.
Print Assumptions C32_assigned_kept_no_merging_refuted.

(** what was wrong before the repair (shardMerging = true; unassigned repository 2 alive in a simple
    shard and in the compound shard that also serves assigned repository 1) *)
Theorem C32_assigned_kept_before_fix_refuted :
  exists d repos now f e r,
    wf d /\ In f (d_index d) /\ In e (alive_entries f) /\ e_id e = r /\ In r repos /\
    consistent (group (get_shards (d_index d)) r) = true /\
    d_index (cleanup_before_fix d repos now true) = [].
Proof. exact assigned_kept_before_fix_refuted. Qed.
Print Assumptions C32_assigned_kept_before_fix_refuted.

(** unassigned_not_searchable_after: for every well-formed directory, every assigned set and both settings
    of shardMerging, no repository outside the assigned set is alive in any index shard after cleanup
    (it was trashed, tombstoned, or deleted; nothing revived it). *)
Theorem C32_unassigned_not_searchable_after : forall d repos now sm id,
  wf d -> wf_trash d -> ~ In id repos ->
  forall g e, In g (d_index (cleanup d repos now sm)) -> In e (alive_entries g) -> e_id e <> id.
Proof. intros d repos now sm id H1 H2 H3. exact (unassigned_not_alive_after d repos now sm id H1 H2 H3). Qed.
Print Assumptions C32_unassigned_not_searchable_after.

(** assigned_untombstoned (shardMerging = true): an assigned repository that is not alive in the index, has no
    restorable trashed shards, and is tombstoned in a compound shard is alive again afterwards, in the
    compound shard getTombstonedRepos selects (latest commit date, later file on ties).
    (With shardMerging = false the shard may be deleted first: same open finding as above.) *)
Theorem C32_assigned_untombstoned : forall d repos now id,
  wf d -> In id repos -> ~ In id (ids_of (ix d)) -> ~ In id (trash_keys d now) -> In id (tomb_ids (d_index d)) ->
  exists b, tomb_pick (tomb_candidates (d_index d) id) = Some b /\ alive_at b id (cleanup d repos now true).
Proof. intros. eapply assigned_untombstoned; eauto. Qed.
Print Assumptions C32_assigned_untombstoned.

(** trash_deleted_only_if_old_or_conflict (contrapositive): a trashed shard of a repository that is not
    assigned (assigned ones are restored), none of whose trashed shards is older than 24 h
    ([trash_old]: mtime < now - 86400, strict) and that is not alive in the index ([trash_drop] = false
    is exactly "no conflict and not old") is still in the trash afterwards, with its content. *)
Theorem C32_trash_kept_unless_old_conflicting_or_assigned : forall d repos now sm t e id,
  wf d -> wf_trash d -> In t (d_trash d) -> In e (alive_entries t) -> e_id e = id ->
  trash_drop d now id = false -> ~ In id repos ->
  exists t', In t' (d_trash (cleanup d repos now sm)) /\ f_base t' = f_base t /\ f_repos t' = f_repos t.
Proof. intros. eapply trash_kept; eauto. Qed.
Print Assumptions C32_trash_kept_unless_old_conflicting_or_assigned.

Theorem C32_trash_24h_boundary_exact : forall now s,
  trash_old now [s] = (s_mtime s <? now - 86400).
Proof. exact trash_old_boundary. Qed.
Print Assumptions C32_trash_24h_boundary_exact.

Theorem C32_tmp_files_removed : forall d repos now sm, d_tmps (cleanup d repos now sm) = 0%nat.
Proof. exact tmp_removed. Qed.
Print Assumptions C32_tmp_files_removed.

(** ---- non-vacuity: a directory exercising every phase (trash old / fresh / conflicting, tombstones,
    a renamed repository, compound shards shared by assigned and unassigned repositories, tmp files) *)
Definition ex_big : dir :=
  mkD [ mkF 0 false (-3600) [mkE 1 1 false 1000];                                  (* repo 1, assigned *)
        mkF 1 false (-3600) [mkE 2 2 false 1000];                                  (* repo 2, unassigned *)
        mkF 2 false (-3600) [mkE 3 3 false 1000];                                  (* repo 3 under two names *)
        mkF 3 false (-3600) [mkE 3 33 false 1000];
        mkF 4 true (-3600) [mkE 1 1 true 1000; mkE 4 4 false 2000; mkE 5 5 false 1000; mkE 6 6 true 3000] ]
      [ mkF 5 false (-86401) [mkE 7 7 false 1000];                                 (* old *)
        mkF 6 false (-86400) [mkE 8 8 false 1000];                                 (* exactly 24h: kept, restored *)
        mkF 0 false (-60) [mkE 1 1 false 1000];                                    (* conflicts with the index *)
        mkF 7 false (-86400) [mkE 9 9 false 1000] ]                                (* unassigned, exactly 24h: kept *)
      2.
Definition ex_repos : list N := [1; 4; 6; 8]%N.

Example ex_big_wf : wf ex_big.
Proof.
  constructor.
  - simpl. repeat constructor; simpl; intuition discriminate.
  - simpl. intros f e e' Hf C. repeat (destruct Hf as [<-|Hf]; [try discriminate; simpl; intuition congruence|]). contradiction.
  - simpl. intros t f e Ht Hf Hb He.
    repeat (destruct Ht as [<-|Ht]; [repeat (destruct Hf as [<-|Hf]; [try discriminate|]); try contradiction|]); try contradiction.
    simpl in He. destruct He as [<-|[]]. vm_compute. left. reflexivity.
Qed.

Example ex_big_wf_trash : wf_trash ex_big.
Proof.
  constructor.
  - simpl. repeat constructor; simpl; intuition discriminate.
  - simpl. intros t e e' Ht. repeat (destruct Ht as [<-|Ht]; [simpl; intuition congruence|]). contradiction.
Qed.

(* the result: 1 kept (simple), 2 trashed, 3 purged, compound shard kept with 4 alive, 5 tombstoned, 6 revived;
   trash: 7 expired, 8 restored, conflicting copy of 1 deleted, 9 kept; tmp files gone *)
Example ex_big_result :
  let x := cleanup ex_big ex_repos 0 true in
  map f_base (d_index x) = [0; 4; 6]%N /\ map f_base (d_trash x) = [7; 1]%N /\ d_tmps x = 0%nat /\
  option_map (fun f => map (fun e => (e_id e, e_tomb e)) (f_repos f)) (find_file 4 (d_index x))
    = Some [(1, true); (4, false); (5, true); (6, false)]%N.
Proof. vm_compute. repeat split; reflexivity. Qed.

(* repository 6 satisfies the hypotheses of C32_assigned_untombstoned in ex_big *)
Example ex_big_revive_hyps :
  In 6%N ex_repos /\ ~ In 6%N (ids_of (ix ex_big)) /\ ~ In 6%N (trash_keys ex_big 0) /\ In 6%N (tomb_ids (d_index ex_big)).
Proof. vm_compute. repeat split; try (intros H; repeat (destruct H as [H|H]; [discriminate|]); exact H); auto 10. Qed.
