From ZV Require Import Lib.Base Model.Cleanup.
Theorem C32_placeholder : True. Proof. exact I. Qed.
Print Assumptions C32_placeholder.
