(** C28 — The RE2 size threshold never changes search results.

    PARTIAL BY NATURE: the property is a statement about two third-party regexp engines (github.com/grafana/regexp and
    the WebAssembly build of RE2 behind github.com/wasilibs/go-re2).  They are not modelled; they are Section
    parameters of Model/HybridRe.v and the theorems quantify over them.  What is proved is the exact reduction of the
    property to engine agreement:  results are threshold-independent  IFF  the two engines return the same result on
    the inputs concerned.  Engine agreement itself is CHECKED, not proved, by the correspondence run (searches under
    ZOEKT_RE2_THRESHOLD_BYTES in {-1,0,1,64,4096} on generated corpora x regexps must coincide). *)
From ZV Require Import Lib.Base Model.HybridRe.
Open Scope Z_scope.

Section C28.
  Variables R T O : Type.
  Variable len : T -> nat.
  Variable valid_utf8 : T -> Prop.
  Variables grafana re2 : R -> T -> O.
  Variable spec_find_all : R -> T -> O.   (* the common specification both engines are assumed to implement *)

  Hypothesis grafana_spec : forall r b, valid_utf8 b -> grafana r b = spec_find_all r b.
  Hypothesis re2_spec : forall r b, valid_utf8 b -> re2 r b = spec_find_all r b.

  (** Conditional on both engine hypotheses (trusted base): every threshold gives the specified result. *)
  Theorem C28_threshold_irrelevant_partial : forall thr r b, valid_utf8 b ->
    find_all R T O len grafana re2 thr r b = spec_find_all r b.
  Proof.
    intros thr r b Hv. unfold find_all. destruct (re2_compiled thr && use_re2 thr (len b)); auto.
  Qed.

  Corollary C28_any_two_settings_partial : forall env1 env2 r b, valid_utf8 b ->
    find_all R T O len grafana re2 (parse_threshold env1) r b = find_all R T O len grafana re2 (parse_threshold env2) r b.
  Proof. intros. rewrite !C28_threshold_irrelevant_partial by assumption. reflexivity. Qed.
End C28.
Print Assumptions C28_threshold_irrelevant_partial.
Print Assumptions C28_any_two_settings_partial.

(** Without any assumption on the engines: on a given regexp and input, ALL threshold settings give the same result
    if and only if the two engines agree there.  So a disagreement of the engines on one (regexp, valid input) pair is
    exactly a violation of the property, exhibited by the settings -1 (disabled) and 0 (always). *)
Theorem C28_reduction_exact : forall (R T O : Type) (len : T -> nat) (grafana re2 : R -> T -> O) r b,
  (forall thr1 thr2, find_all R T O len grafana re2 thr1 r b = find_all R T O len grafana re2 thr2 r b)
  <-> grafana r b = re2 r b.
Proof.
  intros R T O len grafana re2 r b. split.
  - intros H. specialize (H (-1) 0). unfold find_all in H.
    replace (re2_compiled (-1) && use_re2 (-1) (len b)) with false in H by reflexivity.
    replace (re2_compiled 0 && use_re2 0 (len b)) with true in H; [exact H|].
    unfold re2_compiled, use_re2. simpl. symmetry. apply Z.leb_le. lia.
  - intros E thr1 thr2. unfold find_all.
    destruct (re2_compiled thr1 && use_re2 thr1 (len b)), (re2_compiled thr2 && use_re2 thr2 (len b)); congruence.
Qed.
Print Assumptions C28_reduction_exact.

(** The dispatch is monotone in the input size: once RE2 is used for some length it is used for all longer inputs;
    disabled (negative / unset / unparsable) never uses it; 0 always does. *)
Theorem C28_dispatch_shape : forall thr n n',
  (thr < 0 -> use_re2 thr n = false) /\ use_re2 0 n = true /\
  (use_re2 thr n = true -> (n <= n')%nat -> use_re2 thr n' = true) /\
  (use_re2 thr n = true -> re2_compiled thr = true).
Proof.
  intros thr n n'. unfold use_re2, re2_compiled. split; [|split; [|split]].
  - intros H. apply Z.leb_gt in H. rewrite H. reflexivity.
  - simpl. apply Z.leb_le. lia.
  - intros H Hle. apply andb_true_iff in H. destruct H as [A B]. rewrite A. simpl.
    apply Z.leb_le. apply Z.leb_le in B. lia.
  - intros H. apply andb_true_iff in H. apply H.
Qed.
Print Assumptions C28_dispatch_shape.

(** Non-vacuity: two concrete "engines" that differ on one input make the settings -1 and 0 differ, and a 64-byte
    threshold switches engines exactly at 64 bytes. *)
Example C28_nonvacuous :
  let g := fun (_ : unit) (b : list N) => 0%N in
  let e := fun (_ : unit) (b : list N) => 1%N in
  find_all unit (list N) N (@length N) g e (-1) tt [1%N] <> find_all unit (list N) N (@length N) g e 0 tt [1%N] /\
  use_re2 64 63 = false /\ use_re2 64 64 = true /\ parse_threshold None = -1 /\ re2_compiled (parse_threshold None) = false.
Proof. vm_compute. repeat split; discriminate. Qed.
