(** C28 — The RE2 size threshold never changes search results.

    PARTIAL BY NATURE: the property is a statement about two third-party regexp engines (github.com/grafana/regexp and
    the WebAssembly build of RE2 behind github.com/wasilibs/go-re2).  They are not modelled; they are Section
    parameters of Model/HybridRe.v and the theorems quantify over them.  What is proved is the exact reduction of the
    property to engine agreement ON THE SAME BYTES:  results are threshold-independent  IFF  the two engines return the
    same result on the input concerned.  The dispatch the theorems speak about, [find_all_src], is an interpreter of the
    dispatch READ FROM THE GO SOURCE on every run (translator/hybridre2 -> Generated/HybridRe2.v): the conditions of
    Compile / useRE2 and the body of Regexp.FindAllIndex path by path, each leaf recording which engine is called and
    whether it receives the method's own untouched parameters.  Whatever a branch might do to its input before the
    engine sees it is an arbitrary function [xf] (limit: [xl]), uninterpreted conditions are an arbitrary [opq]; the
    theorems hold for ALL of them only because the generated tree passes the checker [tree_ok] (a vm_compute obligation):
    a branch that pre-processes its input (a slice, a reassigned variable) breaks the obligation and with it every
    theorem below.  Engine agreement itself is CHECKED, not proved, by the correspondence run (searches under
    ZOEKT_RE2_THRESHOLD_BYTES in {-1, 0, 1, 64, 4096, largest document + 1, 2^30} on generated corpora x regexps must coincide). *)
From Coq Require Import String List ZArith Bool.
From ZV Require Import Lib.Base Model.HybridReSyntax Generated.HybridRe2 Model.HybridRe Proofs.HybridRe.
Import ListNotations.
Open Scope Z_scope.

(** The dispatch written in the source is the specified one: the engine is chosen by (compiled, size >= threshold) alone
    and BOTH branches hand the engine the same bytes b and the same limit n — no pre-processing on either branch. *)
Theorem C28_source_dispatch_exact : forall (R T L O : Type) (len : T -> nat) (grafana re2 : R -> T -> L -> O)
    (xf : T -> T) (xl : L -> L) (opq : nat -> T -> bool) thr r b n,
  find_all_src R T L O len grafana re2 xf xl opq thr r b n
  = Some (if re2_compiled thr && use_re2 thr (len b) then re2 r b n else grafana r b n).
Proof. exact find_all_src_eq. Qed.
Print Assumptions C28_source_dispatch_exact.

(** Without any assumption on the engines: on a given regexp, input and limit, ALL threshold settings give the same result
    if and only if the two engines agree THERE (same bytes, same limit).  So a disagreement of the engines on one
    (regexp, valid input) pair is exactly a violation of the property, exhibited by the settings -1 (disabled) and 0 (always). *)
Theorem C28_reduction_exact : forall (R T L O : Type) (len : T -> nat) (grafana re2 : R -> T -> L -> O)
    (xf : T -> T) (xl : L -> L) (opq : nat -> T -> bool) r b n,
  (forall thr1 thr2, find_all_src R T L O len grafana re2 xf xl opq thr1 r b n
                     = find_all_src R T L O len grafana re2 xf xl opq thr2 r b n)
  <-> grafana r b n = re2 r b n.
Proof. exact find_all_src_reduction. Qed.
Print Assumptions C28_reduction_exact.

(** A setting above the input's size (RE2 compiled but not selected) gives what the disabled setting gives: the grafana
    engine's result on the unmodified input. *)
Theorem C28_above_size_is_disabled : forall (R T L O : Type) (len : T -> nat) (grafana re2 : R -> T -> L -> O)
    (xf : T -> T) (xl : L -> L) (opq : nat -> T -> bool) thr r b n, Z.of_nat (len b) < thr ->
  find_all_src R T L O len grafana re2 xf xl opq thr r b n = find_all_src R T L O len grafana re2 xf xl opq (-1) r b n
  /\ re2_compiled thr = true /\ re2_compiled (-1) = false.
Proof.
  intros R T L O len grafana re2 xf xl opq thr r b n H.
  destruct (find_all_src_above_size R T L O len grafana re2 xf xl opq thr r b n H) as [E C].
  rewrite E, find_all_src_eq. auto.
Qed.
Print Assumptions C28_above_size_is_disabled.

Section C28.
  Variables R T L O : Type.
  Variable len : T -> nat.
  Variable valid_utf8 : T -> Prop.
  Variables grafana re2 : R -> T -> L -> O.
  Variable spec_find_all : R -> T -> L -> O.   (* the common specification both engines are assumed to implement *)

  Hypothesis grafana_spec : forall r b n, valid_utf8 b -> grafana r b n = spec_find_all r b n.
  Hypothesis re2_spec : forall r b n, valid_utf8 b -> re2 r b n = spec_find_all r b n.

  (** Conditional on both engine hypotheses (trusted base): every threshold gives the specified result. *)
  Theorem C28_threshold_irrelevant_partial : forall xf xl opq thr r b n, valid_utf8 b ->
    find_all_src R T L O len grafana re2 xf xl opq thr r b n = Some (spec_find_all r b n).
  Proof. exact (threshold_irrelevant R T L O len valid_utf8 grafana re2 spec_find_all grafana_spec re2_spec). Qed.

  Corollary C28_any_two_settings_partial : forall xf xl opq env1 env2 r b n, valid_utf8 b ->
    find_all_src R T L O len grafana re2 xf xl opq (parse_threshold_src env1) r b n
    = find_all_src R T L O len grafana re2 xf xl opq (parse_threshold_src env2) r b n.
  Proof. intros. rewrite !C28_threshold_irrelevant_partial by assumption. reflexivity. Qed.
End C28.
Print Assumptions C28_threshold_irrelevant_partial.
Print Assumptions C28_any_two_settings_partial.

(** The conditions read from the source (constant `disabled`, the guard of Compile's go-re2 branch, the body of useRE2)
    are the specified ones: unset/unparsable = -1, compiled iff 0 <= threshold, used iff 0 <= threshold <= len. *)
Theorem C28_source_conditions : forall env thr n,
  parse_threshold_src env = parse_threshold env /\
  re2_compiled_src thr = (0 <=? thr) /\
  use_re2_src thr (Z.of_nat n) = ((0 <=? thr) && (thr <=? Z.of_nat n)).
Proof.
  intros env thr n. split; [apply parse_threshold_src_eq|split; [apply re2_compiled_src_eq|apply use_re2_src_eq]].
Qed.
Print Assumptions C28_source_conditions.

(** threshold() as written in the source reads ZOEKT_RE2_THRESHOLD_BYTES and returns -1 when it is unset, -1 when
    strconv.ParseInt(_, 10, 64) rejects its text, the number otherwise — on every path and whatever uninterpreted conditions do
    (never the first result of a failed ParseInt). *)
Theorem C28_source_threshold : forall (opq : nat -> bool) e,
  threshold_src opq e = Some (match e with EnvInt n => n | _ => -1 end) /\
  threshold_env_name = "ZOEKT_RE2_THRESHOLD_BYTES"%string.
Proof.
  intros opq e. split; [|exact threshold_env_name_eq]. rewrite threshold_src_eq. destruct e; reflexivity.
Qed.
Print Assumptions C28_source_threshold.

(** The dispatch is monotone in the input size: once RE2 is used for some length it is used for all longer inputs;
    disabled (negative / unset / unparsable) never uses it; 0 always does. *)
Theorem C28_dispatch_shape : forall thr n n',
  (thr < 0 -> use_re2 thr n = false) /\ use_re2 0 n = true /\
  (use_re2 thr n = true -> (n <= n')%nat -> use_re2 thr n' = true) /\
  (use_re2 thr n = true -> re2_compiled thr = true).
Proof. exact dispatch_shape. Qed.
Print Assumptions C28_dispatch_shape.

(** The model's two engine parameters stand for these library functions (read from the imports / call sites). *)
Theorem C28_engines_pinned :
  engine_compile_callees = expected_compile_callees /\ engine_packages = expected_engine_packages.
Proof. exact engines_pinned. Qed.
Print Assumptions C28_engines_pinned.

(** Non-vacuity: two concrete "engines" that differ on one input make the settings -1 and 0 differ, a 64-byte threshold
    switches engines exactly at 64 bytes, and the checker is not trivially true: the tree of a FindAllIndex that cuts the
    input on the grafana branch when RE2 is compiled but not selected is rejected, as are a wrong engine and a capped limit. *)
Example C28_nonvacuous :
  let g := fun (_ : unit) (b : list N) (_ : Z) => 0%N in
  let e := fun (_ : unit) (b : list N) (_ : Z) => 1%N in
  let fa := find_all_src unit (list N) Z N (@length N) g e (fun b => b) (fun n => n) (fun _ _ => true) in
  fa (-1) tt [1%N] (-1) = Some 0%N /\ fa 0 tt [1%N] (-1) = Some 1%N /\ fa 2 tt [1%N] (-1) = Some 0%N /\
  use_re2 64 63 = false /\ use_re2 64 64 = true /\ parse_threshold_src None = -1 /\ re2_compiled (parse_threshold None) = false /\
  tree_ok (DIf (CAnd CCompiled CUsed) (DRet RE2 ArgParam ArgParam) (DRet Grafana ArgParam ArgParam)) = true /\
  tree_ok (DIf CCompiled (DIf CUsed (DRet RE2 ArgParam ArgParam)
                                    (DIf (COpaque 0) (DRet Grafana ArgDerived ArgParam) (DRet Grafana ArgParam ArgParam)))
                         (DRet Grafana ArgParam ArgParam)) = false /\
  tree_ok (DIf CUsed (DRet RE2 ArgParam ArgParam) (DRet Grafana ArgParam ArgParam)) = true /\
  tree_ok (DIf CCompiled (DRet RE2 ArgParam ArgParam) (DRet Grafana ArgParam ArgParam)) = false /\
  tree_ok (DIf (CAnd CCompiled CUsed) (DRet RE2 ArgParam ArgDerived) (DRet Grafana ArgParam ArgParam)) = false /\
  tree_ok (DIf (COpaque 0) (DRet RE2 ArgParam ArgParam) (DRet Grafana ArgParam ArgParam)) = false /\
  ttree_ok (TIf TSet (TIf TParsedOk (TRet VParsed) (TRet (VConst (-1)))) (TRet (VConst (-1)))) = true /\
  ttree_ok (TIf TSet (TRet VParsed) (TRet (VConst (-1)))) = false /\
  ttree_ok (TIf TSet (TIf TParsedOk (TRet VParsed) (TRet (VConst 0))) (TRet (VConst (-1)))) = false /\
  threshold_src (fun _ => true) (EnvInt 64) = Some 64 /\ threshold_src (fun _ => true) EnvBad = Some (-1).
Proof. vm_compute. repeat split; reflexivity. Qed.
