From ZV Require Import Lib.Base Lib.GoSearch Model.Lines.
(* first version: pipeline bring-up; the theorems follow *)
Theorem C03_go_search_is_least_index : forall n f,
  (forall a b, a <= b -> f a = true -> f b = true) -> go_search n f = first_true n f.
Proof. exact go_search_first_true. Qed.
Print Assumptions C03_go_search_is_least_index.
