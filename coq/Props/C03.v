(** C03 — match locations and context agree with the file content.
    Model: coq/Model/Lines.v (contentprovider.go line / chunk / column arithmetic, breakMatchesOnNewlines).
    Vocabulary (Proofs/LinesBasic.v): [lines c] = the lines of c, each with its terminating newline, the
    text after the last newline being the last (possibly empty) line; [count_nl]; [after_nl c k] = length
    of the first k lines; [lines_between c a b] = concatenation of lines a..b-1 (1-based, clamped). *)
From ZV Require Import Lib.Base Lib.GoSearch Lib.RuneCount Model.Lines
  Proofs.LinesBasic Proofs.RuneCountProofs Proofs.RuneWidthUtf8 Proofs.LinesMatch Proofs.LinesMultiline Proofs.LinesChunk Proofs.LinesChunkSort.
From ZV Require Lib.Utf8.
From Coq Require Import Sorting.Sorted Sorting.Permutation.

(** sort.Search as used by atOffset (and runeOffsetMap.lookup): least index of a monotone predicate *)
Theorem C03_go_search_is_least_index : forall n f,
  (forall a b, a <= b -> f a = true -> f b = true) -> go_search n f = first_true n f.
Proof. exact go_search_first_true. Qed.
Print Assumptions C03_go_search_is_least_index.

(** atOffset_spec: line number = 1 + number of newlines strictly before the offset, for every content
    and every offset (also past the end): an offset ON a newline belongs to the line that newline ends *)
Theorem C03_atOffset_spec : forall c off,
  at_offset (newlines_of c) off = (Z.of_nat (count_nl (firstn off c)) + 1)%Z.
Proof. exact at_offset_spec. Qed.
Print Assumptions C03_atOffset_spec.

Theorem C03_atOffset_in_line : forall c off, off < length c ->
  let n := at_offset (newlines_of c) off in
  line_start (newlines_of c) n <= off < line_start (newlines_of c) (n + 1).
Proof. exact at_offset_in_line. Qed.
Print Assumptions C03_atOffset_in_line.

(** lineStart for every (also non-positive / too large) line number: total length of the preceding lines,
    hence clamped to [0, |c|] and monotone *)
Theorem C03_lineStart_spec : forall c ln,
  line_start (newlines_of c) ln = length (concat (firstn (Z.to_nat (ln - 1)) (lines c))) /\
  line_start (newlines_of c) ln <= length c.
Proof. intros c ln. split; [rewrite line_start_spec; apply after_nl_lines|apply line_start_clamped]. Qed.
Print Assumptions C03_lineStart_spec.

(** getLines never panics and returns exactly the whole lines [low, high) that exist *)
Theorem C03_getLines_whole_lines : forall c low high,
  get_lines (newlines_of c) c low high =
  Ok (concat (slice (lines c) (Z.to_nat (low - 1)) (Z.to_nat (high - 1)))).
Proof. exact get_lines_spec. Qed.
Print Assumptions C03_getLines_whole_lines.

(** line mode (fillMatches on content candidates that are in bounds, sorted and non-overlapping — what
    gatherMatches delivers, C02): the call succeeds; each LineMatch is a line of the file: Line is exactly
    line LineNumber = content[LineStart:LineEnd), LineStart = bytes before it, Before/After are exactly the
    ctx neighbouring lines (fewer only at the file boundaries), fragments lie inside the line with
    LineOffset = Offset - LineStart and belong to that line; every line is reported at most once (line numbers
    strictly increase); every fragment is a non-empty newline-free part of a content candidate *)
Theorem C03_line_match_fields : forall c ctx name ms, (0 <= ctx)%Z ->
  filter is_content ms <> [] ->
  Forall (fun m => c_end m <= length c) (filter is_content ms) -> disjoint_sorted (filter is_content ms) ->
  exists res, fill_matches (newlines_of c) c name ctx ms = Ok res /\
    Forall (lm_ok c ctx) res /\
    StronglySorted (fun a b => (lm_num a < lm_num b)%Z) res /\
    Forall (fun lm => Forall (fun f => exists m, In m ms /\ c_fn m = false /\ 0 < f_len f /\
                                        c_off m <= f_off f /\ f_off f + f_len f <= c_end m) (lm_frags lm)) res.
Proof. exact fill_matches_content. Qed.
Print Assumptions C03_line_match_fields.

(** fillContentMatches itself (no newline splitting): fragments are exactly the candidates, in order *)
Theorem C03_line_fragments_are_candidates : forall c ctx, (0 <= ctx)%Z -> forall ms,
  Forall (piece_ok c) ms -> off_sorted ms ->
  exists res, fill_content_matches (newlines_of c) c ctx ms = Ok res /\
    Forall (lm_ok c ctx) res /\
    flat_map (fun lm => map frag_cand (lm_frags lm)) res = map cand_key ms.
Proof.
  intros c ctx Hctx ms H1 H2. unfold fill_content_matches.
  destruct (fill_lines_correct c ctx Hctx (length ms) ms (le_n _) H1 H2) as [res [E [A [_ [_ B]]]]].
  exists res. auto.
Qed.
Print Assumptions C03_line_fragments_are_candidates.

(** a file-name match reports the file name as its text *)
Theorem C03_filename_match_text : forall c ctx name ms, filter is_content ms = [] ->
  exists lm, fill_matches (newlines_of c) c name ctx ms = Ok [lm] /\ lm_line lm = name /\ lm_fn lm = true /\
             map frag_cand (lm_frags lm) = map cand_key ms.
Proof.
  intros c ctx name ms H. rewrite (fill_matches_filename c ctx name ms H). eexists. split; [reflexivity|].
  simpl. repeat split; auto. rewrite map_map. reflexivity.
Qed.
Print Assumptions C03_filename_match_text.

(** the multi-line extension loop of fillContentMatches
      for nextLineStart < len(data) && endMatch > nextLineStart { next := bytes.IndexByte(data[nextLineStart:], '\n'); ... }
    in closed form, for every content, every line number and every in-bounds end offset: nothing happens when the
    last candidate of the line ends inside the line; otherwise LineEnd moves to the start of the line after the one
    that holds the candidate's last byte (so Line consists of whole lines and contains the whole candidate).
    Fuel S |c| of the model's loop is proved sufficient. *)
Theorem C03_extend_line_spec : forall c num endm, (1 <= num)%Z -> endm <= length c ->
  extend_line (S (length c)) c (line_start (newlines_of c) (num + 1)) endm =
  if endm <=? line_start (newlines_of c) (num + 1) then line_start (newlines_of c) (num + 1)
  else line_start (newlines_of c) (at_offset (newlines_of c) (endm - 1) + 1).
Proof. exact extend_line_spec. Qed.
Print Assumptions C03_extend_line_spec.

(** fillContentMatches on candidates that MAY SPAN LINES (non-empty, in bounds, sorted, non-overlapping; the path that
    is dead after breakMatchesOnNewlines but is what the function does on its own): it succeeds (neither the
    "infinite loop" log.Panicf nor a slice panic); each LineMatch satisfies [lm_ok_ml]: LineNumber/LineStart = the line
    of its first fragment, Line = the WHOLE lines LineNumber..nl = content[LineStart:LineEnd) where nl is the line of
    the last byte of its last fragment, every fragment starts in line LineNumber and ends inside Line, Before/After
    are counted from LineNumber (so After repeats lines 2.. of an extended Line — the behaviour of the code, stated
    as it is); line numbers strictly increase; the fragments are exactly the candidates in order. *)
Theorem C03_line_match_multiline : forall c ctx, (0 <= ctx)%Z -> forall ms,
  Forall (cand_ok c) ms -> disjoint_sorted ms ->
  exists res, fill_content_matches (newlines_of c) c ctx ms = Ok res /\
    Forall (lm_ok_ml c ctx) res /\
    StronglySorted (fun a b => (lm_num a < lm_num b)%Z) res /\
    flat_map (fun lm => map frag_cand (lm_frags lm)) res = map cand_key ms.
Proof. exact fill_content_matches_multiline. Qed.
Print Assumptions C03_line_match_multiline.

(** chunk mode: for content candidates sorted as by gatherMatches, in bounds and on rune boundaries,
    fillContentChunkMatches succeeds and returns exactly [chunk_spec] of every chunk: Content = the whole lines
    max(first-ctx,1) .. last+ctx, ContentStart = (bytes before them, that line, column 1), each range with the
    line of its first byte / of its last byte and columns = rune count from that line's start + 1.  The chunks
    partition the candidates in order, satisfy [chunk_inv], and consecutive chunks are separated by more than
    2*ctx lines (the merge rule) *)
Theorem C03_chunk_matches : forall c ctx, (0 <= ctx)%Z -> forall ms,
  Forall (fun m => c_fn m = false) ms -> is_sorted_by cand_less ms = true ->
  Forall (chunk_cand_ok c) ms ->
  let cs := chunk_candidates (newlines_of c) ctx ms in
  fill_content_chunk_matches (newlines_of c) c ctx ms = Ok (map (chunk_spec c ctx) cs) /\
  Forall (chunk_inv c) cs /\ separated_fwd ctx cs /\ flat_map ch_cands cs = ms.
Proof. intros c ctx _. exact (fill_content_chunk_matches_spec c ctx). Qed.
Print Assumptions C03_chunk_matches.

(** ... and for content candidates in ANY order (the `sort.IsSorted` / `sort.Sort(sortByOffsetSlice)` guard of
    fillContentChunkMatches): the result is that of the sorted permutation ms' (= ms itself when already sorted) *)
Theorem C03_chunk_matches_any_order : forall c ctx ms,
  Forall (fun m => c_fn m = false) ms -> Forall (chunk_cand_ok c) ms ->
  let ms' := if is_sorted_by cand_less ms then ms else sort_cands ms in
  let cs := chunk_candidates (newlines_of c) ctx ms' in
  Permutation ms' ms /\ is_sorted_by cand_less ms' = true /\
  fill_content_chunk_matches (newlines_of c) c ctx ms = Ok (map (chunk_spec c ctx) cs) /\
  Forall (chunk_inv c) cs /\ separated_fwd ctx cs /\ flat_map ch_cands cs = ms'.
Proof. exact fill_content_chunk_matches_any_order. Qed.
Print Assumptions C03_chunk_matches_any_order.

(** every range of a chunk lies inside the chunk's content (byte-wise) *)
Theorem C03_chunk_contains_ranges : forall c ctx, (0 <= ctx)%Z -> forall ch, chunk_inv c ch ->
  Forall (fun x => l_off (cm_start (chunk_spec c ctx ch)) <= c_off x /\ c_end x <= cm_end (chunk_spec c ctx ch))
         (ch_cands ch).
Proof. exact chunk_contains_ranges. Qed.
Print Assumptions C03_chunk_contains_ranges.

(** the contents of consecutive chunks are ordered and never overlap *)
Theorem C03_chunks_ordered_disjoint : forall c ctx, (0 <= ctx)%Z -> forall c1 c2, chunk_inv c c1 ->
  (ch_last c1 + ctx < ch_first c2 - ctx)%Z ->
  cm_end (chunk_spec c ctx c1) <= l_off (cm_start (chunk_spec c ctx c2)).
Proof. exact chunks_ordered_disjoint. Qed.
Print Assumptions C03_chunks_ordered_disjoint.

(** the columns count runes as Go does: the model's utf8.RuneCount (width table of Lib/RuneCount.v, skip-counter recursion)
    equals the number of steps of Go's decoding loop as modelled in Lib/Utf8.v (DecodeRune with first/acceptRanges,
    tied to unicode/utf8 by the C37 correspondence), for every byte string, valid UTF-8 or not *)
Theorem C03_rune_count_is_go_decoder : forall l, rune_count l = Utf8.rune_count l.
Proof. exact rune_count_utf8. Qed.
Print Assumptions C03_rune_count_is_go_decoder.

(** columnHelper: for EVERY sequence of calls (increasing or not) whose offsets are rune boundaries of
    their lines, each answer is the fresh rune count from the line start + 1 *)
Theorem C03_column_cache_correct : forall data calls,
  Forall (col_call_ok data) calls ->
  col_seq data col_init calls = Ok (map (fun c => S (rune_count (slice data (fst c) (snd c)))) calls).
Proof. intros. apply col_seq_correct; auto. apply col_good_init. Qed.
Print Assumptions C03_column_cache_correct.

(** ... and the boundary hypothesis is necessary: after a mid-rune offset the cache miscounts
    (not reachable from Search: match offsets are rune boundaries) *)
Theorem C03_column_cache_any_offset_refuted : exists data calls,
  Forall (fun c => fst c <= snd c /\ snd c <= length data) calls /\
  col_seq data col_init calls <> Ok (map (fun c => S (rune_count (slice data (fst c) (snd c)))) calls).
Proof.
  exists [195; 169]%N, [(0, 1); (0, 2)]. split.
  - repeat constructor.
  - vm_compute. discriminate.
Qed.
Print Assumptions C03_column_cache_any_offset_refuted.

(** ---- non-vacuity: concrete inputs satisfying the hypotheses *)
Lemma boundary_step' : forall b0 r k k', k' = rune_width b0 r + k ->
  boundary (skipn (rune_width b0 r - 1) r) k -> boundary (b0 :: r) k'.
Proof. intros; subst; now constructor. Qed.
Ltac solve_bnd :=
  simpl; first [ apply bd_zero
               | apply (boundary_step' _ _ 0); [reflexivity|solve_bnd]
               | apply (boundary_step' _ _ 1); [reflexivity|solve_bnd]
               | apply (boundary_step' _ _ 2); [reflexivity|solve_bnd]
               | apply (boundary_step' _ _ 3); [reflexivity|solve_bnd] ].
Definition ex_c : list N := [97; 98; 10; 195; 169; 120; 10; 10; 121; 122]%N.   (* "ab\néx\n\nyz" *)
Definition ex_ms : list cand :=
  [ {| c_fn := false; c_off := 1; c_sz := 4 |};      (* "b\né" spans lines 1-2 *)
    {| c_fn := false; c_off := 5; c_sz := 1 |};      (* "x" *)
    {| c_fn := false; c_off := 8; c_sz := 2 |} ].    (* "yz" on the last, unterminated line *)

Example ex_lines : lines ex_c = [[97; 98; 10]; [195; 169; 120; 10]; [10]; [121; 122]]%N.
Proof. reflexivity. Qed.
Example ex_hyp_line : filter is_content ex_ms <> [] /\
  Forall (fun m => c_end m <= length ex_c) (filter is_content ex_ms) /\ disjoint_sorted (filter is_content ex_ms).
Proof. split; [discriminate|]. split; repeat constructor. Qed.
Example ex_line_result :
  option_map (map lm_out) (match fill_matches (newlines_of ex_c) ex_c [102]%N 1%Z ex_ms with Ok r => Some r | _ => None end) =
  Some [ ([97; 98; 10], 0, 3, 1%Z, [], [195; 169; 120; 10], false, [(1%Z, 1, 1)]);
         ([195; 169; 120; 10], 3, 7, 2%Z, [97; 98; 10], [10], false, [(0%Z, 3, 2); (2%Z, 5, 1)]);
         ([121; 122], 8, 10, 4%Z, [10], [], false, [(0%Z, 8, 2)]) ]%N.
Proof. vm_compute. reflexivity. Qed.
(* the multi-line path: ex_ms handed to fillContentMatches WITHOUT newline splitting.  "b\né" starts in line 1 and ends
   in line 2: Line = lines 1-2 (LineEnd 7), After (ctx 1) = line 2 again; "x" starts at 5 >= the original next line
   start 3, so it opens a LineMatch of its own for line 2 *)
Example ex_hyp_multiline : Forall (cand_ok ex_c) ex_ms /\ disjoint_sorted ex_ms.
Proof. split; repeat constructor. Qed.
Example ex_multiline_result :
  option_map (map lm_out) (match fill_content_matches (newlines_of ex_c) ex_c 1%Z ex_ms with Ok r => Some r | _ => None end) =
  Some [ ([97; 98; 10; 195; 169; 120; 10], 0, 7, 1%Z, [], [195; 169; 120; 10], false, [(1%Z, 1, 4)]);
         ([195; 169; 120; 10], 3, 7, 2%Z, [97; 98; 10], [10], false, [(2%Z, 5, 1)]);
         ([121; 122], 8, 10, 4%Z, [10], [], false, [(0%Z, 8, 2)]) ]%N.
Proof. vm_compute. reflexivity. Qed.
Example ex_extend : extend_line (S (length ex_c)) ex_c 3 5 = 7 /\ extend_line (S (length ex_c)) ex_c 3 8 = 8 /\
  extend_line (S (length ex_c)) ex_c 3 3 = 3 /\ extend_line (S (length ex_c)) ex_c 8 10 = 10.
Proof. vm_compute. repeat split; reflexivity. Qed.
Example ex_hyp_chunk : Forall (fun m => c_fn m = false) ex_ms /\ is_sorted_by cand_less ex_ms = true /\
  Forall (chunk_cand_ok ex_c) ex_ms.
Proof.
  split; [repeat constructor|]. split; [reflexivity|].
  repeat constructor; simpl; try lia; solve_bnd.
Qed.
Example ex_chunk_result :
  option_map (map cm_out) (match fill_content_chunk_matches (newlines_of ex_c) ex_c 0%Z ex_ms with Ok r => Some r | _ => None end) =
  Some [ ([97; 98; 10; 195; 169; 120; 10], (0, 1%Z, 1), [((1, 1%Z, 2), (5, 2%Z, 2)); ((5, 2%Z, 2), (6, 2%Z, 3))], false);
         ([121; 122], (8, 4%Z, 1), [((8, 4%Z, 1), (10, 4%Z, 3))], false) ]%N.
Proof. vm_compute. reflexivity. Qed.
Example ex_unsorted : is_sorted_by cand_less (rev ex_ms) = false /\ sort_cands (rev ex_ms) = ex_ms /\
  Forall (fun m => c_fn m = false) (rev ex_ms).
Proof. split; [reflexivity|]. split; [reflexivity|repeat constructor]. Qed.
Example ex_rune_count : rune_count ex_c = 9 /\ Utf8.rune_count ex_c = 9 /\ rune_count [195; 40; 240; 159; 152]%N = 5.
Proof. vm_compute. repeat split; reflexivity. Qed.
Example ex_col_calls : Forall (col_call_ok ex_c) [(3, 5); (3, 6); (0, 1)].
Proof.
  repeat constructor; simpl; try lia; solve_bnd.
Qed.
