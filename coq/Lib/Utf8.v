(** * Lib/Utf8 — Go's unicode/utf8 over byte lists (bytes are [N]; any [list N] is a legal input).

    Executable model of
      - [utf8.DecodeRune]           ([decode_rune] : rune and width; (RuneError,1) for every invalid, overlong,
                                     surrogate, out-of-range or truncated encoding, (RuneError,0) for the empty input),
      - the loop "decode one rune, advance by its width" that every consumer in zoekt runs
                                    ([decode_all], [rune_starts], [rune_boundaries], [rune_count] = utf8.RuneCount),
      - [utf8.Valid]                ([valid_utf8]),
      - [utf8.AppendRune]/EncodeRune ([encode_rune], [encode_all] = []byte(string([]rune))).
    The lead-byte table is Go's [first]/[acceptRanges] (RFC 3629 strict: C0/C1/F5..FF invalid; second byte of
    E0 in A0..BF, of ED in 80..9F (no surrogates), of F0 in 90..BF, of F4 in 80..8F (<= U+10FFFF)).
    Tied to Go by the C37 correspondence run (harness/overlay/index/zz_verif_c37_test.go, TestVerifC37Utf8:
    all 1- and 2-byte strings exhaustively (thorough tier: all 3-byte strings too), structured 3/4-byte rows
    exhaustive in the last byte, random and mutated longer strings; compared: the (rune,width) sequence, Valid, RuneCount, re-encoding).

    Theorems (all closed under the global context):
      - [decode_step_app]   decoding a complete encoding does not depend on what follows;
      - [decode_step_shape] a decoded encoding has 1..4 bytes, starts with a non-continuation byte and continues
                            with continuation bytes 80..BF only;
      - [RB_noncont]        every position holding a non-continuation byte is a rune boundary of the decoding of
                            ANY byte string (valid or not);
      - [RB_valid_prefix]   decoding proceeds in lock-step through a valid prefix;
      - [utf8_self_sync]    SELF-SYNCHRONISATION: a non-empty valid string occurring at byte offset o of any byte
                            string starts and ends on rune boundaries of Go's decoding of that string;
      - [rune_starts_spec]  the executable [rune_starts] lists exactly the boundaries < length;
      - [decode_encode]     decode_rune (encode_rune r ++ q) = (r', |encode_rune r|), r' = r for scalar values and
                            RuneError otherwise;
      - [valid_encode_all]  encode_all yields valid UTF-8 ([valid_utf8_app]: concatenation preserves validity). *)
From ZV Require Import Lib.Base.
From Coq Require Import ZifyBool ZifyNat ZifyN.
Local Open Scope N_scope.

Definition RuneError : N := 65533.      (* U+FFFD *)
Definition MaxRune : N := 1114111.      (* U+10FFFF *)
Definition RuneSelf : N := 128.

Definition in_rng (lo hi x : N) : bool := (lo <=? x) && (x <=? hi).
(** continuation byte 10xxxxxx *)
Definition is_cont (x : N) : bool := in_rng 128 191 x.

(** Lead-byte classes = Go's [first] table joined with [acceptRanges]:
    the class gives the encoded length and the accepted range of the SECOND byte. *)
Inductive lead := LAscii | LInvalid | L2 | L3 (lo hi : N) | L4 (lo hi : N).

Definition lead_class (b : N) : lead :=
  if b <? 128 then LAscii                      (* 00..7F  as *)
  else if b <? 194 then LInvalid               (* 80..BF stray continuation, C0/C1 overlong  xx *)
  else if b <? 224 then L2                     (* C2..DF  s1 *)
  else if b =? 224 then L3 160 191             (* E0      s2: excludes overlong 3-byte forms *)
  else if b =? 237 then L3 128 159             (* ED      s4: excludes surrogates D800..DFFF *)
  else if b <? 240 then L3 128 191             (* E1..EC, EE, EF  s3 *)
  else if b =? 240 then L4 144 191             (* F0      s5: excludes overlong 4-byte forms *)
  else if b <? 244 then L4 128 191             (* F1..F3  s6 *)
  else if b =? 244 then L4 128 143             (* F4      s7: <= U+10FFFF *)
  else LInvalid.                               (* F5..FF (and anything that is not a byte)  xx *)

(** [decode_step p] = Some (rune, width) iff [p] starts with a complete valid encoding.
    (x mod 2^k is Go's x & mask; the products/sums are the shifts/ors.) *)
Definition decode_step (p : list N) : option (N * nat) :=
  match p with
  | [] => None
  | b0 :: t =>
      match lead_class b0 with
      | LAscii => Some (b0, 1%nat)
      | LInvalid => None
      | L2 =>
          match t with
          | b1 :: _ => if is_cont b1 then Some ((b0 mod 32) * 64 + b1 mod 64, 2%nat) else None
          | _ => None
          end
      | L3 lo hi =>
          match t with
          | b1 :: b2 :: _ =>
              if in_rng lo hi b1 && is_cont b2
              then Some ((b0 mod 16) * 4096 + (b1 mod 64) * 64 + b2 mod 64, 3%nat) else None
          | _ => None
          end
      | L4 lo hi =>
          match t with
          | b1 :: b2 :: b3 :: _ =>
              if in_rng lo hi b1 && is_cont b2 && is_cont b3
              then Some ((b0 mod 8) * 262144 + (b1 mod 64) * 4096 + (b2 mod 64) * 64 + b3 mod 64, 4%nat) else None
          | _ => None
          end
      end
  end.

(** utf8.DecodeRune *)
Definition decode_rune (p : list N) : N * nat :=
  match p with
  | [] => (RuneError, 0%nat)
  | _ => match decode_step p with Some rw => rw | None => (RuneError, 1%nat) end
  end.

(** number of bytes the decoding loop consumes at the head of [p] *)
Definition width (p : list N) : nat := snd (decode_rune p).

(** the loop  for len(p) > 0 { r, sz := utf8.DecodeRune(p); p = p[sz:] }  : the (rune, width) sequence.
    Fuel = |p| suffices because every step consumes >= 1 byte. *)
Fixpoint decode_all_fuel (fuel : nat) (p : list N) : list (N * nat) :=
  match fuel, p with
  | S f, _ :: _ => decode_rune p :: decode_all_fuel f (skipn (width p) p)
  | _, _ => []
  end.
Definition decode_all (p : list N) : list (N * nat) := decode_all_fuel (length p) p.

(** []rune(string(p)) *)
Definition runes (p : list N) : list N := map fst (decode_all p).
(** utf8.RuneCount *)
Definition rune_count (p : list N) : nat := length (decode_all p).

(** byte offsets at which the decoding loop stands with data left (the values of byteCount at the top of the loop
    body of postingsBuilder.newSearchableString) *)
Fixpoint rune_starts_from (fuel : nat) (pos : nat) (p : list N) : list nat :=
  match fuel, p with
  | S f, _ :: _ => pos :: rune_starts_from f (pos + width p)%nat (skipn (width p) p)
  | _, _ => []
  end.
Definition rune_starts (p : list N) : list nat := rune_starts_from (length p) 0 p.
(** ... plus the total length (where the loop exits) *)
Definition rune_boundaries (p : list N) : list nat := rune_starts p ++ [length p].

(** utf8.Valid *)
Fixpoint valid_fuel (fuel : nat) (p : list N) : bool :=
  match p with
  | [] => true
  | _ => match fuel with
         | O => false
         | S f => match decode_step p with
                  | Some (_, w) => valid_fuel f (skipn w p)
                  | None => false
                  end
         end
  end.
Definition valid_utf8 (p : list N) : bool := valid_fuel (length p) p.

(** utf8.ValidRune for non-negative runes *)
Definition valid_rune (r : N) : bool := (r <? 55296) || ((57343 <? r) && (r <=? MaxRune)).

(** utf8.AppendRune(nil, r) for a non-negative rune (negative Go runes encode like any invalid rune: EF BF BD) *)
Definition encode_rune (r : N) : list N :=
  if r <? 128 then [r]
  else if r <? 2048 then [192 + r / 64; 128 + r mod 64]
  else if negb (valid_rune r) then [239; 191; 189]
  else if r <? 65536 then [224 + r / 4096; 128 + (r / 64) mod 64; 128 + r mod 64]
  else [240 + r / 262144; 128 + (r / 4096) mod 64; 128 + (r / 64) mod 64; 128 + r mod 64].
Definition encode_all (rs : list N) : list N := flat_map encode_rune rs.

(** ** Rune boundaries as a predicate: [RB p o] — the decoding loop over [p] stands at byte offset [o]
    (including o = |p| where it exits). *)
Inductive RB : list N -> nat -> Prop :=
| RB_here p : RB p 0
| RB_step p o : p <> [] -> RB (skipn (width p) p) o -> RB p (width p + o).

Local Close Scope N_scope.

(** ** Facts about one decoding step *)
Lemma lead_class_L3 b lo hi : lead_class b = L3 lo hi -> (128 <= lo /\ hi <= 191 /\ 224 <= b <= 239)%N.
Proof.
  unfold lead_class. repeat match goal with |- context [if ?c then _ else _] => destruct c eqn:? end;
    intros H; inversion H; subst; lia.
Qed.
Lemma lead_class_L4 b lo hi : lead_class b = L4 lo hi -> (128 <= lo /\ hi <= 191 /\ 240 <= b <= 244)%N.
Proof.
  unfold lead_class. repeat match goal with |- context [if ?c then _ else _] => destruct c eqn:? end;
    intros H; inversion H; subst; lia.
Qed.
Lemma lead_class_L2 b : lead_class b = L2 -> (194 <= b <= 223)%N.
Proof.
  unfold lead_class. repeat match goal with |- context [if ?c then _ else _] => destruct c eqn:? end;
    intros H; inversion H; subst; lia.
Qed.
Lemma lead_class_ascii b : lead_class b = LAscii <-> (b < 128)%N.
Proof.
  unfold lead_class. repeat match goal with |- context [if ?c then _ else _] => destruct c eqn:? end;
    split; intros H; try discriminate; try reflexivity; lia.
Qed.
Lemma lead_class_cont b : is_cont b = true -> lead_class b = LInvalid.
Proof.
  unfold is_cont, in_rng, lead_class. intros H.
  repeat match goal with |- context [if ?c then _ else _] => destruct c eqn:? end; try reflexivity; lia.
Qed.

Lemma in_rng_cont lo hi b : (128 <= lo)%N -> (hi <= 191)%N -> in_rng lo hi b = true -> is_cont b = true.
Proof. unfold is_cont, in_rng. intros. lia. Qed.

(** a complete encoding: 1..4 bytes, all present, the first is not a continuation byte, the others are *)
Lemma decode_step_shape p r w :
  decode_step p = Some (r, w) ->
  1 <= w <= 4 /\ w <= length p /\
  (exists b0 t, p = b0 :: t /\ is_cont b0 = false) /\
  (forall i, 1 <= i < w -> exists b, nth_error p i = Some b /\ is_cont b = true).
Proof.
  unfold decode_step. destruct p as [|b0 t]; [discriminate|].
  assert (Hnc : forall l, lead_class b0 = l -> l <> LInvalid -> is_cont b0 = false).
  { intros l Hl Hne. destruct (is_cont b0) eqn:Hc; [|reflexivity]. apply lead_class_cont in Hc. congruence. }
  destruct (lead_class b0) as [| | |lo hi|lo hi] eqn:Hl; intros H.
  - inversion H; subst. cbn [length]. split; [lia|]. split; [lia|]. split.
    + do 2 eexists. split; [reflexivity|]. eapply Hnc; [reflexivity|discriminate].
    + intros i Hi. lia.
  - discriminate.
  - destruct t as [|b1 t1]; [discriminate|]. destruct (is_cont b1) eqn:H1; [|discriminate].
    inversion H; subst. cbn [length]. split; [lia|]. split; [lia|]. split.
    + do 2 eexists. split; [reflexivity|]. eapply Hnc; [reflexivity|discriminate].
    + intros i Hi. assert (i = 1) as -> by lia. exists b1. split; [reflexivity|exact H1].
  - destruct t as [|b1 [|b2 t2]]; try discriminate.
    destruct (in_rng lo hi b1 && is_cont b2) eqn:H12; [|discriminate].
    apply andb_true_iff in H12 as [H1 H2]. apply lead_class_L3 in Hl as Hr.
    apply in_rng_cont in H1; [|lia|lia].
    inversion H; subst. cbn [length]. split; [lia|]. split; [lia|]. split.
    + do 2 eexists. split; [reflexivity|]. eapply Hnc; [reflexivity|discriminate].
    + intros i Hi. assert (i = 1 \/ i = 2) as [-> | ->] by lia; eexists; (split; [reflexivity|assumption]).
  - destruct t as [|b1 [|b2 [|b3 t3]]]; try discriminate.
    destruct (in_rng lo hi b1 && is_cont b2 && is_cont b3) eqn:H123; [|discriminate].
    apply andb_true_iff in H123 as [H12 H3]. apply andb_true_iff in H12 as [H1 H2].
    apply lead_class_L4 in Hl as Hr. apply in_rng_cont in H1; [|lia|lia].
    inversion H; subst. cbn [length]. split; [lia|]. split; [lia|]. split.
    + do 2 eexists. split; [reflexivity|]. eapply Hnc; [reflexivity|discriminate].
    + intros i Hi. assert (i = 1 \/ i = 2 \/ i = 3) as [-> | [-> | ->]] by lia;
        eexists; (split; [reflexivity|assumption]).
Qed.

(** a complete encoding decodes the same whatever follows it *)
Lemma decode_step_app p q r w : decode_step p = Some (r, w) -> decode_step (p ++ q) = Some (r, w).
Proof.
  unfold decode_step. destruct p as [|b0 t]; [discriminate|]. cbn [app].
  destruct (lead_class b0) as [| | |lo hi|lo hi]; intros H.
  - exact H.
  - discriminate.
  - destruct t as [|b1 t1]; [discriminate|]. exact H.
  - destruct t as [|b1 [|b2 t2]]; try discriminate. exact H.
  - destruct t as [|b1 [|b2 [|b3 t3]]]; try discriminate. exact H.
Qed.

Lemma width_step p r w : decode_step p = Some (r, w) -> width p = w.
Proof.
  intros H. unfold width, decode_rune. destruct p; [discriminate|]. now rewrite H.
Qed.

Lemma width_cases p : p <> [] ->
  (exists r, decode_step p = Some (r, width p)) \/ (decode_step p = None /\ width p = 1).
Proof.
  intros Hp. unfold width, decode_rune. destruct p as [|b t]; [congruence|].
  destruct (decode_step (b :: t)) as [[r w]|] eqn:E; [left; exists r; reflexivity | right; split; reflexivity].
Qed.

Lemma width_pos p : p <> [] -> 1 <= width p.
Proof.
  intros Hp. destruct (width_cases p Hp) as [[r H]|[_ H]]; [|lia].
  apply decode_step_shape in H. lia.
Qed.

Lemma width_le p : width p <= length p.
Proof.
  destruct p as [|b t]; [cbn; lia|].
  destruct (width_cases (b :: t)) as [[r H]|[_ H]]; [discriminate| |].
  - apply decode_step_shape in H. lia.
  - rewrite H. cbn. lia.
Qed.

(** ** Rune boundaries *)
Lemma RB_le p o : RB p o -> o <= length p.
Proof.
  induction 1 as [p|p o Hp _ IH]; [lia|].
  rewrite skipn_length in IH. pose proof (width_le p). lia.
Qed.

Lemma RB_end p : RB p (length p).
Proof.
  remember (length p) as n eqn:Hn. revert p Hn.
  induction n as [n IH] using lt_wf_ind. intros p Hn.
  destruct p as [|b t]; [subst; constructor|].
  set (q := b :: t) in *. assert (Hq : q <> []) by discriminate.
  pose proof (width_pos q Hq). pose proof (width_le q).
  replace n with (width q + (n - width q)) by lia. constructor; [exact Hq|].
  apply (IH (n - width q)); [lia|]. rewrite skipn_length. lia.
Qed.

Lemma skipn_add {A} a b (l : list A) : skipn a (skipn b l) = skipn (b + a) l.
Proof.
  revert l; induction b as [|b IH]; intros l; cbn; [reflexivity|].
  destruct l as [|x l]; [now rewrite skipn_nil|]. apply IH.
Qed.

(** composition: a boundary of the rest after a boundary is a boundary *)
Lemma RB_trans p o k : RB p o -> RB (skipn o p) k -> RB p (o + k).
Proof.
  induction 1 as [p|p o Hp Hr IH]; intros Hk; [exact Hk|].
  rewrite <- Nat.add_assoc. constructor; [exact Hp|]. apply IH.
  now rewrite skipn_add.
Qed.

Lemma nth_error_skipn {A} (l : list A) n i : nth_error (skipn n l) i = nth_error l (n + i).
Proof.
  revert l; induction n as [|n IH]; intros l; [reflexivity|].
  destruct l as [|x l]; [now destruct i|]. cbn. apply IH.
Qed.

(** KEY 1: a position that holds a non-continuation byte (ASCII or any byte outside 80..BF) is never strictly
    inside a consumed multi-byte rune, hence the decoder of ANY byte string stands there. *)
Lemma RB_noncont p o b : nth_error p o = Some b -> is_cont b = false -> RB p o.
Proof.
  remember (length p) as n eqn:Hn. revert p o Hn.
  induction n as [n IH] using lt_wf_ind. intros p o Hn Hb Hc.
  destruct o as [|o']; [constructor|]. set (o := S o') in *.
  assert (Hp : p <> []) by (intros ->; destruct o; discriminate).
  pose proof (width_pos p Hp) as Hw1. pose proof (width_le p) as Hw2.
  destruct (Nat.le_gt_cases (width p) o) as [Hle|Hlt].
  - replace o with (width p + (o - width p)) by lia. constructor; [exact Hp|].
    apply (IH (n - width p)); [lia | rewrite skipn_length; lia | | exact Hc].
    rewrite nth_error_skipn. now replace (width p + (o - width p)) with o by lia.
  - exfalso. destruct (width_cases p Hp) as [[r H]|[_ H]]; [|unfold o in *; lia].
    apply decode_step_shape in H as (_ & _ & _ & Hi).
    destruct (Hi o) as (b' & Hb' & Hc'); [unfold o in *; lia|]. congruence.
Qed.

(** KEY 2: lock-step through a valid prefix *)
Lemma RB_valid_fuel f name post : valid_fuel f name = true -> RB (name ++ post) (length name).
Proof.
  revert name; induction f as [|f IH]; intros name Hv.
  - destruct name; [constructor | discriminate].
  - destruct name as [|b t]; [constructor|]. set (nm := b :: t) in *.
    assert (Hv' : match decode_step nm with Some (_, w) => valid_fuel f (skipn w nm) | None => false end = true)
      by exact Hv.
    destruct (decode_step nm) as [[r w]|] eqn:Hd; [|discriminate].
    pose proof (decode_step_shape _ _ _ Hd) as (Hw & Hwl & _ & _).
    pose proof (width_step _ _ _ (decode_step_app nm post r w Hd)) as Hwid.
    replace (length nm) with (width (nm ++ post) + (length nm - w)) by lia.
    constructor; [subst nm; discriminate|].
    rewrite Hwid, skipn_app. replace (w - length nm) with 0 by lia. cbn [skipn].
    rewrite <- (skipn_length w nm). apply IH. exact Hv'.
Qed.
Lemma RB_valid_prefix name post : valid_utf8 name = true -> RB (name ++ post) (length name).
Proof. apply RB_valid_fuel. Qed.

Lemma valid_head_noncont name b t : valid_utf8 name = true -> name = b :: t -> is_cont b = false.
Proof.
  intros Hv ->. unfold valid_utf8 in Hv. cbn [length valid_fuel] in Hv.
  destruct (decode_step (b :: t)) as [[r w]|] eqn:Hd; [|discriminate].
  apply decode_step_shape in Hd as (_ & _ & (b0 & t0 & E & Hc) & _). now inversion E; subst.
Qed.

(** SELF-SYNCHRONISATION.  [name] valid UTF-8 and non-empty, [content] ARBITRARY bytes (valid or not), [name] occurs
    at byte offset [o]: then Go's decoding loop over [content] stands at [o] and at [o + |name|].
    (For the empty name the statement is false in general — see [utf8_self_sync_empty_refuted] — and holds iff
    [o] itself is a boundary: [utf8_self_sync_at_boundary].) *)
Theorem utf8_self_sync content name o :
  valid_utf8 name = true -> name <> [] ->
  firstn (length name) (skipn o content) = name ->
  RB content o /\ RB content (o + length name).
Proof.
  intros Hv Hne Hocc.
  assert (Hsplit : skipn o content = name ++ skipn (length name) (skipn o content)).
  { rewrite <- Hocc at 1. now rewrite firstn_skipn. }
  destruct name as [|b t] eqn:En; [congruence|]. rewrite <- En in *.
  assert (Hb : nth_error content o = Some b).
  { rewrite <- (Nat.add_0_r o), <- nth_error_skipn, Hsplit, En. reflexivity. }
  assert (Ho : RB content o) by (eapply RB_noncont; [exact Hb | eapply valid_head_noncont; eauto]).
  split; [exact Ho|]. apply RB_trans; [exact Ho|]. rewrite Hsplit. now apply RB_valid_prefix.
Qed.

Theorem utf8_self_sync_at_boundary content name o :
  valid_utf8 name = true -> RB content o ->
  firstn (length name) (skipn o content) = name ->
  RB content (o + length name).
Proof.
  intros Hv Ho Hocc. apply RB_trans; [exact Ho|].
  rewrite <- (firstn_skipn (length name) (skipn o content)), Hocc. now apply RB_valid_prefix.
Qed.

(** the position after an ASCII byte is a boundary (line starts after '\n') *)
Lemma RB_after_ascii p o b : nth_error p o = Some b -> (b < 128)%N -> RB p (o + 1).
Proof.
  intros Hb Hlt.
  assert (Hc : is_cont b = false) by (unfold is_cont, in_rng; lia).
  apply RB_trans; [eapply RB_noncont; eauto|].
  destruct (skipn o p) as [|b' t] eqn:Es.
  - pose proof (nth_error_skipn p o 0) as E. rewrite Es, Nat.add_0_r, Hb in E. discriminate.
  - pose proof (nth_error_skipn p o 0) as E. rewrite Es, Nat.add_0_r, Hb in E. cbn in E. inversion E; subst b'.
    assert (Hw : width (b :: t) = 1).
    { unfold width, decode_rune, decode_step. apply lead_class_ascii in Hlt. now rewrite Hlt. }
    rewrite <- Hw. rewrite <- (Nat.add_0_r (width (b :: t))). constructor; [discriminate | constructor].
Qed.

(** ** The executable [rune_starts] lists exactly the boundaries below the length, in increasing order *)
Lemma rune_starts_from_sound fuel pos p x :
  In x (rune_starts_from fuel pos p) -> exists o, x = pos + o /\ RB p o /\ o < length p.
Proof.
  revert pos p; induction fuel as [|f IH]; intros pos p H; [contradiction|].
  destruct p as [|b t]; [contradiction|]. set (q := b :: t) in *.
  change (In x (pos :: rune_starts_from f (pos + width q) (skipn (width q) q))) in H.
  destruct H as [<- | H].
  - exists 0. split; [lia|]. split; [constructor | subst q; cbn; lia].
  - apply IH in H as (o & -> & Hr & Hlt). exists (width q + o). split; [lia|]. split.
    + constructor; [subst q; discriminate | exact Hr].
    + rewrite skipn_length in Hlt. lia.
Qed.

Lemma rune_starts_from_complete p o : RB p o -> forall fuel pos, length p <= fuel -> o < length p ->
  In (pos + o) (rune_starts_from fuel pos p).
Proof.
  induction 1 as [p|p o Hp Hr IH]; intros fuel pos Hf Hlt.
  - destruct p as [|b t]; [cbn in Hlt; lia|]. destruct fuel as [|f]; [cbn in Hf; lia|].
    left. lia.
  - destruct p as [|b t]; [congruence|]. destruct fuel as [|f]; [cbn in Hf; lia|].
    set (q := b :: t) in *. right. fold (rune_starts_from f (pos + width q) (skipn (width q) q)).
    rewrite Nat.add_assoc. pose proof (width_pos q Hp). apply IH; rewrite skipn_length; subst q; cbn [length] in *; lia.
Qed.

Theorem rune_starts_spec p x : In x (rune_starts p) <-> RB p x /\ x < length p.
Proof.
  split.
  - intros H. apply rune_starts_from_sound in H as (o & -> & H1 & H2). now split.
  - intros [H1 H2]. apply (rune_starts_from_complete p x H1 (length p) 0); [lia | exact H2].
Qed.

Theorem rune_boundaries_spec p x : In x (rune_boundaries p) <-> RB p x.
Proof.
  unfold rune_boundaries. rewrite in_app_iff, rune_starts_spec. cbn [In]. split.
  - intros [[H _] | [<- | []]]; [exact H | apply RB_end].
  - intros H. pose proof (RB_le _ _ H). destruct (Nat.eq_dec x (length p)) as [->|Hne]; [right; now left|].
    left. split; [exact H | lia].
Qed.

Lemma rune_starts_from_sorted fuel pos p :
  ForallOrdPairs lt (rune_starts_from fuel pos p) /\ Forall (fun x => pos <= x) (rune_starts_from fuel pos p).
Proof.
  revert pos p; induction fuel as [|f IH]; intros pos p; [split; constructor|].
  destruct p as [|b t]; [split; constructor|]. set (q := b :: t).
  change (rune_starts_from (S f) pos q) with (pos :: rune_starts_from f (pos + width q) (skipn (width q) q)).
  destruct (IH (pos + width q) (skipn (width q) q)) as [H1 H2].
  assert (Hw : 1 <= width q) by (apply width_pos; discriminate).
  split.
  - constructor; [|exact H1]. eapply Forall_impl; [|exact H2]. cbn. intros; lia.
  - constructor; [lia|]. eapply Forall_impl; [|exact H2]. cbn. intros; lia.
Qed.
Lemma rune_starts_sorted p : ForallOrdPairs lt (rune_starts p).
Proof. apply rune_starts_from_sorted. Qed.

(** ** Encoder / decoder round trip (arithmetic proof: lia with div/mod by constants, one case per lead class) *)
Definition expected_decode (r : N) : N * nat :=
  (if valid_rune r then r else RuneError, length (encode_rune r)).
Definition roundtrip_ok (r : N) : bool :=
  match decode_step (encode_rune r) with
  | Some (r', w) => N.eqb r' (fst (expected_decode r)) && Nat.eqb w (snd (expected_decode r))
  | None => false
  end.

Local Ltac lead_class_tac :=
  unfold lead_class; repeat match goal with |- context [if ?c then _ else _] => destruct c eqn:? end;
  try reflexivity; lia.

Lemma roundtrip_all r : roundtrip_ok r = true.
Proof.
  unfold roundtrip_ok, expected_decode, encode_rune.
  destruct (N.ltb_spec r 128) as [H1|H1].
  { unfold decode_step. replace (lead_class r) with LAscii by (symmetry; now apply lead_class_ascii).
    unfold valid_rune. destruct (N.ltb_spec r 55296); [|lia]. cbn. now rewrite N.eqb_refl. }
  destruct (N.ltb_spec r 2048) as [H2|H2].
  { unfold decode_step. replace (lead_class (192 + r / 64)) with L2 by (symmetry; lead_class_tac).
    assert (Hc : is_cont (128 + r mod 64) = true) by (unfold is_cont, in_rng; lia). rewrite Hc.
    unfold valid_rune. destruct (N.ltb_spec r 55296); [|lia]. cbn [orb fst snd length].
    apply andb_true_iff; split; [apply N.eqb_eq; lia | reflexivity]. }
  destruct (valid_rune r) eqn:Hv; cbn [negb]; [|vm_compute; reflexivity].
  unfold valid_rune, MaxRune in Hv.
  destruct (N.ltb_spec r 65536) as [H3|H3].
  - (* three bytes *)
    assert (Hc2 : is_cont (128 + r mod 64) = true) by (unfold is_cont, in_rng; lia).
    assert (Hr : exists lo hi, lead_class (224 + r / 4096) = L3 lo hi /\
                               in_rng lo hi (128 + (r / 64) mod 64) = true).
    { destruct (N.eq_dec (r / 4096) 0) as [E|E0].
      - exists 160%N, 191%N. rewrite E. split; [reflexivity | unfold in_rng; lia].
      - destruct (N.eq_dec (r / 4096) 13) as [E|E13].
        + exists 128%N, 159%N. rewrite E. split; [reflexivity | unfold in_rng; lia].
        + exists 128%N, 191%N. split; [lead_class_tac | unfold in_rng; lia]. }
    destruct Hr as (lo & hi & Hl & Hin). unfold decode_step. rewrite Hl, Hin, Hc2. cbn [andb fst snd length].
    apply andb_true_iff; split; [apply N.eqb_eq; lia | reflexivity].
  - (* four bytes *)
    assert (Hc2 : is_cont (128 + (r / 64) mod 64) = true) by (unfold is_cont, in_rng; lia).
    assert (Hc3 : is_cont (128 + r mod 64) = true) by (unfold is_cont, in_rng; lia).
    assert (Hr : exists lo hi, lead_class (240 + r / 262144) = L4 lo hi /\
                               in_rng lo hi (128 + (r / 4096) mod 64) = true).
    { destruct (N.eq_dec (r / 262144) 0) as [E|E0].
      - exists 144%N, 191%N. rewrite E. split; [reflexivity | unfold in_rng; lia].
      - destruct (N.eq_dec (r / 262144) 4) as [E|E4].
        + exists 128%N, 143%N. rewrite E. split; [reflexivity | unfold in_rng; lia].
        + exists 128%N, 191%N. split; [lead_class_tac | unfold in_rng; lia]. }
    destruct Hr as (lo & hi & Hl & Hin). unfold decode_step. rewrite Hl, Hin, Hc2, Hc3. cbn [andb fst snd length].
    apply andb_true_iff; split; [apply N.eqb_eq; lia | reflexivity].
Qed.

(** utf8.DecodeRune(utf8.AppendRune(nil, r) ++ q) = (r, len) for every Unicode scalar value r, and (RuneError, 3)
    for surrogates and values above U+10FFFF (which AppendRune encodes as U+FFFD) — whatever follows. *)
Theorem decode_encode r q : decode_rune (encode_rune r ++ q) = expected_decode r.
Proof.
  pose proof (roundtrip_all r) as H. unfold roundtrip_ok in H.
  destruct (decode_step (encode_rune r)) as [[r' w]|] eqn:Hd; [|discriminate].
  apply andb_true_iff in H as [H1 H2]. apply N.eqb_eq in H1. apply Nat.eqb_eq in H2.
  apply (decode_step_app _ q) in Hd. unfold decode_rune.
  destruct (encode_rune r ++ q) as [|x t] eqn:E; [cbn in Hd; discriminate|]. rewrite Hd.
  destruct (expected_decode r) as [a b]. cbn [fst snd] in *. now subst.
Qed.

Lemma valid_fuel_mono f p : valid_fuel f p = true -> valid_fuel (S f) p = true.
Proof.
  revert p; induction f as [|f IH]; intros p H.
  - destruct p; [reflexivity|discriminate].
  - destruct p as [|x t]; [reflexivity|]. cbn [valid_fuel] in *.
    destruct (decode_step (x :: t)) as [[r w]|]; [|discriminate]. now apply IH.
Qed.
Lemma valid_fuel_ge f g p : f <= g -> valid_fuel f p = true -> valid_fuel g p = true.
Proof. induction 1 as [|g Hle IH]; [auto|]. intros Hv. now apply valid_fuel_mono, IH. Qed.
(** every encoding is valid UTF-8, and a concatenation of valid strings is valid: encode_all yields valid UTF-8 *)
Lemma valid_fuel_app f a b : valid_fuel f a = true -> valid_utf8 b = true -> valid_fuel (f + length b) (a ++ b) = true.
Proof.
  revert a; induction f as [|f IH]; intros a Ha Hb.
  - destruct a; [|discriminate]. exact Hb.
  - destruct a as [|x t]; [cbn [app]|].
    + eapply valid_fuel_ge; [|exact Hb]. lia.
    + set (nm := x :: t) in *.
      assert (Hv' : match decode_step nm with Some (_, w) => valid_fuel f (skipn w nm) | None => false end = true)
        by exact Ha.
      destruct (decode_step nm) as [[r w]|] eqn:Hd; [|discriminate].
      pose proof (decode_step_shape _ _ _ Hd) as (Hw & Hwl & _ & _).
      change (S f + length b) with (S (f + length b)). subst nm. cbn [app valid_fuel].
      change (x :: t ++ b) with ((x :: t) ++ b). rewrite (decode_step_app _ b _ _ Hd).
      rewrite skipn_app. replace (w - length (x :: t)) with 0 by lia. cbn [skipn]. now apply IH.
Qed.

Lemma valid_fuel_length f p : valid_fuel f p = true -> valid_utf8 p = true.
Proof.
  unfold valid_utf8. revert p; induction f as [|f IH]; intros p H.
  - destruct p; [reflexivity|discriminate].
  - destruct p as [|x t]; [reflexivity|]. cbn [valid_fuel length] in *.
    destruct (decode_step (x :: t)) as [[r w]|] eqn:Hd; [|discriminate].
    pose proof (decode_step_shape _ _ _ Hd) as (Hw & Hwl & _ & _). cbn [length] in Hwl.
    apply IH in H. eapply valid_fuel_ge; [|exact H]. rewrite skipn_length. cbn [length]. lia.
Qed.

Theorem valid_utf8_app a b : valid_utf8 a = true -> valid_utf8 b = true -> valid_utf8 (a ++ b) = true.
Proof. intros Ha Hb. eapply valid_fuel_length, valid_fuel_app; eassumption. Qed.

Lemma valid_encode_rune r : valid_utf8 (encode_rune r) = true.
Proof.
  pose proof (roundtrip_all r) as H. unfold roundtrip_ok, expected_decode in H.
  destruct (decode_step (encode_rune r)) as [[r' w]|] eqn:Hd; [|discriminate].
  apply andb_true_iff in H as [_ H2]. apply Nat.eqb_eq in H2. cbn [snd] in H2.
  unfold valid_utf8. destruct (encode_rune r) as [|x t] eqn:E; [reflexivity|].
  cbn [length valid_fuel]. rewrite Hd. subst w. rewrite skipn_all. now destruct (length t).
Qed.

Theorem valid_encode_all rs : valid_utf8 (encode_all rs) = true.
Proof.
  induction rs as [|r rs IH]; [reflexivity|]. cbn [encode_all flat_map].
  apply valid_utf8_app; [apply valid_encode_rune | exact IH].
Qed.
