(** Shared basics: imports, the Outcome monad (Ok / Err / Panic), byte-list helpers. *)
From Coq Require Export List NArith ZArith Arith Bool Lia.
Export ListNotations.

Definition byte := N.

(** Go operations that can panic are modelled as checked operations; "never panics" is then a theorem
    [f x <> Panic _] rather than an artefact of totality. *)
Inductive outcome (A : Type) : Type :=
| Ok (a : A)
| Err (e : N)          (* an ordinary Go error value; the code is a small enum per model *)
| Panic (why : N).     (* a run-time panic (index out of range, nil dereference, ...) *)
Arguments Ok {A} _. Arguments Err {A} _. Arguments Panic {A} _.

Definition obind {A B} (x : outcome A) (f : A -> outcome B) : outcome B :=
  match x with Ok a => f a | Err e => Err e | Panic w => Panic w end.
Notation "'do' x <- a ; b" := (obind a (fun x => b)) (at level 200, x pattern, a at level 100, b at level 200).

Definition is_panic {A} (x : outcome A) : bool := match x with Panic _ => true | _ => false end.
Definition is_ok {A} (x : outcome A) : bool := match x with Ok _ => true | _ => false end.

Definition slice {A} (l : list A) (lo hi : nat) : list A := firstn (hi - lo) (skipn lo l).
Definition insert_at {A} (i : nat) (x : A) (l : list A) : list A := firstn i l ++ x :: skipn i l.

Fixpoint prefixb (p l : list N) : bool :=
  match p, l with
  | [], _ => true
  | _ :: _, [] => false
  | a :: p', b :: l' => N.eqb a b && prefixb p' l'
  end.

(** Go's bytes.Index: first occurrence, 0 for the empty pattern. *)
Fixpoint index_sub (p l : list N) {struct l} : option nat :=
  if prefixb p l then Some 0 else
  match l with
  | [] => None
  | _ :: l' => option_map S (index_sub p l')
  end.

Fixpoint list_eqb {A} (eqb : A -> A -> bool) (a b : list A) : bool :=
  match a, b with
  | [], [] => true
  | x :: a', y :: b' => eqb x y && list_eqb eqb a' b'
  | _, _ => false
  end.

(** indexes (as N) of the list elements that do not satisfy [ok]; used by all correspondence runners *)
Fixpoint bad_indexes_from {A} (ok : A -> bool) (l : list A) (i : N) : list N :=
  match l with
  | [] => []
  | x :: r => if ok x then bad_indexes_from ok r (N.succ i) else i :: bad_indexes_from ok r (N.succ i)
  end.
Definition bad_indexes {A} (ok : A -> bool) (l : list A) : list N := bad_indexes_from ok l 0%N.
