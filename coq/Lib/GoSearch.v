(** Go's sort.Search (binary search) as an executable function, with its specification for
    monotone predicates.  Used by the models of newlines.atOffset (C03) and runeOffsetMap.lookup (C02).

      func Search(n int, f func(int) bool) int {
        i, j := 0, n
        for i < j { h := int(uint(i+j) >> 1); if !f(h) { i = h + 1 } else { j = h } }
        return i }                                                                         *)
From ZV Require Import Lib.Base.

Fixpoint go_search_loop (fuel i j : nat) (f : nat -> bool) : nat :=
  match fuel with
  | 0 => i
  | S k => if i <? j
           then let h := Nat.div2 (i + j) in
                if f h then go_search_loop k i h f else go_search_loop k (S h) j f
           else i
  end.
Definition go_search (n : nat) (f : nat -> bool) : nat := go_search_loop n 0 n f.

(** linear reference: the least index < n on which f holds, n if none *)
Fixpoint first_true_from (cnt i : nat) (f : nat -> bool) : nat :=
  match cnt with
  | 0 => i
  | S k => if f i then i else first_true_from k (S i) f
  end.
Definition first_true (n : nat) (f : nat -> bool) : nat := first_true_from n 0 f.

Lemma div2_bounds : forall i j, i < j -> i <= Nat.div2 (i + j) /\ Nat.div2 (i + j) < j.
Proof.
  intros i j Hij.
  pose proof (Nat.div2_odd (i + j)) as H.
  destruct (Nat.odd (i + j)); simpl Nat.b2n in H; lia.
Qed.

(** Loop invariant: everything below i is false, everything from j on (below n) is true. *)
Lemma go_search_loop_spec : forall fuel i j f,
  j - i <= fuel -> i <= j ->
  (forall a, a < i -> f a = false) ->
  (forall a b, a <= b -> f a = true -> f b = true) ->
  let r := go_search_loop fuel i j f in
  i <= r <= j /\ (forall a, a < r -> f a = false) /\ (r < j -> f r = true).
Proof.
  induction fuel as [|k IH]; intros i j f Hfuel Hij Hlow Hmono; simpl.
  - assert (i = j) by lia. subst. repeat split; auto; lia.
  - destruct (i <? j) eqn:Elt.
    + apply Nat.ltb_lt in Elt.
      pose proof (div2_bounds i j Elt) as [Hh1 Hh2].
      destruct (f (Nat.div2 (i + j))) eqn:Efh.
      * specialize (IH i (Nat.div2 (i + j)) f).
        destruct IH as [Hr [Hf Ht]]; try lia; auto.
        repeat split; try lia; auto.
        intros Hlt.
        destruct (Nat.eq_dec (go_search_loop k i (Nat.div2 (i + j)) f) (Nat.div2 (i + j))) as [E|E].
        -- rewrite E. exact Efh.
        -- apply Ht. lia.
      * specialize (IH (S (Nat.div2 (i + j))) j f).
        destruct IH as [Hr [Hf Ht]]; try lia; auto.
        -- intros a Ha.
           destruct (f a) eqn:Efa; auto.
           assert (f (Nat.div2 (i + j)) = true) by (apply (Hmono a); [lia|exact Efa]). congruence.
        -- repeat split; try lia; auto.
    + apply Nat.ltb_ge in Elt. assert (i = j) by lia. subst.
      repeat split; auto; lia.
Qed.

Lemma first_true_from_spec : forall cnt i f,
  let r := first_true_from cnt i f in
  i <= r <= i + cnt /\ (forall a, i <= a < r -> f a = false) /\ (r < i + cnt -> f r = true).
Proof.
  induction cnt as [|k IH]; intros i f; simpl.
  - repeat split; intros; lia.
  - destruct (f i) eqn:Efi.
    + repeat split; intros; auto; lia.
    + destruct (IH (S i) f) as [Hr [Hf Ht]].
      repeat split; try lia.
      * intros a Ha. destruct (Nat.eq_dec a i) as [->|Hne]; auto. apply Hf. lia.
      * intros Hlt. apply Ht. lia.
Qed.

(** For a monotone predicate, the binary search returns the least true index (n if none):
    it agrees with the linear scan. *)
Theorem go_search_first_true : forall n f,
  (forall a b, a <= b -> f a = true -> f b = true) ->
  go_search n f = first_true n f.
Proof.
  intros n f Hmono. unfold go_search, first_true.
  assert (Hs : 0 <= go_search_loop n 0 n f <= n /\
               (forall a, a < go_search_loop n 0 n f -> f a = false) /\
               (go_search_loop n 0 n f < n -> f (go_search_loop n 0 n f) = true)).
  { apply go_search_loop_spec; auto; intros; lia. }
  destruct Hs as [Hr [Hf Ht]].
  pose proof (first_true_from_spec n 0 f) as [Hr' [Hf' Ht']].
  set (r := go_search_loop n 0 n f) in *.
  set (r' := first_true_from n 0 f) in *.
  destruct (Nat.lt_trichotomy r r') as [Hlt|[Heq|Hgt]]; auto.
  - assert (f r = true) by (apply Ht; lia).
    assert (f r = false) by (apply Hf'; lia). congruence.
  - assert (f r' = true) by (apply Ht'; lia).
    assert (f r' = false) by (apply Hf; lia). congruence.
Qed.
