(** Byte-level primitives of the zoekt shard format (C09/C11): Go's encoding/binary varints
    (PutUvarint / Uvarint / ReadUvarint), big-endian fixed-width integers, and utf8.DecodeRune.
    Executable definitions only; the lemmas are in Proofs/FormatCodec.v. *)
From ZV Require Import Lib.Base.
Open Scope N_scope.

Definition W16 : N := 65536.
Definition W32 : N := 4294967296.
Definition W64 : N := 18446744073709551616.

Definition nlen {A} (l : list A) : N := N.of_nat (length l).

(** panic / divergence codes used by the format models ([Panic why]) *)
Definition P_SLICE : N := 1.      (* slice bounds out of range *)
Definition P_INDEX : N := 2.      (* index out of range *)
Definition P_MAKESLICE : N := 3.  (* makeslice: len/cap out of range *)
Definition P_DIVERGE : N := 9.    (* NOT a Go panic: the Go loop never terminates (and appends on every round) *)

(** binary.PutUvarint:  for x >= 0x80 { buf[i] = byte(x)|0x80; x >>= 7; i++ }; buf[i] = byte(x).
    10 rounds suffice for x < 2^64 (uint64 argument). *)
Fixpoint put_uvarint_fuel (fuel : nat) (x : N) : list N :=
  match fuel with
  | O => [x mod 128]
  | S f => if x <? 128 then [x] else (x mod 128 + 128) :: put_uvarint_fuel f (x / 128)
  end.
Definition put_uvarint (x : N) : list N := put_uvarint_fuel 9 x.

(** binary.Uvarint(buf) -> (value, n):  n > 0 bytes consumed; n = 0 buffer too small; n < 0 overflow
    (value 0 in both failure cases).  [x | uint64(b)<<s] is written [x + b * 2^s]: the bits are disjoint
    (x < 2^s is an invariant of the loop). *)
Fixpoint uvarint_from (buf : list N) (i : nat) (x s : N) : N * Z :=
  match buf with
  | [] => (0, 0%Z)
  | b :: rest =>
    if Nat.eqb i 10 then (0, (- Z.of_nat (i + 1))%Z)
    else if b <? 128 then
      if Nat.eqb i 9 && (1 <? b) then (0, (- Z.of_nat (i + 1))%Z)
      else (x + b * 2 ^ s, Z.of_nat (i + 1))
    else uvarint_from rest (S i) (x + (b mod 128) * 2 ^ s) (s + 7)
  end.
Definition uvarint (buf : list N) : N * Z := uvarint_from buf 0 0 0.

(** big-endian fixed width *)
Definition be32 (n : N) : list N :=
  [ (n / 16777216) mod 256; (n / 65536) mod 256; (n / 256) mod 256; n mod 256 ].
Definition be64 (n : N) : list N := be32 (n / W32) ++ be32 (n mod W32).

Fixpoint be_val (l : list N) (acc : N) : N :=
  match l with [] => acc | b :: r => be_val r (acc * 256 + b) end.
Definition be_get (l : list N) : N := be_val l 0.

(** split a blob into k-byte big-endian words (the blob length is a multiple of k, checked by the callers) *)
Fixpoint words_fuel (fuel k : nat) (l : list N) : list N :=
  match fuel with
  | O => []
  | S f => match l with
           | [] => []
           | _ => be_get (firstn k l) :: words_fuel f k (skipn k l)
           end
  end.
Definition words (k : nat) (l : list N) : list N := words_fuel (length l) k l.

(** utf8.DecodeRune: (rune, width); invalid or short input gives (RuneError = 0xFFFD, 1); empty gives (RuneError, 0) *)
Definition RuneError : N := 65533.
Definition in_rng (lo hi x : N) : bool := (lo <=? x) && (x <=? hi).
Definition decode_rune (l : list N) : N * nat :=
  match l with
  | [] => (RuneError, 0%nat)
  | b0 :: r =>
    if b0 <? 128 then (b0, 1%nat)
    else if in_rng 194 223 b0 then
      match r with
      | b1 :: _ => if in_rng 128 191 b1 then ((b0 mod 32) * 64 + b1 mod 64, 2%nat) else (RuneError, 1%nat)
      | _ => (RuneError, 1%nat)
      end
    else if in_rng 224 239 b0 then
      let lo := if b0 =? 224 then 160 else 128 in
      let hi := if b0 =? 237 then 159 else 191 in
      match r with
      | b1 :: b2 :: _ =>
        if in_rng lo hi b1 && in_rng 128 191 b2
        then ((b0 mod 16) * 4096 + (b1 mod 64) * 64 + b2 mod 64, 3%nat) else (RuneError, 1%nat)
      | _ => (RuneError, 1%nat)
      end
    else if in_rng 240 244 b0 then
      let lo := if b0 =? 240 then 144 else 128 in
      let hi := if b0 =? 244 then 143 else 191 in
      match r with
      | b1 :: b2 :: b3 :: _ =>
        if in_rng lo hi b1 && in_rng 128 191 b2 && in_rng 128 191 b3
        then ((b0 mod 8) * 262144 + (b1 mod 64) * 4096 + (b2 mod 64) * 64 + b3 mod 64, 4%nat) else (RuneError, 1%nat)
      | _ => (RuneError, 1%nat)
      end
    else (RuneError, 1%nat)
  end.

Definition bytes_eqb (a b : list N) : bool := list_eqb N.eqb a b.
