(** C24: the data types shared by the translator output (Generated/ProtoFields.v) and the wire model.
    No definitions with computational content beyond the types themselves. *)
From Coq Require Export List NArith ZArith Bool String.
Export ListNotations.

(** A universal value: Go values and protobuf messages are both encoded into [val] (by the harness,
    reflectively, and by the model).  Numbers of every width, enum values and float bit patterns are
    [VZ]; strings and byte slices are [VS]; nil and empty slices/maps are both [VL []]/[VM []]
    ("up to the representation of empty collections"); sets (map[string]struct{}) are strictly
    sorted [VL] of [VS]; maps are key-sorted association lists; structs and messages are [VR] with
    ALL their fields in declaration order; nil pointers / unset sub-messages are [VNil];
    a query node (Go interface value / protobuf oneof case) is [VQ kind payload]. *)
Inductive val : Type :=
| VB (b : bool)
| VZ (z : Z)
| VS (s : list N)
| VTime (sec nsec : Z)
| VNil
| VL (l : list val)
| VM (kvs : list (val * val))
| VR (fs : list (string * val))
| VQ (kind : string) (payload : val).

Inductive ity : Type := I8 | I16 | I32 | I64 | U8 | U16 | U32 | U64.

(** One conversion step, as classified by the translator from the Go expression. Direction-specific. *)
Inductive conv : Type :=
| CId                                  (* copied: same type on both sides *)
| CStrBytes                            (* string(x) / []byte(x) *)
| CInt (src dst : ity)                 (* integer conversion T(x) *)
| CDurTo | CDurFrom                    (* durationpb.New / Duration.AsDuration *)
| CTimeTo | CTimeFrom                  (* timestamppb.New / Timestamp.AsTime *)
| CEnum (pairs : list (Z * Z)) (dflt : Z)   (* switch over constants with a default *)
| CList (c : conv)                     (* make + for-range over a slice *)
| CMapV (c : conv)                     (* make + for-range over a map, keys copied *)
| CSetToList | CListToSet              (* map[string]struct{} <-> []string *)
| CRec (to nilable : bool) (n : string)
    (* X.ToProto() / XFromProto(..) of struct type n; nilable: the callee starts with
       `if x == nil { return nil }` *)
| CProj (f : string) | CInj (f : string)    (* v.F used as the whole payload / &T{F: x} *)
| CQTo | CQFrom                        (* QToProto / QFromProto *)
| CReTo (syn : bool) | CReFrom (syn : bool)
    (* regexp printing / parsing (may fail). syn = true: a *syntax.Regexp printed by RegexpString and
       re-parsed by syntax.Parse (the printed form is a normal form); syn = false: a compiled
       *regexp.Regexp, which keeps its source text *)
| CBitmapTo | CBitmapFrom              (* roaring ToBytes / UnmarshalBinary (may fail) *)
| CFlagsTo (pairs : list (Z * Z))      (* RawConfig bit set -> list of enum flags: (mask, flag) *)
| CFlagsFrom (pairs : list (Z * Z))    (* list of enum flags -> bit set: (flag, mask) *)
| CUnknown (what : string).            (* the translator could not classify the expression *)

(** One destination field of a conversion function: its name, where its value comes from
    (source field + conversion; None = the function does not set it) and its zero value. *)
Record row : Type := Row { r_dst : string; r_src : option (string * conv); r_zero : val }.

Record table : Type := Table {
  t_to : list row;            (* ToProto: one row per field of the protobuf message *)
  t_from : list row;          (* FromProto: one row per field of the Go struct *)
  t_to_nilguard : bool;       (* ToProto returns nil for a nil receiver *)
  t_from_nilguard : bool;     (* FromProto returns nil for a nil message *)
  t_from_nilsafe : bool       (* FromProto reads the message only through nil-safe getters *)
}.
