(** Go's unicode/utf8 decoding *width* and utf8.RuneCount over byte lists (bytes are N).
    utf8.DecodeRune returns size 1 (RuneError) for every invalid or short encoding and the
    encoded length for a valid one; utf8.RuneCount counts "erroneous and short encodings as single
    runes of width 1 byte".  Only widths matter for line/column arithmetic and for the
    rune->byte offset translation, so rune values are not modelled here.
    The table is Go's `first`/`acceptRanges` (RFC 3629): no overlongs, no surrogates, <= U+10FFFF. *)
From ZV Require Import Lib.Base.

Definition is_cont (x : N) : bool := (128 <=? x)%N && (x <=? 191)%N.
Definition in_rng (lo hi x : N) : bool := (lo <=? x)%N && (x <=? hi)%N.

(** width of the first rune of [b0 :: r] as utf8.DecodeRune reports it (1 for invalid/short) *)
Definition rune_width (b0 : N) (r : list N) : nat :=
  if (b0 <? 194)%N then 1                                   (* ASCII, stray continuation, C0/C1 *)
  else if (b0 <? 224)%N then                                (* C2..DF : 2 bytes *)
    match r with
    | b1 :: _ => if is_cont b1 then 2 else 1
    | _ => 1
    end
  else if (b0 <? 240)%N then                                (* E0..EF : 3 bytes *)
    match r with
    | b1 :: b2 :: _ =>
        let lo := if (b0 =? 224)%N then 160%N else 128%N in
        let hi := if (b0 =? 237)%N then 159%N else 191%N in
        if in_rng lo hi b1 && is_cont b2 then 3 else 1
    | _ => 1
    end
  else if (b0 <? 245)%N then                                (* F0..F4 : 4 bytes *)
    match r with
    | b1 :: b2 :: b3 :: _ =>
        let lo := if (b0 =? 240)%N then 144%N else 128%N in
        let hi := if (b0 =? 244)%N then 143%N else 191%N in
        if in_rng lo hi b1 && is_cont b2 && is_cont b3 then 4 else 1
    | _ => 1
    end
  else 1.

Definition width_of (l : list N) : nat :=
  match l with [] => 0 | b0 :: r => rune_width b0 r end.

(** utf8.RuneCount: structural recursion with a "bytes of the current rune still to skip" counter *)
Fixpoint rune_count_skip (l : list N) (skip : nat) : nat :=
  match l with
  | [] => 0
  | b0 :: r =>
      match skip with
      | S k => rune_count_skip r k
      | 0 => S (rune_count_skip r (rune_width b0 r - 1))
      end
  end.
Definition rune_count (l : list N) : nat := rune_count_skip l 0.

(** byte length of the first [n] runes of [l] (decoding stops at the end of [l]):
    what the loop `for left > 0 { _, sz := utf8.DecodeRune(data); off += sz; data = data[sz:]; left-- }`
    of findOffset computes.  On exhausted data DecodeRune returns size 0, so the offset stops growing. *)
Fixpoint runes_bytes_skip (l : list N) (skip : nat) (n : nat) : nat :=
  match l with
  | [] => 0
  | b0 :: r =>
      match skip with
      | S k => S (runes_bytes_skip r k n)
      | 0 => match n with
             | 0 => 0
             | S n' => S (runes_bytes_skip r (rune_width b0 r - 1) n')
             end
      end
  end.
Definition runes_bytes (l : list N) (n : nat) : nat := runes_bytes_skip l 0 n.
