"""Shared machinery for the zoekt Rocq verification checks.

Every property check is a small python module props/<ID>/prop.py with a
function run(ctx) that uses the helpers below:

  coq_build(targets)         full .vo build (coq_makefile + make) of the given targets
  coq_props(ctx, id)         compile Props/<ID>.v, count theorems, collect Print Assumptions
  go_harness(ctx, ...)       run an overlay test of /repo's current working tree
  coq_eval_cases(ctx, ...)   evaluate the Gallina model on the harness' cases (vm_compute)
  finish(ctx, ...)           verdict, evidence file, VIOLATION / KNOWN-FINDING lines

Nothing here writes into /repo.
"""
import fcntl
import glob
import hashlib
import json
import os
import re
import shutil
import subprocess
import sys
import tempfile
import time

ROOT = os.path.dirname(os.path.dirname(os.path.abspath(__file__)))
REPO = os.environ.get("VERIF_REPO", "/repo")
COQ = os.path.join(ROOT, "coq")
HARNESS = os.path.join(ROOT, "harness")
EVID = os.path.join(ROOT, "evidence")
REPLAYS = os.path.join(ROOT, "replays")
NS = "ZV"  # logical Coq namespace

KERNEL_TB = [
    "Coq 8.16.1 kernel (coqc, full .vo build; vm_compute used in finite side conditions and in the runner; no native_compute)",
    "no Axiom/Parameter/Admitted in the development (tools/audit.sh); Print Assumptions captured per property theorem",
]


class Ctx:
    def __init__(self, pid, tier, seed, replay=None):
        self.pid = pid
        self.tier = tier
        self.seed = seed
        self.replay = replay
        self.t0 = time.time()
        self.tmp = tempfile.mkdtemp(prefix="verif-%s-" % pid)
        self.notes = []

    def n(self, quick, thorough):
        return thorough if self.tier == "thorough" else quick

    def cleanup(self):
        shutil.rmtree(self.tmp, ignore_errors=True)


def go_env(extra=None):
    env = dict(os.environ)
    env["GOFLAGS"] = "-mod=mod"
    env["GOPROXY"] = "off"
    env.pop("GOTOOLCHAIN", None)
    env.pop("GOSUMDB", None)
    env.setdefault("GOCACHE", os.path.expanduser("~/.cache/go-build"))
    if extra:
        env.update(extra)
    return env


def sh(cmd, cwd=None, env=None, timeout=None, inp=None):
    """Run a command, return (rc, combined output). rc=124 on timeout."""
    try:
        p = subprocess.run(cmd, cwd=cwd, env=env, timeout=timeout, input=inp,
                           stdout=subprocess.PIPE, stderr=subprocess.STDOUT,
                           shell=isinstance(cmd, str), text=True, errors="replace")
        return p.returncode, p.stdout
    except subprocess.TimeoutExpired as e:
        out = e.stdout if isinstance(e.stdout, str) else (e.stdout or b"").decode("utf8", "replace")
        return 124, (out or "") + "\n[timeout after %ss]" % timeout


# ---------------------------------------------------------------- Coq build

class _Lock:
    def __init__(self, name="coq"):
        self.path = os.path.join(ROOT, ".lock-" + name)

    def __enter__(self):
        self.f = open(self.path, "w")
        fcntl.flock(self.f, fcntl.LOCK_EX)
        return self

    def __exit__(self, *a):
        fcntl.flock(self.f, fcntl.LOCK_UN)
        self.f.close()


def _v_files():
    out = []
    for d in ("Generated", "Lib", "Model", "Proofs", "Props", "Run"):
        for f in sorted(glob.glob(os.path.join(COQ, d, "**", "*.v"), recursive=True)):
            rel = os.path.relpath(f, COQ)
            if os.path.basename(rel).startswith("cases_"):
                continue
            out.append(rel)
    return out


def coq_project():
    """(Re)generate _CoqProject and Makefile when the file set changed."""
    files = _v_files()
    text = "-Q . %s\n-arg -w -arg -notation-overridden,-deprecated-hint-without-locality,-deprecated-instance-without-locality\n" % NS + "\n".join(files) + "\n"
    cp = os.path.join(COQ, "_CoqProject")
    old = open(cp).read() if os.path.exists(cp) else None
    if old != text or not os.path.exists(os.path.join(COQ, "Makefile")):
        with open(cp, "w") as f:
            f.write(text)
        rc, out = sh(["coq_makefile", "-f", "_CoqProject", "-o", "Makefile"], cwd=COQ)
        if rc != 0:
            raise RuntimeError("coq_makefile failed: " + out)


def coq_build(targets=None, timeout=1500, jobs=16):
    """Full .vo build of targets (paths relative to coq/, .vo). None = everything.
    Returns (ok, log)."""
    with _Lock("coq"):
        coq_project()
        cmd = ["make", "-j%d" % jobs, "-k"]
        if targets:
            cmd += targets
        rc, out = sh(cmd, cwd=COQ, timeout=timeout)
        return rc == 0, out


def coqc(vfile, timeout=600):
    """Compile one file of the project (deps must be built). Returns (rc, output)."""
    return sh(["coqc", "-Q", ".", NS, "-w", "-notation-overridden,-deprecated-hint-without-locality,-deprecated-instance-without-locality", vfile], cwd=COQ, timeout=timeout)


_STD_AXIOMS = (
    "functional_extensionality_dep", "proof_irrelevance", "classic", "JMeq_eq", "eq_rect_eq",
    "propositional_extensionality", "constructive_indefinite_description", "ClassicalDedekindReals",
    "sig_forall_dec", "sig_not_dec", "Eqdep.Eq_rect_eq", "FunctionalExtensionality",
)


def coq_props(ctx, pid=None, extra_targets=()):
    """Build Props/<ID>.vo (with its whole dependency cone), then recompile it once more
    to capture its Print Assumptions output. Returns dict(ok, theorems, assumptions, log,
    obligations, discharged, axioms)."""
    pid = pid or ctx.pid
    vrel = "Props/%s.v" % pid
    res = dict(ok=False, theorems=[], axioms=[], obligations=0, discharged=0, log="", closed=0)
    src = os.path.join(COQ, vrel)
    if not os.path.exists(src):
        res["log"] = "missing " + vrel
        return res
    text = open(src).read()
    thms = re.findall(r"^\s*(?:Theorem|Corollary)\s+([A-Za-z0-9_']+)", text, re.M)
    res["theorems"] = thms
    res["obligations"] = len(thms)
    ok, log = coq_build([vrel + "o"] + list(extra_targets))
    res["log"] = log[-6000:]
    if not ok:
        m = re.findall(r'File "([^"]+)", line (\d+)[^\n]*\n(?:.*\n){0,6}?Error:[^\n]*(?:\n[^\n]+){0,3}', log)
        res["broken_files"] = sorted(set(x[0] for x in m))
        return res
    # capture Print Assumptions: recompile the Props file alone (cheap, everything else is built)
    with _Lock("coq"):
        rc, out = coqc(vrel)
    if rc != 0:
        res["log"] = out[-6000:]
        return res
    closed = len(re.findall(r"Closed under the global context", out))
    axioms = []
    for blk in re.findall(r"Axioms:\n((?:.+\n?)+?)(?:\n|$)", out):
        for line in blk.splitlines():
            m = re.match(r"^([A-Za-z0-9_.']+)\s*:", line)
            if m:
                axioms.append(m.group(1))
    res["closed"] = closed
    res["axioms"] = sorted(set(axioms))
    bad = [a for a in res["axioms"] if not any(s in a for s in _STD_AXIOMS)]
    res["nonstd_axioms"] = bad
    res["ok"] = not bad
    res["discharged"] = len(thms) if res["ok"] else 0
    res["print_assumptions"] = closed + len(re.findall(r"Axioms:", out))
    return res


_AUDIT_RE = re.compile(r"(^|[^A-Za-z_'])(Admitted|admit|Axiom|Axioms|Parameter|Parameters|Conjecture|Conjectures|Admit Obligations|Unset Guard Checking|Unset Positivity Checking|Unset Universe Checking|bypass_check|Local Unset Guard)([^A-Za-z_']|$)")


def coq_cone(vrel):
    """Transitive set of project files (relative to coq/) that vrel depends on (incl. itself)."""
    seen, todo = set(), [vrel]
    while todo:
        f = todo.pop()
        if f in seen or not os.path.exists(os.path.join(COQ, f)):
            continue
        seen.add(f)
        text = re.sub(r"\(\*.*?\*\)", "", open(os.path.join(COQ, f), errors="replace").read(), flags=re.S)
        for m in re.finditer(r"Require\s+(?:Import\s+|Export\s+)?(.*?)\.(?=\s)", text + "\n", flags=re.S):
            for mod in m.group(1).split():
                mod = mod.strip()
                if mod.startswith(NS + "."):
                    mod = mod[len(NS) + 1:]
                cand = mod.replace(".", "/") + ".v"
                if os.path.exists(os.path.join(COQ, cand)):
                    todo.append(cand)
    return sorted(seen)


def _strip_comments(text):
    out, depth, i = [], 0, 0
    while i < len(text):
        if text.startswith("(*", i):
            depth += 1; i += 2
        elif text.startswith("*)", i) and depth > 0:
            depth -= 1; i += 2
        else:
            if depth == 0:
                out.append(text[i])
            elif text[i] == "\n":
                out.append("\n")
            i += 1
    return "".join(out)


def audit(pid=None):
    """No Axiom/Parameter/Admitted/admit/disabled kernel checks, and no Variable/Hypothesis outside a Section,
    in the dependency cone of Props/<pid>.v (whole development when pid is None)."""
    files = coq_cone("Props/%s.v" % pid) if pid else _v_files()
    bad = []
    for f in files:
        text = _strip_comments(open(os.path.join(COQ, f), errors="replace").read())
        depth = 0
        for i, line in enumerate(text.splitlines(), 1):
            if _AUDIT_RE.search(line):
                bad.append("%s:%d: %s" % (f, i, line.strip()[:120]))
            if re.match(r"^\s*(Section|Module)\b", line) and not re.match(r"^\s*Module\s+(Import|Export)\b", line):
                depth += 1
            elif re.match(r"^\s*End\b", line) and depth > 0:
                depth -= 1
            elif re.match(r"^\s*(Variable|Variables|Hypothesis|Hypotheses|Context)\b", line) and depth == 0:
                bad.append("%s:%d: %s (outside a Section)" % (f, i, line.strip()[:120]))
    return (not bad), ("audit ok (%d files)" % len(files) if not bad else "AUDIT FAIL\n" + "\n".join(bad[:20]))


def coqchk(pid, timeout=3000):
    """Independent re-check of Props/<ID>.vo and everything it depends on (thorough tier)."""
    with _Lock("coq"):
        rc, out = sh(["coqchk", "-silent", "-o", "-Q", ".", NS, "%s.Props.%s" % (NS, pid)], cwd=COQ, timeout=timeout)
    return rc == 0, out[-4000:]


def theorem_statements(pid, limit=6):
    src = os.path.join(COQ, "Props/%s.v" % pid)
    if not os.path.exists(src):
        return []
    text = open(src).read()
    out = []
    for m in re.finditer(r"^\s*(?:Theorem|Corollary)\s+([A-Za-z0-9_']+)(.*?)\.\s*$", text, re.M | re.S):
        st = " ".join((m.group(1) + m.group(2)).split())
        out.append(st[:400])
        if len(out) >= limit:
            break
    return out


def write_if_changed(path, text):
    """Write a generated file only when its content changed (keeps make's timestamps quiet)."""
    old = open(path).read() if os.path.exists(path) else None
    if old != text:
        os.makedirs(os.path.dirname(path), exist_ok=True)
        with open(path, "w") as f:
            f.write(text)
        return True
    return False


# ---------------------------------------------------------------- Go harness

UTIL_GO = os.path.join(HARNESS, "util", "zz_verif_util_test.go.tmpl")


def make_overlay(ctx, pkg_dir, files, pkg_name=None, with_util=True, extra_replace=None):
    """Build an overlay json mapping harness files into /repo/<pkg_dir>.
    files: paths relative to harness/overlay/ . Returns overlay path."""
    rep = {}
    for f in files:
        src = os.path.join(HARNESS, "overlay", f)
        dst = os.path.join(REPO, pkg_dir, os.path.basename(f))
        rep[dst] = src
    if with_util:
        if pkg_name is None:
            pkg_name = detect_pkg_name(os.path.join(REPO, pkg_dir))
        util = open(UTIL_GO).read().replace("package PKGNAME", "package " + pkg_name)
        fd, up = tempfile.mkstemp(prefix="zz_verif_util_%s_" % pkg_dir.replace("/", "_"), suffix="_test.go", dir=ctx.tmp)
        os.close(fd)
        with open(up, "w") as f:
            f.write(util)
        rep[os.path.join(REPO, pkg_dir, "zz_verif_util_test.go")] = up
    if extra_replace:
        rep.update(extra_replace)
    op = tempfile.mkstemp(prefix="overlay-", suffix=".json", dir=ctx.tmp)[1]
    with open(op, "w") as f:
        json.dump({"Replace": rep}, f)
    return op


def detect_pkg_name(d):
    for f in sorted(glob.glob(os.path.join(d, "*.go"))):
        if f.endswith("_test.go"):
            continue
        for line in open(f, errors="replace"):
            m = re.match(r"^package\s+(\w+)", line)
            if m:
                return m.group(1)
    raise RuntimeError("no package in " + d)


def go_harness(ctx, pkg_dir, run, files, n, env=None, timeout=900, race=False, pkg_name=None,
               extra_replace=None, tags=None, out_name="out.jsonl"):
    """go test -overlay ... -run <run> ./<pkg_dir> in /repo's *current working tree*.
    The test writes JSON lines to $VERIF_OUT. Returns dict(rc, log, records)."""
    ov = make_overlay(ctx, pkg_dir, files, pkg_name=pkg_name, extra_replace=extra_replace)
    outp = os.path.join(ctx.tmp, out_name)
    if os.path.exists(outp):
        os.remove(outp)
    e = go_env({"VERIF_OUT": outp, "VERIF_SEED": str(ctx.seed), "VERIF_N": str(n),
                "VERIF_TIER": ctx.tier, "VERIF_TMP": ctx.tmp, "VERIF_ROOT": ROOT})
    if ctx.replay:
        e["VERIF_REPLAY"] = os.path.abspath(ctx.replay)
    if env:
        e.update(env)
    cmd = ["go", "test", "-overlay", ov, "-count=1", "-vet=off", "-run", run, "-timeout", "%ds" % timeout]
    if race:
        cmd.append("-race")
    if tags:
        cmd += ["-tags", tags]
    cmd.append("./" + pkg_dir)
    rc, log = sh(cmd, cwd=REPO, env=e, timeout=timeout + 120)
    recs = []
    if os.path.exists(outp):
        for line in open(outp, errors="replace"):
            line = line.strip()
            if line:
                try:
                    recs.append(json.loads(line))
                except Exception:
                    pass
    return dict(rc=rc, log=log[-8000:], records=recs, overlay=ov)


# ---------------------------------------------------------------- model evaluation

def coq_eval_cases(ctx, pid, imports, case_type, mismatch_fn, cases, shard=400, show_fn=None, tag=""):
    """cases: list of Coq terms (strings) of type case_type.
    mismatch_fn : list case_type -> list N  returns the (0-based) indexes of the cases on which
    the model's output differs from the implementation's recorded output.
    Returns dict(ok, bad=[global indexes], log, evaluated)."""
    bad, logs, evaluated = [], [], 0
    okall = True
    shown = {}
    for s in range(0, len(cases), shard):
        chunk = cases[s:s + shard]
        name = "cases_%s%s_%d_p%d" % (pid, tag, s // shard, os.getpid())
        vf = os.path.join(COQ, "Run", name + ".v")
        with open(vf, "w") as f:
            f.write("(* generated by the correspondence harness; do not edit *)\n")
            for imp in imports:
                f.write(imp + "\n")
            f.write("Require Import Coq.Lists.List Coq.NArith.NArith Coq.ZArith.ZArith Coq.Strings.String.\nImport ListNotations.\nOpen Scope N_scope.\n")
            f.write("Definition cases : list (%s) := [\n" % case_type)
            f.write(";\n".join(chunk))
            f.write("\n].\n")
            f.write("Definition bad := Eval vm_compute in (%s cases).\n" % mismatch_fn)
            f.write("Print bad.\n")
        rc, out = sh(["coqc", "-Q", ".", NS, "-w", "-all", os.path.join("Run", name + ".v")], cwd=COQ, timeout=1800)
        flat = " ".join(out.split())
        m = re.search(r"bad = \[(.*?)\] : list N", flat)
        for ext in (".v", ".vo", ".vok", ".vos", ".glob"):
            p = os.path.join(COQ, "Run", name + ext)
            if rc == 0 and os.path.exists(p):
                os.remove(p)
        aux = os.path.join(COQ, "Run", "." + name + ".aux")
        if os.path.exists(aux):
            os.remove(aux)
        if rc != 0 or not m:
            okall = False
            logs.append(out[-3000:])
            continue
        evaluated += len(chunk)
        body = m.group(1).strip()
        if body:
            for tok in body.split(";"):
                tok = tok.strip().replace("%N", "")
                if tok:
                    bad.append(s + int(tok))
    return dict(ok=okall, bad=bad, log="\n".join(logs), evaluated=evaluated)


def coq_eval_term(ctx, imports, term, timeout=600):
    """Evaluate one closed term with vm_compute and return coqc's printed output (flattened)."""
    name = "cases_eval_%s_%d" % (ctx.pid, int(time.time() * 1000) % 100000)
    vf = os.path.join(COQ, "Run", name + ".v")
    with open(vf, "w") as f:
        for imp in imports:
            f.write(imp + "\n")
        f.write("Require Import Coq.Lists.List Coq.NArith.NArith Coq.ZArith.ZArith.\nImport ListNotations.\nOpen Scope N_scope.\n")
        f.write("Definition r := Eval vm_compute in (%s).\nPrint r.\n" % term)
    rc, out = sh(["coqc", "-Q", ".", NS, "-w", "-all", os.path.join("Run", name + ".v")], cwd=COQ, timeout=timeout)
    for p in glob.glob(os.path.join(COQ, "Run", name + ".*")) + glob.glob(os.path.join(COQ, "Run", "." + name + ".aux")):
        os.remove(p)
    return rc, " ".join(out.split())


# ---------------------------------------------------------------- known findings

def known_findings(pid):
    p = os.path.join(ROOT, "known-findings.json")
    if not os.path.exists(p):
        return []
    data = json.load(open(p))
    return [k for k in data.get("findings", []) if k.get("property") == pid and k.get("status", "open") == "open"]


def match_known(pid, key):
    """key: the finding key string the check computed for a failing input."""
    for k in known_findings(pid):
        if k.get("key") == key or (k.get("key_regex") and re.search(k["key_regex"], key)):
            return k
    return None


# ---------------------------------------------------------------- verdict + evidence

def write_replay(ctx, obj, suffix=""):
    os.makedirs(REPLAYS, exist_ok=True)
    p = os.path.join(REPLAYS, "%s%s-%s-%d.json" % (ctx.pid, suffix, ctx.tier, ctx.seed))
    with open(p, "w") as f:
        json.dump(obj, f, indent=1, default=str)
    return p


def finish(ctx, level, proofs, coverage, failures=(), broken=(), assumptions=(), extra=None):
    """failures: list of dict(key=<finding key>, what=<text>, replay=<obj>) — concrete failing inputs
    of the PROPERTY on the implementation (from the Go-side oracle or the hunt).
    broken: list of str — proof obligations / correspondences that no longer check (without a
    concrete failing input).  Prints the verdict lines, writes evidence, returns exit code."""
    pid = ctx.pid
    viol = 0
    seen_known = {}
    unknown = []
    for f in failures:
        k = match_known(pid, f.get("key", ""))
        if k:
            seen_known.setdefault(k["key"] if "key" in k else k["key_regex"], (k, f))
        else:
            unknown.append(f)
    for kk, (k, f) in seen_known.items():
        print("KNOWN-FINDING: property=%s %s" % (pid, k.get("what", f.get("what", ""))))
    # known findings that are listed but were not re-observed are still announced (they are findings of the tree)
    for k in known_findings(pid):
        kk = k.get("key") or k.get("key_regex")
        if kk not in seen_known and k.get("always_report", True):
            print("KNOWN-FINDING: property=%s %s (not re-observed in this run)" % (pid, k.get("what", "")))
    if unknown:
        # group by key, one replay per distinct key (first = smallest by size of its json)
        bykey = {}
        for f in unknown:
            bykey.setdefault(f.get("key", "?"), []).append(f)
        for key, fs in bykey.items():
            fs.sort(key=lambda x: len(json.dumps(x.get("replay", ""), default=str)))
            rp = write_replay(ctx, dict(property=pid, kind="failing-input", key=key, what=fs[0].get("what"),
                                        replay=fs[0].get("replay"), count=len(fs)),
                              suffix="-" + hashlib.sha1(key.encode()).hexdigest()[:8])
            print("VIOLATION property=%s replay=%s" % (pid, rp))
            viol += 1
    elif broken:
        rp = write_replay(ctx, dict(property=pid, kind="no-failing-input-found", broken=list(broken),
                                    note="the named proof obligation / correspondence no longer checks; the search for a concrete failing input of the property found none"),
                          suffix="-broken")
        print("VIOLATION property=%s replay=%s no-failing-input-found" % (pid, rp))
        viol += 1
    cov = dict(coverage)
    cov.setdefault("obligations", proofs.get("obligations", 0))
    cov.setdefault("discharged", proofs.get("discharged", 0))
    cov.setdefault("checker_cmd", "cd /verif/coq && make Props/%s.vo (coq_makefile full .vo build, coqc 8.16.1) + Print Assumptions" % pid)
    tb = list(KERNEL_TB)
    if proofs.get("axioms"):
        tb.append("axioms reported by Print Assumptions: " + ", ".join(proofs["axioms"]))
    else:
        tb.append("Print Assumptions: Closed under the global context for all %d property theorems" % proofs.get("obligations", 0))
    tb += list(cov.get("trusted_base", []))
    cov["trusted_base"] = tb
    cov.setdefault("theorems", proofs.get("theorems", []))
    cov.setdefault("theorem_statements", theorem_statements(pid))
    if "samples" not in cov or not cov["samples"]:
        cov["samples"] = cov.get("theorem_statements", ["(none)"])[:3] or ["(none)"]
    cov.setdefault("evaluations", 0)
    cov.setdefault("distinct_nontrivial", 0)
    ev = dict(property_id=pid, tier=ctx.tier, seed=ctx.seed, level=level, coverage=cov,
              assumptions=list(assumptions), wall_s=round(time.time() - ctx.t0, 2), violations=viol)
    if extra:
        ev.update(extra)
    # evidence/<ID>.json must describe runs against /repo itself: runs against a scratch tree (VERIF_REPO=...,
    # used to try mutants/seeded changes) write their record elsewhere.
    evdir = EVID if os.path.realpath(REPO) == "/repo" else os.path.join(REPLAYS, "evidence-scratch")
    os.makedirs(evdir, exist_ok=True)
    with open(os.path.join(evdir, pid + ".json"), "w") as f:
        json.dump(ev, f, indent=1, default=str)
    if viol == 0:
        print("OK property=%s tier=%s obligations=%d discharged=%d evaluations=%d wall=%.1fs" % (
            pid, ctx.tier, cov["obligations"], cov["discharged"], cov["evaluations"], time.time() - ctx.t0))
    return 1 if viol else 0


def distinct_nontrivial(records, key="key", nontrivial="nontrivial"):
    s = set()
    for r in records:
        if r.get(nontrivial, True):
            s.add(r.get(key) or hashlib.sha1(json.dumps(r, sort_keys=True, default=str).encode()).hexdigest())
    return len(s)


def histogram(records, field):
    h = {}
    for r in records:
        v = r.get(field)
        if isinstance(v, list):
            for x in v:
                h[str(x)] = h.get(str(x), 0) + 1
        elif v is not None:
            h[str(v)] = h.get(str(v), 0) + 1
    return dict(sorted(h.items(), key=lambda kv: -kv[1])[:40])


def standard_check(ctx, spec):
    """The common pipeline:  proofs  +  correspondence (Go harness -> cases -> vm_compute)  +  Go-side
    property oracle.  spec keys:
      harness: dict(pkg_dir, run, files, n_quick, n_thorough, env?, race?, timeout?)
               the test writes records: {"kind":"case","coq":<term>,"key":..,"nontrivial":bool,"sample":{..},"class":..}
                                        {"kind":"oracle_fail","key":..,"what":..,"replay":{..}}
                                        {"kind":"info", ...}
      runner: dict(imports=[...], case_type, mismatch_fn)
      level, trusted_base, assumptions, rule
    """
    pid = ctx.pid
    proofs = coq_props(ctx, pid, extra_targets=spec.get("extra_targets", ()))
    broken, failures = [], []
    aok, aout = audit(pid)
    if not aok:
        proofs["ok"] = False
        proofs["discharged"] = 0
        broken.append("audit: the development contains Admitted/Axiom/Parameter or disables a kernel check: " + aout[-800:])
    if ctx.tier == "thorough" and proofs["ok"]:
        cok, cout = coqchk(pid)
        proofs["coqchk"] = cout[-1500:]
        if not cok:
            proofs["ok"] = False
            broken.append("coqchk rejects Props/%s.vo: %s" % (pid, cout[-800:]))
    if not proofs["ok"]:
        broken.append("proof obligations of Props/%s.v do not check: %s" % (pid, (proofs.get("broken_files") or proofs.get("nonstd_axioms") or proofs["log"][-800:])))
    h = spec["harness"]
    n = ctx.n(h.get("n_quick", 300), h.get("n_thorough", 5000))
    hr = go_harness(ctx, h["pkg_dir"], h["run"], h["files"], n, env=h.get("env"), race=h.get("race", False),
                    timeout=h.get("timeout", 900 if ctx.tier == "quick" else 3600), pkg_name=h.get("pkg_name"),
                    extra_replace=h.get("extra_replace"), tags=h.get("tags"))
    recs = hr["records"]
    cases = [r for r in recs if r.get("kind") == "case"]
    for r in recs:
        if r.get("kind") == "oracle_fail":
            failures.append(dict(key=r.get("key", "?"), what=r.get("what", ""), replay=r.get("replay")))
    if hr["rc"] != 0:
        broken.append("harness %s failed (rc=%d): %s" % (h["run"], hr["rc"], hr["log"][-1500:]))
    ev = dict(ok=True, bad=[], evaluated=0, log="")
    r = spec.get("runner")
    if r and cases:
        ev = coq_eval_cases(ctx, pid, r["imports"], r["case_type"], r["mismatch_fn"], [c["coq"] for c in cases],
                            shard=r.get("shard", 400))
        if not ev["ok"]:
            broken.append("model evaluation failed: " + ev["log"][-1500:])
        for i in ev["bad"][:20]:
            c = cases[i]
            broken.append("correspondence %s: model and implementation disagree on case %s" % (r["mismatch_fn"], json.dumps(c.get("sample"), default=str)[:1500]))
    elif r and not cases and hr["rc"] == 0:
        broken.append("harness produced no cases")
    cov = dict(
        evaluations=len(cases),
        distinct_nontrivial=distinct_nontrivial(cases),
        rule=spec.get("rule", ""),
        samples=[c.get("sample") for c in cases[:3]] or [],
        traces_validated_against_impl=ev["evaluated"],
        correspondence_mismatches=len(ev["bad"]),
        oracle_failures=len(failures),
        input_distribution=histogram(cases, "class"),
        trusted_base=spec.get("trusted_base", []),
    )
    if proofs.get("coqchk"):
        cov["coqchk"] = proofs["coqchk"]
    for r_ in recs:
        if r_.get("kind") == "info":
            cov.setdefault("info", []).append({k: v for k, v in r_.items() if k != "kind"})
    return finish(ctx, spec.get("level", "proof"), proofs, cov, failures=failures, broken=broken,
                  assumptions=spec.get("assumptions", []))
