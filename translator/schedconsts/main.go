// schedconsts: regenerates coq/Generated/SchedConsts.v from the Go source of /repo (search/sched.go):
//   - default_batchdiv: the literal assigned in `if batchdiv == 0 { batchdiv = <lit> }` of newMultiScheduler,
//   - batch_cap_src: the computation of the batch semaphore's size, translated statement by statement: the
//     defining `batchCap := <expr>` (integer arithmetic over capacity / batchdiv, Go's `/` = Z.quot, conversions
//     like int64(x) dropped, max/min builtins) followed by the `if batchCap <op> <expr> { batchCap = <expr> }`
//     adjustments up to the first other use of the variable; the variable is whatever is passed as the size of
//     the batch semaphore (first argument of the newSema call stored in the semBatch field).
//
// Usage: go run main.go <repo-root>   (prints the Coq file on stdout; exit 1 with a message when the source has a
// shape this translator does not read)
package main

import (
	"fmt"
	"go/ast"
	"go/parser"
	"go/token"
	"os"
	"path/filepath"
	"strings"
)

func die(f string, a ...any) {
	fmt.Fprintf(os.Stderr, "schedconsts: "+f+"\n", a...)
	os.Exit(1)
}

var convs = map[string]bool{"int64": true, "int": true, "int32": true, "uint64": true, "uint": true, "uint32": true}

// expr translates an integer expression over the named variables to Coq (Z)
func expr(e ast.Expr, vars map[string]string) string {
	switch x := e.(type) {
	case *ast.BasicLit:
		if x.Kind != token.INT {
			die("non-integer literal %s", x.Value)
		}
		return x.Value
	case *ast.Ident:
		if v, ok := vars[x.Name]; ok {
			return v
		}
		die("unknown identifier %s in the batch capacity computation", x.Name)
	case *ast.ParenExpr:
		return expr(x.X, vars)
	case *ast.CallExpr:
		if id, ok := x.Fun.(*ast.Ident); ok {
			if convs[id.Name] && len(x.Args) == 1 {
				return expr(x.Args[0], vars)
			}
			if (id.Name == "max" || id.Name == "min") && len(x.Args) == 2 {
				return fmt.Sprintf("(Z.%s %s %s)", id.Name, expr(x.Args[0], vars), expr(x.Args[1], vars))
			}
		}
		die("unsupported call in the batch capacity computation")
	case *ast.BinaryExpr:
		a, b := expr(x.X, vars), expr(x.Y, vars)
		switch x.Op {
		case token.ADD:
			return fmt.Sprintf("(%s + %s)", a, b)
		case token.SUB:
			return fmt.Sprintf("(%s - %s)", a, b)
		case token.MUL:
			return fmt.Sprintf("(%s * %s)", a, b)
		case token.QUO:
			return fmt.Sprintf("(Z.quot %s %s)", a, b)
		case token.REM:
			return fmt.Sprintf("(Z.rem %s %s)", a, b)
		}
		die("unsupported operator %s", x.Op)
	}
	die("unsupported expression %T", e)
	return ""
}

func cond(e ast.Expr, vars map[string]string) string {
	b, ok := e.(*ast.BinaryExpr)
	if !ok {
		die("unsupported condition %T", e)
	}
	ops := map[token.Token]string{token.EQL: "=?", token.LSS: "<?", token.LEQ: "<=?", token.GTR: ">?", token.GEQ: ">=?"}
	if o, ok := ops[b.Op]; ok {
		return fmt.Sprintf("(%s %s %s)", expr(b.X, vars), o, expr(b.Y, vars))
	}
	if b.Op == token.NEQ {
		return fmt.Sprintf("(negb (%s =? %s))", expr(b.X, vars), expr(b.Y, vars))
	}
	die("unsupported comparison %s", b.Op)
	return ""
}

func mentions(n ast.Node, name string) bool {
	found := false
	ast.Inspect(n, func(m ast.Node) bool {
		if id, ok := m.(*ast.Ident); ok && id.Name == name {
			found = true
		}
		return !found
	})
	return found
}

func main() {
	root := os.Args[1]
	fset := token.NewFileSet()
	f, err := parser.ParseFile(fset, filepath.Join(root, "search", "sched.go"), nil, 0)
	if err != nil {
		die("%v", err)
	}
	var fn *ast.FuncDecl
	for _, d := range f.Decls {
		if fd, ok := d.(*ast.FuncDecl); ok && fd.Name.Name == "newMultiScheduler" && fd.Recv == nil {
			fn = fd
		}
	}
	if fn == nil || fn.Body == nil || len(fn.Type.Params.List) != 1 || len(fn.Type.Params.List[0].Names) != 1 {
		die("func newMultiScheduler(capacity) not found")
	}
	capName := fn.Type.Params.List[0].Names[0].Name

	// the tunable: <div> := zoektSched["batchdiv"]; if <div> == 0 { <div> = <lit> }
	divName, defDiv := "", ""
	for _, st := range fn.Body.List {
		if as, ok := st.(*ast.AssignStmt); ok && len(as.Lhs) == 1 && len(as.Rhs) == 1 {
			if ix, ok := as.Rhs[0].(*ast.IndexExpr); ok {
				if lit, ok := ix.Index.(*ast.BasicLit); ok && lit.Value == `"batchdiv"` {
					divName = as.Lhs[0].(*ast.Ident).Name
				}
			}
		}
		if is, ok := st.(*ast.IfStmt); ok && divName != "" && defDiv == "" && is.Init == nil {
			if c, ok := is.Cond.(*ast.BinaryExpr); ok && c.Op == token.EQL {
				if id, ok := c.X.(*ast.Ident); ok && id.Name == divName {
					if z, ok := c.Y.(*ast.BasicLit); ok && z.Value == "0" {
						for _, bs := range is.Body.List {
							if as, ok := bs.(*ast.AssignStmt); ok && len(as.Lhs) == 1 && as.Tok == token.ASSIGN {
								if id, ok := as.Lhs[0].(*ast.Ident); ok && id.Name == divName {
									if lit, ok := as.Rhs[0].(*ast.BasicLit); ok && lit.Kind == token.INT {
										defDiv = lit.Value
									}
								}
							}
						}
					}
				}
			}
		}
	}
	if divName == "" || defDiv == "" {
		die("the batchdiv tunable and its default were not found in newMultiScheduler")
	}

	// the size of the batch semaphore: semBatch: newSema(<arg>, ...)
	var sizeArg ast.Expr
	ast.Inspect(fn.Body, func(n ast.Node) bool {
		if kv, ok := n.(*ast.KeyValueExpr); ok {
			if k, ok := kv.Key.(*ast.Ident); ok && k.Name == "semBatch" {
				if call, ok := kv.Value.(*ast.CallExpr); ok && len(call.Args) >= 1 {
					sizeArg = call.Args[0]
				}
			}
		}
		return true
	})
	if sizeArg == nil {
		die("semBatch: newSema(<size>, ...) not found in newMultiScheduler")
	}
	vars := map[string]string{capName: "capacity", divName: "batchdiv"}
	var lines []string
	if id, ok := sizeArg.(*ast.Ident); ok && id.Name != capName && id.Name != divName {
		v := id.Name
		defined := false
		for _, st := range fn.Body.List {
			switch x := st.(type) {
			case *ast.AssignStmt:
				if len(x.Lhs) == 1 && len(x.Rhs) == 1 {
					if l, ok := x.Lhs[0].(*ast.Ident); ok && l.Name == v {
						if x.Tok != token.DEFINE && x.Tok != token.ASSIGN {
							die("unsupported assignment operator to %s", v)
						}
						lines = append(lines, fmt.Sprintf("  let b := %s in", expr(x.Rhs[0], vars)))
						vars[v] = "b"
						defined = true
						continue
					}
				}
			case *ast.IfStmt:
				if defined && x.Init == nil && x.Else == nil && mentions(x.Cond, v) {
					if len(x.Body.List) != 1 {
						die("unsupported adjustment of %s", v)
					}
					as, ok := x.Body.List[0].(*ast.AssignStmt)
					if !ok || len(as.Lhs) != 1 || as.Tok != token.ASSIGN {
						die("unsupported adjustment of %s", v)
					}
					if l, ok := as.Lhs[0].(*ast.Ident); !ok || l.Name != v {
						die("unsupported adjustment of %s", v)
					}
					lines = append(lines, fmt.Sprintf("  let b := if %s then %s else b in", cond(x.Cond, vars), expr(as.Rhs[0], vars)))
					continue
				}
			}
			if defined && mentions(st, v) {
				if _, isRet := st.(*ast.ReturnStmt); !isRet {
					die("statement at %s uses %s in a way this translator does not read", fset.Position(st.Pos()), v)
				}
			}
		}
		if !defined {
			die("no definition of %s found", v)
		}
		lines = append(lines, "  b.")
	} else {
		lines = append(lines, "  "+expr(sizeArg, vars)+".")
	}

	fmt.Println("(* GENERATED by translator/schedconsts from search/sched.go (newMultiScheduler) - do not edit *)")
	fmt.Println("From Coq Require Import ZArith.")
	fmt.Println("Local Open Scope Z_scope.")
	fmt.Println()
	fmt.Println("(* `if batchdiv == 0 { batchdiv = <default> }` *)")
	fmt.Printf("Definition default_batchdiv : Z := %s.\n\n", defDiv)
	fmt.Println("(* size of the batch semaphore as newMultiScheduler computes it (Go's integer `/` is Z.quot) *)")
	fmt.Println("Definition batch_cap_src (capacity batchdiv : Z) : Z :=")
	fmt.Println(strings.Join(lines, "\n"))
}
