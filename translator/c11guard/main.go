// Translator for C11 (posting-list iterator): regenerates coq/Generated/PostingGuard.v from /repo/index/hititer.go.
//   go run main.go <repo-root>   (prints the Coq file on stdout; stdlib only: go/ast, go/parser)
// Extracted:
//   * from (*compressedPostingIterator).next: the guard of the decoding loop — the first `if` in the body of the
//     `for` statement whose condition compares the variable that receives the SECOND result of binary.Uvarint with 0 —
//     as a pair (stops_on_zero, stops_on_negative): does the loop leave when Uvarint reports 0 bytes (truncated varint)
//     / a negative count (overflowing varint)?  The if's body must end the loop (break or return).
//   * from newCompressedPostingIterator: whether the constructor tests that variable for `< 0` before slicing b[sz:].
// A guard the translator cannot classify is printed as (false, false): the termination theorem then does not check
// and the check reports it.
package main

import (
	"fmt"
	"go/ast"
	"go/parser"
	"go/printer"
	"go/token"
	"os"
	"path/filepath"
	"strings"
)

func die(f string, a ...any) { fmt.Fprintf(os.Stderr, f+"\n", a...); os.Exit(2) }

// uvarintSize returns the name of the variable assigned the second result of binary.Uvarint in stmt, or "".
func uvarintSize(s ast.Stmt) string {
	as, ok := s.(*ast.AssignStmt)
	if !ok || len(as.Lhs) != 2 || len(as.Rhs) != 1 {
		return ""
	}
	call, ok := as.Rhs[0].(*ast.CallExpr)
	if !ok {
		return ""
	}
	sel, ok := call.Fun.(*ast.SelectorExpr)
	if !ok || sel.Sel.Name != "Uvarint" {
		return ""
	}
	if id, ok := as.Lhs[1].(*ast.Ident); ok {
		return id.Name
	}
	return ""
}

func isZero(e ast.Expr) bool {
	l, ok := e.(*ast.BasicLit)
	return ok && l.Kind == token.INT && l.Value == "0"
}
func isOne(e ast.Expr) bool {
	l, ok := e.(*ast.BasicLit)
	return ok && l.Kind == token.INT && l.Value == "1"
}
func isVar(e ast.Expr, name string) bool {
	id, ok := e.(*ast.Ident)
	return ok && id.Name == name
}

// classify returns (zero, neg, ok): for which of sz = 0 / sz < 0 the condition is true.
func classify(e ast.Expr, name string) (zero, neg, ok bool) {
	switch c := e.(type) {
	case *ast.ParenExpr:
		return classify(c.X, name)
	case *ast.BinaryExpr:
		if c.Op == token.LOR {
			z1, n1, ok1 := classify(c.X, name)
			z2, n2, ok2 := classify(c.Y, name)
			return z1 || z2, n1 || n2, ok1 && ok2
		}
		x, y, op := c.X, c.Y, c.Op
		if isVar(y, name) { // 0 >= sz  ==>  sz <= 0
			x, y = y, x
			switch op {
			case token.GEQ:
				op = token.LEQ
			case token.GTR:
				op = token.LSS
			case token.LEQ:
				op = token.GEQ
			case token.LSS:
				op = token.GTR
			}
		}
		if !isVar(x, name) {
			return false, false, false
		}
		switch {
		case op == token.LEQ && isZero(y), op == token.LSS && isOne(y):
			return true, true, true
		case op == token.LSS && isZero(y):
			return false, true, true
		case op == token.EQL && isZero(y):
			return true, false, true
		}
	}
	return false, false, false
}

func endsLoop(b *ast.BlockStmt) bool {
	if b == nil || len(b.List) == 0 {
		return false
	}
	switch s := b.List[len(b.List)-1].(type) {
	case *ast.BranchStmt:
		return s.Tok == token.BREAK
	case *ast.ReturnStmt:
		return true
	}
	return false
}

func src(fset *token.FileSet, n ast.Node) string {
	var sb strings.Builder
	printer.Fprint(&sb, fset, n)
	t := strings.Join(strings.Fields(sb.String()), " ")
	t = strings.ReplaceAll(strings.ReplaceAll(t, "(*", "( *"), "*)", "* )") // the text goes into a Coq comment
	return t
}

func b(x bool) string {
	if x {
		return "true"
	}
	return "false"
}

func main() {
	if len(os.Args) != 2 {
		die("usage: main.go <repo-root>")
	}
	fset := token.NewFileSet()
	f, err := parser.ParseFile(fset, filepath.Join(os.Args[1], "index", "hititer.go"), nil, 0)
	if err != nil {
		die("%v", err)
	}
	var nextZero, nextNeg, nextFound, newNeg, newFound bool
	nextSrc, newSrc := "(not found)", "(not found)"
	for _, d := range f.Decls {
		fd, ok := d.(*ast.FuncDecl)
		if !ok || fd.Body == nil {
			continue
		}
		switch {
		case fd.Name.Name == "next" && fd.Recv != nil && strings.Contains(src(fset, fd.Recv.List[0].Type), "compressedPostingIterator"):
			ast.Inspect(fd.Body, func(n ast.Node) bool {
				fs, ok := n.(*ast.ForStmt)
				if !ok || nextFound {
					return true
				}
				name := ""
				for _, s := range fs.Body.List {
					if v := uvarintSize(s); v != "" {
						name = v
						continue
					}
					is, ok := s.(*ast.IfStmt)
					if name == "" || !ok {
						continue
					}
					z, ng, ok := classify(is.Cond, name)
					nextFound = true
					nextSrc = src(fset, is.Cond)
					if ok && endsLoop(is.Body) {
						nextZero, nextNeg = z, ng
					}
					break
				}
				return true
			})
		case fd.Name.Name == "newCompressedPostingIterator":
			name := ""
			for _, s := range fd.Body.List {
				if v := uvarintSize(s); v != "" {
					name = v
					continue
				}
				is, ok := s.(*ast.IfStmt)
				if name == "" || !ok || newFound {
					continue
				}
				_, ng, ok := classify(is.Cond, name)
				newFound = true
				newSrc = src(fset, is.Cond)
				newNeg = ok && ng
			}
		}
	}
	if !nextFound {
		die("no guard on the byte count of binary.Uvarint found in the loop of (*compressedPostingIterator).next")
	}
	fmt.Printf(`(* GENERATED by translator/c11guard from /repo/index/hititer.go; do not edit *)
(* loop of compressedPostingIterator.next:      if %s { ...; break }
   constructor newCompressedPostingIterator:     if %s { ... } *)
Definition cpi_next_stops_on_zero : bool := %s.      (* Uvarint reported 0 bytes: truncated varint *)
Definition cpi_next_stops_on_negative : bool := %s.  (* Uvarint reported n < 0: overflowing varint *)
Definition cpi_new_checks_negative : bool := %s.
`, nextSrc, newSrc, b(nextZero), b(nextNeg), b(newNeg))
}
