// hashfields: translator for property C38.
//
// Reads the CURRENT index/builder.go and index/toc.go of the repo (cwd, or argv[1]) with go/ast and
// prints coq/Generated/HashFields.v:
//   - options_fields     : every field of struct index.Options (declaration order) with its Go type
//   - hash_struct_fields : HashOptions() composite literal: hash-struct field <- Options field
//   - hash_writes        : GetHash(): every Options field whose value reaches a call argument
//                          (hasher.Write / fmt.Appendf / Fprintf ...), in source order, with the format
//                          verb ("raw" when converted directly) and whether the write is guarded by an `if`
//   - read_versions, default_trigram_max (from SetDefaults), version constants
// Only the standard library is used (no type checking needed: the functions are matched by name/shape;
// an unrecognised shape is an error, which the check reports).
package main

import (
	"fmt"
	"go/ast"
	"go/parser"
	"go/printer"
	"go/token"
	"os"
	"path/filepath"
	"regexp"
	"strconv"
	"strings"
)

func die(f string, a ...any) {
	fmt.Fprintf(os.Stderr, "hashfields: "+f+"\n", a...)
	os.Exit(2)
}

var fset = token.NewFileSet()

func exprStr(e ast.Expr) string {
	var sb strings.Builder
	printer.Fprint(&sb, fset, e)
	return sb.String()
}

func q(s string) string { return "\"" + strings.ReplaceAll(s, "\"", "\"\"") + "\"" }

func intConst(files []*ast.File, name string) (int64, bool) {
	for _, f := range files {
		for _, d := range f.Decls {
			gd, ok := d.(*ast.GenDecl)
			if !ok || gd.Tok != token.CONST {
				continue
			}
			for _, s := range gd.Specs {
				vs := s.(*ast.ValueSpec)
				for i, n := range vs.Names {
					if n.Name == name && i < len(vs.Values) {
						if bl, ok := vs.Values[i].(*ast.BasicLit); ok && bl.Kind == token.INT {
							v, err := strconv.ParseInt(bl.Value, 0, 64)
							return v, err == nil
						}
					}
				}
			}
		}
	}
	return 0, false
}

// evalInt evaluates small constant integer expressions (literals, <<, *, named int constants).
func evalInt(files []*ast.File, e ast.Expr) (int64, bool) {
	switch x := e.(type) {
	case *ast.BasicLit:
		if x.Kind == token.INT {
			v, err := strconv.ParseInt(strings.ReplaceAll(x.Value, "_", ""), 0, 64)
			return v, err == nil
		}
	case *ast.Ident:
		return intConst(files, x.Name)
	case *ast.ParenExpr:
		return evalInt(files, x.X)
	case *ast.BinaryExpr:
		a, ok1 := evalInt(files, x.X)
		b, ok2 := evalInt(files, x.Y)
		if !ok1 || !ok2 {
			return 0, false
		}
		switch x.Op {
		case token.SHL:
			return a << uint(b), true
		case token.MUL:
			return a * b, true
		case token.ADD:
			return a + b, true
		}
	}
	return 0, false
}

func main() {
	root := "."
	if len(os.Args) > 1 {
		root = os.Args[1]
	}
	var files []*ast.File
	for _, fn := range []string{"index/builder.go", "index/toc.go"} {
		f, err := parser.ParseFile(fset, filepath.Join(root, fn), nil, 0)
		if err != nil {
			die("%v", err)
		}
		files = append(files, f)
	}
	bf := files[0]

	// ---- struct Options / HashOptions
	structFields := func(name string) [][2]string {
		var out [][2]string
		found := false
		ast.Inspect(bf, func(n ast.Node) bool {
			ts, ok := n.(*ast.TypeSpec)
			if !ok || ts.Name.Name != name {
				return true
			}
			st, ok := ts.Type.(*ast.StructType)
			if !ok {
				return true
			}
			found = true
			for _, fl := range st.Fields.List {
				if len(fl.Names) == 0 {
					out = append(out, [2]string{exprStr(fl.Type), exprStr(fl.Type)})
				}
				for _, nm := range fl.Names {
					out = append(out, [2]string{nm.Name, exprStr(fl.Type)})
				}
			}
			return false
		})
		if !found {
			die("struct %s not found", name)
		}
		return out
	}
	optFields := structFields("Options")
	isOpt := map[string]bool{}
	for _, f := range optFields {
		isOpt[f[0]] = true
	}

	method := func(name string) *ast.FuncDecl {
		for _, d := range bf.Decls {
			fd, ok := d.(*ast.FuncDecl)
			if ok && fd.Name.Name == name && fd.Recv != nil && len(fd.Recv.List) == 1 &&
				strings.TrimPrefix(exprStr(fd.Recv.List[0].Type), "*") == "Options" {
				return fd
			}
		}
		die("method Options.%s not found", name)
		return nil
	}
	recvName := func(fd *ast.FuncDecl) string {
		if len(fd.Recv.List[0].Names) == 0 {
			return "_"
		}
		return fd.Recv.List[0].Names[0].Name
	}

	// ---- HashOptions(): composite literal  field: o.Field
	ho := method("HashOptions")
	horecv := recvName(ho)
	hsrc := map[string][]string{} // hash-struct field -> Options fields mentioned in its value
	var hpairs [][2]string
	ast.Inspect(ho.Body, func(n ast.Node) bool {
		cl, ok := n.(*ast.CompositeLit)
		if !ok || exprStr(cl.Type) != "HashOptions" {
			return true
		}
		for _, el := range cl.Elts {
			kv, ok := el.(*ast.KeyValueExpr)
			if !ok {
				die("HashOptions literal is not keyed")
			}
			k := exprStr(kv.Key)
			ast.Inspect(kv.Value, func(m ast.Node) bool {
				se, ok := m.(*ast.SelectorExpr)
				if ok {
					if id, ok := se.X.(*ast.Ident); ok && id.Name == horecv && isOpt[se.Sel.Name] {
						hsrc[k] = append(hsrc[k], se.Sel.Name)
						hpairs = append(hpairs, [2]string{k, se.Sel.Name})
					}
				}
				return true
			})
		}
		return false
	})
	if len(hpairs) == 0 {
		die("HashOptions(): no `HashOptions{field: o.Field}` literal recognised")
	}

	// ---- GetHash(): variables bound to o.HashOptions(); every use of h.<f> (or o.<F>) inside a call argument
	gh := method("GetHash")
	ghrecv := recvName(gh)
	hvars := map[string]bool{}
	ast.Inspect(gh.Body, func(n ast.Node) bool {
		as, ok := n.(*ast.AssignStmt)
		if !ok {
			return true
		}
		for i, r := range as.Rhs {
			if ce, ok := r.(*ast.CallExpr); ok && strings.HasSuffix(exprStr(ce.Fun), ".HashOptions") && i < len(as.Lhs) {
				hvars[exprStr(as.Lhs[i])] = true
			}
		}
		return true
	})
	type write struct {
		field, verb string
		guarded     bool
		guard       string
	}
	var writes []write
	seen := map[string]bool{}
	var walk func(n ast.Node, guarded bool, guard string)
	visitCall := func(ce *ast.CallExpr, guarded bool, guard string) {
		verb := "raw"
		for _, a := range ce.Args {
			if bl, ok := a.(*ast.BasicLit); ok && bl.Kind == token.STRING {
				if s, err := strconv.Unquote(bl.Value); err == nil && strings.Contains(s, "%") {
					verb = s
				}
			}
		}
		for _, a := range ce.Args {
			ast.Inspect(a, func(m ast.Node) bool {
				if inner, ok := m.(*ast.CallExpr); ok && inner != ce {
					// nested call (fmt.Appendf inside hasher.Write): handled by its own visit
					return false
				}
				se, ok := m.(*ast.SelectorExpr)
				if !ok {
					return true
				}
				id, ok := se.X.(*ast.Ident)
				if !ok {
					return true
				}
				var fields []string
				if hvars[id.Name] {
					fields = hsrc[se.Sel.Name]
					if len(fields) == 0 {
						die("GetHash uses %s.%s which HashOptions() does not fill from an Options field", id.Name, se.Sel.Name)
					}
				} else if id.Name == ghrecv && isOpt[se.Sel.Name] {
					fields = []string{se.Sel.Name}
				}
				for _, f := range fields {
					if !seen[f] {
						seen[f] = true
						writes = append(writes, write{f, verb, guarded, guard})
					}
				}
				return true
			})
		}
	}
	walk = func(n ast.Node, guarded bool, guard string) {
		switch x := n.(type) {
		case nil:
			return
		case *ast.BlockStmt:
			for _, s := range x.List {
				walk(s, guarded, guard)
			}
		case *ast.IfStmt:
			walk(x.Init, guarded, guard)
			g := exprStr(x.Cond)
			if guard != "" {
				g = guard + " && " + g
			}
			walk(x.Body, true, g)
			if x.Else != nil {
				walk(x.Else, true, "else:"+g)
			}
		case *ast.ForStmt:
			walk(x.Body, true, guard)
		case *ast.RangeStmt:
			// `for _, k := range keys(h.languageMap)`: the ranged expression reaches the writes in the body
			ast.Inspect(x.X, func(m ast.Node) bool {
				if se, ok := m.(*ast.SelectorExpr); ok {
					if id, ok := se.X.(*ast.Ident); ok && hvars[id.Name] {
						// only counts if the body writes something
						hasCall := false
						ast.Inspect(x.Body, func(k ast.Node) bool {
							if _, ok := k.(*ast.CallExpr); ok {
								hasCall = true
							}
							return true
						})
						if hasCall {
							for _, f := range hsrc[se.Sel.Name] {
								if !seen[f] {
									seen[f] = true
									writes = append(writes, write{f, "range", true, guard})
								}
							}
						}
					}
				}
				return true
			})
			walk(x.Body, true, guard)
		default:
			ast.Inspect(n, func(m ast.Node) bool {
				if ce, ok := m.(*ast.CallExpr); ok {
					// only calls that (transitively) feed the hasher: Write/Appendf/Fprintf/Sprintf/[]byte(...)
					visitCall(ce, guarded, guard)
				}
				return true
			})
		}
	}
	walk(gh.Body, false, "")
	if len(writes) == 0 {
		die("GetHash(): no hashed field recognised")
	}

	// ---- readVersions
	type rv struct{ f, v int64 }
	var rvs []rv
	for _, d := range bf.Decls {
		gd, ok := d.(*ast.GenDecl)
		if !ok || gd.Tok != token.VAR {
			continue
		}
		for _, s := range gd.Specs {
			vs := s.(*ast.ValueSpec)
			if len(vs.Names) != 1 || vs.Names[0].Name != "readVersions" || len(vs.Values) != 1 {
				continue
			}
			cl, ok := vs.Values[0].(*ast.CompositeLit)
			if !ok {
				die("readVersions: not a composite literal")
			}
			for _, el := range cl.Elts {
				ecl, ok := el.(*ast.CompositeLit)
				if !ok {
					die("readVersions: element shape")
				}
				var r rv
				for _, kvx := range ecl.Elts {
					kv, ok := kvx.(*ast.KeyValueExpr)
					if !ok {
						die("readVersions: unkeyed element")
					}
					v, ok := evalInt(files, kv.Value)
					if !ok {
						die("readVersions: cannot evaluate %s", exprStr(kv.Value))
					}
					switch exprStr(kv.Key) {
					case "IndexFormatVersion":
						r.f = v
					case "FeatureVersion":
						r.v = v
					default:
						die("readVersions: unknown key %s", exprStr(kv.Key))
					}
				}
				rvs = append(rvs, r)
			}
		}
	}
	if len(rvs) == 0 {
		die("readVersions not found")
	}

	// ---- SetDefaults: `if o.TrigramMax == 0 { o.TrigramMax = N }` and friends
	sd := method("SetDefaults")
	sdrecv := recvName(sd)
	defaults := map[string]int64{}
	ast.Inspect(sd.Body, func(n ast.Node) bool {
		is, ok := n.(*ast.IfStmt)
		if !ok {
			return true
		}
		be, ok := is.Cond.(*ast.BinaryExpr)
		if !ok || be.Op != token.EQL || exprStr(be.Y) != "0" {
			return true
		}
		lhs := exprStr(be.X)
		for _, s := range is.Body.List {
			as, ok := s.(*ast.AssignStmt)
			if ok && len(as.Lhs) == 1 && exprStr(as.Lhs[0]) == lhs && strings.HasPrefix(lhs, sdrecv+".") {
				if v, ok := evalInt(files, as.Rhs[0]); ok {
					defaults[strings.TrimPrefix(lhs, sdrecv+".")] = v
				}
			}
		}
		return true
	})

	ifv, ok1 := intConst(files, "IndexFormatVersion")
	fv, ok2 := intConst(files, "FeatureVersion")
	nfv, ok3 := intConst(files, "NextIndexFormatVersion")
	if !ok1 || !ok2 || !ok3 {
		die("version constants not found")
	}

	var b strings.Builder
	b.WriteString("(* GENERATED by translator/hashfields from index/builder.go + index/toc.go of the checked tree. Do not edit. *)\n")
	b.WriteString("From Coq Require Import List String NArith ZArith.\nImport ListNotations.\nOpen Scope string_scope.\n\n")
	b.WriteString("(* every field of struct index.Options, with its Go type *)\nDefinition options_fields_typed : list (string * string) := [\n")
	for i, f := range optFields {
		sep := ";"
		if i == len(optFields)-1 {
			sep = ""
		}
		fmt.Fprintf(&b, "  (%s, %s)%s\n", q(f[0]), q(f[1]), sep)
	}
	b.WriteString("].\nDefinition options_fields : list string := map fst options_fields_typed.\n\n")
	b.WriteString("(* HashOptions(): hash-struct field <- Options field *)\nDefinition hash_struct_fields : list (string * string) := [\n")
	for i, p := range hpairs {
		sep := ";"
		if i == len(hpairs)-1 {
			sep = ""
		}
		fmt.Fprintf(&b, "  (%s, %s)%s\n", q(p[0]), q(p[1]), sep)
	}
	b.WriteString("].\n\n(* GetHash(): Options fields that reach the hasher, in write order: (field, format, guarded by an if/loop) *)\n")
	b.WriteString("Definition hash_writes : list (string * string * bool) := [\n")
	for i, w := range writes {
		sep := ";"
		if i == len(writes)-1 {
			sep = ""
		}
		fmt.Fprintf(&b, "  (%s, %s, %v)%s\n", q(w.field), q(w.verb), w.guarded, sep)
	}
	b.WriteString("].\nDefinition hashed_fields : list string := map (fun x => fst (fst x)) hash_writes.\n\n")
	b.WriteString("(* the if-conditions guarding each write (empty = unconditional) *)\nDefinition hash_guards : list (string * string) := [\n")
	for i, w := range writes {
		sep := ";"
		if i == len(writes)-1 {
			sep = ""
		}
		fmt.Fprintf(&b, "  (%s, %s)%s\n", q(w.field), q(w.guard), sep)
	}
	b.WriteString("].\n")
	// fields written under `h.f != 0 && h.f != <the SetDefaults default of F>`: zero is hashed like the default
	var zd []string
	guardRe := regexp.MustCompile(`^(\w+)\.(\w+) != 0 && (\w+)\.(\w+) != (\w+)$`)
	for _, w := range writes {
		m := guardRe.FindStringSubmatch(w.guard)
		if m == nil || m[1] != m[3] || m[2] != m[4] || !hvars[m[1]] || len(hsrc[m[2]]) != 1 || hsrc[m[2]][0] != w.field {
			continue
		}
		cv, ok := intConst(files, m[5])
		if dv, ok2 := defaults[w.field]; ok && ok2 && cv == dv {
			zd = append(zd, q(w.field))
		}
	}
	fmt.Fprintf(&b, "Definition zero_is_default_fields : list string := [%s].\n\n", strings.Join(zd, "; "))
	fmt.Fprintf(&b, "Definition index_format_version : N := %d%%N.\nDefinition feature_version : N := %d%%N.\nDefinition next_index_format_version : N := %d%%N.\n", ifv, fv, nfv)
	b.WriteString("(* readVersions: (IndexFormatVersion, FeatureVersion) *)\nDefinition read_versions : list (N * N) := [")
	for i, r := range rvs {
		if i > 0 {
			b.WriteString("; ")
		}
		fmt.Fprintf(&b, "(%d%%N, %d%%N)", r.f, r.v)
	}
	b.WriteString("].\n")
	b.WriteString("(* SetDefaults: `if o.F == 0 { o.F = v }` *)\nDefinition int_defaults : list (string * Z) := [")
	first := true
	for _, f := range optFields {
		if v, ok := defaults[f[0]]; ok {
			if !first {
				b.WriteString("; ")
			}
			first = false
			fmt.Fprintf(&b, "(%s, %d%%Z)", q(f[0]), v)
		}
	}
	b.WriteString("].\n")
	fmt.Print(b.String())
}
