// hashfields: translator for property C38.
//
// Reads the CURRENT index/builder.go and index/toc.go of the repo (cwd, or argv[1]) with go/ast and
// prints coq/Generated/HashFields.v:
//   - options_fields     : every field of struct index.Options (declaration order) with its Go type
//   - hash_struct_fields : HashOptions() composite literal: hash-struct field <- Options field
//   - hash_prog          : GetHash(), read statement by statement: one hitem (Model/HashProg.v) per place where an
//                          Options field is fed into the hasher: field, format, if-guard, and HOW the value is written
//                          (FValue: the value itself / FSortedEntries: map entries in key order / FUnknown: anything
//                          else, e.g. a sorted copy, a derived value, an unordered map range, an in-place mutation);
//                          hash_prog_unrecognised: statements that fit no recognised shape
//   - read_versions, default_trigram_max (from SetDefaults), version constants
// Only the standard library is used (no type checking needed: the functions are matched by name/shape;
// an unrecognised shape is an error, which the check reports).
package main

import (
	"fmt"
	"go/ast"
	"go/parser"
	"go/printer"
	"go/token"
	"os"
	"path/filepath"
	"regexp"
	"sort"
	"strconv"
	"strings"
)

func die(f string, a ...any) {
	fmt.Fprintf(os.Stderr, "hashfields: "+f+"\n", a...)
	os.Exit(2)
}

var fset = token.NewFileSet()

func exprStr(e ast.Expr) string {
	var sb strings.Builder
	printer.Fprint(&sb, fset, e)
	return sb.String()
}

func exprStr2(n ast.Node) string {
	var sb strings.Builder
	printer.Fprint(&sb, fset, n)
	return strings.Join(strings.Fields(sb.String()), " ")
}

func q(s string) string { return "\"" + strings.ReplaceAll(s, "\"", "\"\"") + "\"" }

func intConst(files []*ast.File, name string) (int64, bool) {
	for _, f := range files {
		for _, d := range f.Decls {
			gd, ok := d.(*ast.GenDecl)
			if !ok || gd.Tok != token.CONST {
				continue
			}
			for _, s := range gd.Specs {
				vs := s.(*ast.ValueSpec)
				for i, n := range vs.Names {
					if n.Name == name && i < len(vs.Values) {
						if bl, ok := vs.Values[i].(*ast.BasicLit); ok && bl.Kind == token.INT {
							v, err := strconv.ParseInt(bl.Value, 0, 64)
							return v, err == nil
						}
					}
				}
			}
		}
	}
	return 0, false
}

// evalInt evaluates small constant integer expressions (literals, <<, *, named int constants).
func evalInt(files []*ast.File, e ast.Expr) (int64, bool) {
	switch x := e.(type) {
	case *ast.BasicLit:
		if x.Kind == token.INT {
			v, err := strconv.ParseInt(strings.ReplaceAll(x.Value, "_", ""), 0, 64)
			return v, err == nil
		}
	case *ast.Ident:
		return intConst(files, x.Name)
	case *ast.ParenExpr:
		return evalInt(files, x.X)
	case *ast.BinaryExpr:
		a, ok1 := evalInt(files, x.X)
		b, ok2 := evalInt(files, x.Y)
		if !ok1 || !ok2 {
			return 0, false
		}
		switch x.Op {
		case token.SHL:
			return a << uint(b), true
		case token.MUL:
			return a * b, true
		case token.ADD:
			return a + b, true
		}
	}
	return 0, false
}

func main() {
	root := "."
	if len(os.Args) > 1 {
		root = os.Args[1]
	}
	var files []*ast.File
	for _, fn := range []string{"index/builder.go", "index/toc.go"} {
		f, err := parser.ParseFile(fset, filepath.Join(root, fn), nil, 0)
		if err != nil {
			die("%v", err)
		}
		files = append(files, f)
	}
	bf := files[0]

	// ---- struct Options / HashOptions
	structFields := func(name string) [][2]string {
		var out [][2]string
		found := false
		ast.Inspect(bf, func(n ast.Node) bool {
			ts, ok := n.(*ast.TypeSpec)
			if !ok || ts.Name.Name != name {
				return true
			}
			st, ok := ts.Type.(*ast.StructType)
			if !ok {
				return true
			}
			found = true
			for _, fl := range st.Fields.List {
				if len(fl.Names) == 0 {
					out = append(out, [2]string{exprStr(fl.Type), exprStr(fl.Type)})
				}
				for _, nm := range fl.Names {
					out = append(out, [2]string{nm.Name, exprStr(fl.Type)})
				}
			}
			return false
		})
		if !found {
			die("struct %s not found", name)
		}
		return out
	}
	optFields := structFields("Options")
	isOpt := map[string]bool{}
	for _, f := range optFields {
		isOpt[f[0]] = true
	}

	method := func(name string) *ast.FuncDecl {
		for _, d := range bf.Decls {
			fd, ok := d.(*ast.FuncDecl)
			if ok && fd.Name.Name == name && fd.Recv != nil && len(fd.Recv.List) == 1 &&
				strings.TrimPrefix(exprStr(fd.Recv.List[0].Type), "*") == "Options" {
				return fd
			}
		}
		die("method Options.%s not found", name)
		return nil
	}
	recvName := func(fd *ast.FuncDecl) string {
		if len(fd.Recv.List[0].Names) == 0 {
			return "_"
		}
		return fd.Recv.List[0].Names[0].Name
	}

	// ---- HashOptions(): composite literal  field: o.Field
	ho := method("HashOptions")
	horecv := recvName(ho)
	hsrc := map[string][]string{} // hash-struct field -> Options fields mentioned in its value
	hexact := map[string]string{} // hash-struct field -> Options field, when the value is exactly `o.Field`
	var hpairs [][2]string
	ast.Inspect(ho.Body, func(n ast.Node) bool {
		cl, ok := n.(*ast.CompositeLit)
		if !ok || exprStr(cl.Type) != "HashOptions" {
			return true
		}
		for _, el := range cl.Elts {
			kv, ok := el.(*ast.KeyValueExpr)
			if !ok {
				die("HashOptions literal is not keyed")
			}
			k := exprStr(kv.Key)
			if se, ok := kv.Value.(*ast.SelectorExpr); ok {
				if id, ok := se.X.(*ast.Ident); ok && id.Name == horecv && isOpt[se.Sel.Name] {
					hexact[k] = se.Sel.Name
				}
			}
			ast.Inspect(kv.Value, func(m ast.Node) bool {
				se, ok := m.(*ast.SelectorExpr)
				if ok {
					if id, ok := se.X.(*ast.Ident); ok && id.Name == horecv && isOpt[se.Sel.Name] {
						hsrc[k] = append(hsrc[k], se.Sel.Name)
						hpairs = append(hpairs, [2]string{k, se.Sel.Name})
					}
				}
				return true
			})
		}
		return false
	})
	if len(hpairs) == 0 {
		die("HashOptions(): no `HashOptions{field: o.Field}` literal recognised")
	}

	// ---- GetHash(): a statement-level reading of the function body. Every statement must have one of the
	// recognised shapes; what is not recognised is reported (hash_prog_unrecognised / FUnknown / GUnknown) and
	// fails the proof obligation prog_ok.
	gh := method("GetHash")
	ghrecv := recvName(gh)
	hvars := map[string]bool{}      // idents bound to o.HashOptions()
	hasherVars := map[string]bool{} // idents bound to sha1.New()
	type local struct {
		kind   string // "sortedKeys" | "derived"
		fields []string
		src    string
	}
	locals := map[string]local{}
	tainted := map[string]string{} // Options field -> source of the statement that may have altered what is hashed
	var unrecognised []string
	type item struct{ field, verb, guard, form string }
	var items []item
	type guardInfo struct{ field, coq, src string }

	// exactField: e is exactly h.<f> (with HashOptions filling f from exactly one Options field, untransformed) or o.<F>
	exactField := func(e ast.Expr) (string, bool) {
		se, ok := e.(*ast.SelectorExpr)
		if !ok {
			return "", false
		}
		id, ok := se.X.(*ast.Ident)
		if !ok {
			return "", false
		}
		if hvars[id.Name] {
			if f, ok := hexact[se.Sel.Name]; ok {
				return f, true
			}
			return "", false
		}
		if id.Name == ghrecv && isOpt[se.Sel.Name] {
			return se.Sel.Name, true
		}
		return "", false
	}
	// mentions: every Options field whose value can flow into e
	mentions := func(n ast.Node) []string {
		var out []string
		seen := map[string]bool{}
		add := func(fs ...string) {
			for _, f := range fs {
				if !seen[f] {
					seen[f] = true
					out = append(out, f)
				}
			}
		}
		if n == nil {
			return nil
		}
		ast.Inspect(n, func(m ast.Node) bool {
			switch x := m.(type) {
			case *ast.SelectorExpr:
				if id, ok := x.X.(*ast.Ident); ok {
					if hvars[id.Name] {
						add(hsrc[x.Sel.Name]...)
						return false
					}
					if id.Name == ghrecv && isOpt[x.Sel.Name] {
						add(x.Sel.Name)
						return false
					}
				}
			case *ast.Ident:
				if l, ok := locals[x.Name]; ok {
					add(l.fields...)
				}
				if hvars[x.Name] || x.Name == ghrecv { // the whole struct passed somewhere
					for _, f := range optFields {
						if x.Name == ghrecv {
							add(f[0])
						}
					}
					if hvars[x.Name] {
						for _, p := range hpairs {
							add(p[1])
						}
					}
				}
			}
			return true
		})
		return out
	}
	taint := func(n ast.Node, src string) bool {
		fs := mentions(n)
		for _, f := range fs {
			if _, ok := tainted[f]; !ok {
				tainted[f] = src
			}
		}
		return len(fs) > 0
	}
	guardOf := func(gs []guardInfo, field string) string {
		switch {
		case len(gs) == 0:
			return "GNone"
		case len(gs) == 1 && gs[0].field == field && gs[0].coq != "":
			return gs[0].coq
		}
		var srcs []string
		for _, g := range gs {
			srcs = append(srcs, g.src)
		}
		return "(GUnknown " + q(strings.Join(srcs, " && ")) + ")"
	}
	isCall := func(e ast.Expr, fun string) (*ast.CallExpr, bool) {
		ce, ok := e.(*ast.CallExpr)
		if !ok || exprStr(ce.Fun) != fun {
			return nil, false
		}
		return ce, true
	}
	strLit := func(e ast.Expr) (string, bool) {
		bl, ok := e.(*ast.BasicLit)
		if !ok || bl.Kind != token.STRING {
			return "", false
		}
		s, err := strconv.Unquote(bl.Value)
		return s, err == nil
	}
	// fmtWrite: a formatted write of args with format verb
	fmtWrite := func(verb string, args []ast.Expr, gs []guardInfo, src string) {
		if len(args) == 1 {
			if f, ok := exactField(args[0]); ok {
				items = append(items, item{f, verb, guardOf(gs, f), "FValue"})
				return
			}
		}
		any := false
		for _, a := range args {
			ast.Inspect(a, func(m ast.Node) bool {
				if id, ok := m.(*ast.Ident); ok {
					if l, ok := locals[id.Name]; ok && !strings.Contains(src, l.src) {
						src += " where " + l.src
					}
				}
				return true
			})
		}
		for _, a := range args {
			for _, f := range mentions(a) {
				any = true
				items = append(items, item{f, verb, guardOf(gs, f), "(FUnknown " + q(src) + ")"})
			}
		}
		if !any {
			unrecognised = append(unrecognised, src)
		}
	}
	// writeCall: is ce a call feeding the hasher? returns (verb, args, ok)
	writeCall := func(ce *ast.CallExpr) (string, []ast.Expr, bool) {
		fun := exprStr(ce.Fun)
		if se, ok := ce.Fun.(*ast.SelectorExpr); ok && se.Sel.Name == "Write" && len(ce.Args) == 1 {
			if id, ok := se.X.(*ast.Ident); ok && hasherVars[id.Name] {
				if conv, ok := isCall(ce.Args[0], "[]byte"); ok && len(conv.Args) == 1 {
					return "raw", conv.Args, true
				}
				if ap, ok := isCall(ce.Args[0], "fmt.Appendf"); ok && len(ap.Args) >= 2 && exprStr(ap.Args[0]) == "nil" {
					if verb, ok := strLit(ap.Args[1]); ok {
						return verb, ap.Args[2:], true
					}
				}
				return "?", ce.Args, true
			}
		}
		if (fun == "fmt.Fprintf" || fun == "io.WriteString") && len(ce.Args) >= 2 {
			if id, ok := ce.Args[0].(*ast.Ident); ok && hasherVars[id.Name] {
				if fun == "io.WriteString" {
					return "raw", ce.Args[1:], true
				}
				if verb, ok := strLit(ce.Args[1]); ok {
					return verb, ce.Args[2:], true
				}
				return "?", ce.Args[1:], true
			}
		}
		return "", nil, false
	}
	reNZ := regexp.MustCompile(`^(\w+\.\w+) != 0 && (\w+\.\w+) != (\w+)$`)
	reNE := regexp.MustCompile(`^(\w+\.\w+) != ""$`)
	reLen := regexp.MustCompile(`^len\((\w+\.\w+)\) (?:> 0|!= 0)$`)
	parseGuard := func(cond ast.Expr) guardInfo {
		src := exprStr(cond)
		g := guardInfo{src: src}
		fieldOfStr := func(s string) (string, bool) {
			e, err := parser.ParseExpr(s)
			if err != nil {
				return "", false
			}
			return exactField(e)
		}
		if m := reNZ.FindStringSubmatch(src); m != nil && m[1] == m[2] {
			if f, ok := fieldOfStr(m[1]); ok {
				if e, err := parser.ParseExpr(m[3]); err == nil {
					if v, ok := evalInt(files, e); ok {
						g.field, g.coq = f, fmt.Sprintf("(GIntNotZeroNotConst %d%%Z)", v)
					}
				}
			}
		} else if m := reNE.FindStringSubmatch(src); m != nil {
			if f, ok := fieldOfStr(m[1]); ok {
				g.field, g.coq = f, "GStrNonEmpty"
			}
		} else if m := reLen.FindStringSubmatch(src); m != nil {
			if f, ok := fieldOfStr(m[1]); ok {
				g.field, g.coq = f, "GLenPositive"
			}
		}
		return g
	}
	var stmt func(s ast.Stmt, gs []guardInfo)
	block := func(b *ast.BlockStmt, gs []guardInfo) {
		for _, s := range b.List {
			stmt(s, gs)
		}
	}
	stmt = func(s ast.Stmt, gs []guardInfo) {
		src := exprStr2(s)
		switch x := s.(type) {
		case *ast.AssignStmt:
			if len(x.Lhs) == 1 && len(x.Rhs) == 1 {
				if lhs, ok := x.Lhs[0].(*ast.Ident); ok && x.Tok == token.DEFINE {
					if ce, ok := x.Rhs[0].(*ast.CallExpr); ok {
						fun := exprStr(ce.Fun)
						if strings.HasSuffix(fun, ".HashOptions") && len(ce.Args) == 0 && len(gs) == 0 {
							hvars[lhs.Name] = true
							return
						}
						if fun == "sha1.New" && len(ce.Args) == 0 && len(gs) == 0 && len(hasherVars) == 0 {
							hasherVars[lhs.Name] = true
							return
						}
						if fun == "slices.Sorted" && len(ce.Args) == 1 {
							if mk, ok := isCall(ce.Args[0], "maps.Keys"); ok && len(mk.Args) == 1 {
								if f, ok := exactField(mk.Args[0]); ok {
									locals[lhs.Name] = local{"sortedKeys", []string{f}, src}
									return
								}
							}
						}
					}
					if fs := mentions(x.Rhs[0]); len(fs) > 0 {
						// a value derived from option fields in a way this translator does not model
						locals[lhs.Name] = local{"derived", fs, src}
						return
					}
				}
			}
			taint(x, src)
			unrecognised = append(unrecognised, src)
		case *ast.ExprStmt:
			if ce, ok := x.X.(*ast.CallExpr); ok {
				if verb, args, ok := writeCall(ce); ok {
					fmtWrite(verb, args, gs, src)
					return
				}
			}
			taint(x, src)
			unrecognised = append(unrecognised, src)
		case *ast.IfStmt:
			if x.Init != nil || x.Else != nil {
				taint(x, src)
				unrecognised = append(unrecognised, src)
				return
			}
			block(x.Body, append(append([]guardInfo{}, gs...), parseGuard(x.Cond)))
		case *ast.RangeStmt:
			// for _, k := range <sorted keys of map field m> { write(fmt, k, h.m[k]) }
			if xi, ok := x.X.(*ast.Ident); ok && locals[xi.Name].kind == "sortedKeys" && x.Tok == token.DEFINE &&
				(x.Key == nil || exprStr(x.Key) == "_") && x.Value != nil && len(x.Body.List) == 1 {
				m := locals[xi.Name].fields[0]
				k := exprStr(x.Value)
				if es, ok := x.Body.List[0].(*ast.ExprStmt); ok {
					if ce, ok := es.X.(*ast.CallExpr); ok {
						if verb, args, ok := writeCall(ce); ok && len(args) == 2 && exprStr(args[0]) == k {
							if ie, ok := args[1].(*ast.IndexExpr); ok && exprStr(ie.Index) == k {
								if f, ok := exactField(ie.X); ok && f == m {
									items = append(items, item{m, verb, guardOf(gs, m), "FSortedEntries"})
									return
								}
							}
						}
					}
				}
			}
			any := false
			for _, f := range mentions(x) {
				any = true
				items = append(items, item{f, "range", guardOf(gs, f), "(FUnknown " + q(src) + ")"})
			}
			if !any {
				unrecognised = append(unrecognised, src)
			}
		case *ast.ReturnStmt:
			if len(x.Results) == 1 && len(gs) == 0 {
				r := exprStr(x.Results[0])
				for hv := range hasherVars {
					if r == `fmt.Sprintf("%x", `+hv+`.Sum(nil))` || r == `hex.EncodeToString(`+hv+`.Sum(nil))` {
						return
					}
				}
			}
			taint(x, src)
			unrecognised = append(unrecognised, src)
		default:
			taint(s, src)
			unrecognised = append(unrecognised, src)
		}
	}
	block(gh.Body, nil)
	if len(gh.Body.List) == 0 {
		die("GetHash(): empty body")
	}
	if _, ok := gh.Body.List[len(gh.Body.List)-1].(*ast.ReturnStmt); !ok {
		unrecognised = append(unrecognised, "GetHash does not end in a return statement")
	}
	for i := range items {
		if src, ok := tainted[items[i].field]; ok {
			items[i].form = "(FUnknown " + q("field touched by: "+src) + ")"
		}
	}
	for f, src := range tainted {
		found := false
		for _, it := range items {
			found = found || it.field == f
		}
		if !found {
			unrecognised = append(unrecognised, "field "+f+" used by: "+src)
		}
	}
	sort.Strings(unrecognised)
	if len(items) == 0 {
		die("GetHash(): no hashed field recognised")
	}

	// ---- readVersions
	type rv struct{ f, v int64 }
	var rvs []rv
	for _, d := range bf.Decls {
		gd, ok := d.(*ast.GenDecl)
		if !ok || gd.Tok != token.VAR {
			continue
		}
		for _, s := range gd.Specs {
			vs := s.(*ast.ValueSpec)
			if len(vs.Names) != 1 || vs.Names[0].Name != "readVersions" || len(vs.Values) != 1 {
				continue
			}
			cl, ok := vs.Values[0].(*ast.CompositeLit)
			if !ok {
				die("readVersions: not a composite literal")
			}
			for _, el := range cl.Elts {
				ecl, ok := el.(*ast.CompositeLit)
				if !ok {
					die("readVersions: element shape")
				}
				var r rv
				for _, kvx := range ecl.Elts {
					kv, ok := kvx.(*ast.KeyValueExpr)
					if !ok {
						die("readVersions: unkeyed element")
					}
					v, ok := evalInt(files, kv.Value)
					if !ok {
						die("readVersions: cannot evaluate %s", exprStr(kv.Value))
					}
					switch exprStr(kv.Key) {
					case "IndexFormatVersion":
						r.f = v
					case "FeatureVersion":
						r.v = v
					default:
						die("readVersions: unknown key %s", exprStr(kv.Key))
					}
				}
				rvs = append(rvs, r)
			}
		}
	}
	if len(rvs) == 0 {
		die("readVersions not found")
	}

	// ---- SetDefaults: `if o.TrigramMax == 0 { o.TrigramMax = N }` and friends
	sd := method("SetDefaults")
	sdrecv := recvName(sd)
	defaults := map[string]int64{}
	ast.Inspect(sd.Body, func(n ast.Node) bool {
		is, ok := n.(*ast.IfStmt)
		if !ok {
			return true
		}
		be, ok := is.Cond.(*ast.BinaryExpr)
		if !ok || be.Op != token.EQL || exprStr(be.Y) != "0" {
			return true
		}
		lhs := exprStr(be.X)
		for _, s := range is.Body.List {
			as, ok := s.(*ast.AssignStmt)
			if ok && len(as.Lhs) == 1 && exprStr(as.Lhs[0]) == lhs && strings.HasPrefix(lhs, sdrecv+".") {
				if v, ok := evalInt(files, as.Rhs[0]); ok {
					defaults[strings.TrimPrefix(lhs, sdrecv+".")] = v
				}
			}
		}
		return true
	})

	ifv, ok1 := intConst(files, "IndexFormatVersion")
	fv, ok2 := intConst(files, "FeatureVersion")
	nfv, ok3 := intConst(files, "NextIndexFormatVersion")
	if !ok1 || !ok2 || !ok3 {
		die("version constants not found")
	}

	var b strings.Builder
	b.WriteString("(* GENERATED by translator/hashfields from index/builder.go + index/toc.go of the checked tree. Do not edit. *)\n")
	b.WriteString("From Coq Require Import List String NArith ZArith.\nFrom ZV Require Import Model.HashProg.\nImport ListNotations.\nOpen Scope string_scope.\n\n")
	b.WriteString("(* every field of struct index.Options, with its Go type *)\nDefinition options_fields_typed : list (string * string) := [\n")
	for i, f := range optFields {
		sep := ";"
		if i == len(optFields)-1 {
			sep = ""
		}
		fmt.Fprintf(&b, "  (%s, %s)%s\n", q(f[0]), q(f[1]), sep)
	}
	b.WriteString("].\nDefinition options_fields : list string := map fst options_fields_typed.\n\n")
	b.WriteString("(* HashOptions(): hash-struct field <- Options field *)\nDefinition hash_struct_fields : list (string * string) := [\n")
	for i, p := range hpairs {
		sep := ";"
		if i == len(hpairs)-1 {
			sep = ""
		}
		fmt.Fprintf(&b, "  (%s, %s)%s\n", q(p[0]), q(p[1]), sep)
	}
	b.WriteString("].\n\n(* GetHash(): every place where the value of an Options field is fed into the hasher, in write order:\n")
	b.WriteString("   mkItem <Options field> <format of the write> <if-guard> <how the value is written>  (types: Model/HashProg.v) *)\n")
	b.WriteString("Definition hash_prog : list hitem := [\n")
	for i, it := range items {
		sep := ";"
		if i == len(items)-1 {
			sep = ""
		}
		fmt.Fprintf(&b, "  mkItem %s %s %s %s%s\n", q(it.field), q(it.verb), it.guard, it.form, sep)
	}
	b.WriteString("].\n(* statements of GetHash that have none of the recognised shapes (must be empty for the proofs) *)\n")
	b.WriteString("Definition hash_prog_unrecognised : list string := [")
	for i, u := range unrecognised {
		if i > 0 {
			b.WriteString("; ")
		}
		b.WriteString(q(u))
	}
	b.WriteString("].\nDefinition hashed_fields : list string := map hi_field hash_prog.\n\n")
	fmt.Fprintf(&b, "Definition index_format_version : N := %d%%N.\nDefinition feature_version : N := %d%%N.\nDefinition next_index_format_version : N := %d%%N.\n", ifv, fv, nfv)
	b.WriteString("(* readVersions: (IndexFormatVersion, FeatureVersion) *)\nDefinition read_versions : list (N * N) := [")
	for i, r := range rvs {
		if i > 0 {
			b.WriteString("; ")
		}
		fmt.Fprintf(&b, "(%d%%N, %d%%N)", r.f, r.v)
	}
	b.WriteString("].\n")
	b.WriteString("(* SetDefaults: `if o.F == 0 { o.F = v }` *)\nDefinition int_defaults : list (string * Z) := [")
	first := true
	for _, f := range optFields {
		if v, ok := defaults[f[0]]; ok {
			if !first {
				b.WriteString("; ")
			}
			first = false
			fmt.Fprintf(&b, "(%s, %d%%Z)", q(f[0]), v)
		}
	}
	b.WriteString("].\n")
	fmt.Print(b.String())
}
