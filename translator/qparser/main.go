// Translator for C07/C06: regenerates coq/Generated/ParserTables.v from /repo's query package.
//   go run main.go <repo-root>   (prints the Coq file on stdout; stdlib only: go/ast, go/parser)
// Extracted: token type constants, the `prefixes` and `reservedWords` maps of query/parse.go, the set of
// types of package query that implement Q (have a String() string method), the type-switch cases of
// QToProto / QFromProto (query/query_proto.go) and of indexData.newMatchTree (index/matchtree.go).
package main

import (
	"fmt"
	"go/ast"
	"go/parser"
	"go/token"
	"os"
	"path/filepath"
	"sort"
	"strconv"
	"strings"
)

func die(f string, a ...any) { fmt.Fprintf(os.Stderr, f+"\n", a...); os.Exit(2) }

func parseDir(dir string) []*ast.File {
	fset := token.NewFileSet()
	ents, err := os.ReadDir(dir)
	if err != nil {
		die("%v", err)
	}
	var out []*ast.File
	for _, e := range ents {
		n := e.Name()
		if !strings.HasSuffix(n, ".go") || strings.HasSuffix(n, "_test.go") {
			continue
		}
		f, err := parser.ParseFile(fset, filepath.Join(dir, n), nil, 0)
		if err != nil {
			die("%v", err)
		}
		out = append(out, f)
	}
	return out
}

func coqBytes(s string) string {
	if len(s) == 0 {
		return "(@nil N)"
	}
	var p []string
	for _, c := range []byte(s) {
		p = append(p, strconv.Itoa(int(c)))
	}
	return "[" + strings.Join(p, ";") + "]%N"
}

// typeName renders the type expression of a type-switch case: *And -> And, RawConfig -> RawConfig, *webserverv1.Q_Meta -> Q_Meta
func typeName(e ast.Expr) string {
	switch t := e.(type) {
	case *ast.StarExpr:
		return typeName(t.X)
	case *ast.Ident:
		return t.Name
	case *ast.SelectorExpr:
		return t.Sel.Name
	}
	return "?"
}

// hasCondBreak: the clause body contains a `break` that leaves the switch (not nested in a for/switch/select)
func hasCondBreak(stmts []ast.Stmt) bool {
	found := false
	var walk func(n ast.Node) bool
	walk = func(n ast.Node) bool {
		switch x := n.(type) {
		case *ast.ForStmt, *ast.RangeStmt, *ast.SwitchStmt, *ast.TypeSwitchStmt, *ast.SelectStmt, *ast.FuncLit:
			return false
		case *ast.BranchStmt:
			if x.Tok == token.BREAK && x.Label == nil {
				found = true
			}
		}
		return true
	}
	for _, s := range stmts {
		ast.Inspect(s, walk)
	}
	return found
}

type swCase struct {
	name      string
	condBreak bool
}

// typeSwitchCases returns the case types of the first type switch in function fn (method or func).
func typeSwitchCases(files []*ast.File, fn string) []swCase {
	for _, f := range files {
		for _, d := range f.Decls {
			fd, ok := d.(*ast.FuncDecl)
			if !ok || fd.Name.Name != fn || fd.Body == nil {
				continue
			}
			var out []swCase
			done := false
			ast.Inspect(fd.Body, func(n ast.Node) bool {
				if done {
					return false
				}
				ts, ok := n.(*ast.TypeSwitchStmt)
				if !ok {
					return true
				}
				for _, c := range ts.Body.List {
					cc := c.(*ast.CaseClause)
					for _, e := range cc.List {
						out = append(out, swCase{typeName(e), hasCondBreak(cc.Body)})
					}
				}
				done = true
				return false
			})
			return out
		}
	}
	die("function %s not found", fn)
	return nil
}

func main() {
	if len(os.Args) < 2 {
		die("usage: main <repo>")
	}
	repo := os.Args[1]
	qfiles := parseDir(filepath.Join(repo, "query"))
	ifiles := parseDir(filepath.Join(repo, "index"))

	consts := map[string]int{}
	var constNames []string
	maps := map[string]map[string]string{} // var name -> key -> const ident
	impl := map[string]bool{}
	for _, f := range qfiles {
		for _, d := range f.Decls {
			switch x := d.(type) {
			case *ast.FuncDecl:
				if x.Recv != nil && x.Name.Name == "String" && len(x.Type.Params.List) == 0 && x.Type.Results != nil && len(x.Type.Results.List) == 1 {
					if id, ok := x.Type.Results.List[0].Type.(*ast.Ident); ok && id.Name == "string" {
						impl[typeName(x.Recv.List[0].Type)] = true
					}
				}
			case *ast.GenDecl:
				for _, s := range x.Specs {
					vs, ok := s.(*ast.ValueSpec)
					if !ok {
						continue
					}
					for i, n := range vs.Names {
						if x.Tok == token.CONST && strings.HasPrefix(n.Name, "tok") && i < len(vs.Values) {
							if bl, ok := vs.Values[i].(*ast.BasicLit); ok && bl.Kind == token.INT {
								v, _ := strconv.Atoi(bl.Value)
								consts[n.Name] = v
								constNames = append(constNames, n.Name)
							}
						}
						if x.Tok == token.VAR && (n.Name == "prefixes" || n.Name == "reservedWords") && i < len(vs.Values) {
							cl, ok := vs.Values[i].(*ast.CompositeLit)
							if !ok {
								die("%s is not a composite literal", n.Name)
							}
							m := map[string]string{}
							for _, el := range cl.Elts {
								kv := el.(*ast.KeyValueExpr)
								k, err := strconv.Unquote(kv.Key.(*ast.BasicLit).Value)
								if err != nil {
									die("%v", err)
								}
								m[k] = kv.Value.(*ast.Ident).Name
							}
							maps[n.Name] = m
						}
					}
				}
			}
		}
	}
	if len(consts) == 0 || maps["prefixes"] == nil || maps["reservedWords"] == nil {
		die("token constants / prefixes / reservedWords not found")
	}
	var b strings.Builder
	b.WriteString("(* GENERATED by translator/qparser from query/parse.go, query/query_proto.go, index/matchtree.go - do not edit *)\n")
	b.WriteString("From Coq Require Import List NArith.\nImport ListNotations.\n\n")
	sort.Slice(constNames, func(i, j int) bool { return consts[constNames[i]] < consts[constNames[j]] })
	for _, n := range constNames {
		fmt.Fprintf(&b, "Definition %s : N := %d%%N.\n", n, consts[n])
	}
	for _, mn := range []string{"prefixes", "reservedWords"} {
		m := maps[mn]
		var ks []string
		for k := range m {
			ks = append(ks, k)
		}
		sort.Strings(ks)
		fmt.Fprintf(&b, "\n(* Go map %s, keys sorted; Go iterates it in random order *)\nDefinition %s : list (list N * N) := [\n", mn, mn)
		for i, k := range ks {
			sep := ";"
			if i == len(ks)-1 {
				sep = ""
			}
			fmt.Fprintf(&b, "  (%s, %s)%s (* %q *)\n", coqBytes(k), m[k], sep, k)
		}
		b.WriteString("].\n")
	}
	var kinds []string
	for k := range impl {
		kinds = append(kinds, k)
	}
	sort.Strings(kinds)
	b.WriteString("\n(* every type of package query with a String() string method, i.e. every implementer of query.Q *)\nInductive qkind : Set :=\n")
	for _, k := range kinds {
		fmt.Fprintf(&b, "| K_%s\n", k)
	}
	b.WriteString(".\nDefinition qkind_code (k : qkind) : N :=\n  match k with\n")
	for i, k := range kinds {
		fmt.Fprintf(&b, "  | K_%s => %d\n", k, i)
	}
	b.WriteString("  end%N.\n")
	emit := func(name string, cs []swCase, withFlag bool) {
		fmt.Fprintf(&b, "\nDefinition %s : list %s := [", name, map[bool]string{false: "qkind", true: "(qkind * bool)"}[withFlag])
		var p []string
		for _, c := range cs {
			if !impl[c.name] {
				continue
			}
			if withFlag {
				p = append(p, fmt.Sprintf("(K_%s, %v)", c.name, c.condBreak))
			} else {
				p = append(p, "K_"+c.name)
			}
		}
		b.WriteString(strings.Join(p, "; "))
		b.WriteString("].\n")
	}
	b.WriteString("\n(* case types of the type switch in QToProto *)")
	emit("qtoproto_kinds", typeSwitchCases(qfiles, "QToProto"), false)
	b.WriteString("\n(* case types of the type switch in indexData.newMatchTree; true = the clause contains a conditional `break` that falls through to log.Panicf *)")
	emit("matchtree_kinds", typeSwitchCases(ifiles, "newMatchTree"), true)
	// QFromProto: oneof wrappers Q_X
	var from []string
	for _, c := range typeSwitchCases(qfiles, "QFromProto") {
		from = append(from, strings.TrimPrefix(c.name, "Q_"))
	}
	fmt.Fprintf(&b, "\n(* oneof cases handled by QFromProto: %s *)\n", strings.Join(from, " "))
	fmt.Print(b.String())
}
