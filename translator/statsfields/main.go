// statsfields: translator for property C25.
//
// Reads the CURRENT sources of the root package of the repo (cwd, or argv[1]; zoekt.Stats lives in api.go) with
// go/parser + go/ast and prints coq/Generated/StatsFields.v:
//   - stats_struct_fields     : every field of `type Stats struct` (declaration order) with its Go type
//   - stats_add_summed        : the fields X for which `func (s *Stats) Add(o Stats)` executes `s.X += o.X`
//   - stats_add_cross         : statements `s.X += o.Y` with X <> Y (a sum into the wrong field)
//   - stats_add_sticky        : the fields X handled by `if s.X == 0 { s.X = o.X }` (first non-zero value wins)
//   - stats_add_unrecognised  : every other statement of Add (printed)
//   - stats_zero_tested       : the fields X for which `func (s *Stats) Zero() bool` tests `s.X > 0` (or `s.X != 0`) in
//     `return !(a || b || ...)`, resp. `s.X == 0` / `s.X <= 0` in `return a && b && ...`
//   - stats_zero_unrecognised : every other leaf / statement of Zero (printed); the leading `if s == nil { return true }`
//     is the only other statement accepted
//
// Only the standard library is used; the functions are matched by name and shape. What does not fit a shape lands in
// an *_unrecognised list, which the theorems of Props/C25.v require to be empty (=> the check alarms instead of guessing).
package main

import (
	"fmt"
	"go/ast"
	"go/parser"
	"go/printer"
	"go/token"
	"os"
	"path/filepath"
	"sort"
	"strings"
)

func die(f string, a ...any) {
	fmt.Fprintf(os.Stderr, "statsfields: "+f+"\n", a...)
	os.Exit(2)
}

var fset = token.NewFileSet()

func nodeStr(n ast.Node) string {
	var sb strings.Builder
	printer.Fprint(&sb, fset, n)
	return strings.Join(strings.Fields(sb.String()), " ")
}

func q(s string) string { return "\"" + strings.ReplaceAll(s, "\"", "\"\"") + "\"" }

func strList(xs []string) string {
	if len(xs) == 0 {
		return "[]"
	}
	qs := make([]string, len(xs))
	for i, x := range xs {
		qs[i] = q(x)
	}
	return "[" + strings.Join(qs, "; ") + "]"
}

func pairList(xs [][2]string) string {
	if len(xs) == 0 {
		return "[]"
	}
	qs := make([]string, len(xs))
	for i, x := range xs {
		qs[i] = "(" + q(x[0]) + ", " + q(x[1]) + ")"
	}
	return "[" + strings.Join(qs, "; ") + "]"
}

// sel returns the field name F when e is `<recv>.F` (possibly parenthesised)
func sel(e ast.Expr, recv string) (string, bool) {
	for {
		p, ok := e.(*ast.ParenExpr)
		if !ok {
			break
		}
		e = p.X
	}
	s, ok := e.(*ast.SelectorExpr)
	if !ok {
		return "", false
	}
	id, ok := s.X.(*ast.Ident)
	if !ok || id.Name != recv || recv == "" {
		return "", false
	}
	return s.Sel.Name, true
}

func isZeroLit(e ast.Expr) bool {
	b, ok := e.(*ast.BasicLit)
	return ok && b.Kind == token.INT && (b.Value == "0" || b.Value == "0x0")
}

func unparen(e ast.Expr) ast.Expr {
	for {
		p, ok := e.(*ast.ParenExpr)
		if !ok {
			return e
		}
		e = p.X
	}
}

// flatten a chain of the binary operator op
func flatten(e ast.Expr, op token.Token, out *[]ast.Expr) {
	e = unparen(e)
	if b, ok := e.(*ast.BinaryExpr); ok && b.Op == op {
		flatten(b.X, op, out)
		flatten(b.Y, op, out)
		return
	}
	*out = append(*out, e)
}

func recvName(fd *ast.FuncDecl) string {
	if fd.Recv == nil || len(fd.Recv.List) != 1 || len(fd.Recv.List[0].Names) != 1 {
		return ""
	}
	return fd.Recv.List[0].Names[0].Name
}

func recvType(fd *ast.FuncDecl) string {
	if fd.Recv == nil || len(fd.Recv.List) != 1 {
		return ""
	}
	t := fd.Recv.List[0].Type
	if st, ok := t.(*ast.StarExpr); ok {
		t = st.X
	}
	if id, ok := t.(*ast.Ident); ok {
		return id.Name
	}
	return ""
}

func main() {
	root := "."
	if len(os.Args) > 1 {
		root = os.Args[1]
	}
	names, _ := filepath.Glob(filepath.Join(root, "*.go"))
	sort.Strings(names)
	var files []*ast.File
	for _, n := range names {
		if strings.HasSuffix(n, "_test.go") {
			continue
		}
		f, err := parser.ParseFile(fset, n, nil, 0)
		if err != nil {
			die("parse %s: %v", n, err)
		}
		if f.Name.Name != "zoekt" {
			continue
		}
		files = append(files, f)
	}
	var st *ast.StructType
	var addFn, zeroFn *ast.FuncDecl
	where := map[string]string{}
	for _, f := range files {
		for _, d := range f.Decls {
			switch d := d.(type) {
			case *ast.GenDecl:
				for _, s := range d.Specs {
					ts, ok := s.(*ast.TypeSpec)
					if ok && ts.Name.Name == "Stats" {
						if x, ok := ts.Type.(*ast.StructType); ok {
							st = x
							where["struct"] = filepath.Base(fset.Position(ts.Pos()).Filename)
						}
					}
				}
			case *ast.FuncDecl:
				if recvType(d) == "Stats" && d.Name.Name == "Add" {
					addFn = d
					where["Add"] = filepath.Base(fset.Position(d.Pos()).Filename)
				}
				if recvType(d) == "Stats" && d.Name.Name == "Zero" {
					zeroFn = d
					where["Zero"] = filepath.Base(fset.Position(d.Pos()).Filename)
				}
			}
		}
	}
	if st == nil || addFn == nil || zeroFn == nil || addFn.Body == nil || zeroFn.Body == nil {
		die("type Stats struct / func (*Stats) Add / func (*Stats) Zero not found in package zoekt under %s", root)
	}

	// ---- (1) struct fields
	var fields [][2]string
	for _, f := range st.Fields.List {
		ty := nodeStr(f.Type)
		if len(f.Names) == 0 { // embedded
			fields = append(fields, [2]string{strings.TrimPrefix(ty[strings.LastIndex(ty, ".")+1:], "*"), ty})
			continue
		}
		for _, n := range f.Names {
			fields = append(fields, [2]string{n.Name, ty})
		}
	}

	// ---- (2) Add
	var summed, sticky, addUnrec []string
	var cross [][2]string
	s := recvName(addFn)
	o := ""
	if ps := addFn.Type.Params.List; len(ps) == 1 && len(ps[0].Names) == 1 {
		o = ps[0].Names[0].Name
	}
	for _, stmt := range addFn.Body.List {
		switch x := stmt.(type) {
		case *ast.AssignStmt:
			if x.Tok == token.ADD_ASSIGN && len(x.Lhs) == 1 && len(x.Rhs) == 1 {
				l, ok1 := sel(x.Lhs[0], s)
				r, ok2 := sel(x.Rhs[0], o)
				if ok1 && ok2 {
					if l == r {
						summed = append(summed, l)
					} else {
						cross = append(cross, [2]string{l, r})
					}
					continue
				}
			}
			// s.X = s.X + o.X
			if x.Tok == token.ASSIGN && len(x.Lhs) == 1 && len(x.Rhs) == 1 {
				if b, ok := unparen(x.Rhs[0]).(*ast.BinaryExpr); ok && b.Op == token.ADD {
					l, ok0 := sel(x.Lhs[0], s)
					a, ok1 := sel(b.X, s)
					c, ok2 := sel(b.Y, o)
					if !(ok1 && ok2) {
						c, ok2 = sel(b.X, o)
						a, ok1 = sel(b.Y, s)
					}
					if ok0 && ok1 && ok2 && l == a {
						if l == c {
							summed = append(summed, l)
						} else {
							cross = append(cross, [2]string{l, c})
						}
						continue
					}
				}
			}
		case *ast.IfStmt:
			// if s.X == 0 { s.X = o.X }
			if x.Init == nil && x.Else == nil && len(x.Body.List) == 1 {
				if c, ok := unparen(x.Cond).(*ast.BinaryExpr); ok && c.Op == token.EQL && isZeroLit(c.Y) {
					if f, ok := sel(c.X, s); ok {
						if as, ok := x.Body.List[0].(*ast.AssignStmt); ok && as.Tok == token.ASSIGN && len(as.Lhs) == 1 && len(as.Rhs) == 1 {
							l, ok1 := sel(as.Lhs[0], s)
							r, ok2 := sel(as.Rhs[0], o)
							if ok1 && ok2 && l == f && r == f {
								sticky = append(sticky, f)
								continue
							}
						}
					}
				}
			}
		}
		addUnrec = append(addUnrec, nodeStr(stmt))
	}

	// ---- (3) Zero
	var tested, zeroUnrec []string
	z := recvName(zeroFn)
	for i, stmt := range zeroFn.Body.List {
		switch x := stmt.(type) {
		case *ast.IfStmt:
			// if s == nil { return true }
			if i == 0 && x.Init == nil && x.Else == nil && len(x.Body.List) == 1 {
				if c, ok := unparen(x.Cond).(*ast.BinaryExpr); ok && c.Op == token.EQL {
					a, ok1 := c.X.(*ast.Ident)
					b, ok2 := c.Y.(*ast.Ident)
					if ok1 && ok2 && a.Name == z && b.Name == "nil" {
						if rs, ok := x.Body.List[0].(*ast.ReturnStmt); ok && len(rs.Results) == 1 {
							if id, ok := rs.Results[0].(*ast.Ident); ok && id.Name == "true" {
								continue
							}
						}
					}
				}
			}
		case *ast.ReturnStmt:
			if i == len(zeroFn.Body.List)-1 && len(x.Results) == 1 {
				e := unparen(x.Results[0])
				var leaves []ast.Expr
				var okOps map[token.Token]bool
				if u, ok := e.(*ast.UnaryExpr); ok && u.Op == token.NOT {
					flatten(u.X, token.LOR, &leaves) // !(s.A > 0 || s.B > 0 || ...)
					okOps = map[token.Token]bool{token.GTR: true, token.NEQ: true}
				} else {
					flatten(e, token.LAND, &leaves) // s.A == 0 && s.B == 0 && ...
					okOps = map[token.Token]bool{token.EQL: true, token.LEQ: true}
				}
				for _, lf := range leaves {
					if b, ok := lf.(*ast.BinaryExpr); ok && okOps[b.Op] && isZeroLit(b.Y) {
						if f, ok := sel(b.X, z); ok {
							tested = append(tested, f)
							continue
						}
					}
					zeroUnrec = append(zeroUnrec, nodeStr(lf))
				}
				continue
			}
		}
		zeroUnrec = append(zeroUnrec, nodeStr(stmt))
	}

	fmt.Printf("(* GENERATED by translator/statsfields from the sources of package zoekt of the tree under check\n")
	fmt.Printf("   (type Stats struct: %s; Stats.Add: %s; Stats.Zero: %s). DO NOT EDIT. *)\n", where["struct"], where["Add"], where["Zero"])
	fmt.Printf("From Coq Require Import List String.\nImport ListNotations.\nLocal Open Scope string_scope.\n\n")
	fmt.Printf("(* every field of zoekt.Stats in declaration order, with its Go type *)\n")
	fmt.Printf("Definition stats_struct_fields : list (string * string) :=\n  %s.\n\n", pairList(fields))
	fmt.Printf("(* Stats.Add: s.X += o.X *)\nDefinition stats_add_summed : list string :=\n  %s.\n", strList(summed))
	fmt.Printf("(* Stats.Add: s.X += o.Y with X <> Y *)\nDefinition stats_add_cross : list (string * string) := %s.\n", pairList(cross))
	fmt.Printf("(* Stats.Add: if s.X == 0 { s.X = o.X } *)\nDefinition stats_add_sticky : list string := %s.\n", strList(sticky))
	fmt.Printf("(* Stats.Add: statements of no recognised shape *)\nDefinition stats_add_unrecognised : list string := %s.\n\n", strList(addUnrec))
	fmt.Printf("(* Stats.Zero: s.X > 0 *)\nDefinition stats_zero_tested : list string :=\n  %s.\n", strList(tested))
	fmt.Printf("(* Stats.Zero: leaves / statements of no recognised shape *)\nDefinition stats_zero_unrecognised : list string := %s.\n", strList(zeroUnrec))
}
