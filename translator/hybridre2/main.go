// hybridre2: regenerates coq/Generated/HybridRe2.v from the Go source of /repo (internal/hybridre2/*.go, non-test files):
//
//   - disabled_src            the value of the constant `disabled`
//   - threshold_tree          the function behind `threshold` (sync.OnceValue(func() int64 {...})) path by path: conditions
//                             "the variable is set" (second result of os.LookupEnv(<envThreshold>)), "it parsed" (`err == nil` for
//                             strconv.ParseInt(<looked-up value>, 10, 64)); leaves return the parsed number or a constant
//   - threshold_env_name      the name of the environment variable
//   - re2_compiled_src thr    the condition under which Compile stores a program in the go-re2 field of Regexp
//                             (conjunction of the conditions of the if statements enclosing that assignment)
//   - use_re2_src thr len     the body of useRE2, statement by statement (`x := threshold()`, `x := <int expr>`,
//                             `if c { return e }`, `return e`)
//   - find_all_index_tree     Regexp.FindAllIndex as a decision tree (Model/HybridReSyntax.v): every path through the
//                             function ends in a leaf recording WHICH engine's FindAllIndex is returned and WHAT is
//                             passed to it: the method's own parameter, untouched on that path (ArgParam), or anything
//                             else (ArgDerived: a slice, a reassigned variable, a literal, a call, ...). Conditions are
//                             `re.<re2 field> != nil` (CCompiled), `useRE2(len(<untouched input parameter>))` (CUsed),
//                             !, &&, ||, constants; any other condition is opaque (COpaque k, text in opaque_conds).
//   - engine_callees          the library functions called: import path + name, for Compile and FindAllIndex of each engine
//
// Usage: go run main.go <repo-root> [-json <file>]   (Coq file on stdout; a JSON description of the leaves for messages;
// exit 1 with a message when the source has a shape this translator does not read)
package main

import (
	"encoding/json"
	"fmt"
	"go/ast"
	"go/parser"
	"go/printer"
	"go/token"
	"os"
	"path/filepath"
	"sort"
	"strconv"
	"strings"
)

func die(f string, a ...any) {
	fmt.Fprintf(os.Stderr, "hybridre2 translator: "+f+"\n", a...)
	os.Exit(1)
}

var fset = token.NewFileSet()

func src(n ast.Node) string {
	var sb strings.Builder
	printer.Fprint(&sb, fset, n)
	return strings.Join(strings.Fields(sb.String()), " ")
}

func coqString(s string) string { return `"` + strings.ReplaceAll(s, `"`, `""`) + `"` }

var convs = map[string]bool{"int64": true, "int": true, "int32": true, "uint64": true, "uint": true, "uint32": true}

type pkgInfo struct {
	imports map[string]string // local name -> import path
	consts  map[string]ast.Expr
	funcs   map[string]*ast.FuncDecl // plain functions
	methods map[string]*ast.FuncDecl // Regexp methods
	fields  map[string]string        // Regexp field name -> engine ("RE2"/"Grafana")
	vars    map[string]ast.Expr      // package-level var name -> initialiser
}

func engineOfPath(p string) string {
	switch {
	case strings.Contains(p, "go-re2"):
		return "RE2"
	case strings.Contains(p, "grafana/regexp"):
		return "Grafana"
	}
	return ""
}

func load(root string) *pkgInfo {
	dir := filepath.Join(root, "internal", "hybridre2")
	ents, err := os.ReadDir(dir)
	if err != nil {
		die("%v", err)
	}
	pi := &pkgInfo{imports: map[string]string{}, consts: map[string]ast.Expr{}, funcs: map[string]*ast.FuncDecl{}, methods: map[string]*ast.FuncDecl{}, fields: map[string]string{}, vars: map[string]ast.Expr{}}
	var structType *ast.StructType
	for _, e := range ents {
		nm := e.Name()
		if !strings.HasSuffix(nm, ".go") || strings.HasSuffix(nm, "_test.go") {
			continue
		}
		f, err := parser.ParseFile(fset, filepath.Join(dir, nm), nil, 0)
		if err != nil {
			die("%v", err)
		}
		for _, im := range f.Imports {
			p, _ := strconv.Unquote(im.Path.Value)
			name := filepath.Base(p)
			if im.Name != nil {
				name = im.Name.Name
			}
			pi.imports[name] = p
		}
		for _, d := range f.Decls {
			switch x := d.(type) {
			case *ast.GenDecl:
				for _, s := range x.Specs {
					switch sp := s.(type) {
					case *ast.ValueSpec:
						for i, n := range sp.Names {
							if i < len(sp.Values) {
								if x.Tok == token.CONST {
									pi.consts[n.Name] = sp.Values[i]
								} else {
									pi.vars[n.Name] = sp.Values[i]
								}
							}
						}
					case *ast.TypeSpec:
						if st, ok := sp.Type.(*ast.StructType); ok && sp.Name.Name == "Regexp" {
							structType = st
						}
					}
				}
			case *ast.FuncDecl:
				if x.Recv == nil {
					pi.funcs[x.Name.Name] = x
				} else if len(x.Recv.List) == 1 && strings.TrimPrefix(src(x.Recv.List[0].Type), "*") == "Regexp" {
					pi.methods[x.Name.Name] = x
				}
			}
		}
	}
	if structType == nil {
		die("type Regexp struct not found")
	}
	for _, fl := range structType.Fields.List {
		t := fl.Type
		if st, ok := t.(*ast.StarExpr); ok {
			t = st.X
		}
		if se, ok := t.(*ast.SelectorExpr); ok {
			if id, ok := se.X.(*ast.Ident); ok {
				if eng := engineOfPath(pi.imports[id.Name]); eng != "" {
					for _, n := range fl.Names {
						pi.fields[n.Name] = eng
					}
				}
			}
		}
	}
	seen := map[string]int{}
	for _, e := range pi.fields {
		seen[e]++
	}
	if seen["RE2"] != 1 || seen["Grafana"] != 1 {
		die("type Regexp must have exactly one field of the go-re2 engine and one of the grafana engine (found %v)", pi.fields)
	}
	return pi
}

// ---- integer / boolean expressions over named Z variables (shallow: printed as Coq terms)

func (pi *pkgInfo) intExpr(e ast.Expr, vars map[string]string) string {
	switch x := e.(type) {
	case *ast.BasicLit:
		if x.Kind != token.INT {
			die("non-integer literal %s", x.Value)
		}
		return x.Value
	case *ast.Ident:
		if v, ok := vars[x.Name]; ok {
			return v
		}
		if c, ok := pi.consts[x.Name]; ok {
			return pi.intExpr(c, map[string]string{})
		}
		die("unknown identifier %s in an integer expression", x.Name)
	case *ast.ParenExpr:
		return pi.intExpr(x.X, vars)
	case *ast.UnaryExpr:
		if x.Op == token.SUB {
			return "(- " + pi.intExpr(x.X, vars) + ")"
		}
		if x.Op == token.ADD {
			return pi.intExpr(x.X, vars)
		}
	case *ast.CallExpr:
		if id, ok := x.Fun.(*ast.Ident); ok {
			if convs[id.Name] && len(x.Args) == 1 {
				return pi.intExpr(x.Args[0], vars)
			}
			if id.Name == "threshold" && len(x.Args) == 0 {
				if v, ok := vars["threshold()"]; ok {
					return v
				}
			}
		}
		die("unsupported call %s in an integer expression", src(x))
	case *ast.BinaryExpr:
		a, b := pi.intExpr(x.X, vars), pi.intExpr(x.Y, vars)
		switch x.Op {
		case token.ADD:
			return fmt.Sprintf("(%s + %s)", a, b)
		case token.SUB:
			return fmt.Sprintf("(%s - %s)", a, b)
		case token.MUL:
			return fmt.Sprintf("(%s * %s)", a, b)
		}
	}
	die("unsupported integer expression %s", src(e))
	return ""
}

func (pi *pkgInfo) boolExpr(e ast.Expr, vars map[string]string) string {
	switch x := e.(type) {
	case *ast.ParenExpr:
		return pi.boolExpr(x.X, vars)
	case *ast.Ident:
		if x.Name == "true" || x.Name == "false" {
			return x.Name
		}
	case *ast.UnaryExpr:
		if x.Op == token.NOT {
			return "(negb " + pi.boolExpr(x.X, vars) + ")"
		}
	case *ast.BinaryExpr:
		switch x.Op {
		case token.LAND:
			return fmt.Sprintf("(%s && %s)", pi.boolExpr(x.X, vars), pi.boolExpr(x.Y, vars))
		case token.LOR:
			return fmt.Sprintf("(%s || %s)", pi.boolExpr(x.X, vars), pi.boolExpr(x.Y, vars))
		}
		ops := map[token.Token]string{token.EQL: "=?", token.LSS: "<?", token.LEQ: "<=?", token.GTR: ">?", token.GEQ: ">=?"}
		if o, ok := ops[x.Op]; ok {
			return fmt.Sprintf("(%s %s %s)", pi.intExpr(x.X, vars), o, pi.intExpr(x.Y, vars))
		}
		if x.Op == token.NEQ {
			return fmt.Sprintf("(negb (%s =? %s))", pi.intExpr(x.X, vars), pi.intExpr(x.Y, vars))
		}
	}
	die("unsupported boolean expression %s", src(e))
	return ""
}

// body of a `func(...) bool` made of `x := <int>`, `if c { return e }`, `return e`
func (pi *pkgInfo) boolBody(stmts []ast.Stmt, vars map[string]string) string {
	if len(stmts) == 0 {
		die("a boolean function falls off its end")
	}
	switch s := stmts[0].(type) {
	case *ast.AssignStmt:
		if s.Tok == token.DEFINE && len(s.Lhs) == 1 && len(s.Rhs) == 1 {
			if id, ok := s.Lhs[0].(*ast.Ident); ok {
				v := pi.intExpr(s.Rhs[0], vars)
				nv := map[string]string{}
				for k, x := range vars {
					nv[k] = x
				}
				nv[id.Name] = "v_" + id.Name
				return fmt.Sprintf("let v_%s := %s in %s", id.Name, v, pi.boolBody(stmts[1:], nv))
			}
		}
	case *ast.ReturnStmt:
		if len(s.Results) == 1 {
			return pi.boolExpr(s.Results[0], vars)
		}
	case *ast.IfStmt:
		if s.Init == nil {
			c := pi.boolExpr(s.Cond, vars)
			rest := stmts[1:]
			th := append(append([]ast.Stmt{}, s.Body.List...), rest...)
			var el []ast.Stmt
			switch e := s.Else.(type) {
			case nil:
				el = rest
			case *ast.BlockStmt:
				el = append(append([]ast.Stmt{}, e.List...), rest...)
			case *ast.IfStmt:
				el = append([]ast.Stmt{e}, rest...)
			}
			return fmt.Sprintf("(if %s then %s else %s)", c, pi.boolBody(th, vars), pi.boolBody(el, vars))
		}
	}
	die("unsupported statement in a boolean function: %s", src(stmts[0]))
	return ""
}

// ---- Compile: the condition guarding the assignment to the go-re2 field, and the library functions called

func (pi *pkgInfo) callee(e ast.Expr) string {
	if se, ok := e.(*ast.SelectorExpr); ok {
		if id, ok := se.X.(*ast.Ident); ok {
			if p, ok := pi.imports[id.Name]; ok {
				return p + "." + se.Sel.Name
			}
		}
	}
	return ""
}

type compileInfo struct {
	cond    string
	callees []string // "<engine>:<import path>.<func>:<ArgParam|ArgDerived>"
}

func (pi *pkgInfo) compile() compileInfo {
	fn := pi.funcs["Compile"]
	if fn == nil || fn.Body == nil || len(fn.Type.Params.List) != 1 || len(fn.Type.Params.List[0].Names) != 1 {
		die("func Compile(pattern) not found")
	}
	param := fn.Type.Params.List[0].Names[0].Name
	vars := map[string]string{"threshold()": "thr"}
	var conds []string
	found := 0
	var callees []string
	reassigned := false
	var walk func(stmts []ast.Stmt, guard []string)
	walk = func(stmts []ast.Stmt, guard []string) {
		for _, st := range stmts {
			switch s := st.(type) {
			case *ast.IfStmt:
				if s.Init != nil {
					walk([]ast.Stmt{s.Init}, guard)
				}
				// `if err != nil { return ... }` style guards do not enclose later statements; they only matter when
				// the assignment is INSIDE them
				c := ""
				inner := containsRe2Assign(pi, s.Body) || (s.Else != nil && containsRe2Assign(pi, s.Else))
				if inner {
					c = pi.boolExpr(s.Cond, vars)
				}
				walk(s.Body.List, append(append([]string{}, guard...), c))
				switch e := s.Else.(type) {
				case *ast.BlockStmt:
					walk(e.List, append(append([]string{}, guard...), "(negb "+c+")"))
				case *ast.IfStmt:
					walk([]ast.Stmt{e}, append(append([]string{}, guard...), "(negb "+c+")"))
				}
				// early return on a threshold condition: `if threshold() < 0 { return ... }` guards what follows
				if !inner && s.Else == nil && len(s.Body.List) > 0 && mentions(s.Cond, "threshold") {
					if _, ok := s.Body.List[len(s.Body.List)-1].(*ast.ReturnStmt); ok {
						guard = append(append([]string{}, guard...), "(negb "+pi.boolExpr(s.Cond, vars)+")")
					}
				}
			case *ast.AssignStmt:
				for _, l := range s.Lhs {
					if id, ok := l.(*ast.Ident); ok && id.Name == param {
						reassigned = true
					}
					if se, ok := l.(*ast.SelectorExpr); ok && pi.fields[se.Sel.Name] == "RE2" {
						found++
						conds = append(conds, guard...)
					}
				}
				for _, r := range s.Rhs {
					ast.Inspect(r, func(n ast.Node) bool {
						if ce, ok := n.(*ast.CallExpr); ok {
							if c := pi.callee(ce.Fun); c != "" {
								if eng := engineOfPath(c); eng != "" {
									arg := "ArgDerived"
									if len(ce.Args) == 1 {
										if id, ok := ce.Args[0].(*ast.Ident); ok && id.Name == param && !reassigned {
											arg = "ArgParam"
										}
									}
									callees = append(callees, eng+":"+c+":"+arg)
								}
							}
						}
						return true
					})
				}
			case *ast.BlockStmt:
				walk(s.List, guard)
			case *ast.ReturnStmt, *ast.DeclStmt, *ast.ExprStmt:
			default:
				die("unsupported statement in Compile: %s", src(st))
			}
		}
	}
	walk(fn.Body.List, nil)
	if found != 1 {
		die("Compile must assign the go-re2 field exactly once (found %d assignments)", found)
	}
	var cs []string
	for _, c := range conds {
		if c != "" {
			cs = append(cs, c)
		}
	}
	cond := "true"
	if len(cs) > 0 {
		cond = strings.Join(cs, " && ")
	}
	return compileInfo{cond: cond, callees: callees}
}

func containsRe2Assign(pi *pkgInfo, n ast.Node) bool {
	found := false
	ast.Inspect(n, func(m ast.Node) bool {
		if as, ok := m.(*ast.AssignStmt); ok {
			for _, l := range as.Lhs {
				if se, ok := l.(*ast.SelectorExpr); ok && pi.fields[se.Sel.Name] == "RE2" {
					found = true
				}
			}
		}
		return !found
	})
	return found
}

// ---- threshold(): how the setting is read

type tleaf struct {
	Ret  string   `json:"ret"`
	Path []string `json:"path"`
	Why  string   `json:"why,omitempty"`
}

type twalker struct {
	pi      *pkgInfo
	envName string
	opaque  []string
	leaves  []tleaf
}

func (pi *pkgInfo) stringConst(e ast.Expr) (string, bool) {
	switch x := e.(type) {
	case *ast.BasicLit:
		if x.Kind == token.STRING {
			s, err := strconv.Unquote(x.Value)
			return s, err == nil
		}
	case *ast.Ident:
		if c, ok := pi.consts[x.Name]; ok {
			return pi.stringConst(c)
		}
	}
	return "", false
}

func isLit(e ast.Expr, v string) bool {
	bl, ok := e.(*ast.BasicLit)
	return ok && bl.Kind == token.INT && bl.Value == v
}

// bind records what the identifiers defined by a statement stand for: "val" (the variable's text), "set", "parsed", "err"
func (w *twalker) bind(s ast.Stmt, roles map[string]string) {
	as, ok := s.(*ast.AssignStmt)
	if !ok {
		return
	}
	for _, l := range as.Lhs {
		if id, ok := l.(*ast.Ident); ok {
			delete(roles, id.Name)
		}
	}
	if len(as.Rhs) != 1 {
		return
	}
	ce, ok := as.Rhs[0].(*ast.CallExpr)
	if !ok {
		return
	}
	name := func(i int) string {
		if i < len(as.Lhs) {
			if id, ok := as.Lhs[i].(*ast.Ident); ok && id.Name != "_" {
				return id.Name
			}
		}
		return ""
	}
	switch w.pi.callee(ce.Fun) {
	case "os.LookupEnv", "os.Getenv":
		if len(ce.Args) == 1 {
			if nm, ok := w.pi.stringConst(ce.Args[0]); ok {
				if w.envName != "" && w.envName != nm {
					return
				}
				w.envName = nm
				if n := name(0); n != "" {
					roles[n] = "val"
				}
				if n := name(1); n != "" && w.pi.callee(ce.Fun) == "os.LookupEnv" {
					roles[n] = "set"
				}
			}
		}
	case "strconv.ParseInt":
		if len(ce.Args) == 3 && isLit(ce.Args[1], "10") && isLit(ce.Args[2], "64") {
			if id, ok := ce.Args[0].(*ast.Ident); ok && roles[id.Name] == "val" {
				if n := name(0); n != "" {
					roles[n] = "parsed"
				}
				if n := name(1); n != "" {
					roles[n] = "err"
				}
			}
		}
	}
}

func (w *twalker) cond(e ast.Expr, roles map[string]string) string {
	switch x := e.(type) {
	case *ast.ParenExpr:
		return w.cond(x.X, roles)
	case *ast.Ident:
		if x.Name == "true" {
			return "TTrue"
		}
		if x.Name == "false" {
			return "TFalse"
		}
		if roles[x.Name] == "set" {
			return "TSet"
		}
	case *ast.UnaryExpr:
		if x.Op == token.NOT {
			return "(TNot " + w.cond(x.X, roles) + ")"
		}
	case *ast.BinaryExpr:
		switch x.Op {
		case token.LAND:
			return fmt.Sprintf("(TAnd %s %s)", w.cond(x.X, roles), w.cond(x.Y, roles))
		case token.LOR:
			return fmt.Sprintf("(TOr %s %s)", w.cond(x.X, roles), w.cond(x.Y, roles))
		case token.EQL, token.NEQ:
			var other ast.Expr
			if isNil(x.Y) {
				other = x.X
			} else if isNil(x.X) {
				other = x.Y
			}
			if id, ok := other.(*ast.Ident); ok && roles[id.Name] == "err" {
				if x.Op == token.EQL {
					return "TParsedOk"
				}
				return "(TNot TParsedOk)"
			}
		}
	}
	w.opaque = append(w.opaque, src(e))
	return fmt.Sprintf("(TOpaque %d)", len(w.opaque)-1)
}

func cloneRoles(m map[string]string) map[string]string {
	n := map[string]string{}
	for k, v := range m {
		n[k] = v
	}
	return n
}

func (w *twalker) walk(stmts []ast.Stmt, roles map[string]string, path []string) string {
	other := func(why string) string {
		w.leaves = append(w.leaves, tleaf{Ret: "other", Path: path, Why: why})
		return "TOther"
	}
	if len(stmts) == 0 {
		return other("falls off the end of the function")
	}
	rest := stmts[1:]
	switch s := stmts[0].(type) {
	case *ast.BlockStmt:
		return w.walk(append(append([]ast.Stmt{}, s.List...), rest...), roles, path)
	case *ast.ReturnStmt:
		if len(s.Results) == 1 {
			if id, ok := s.Results[0].(*ast.Ident); ok && roles[id.Name] == "parsed" {
				w.leaves = append(w.leaves, tleaf{Ret: "the parsed number", Path: path})
				return "(TRet VParsed)"
			}
			if okExpr(w.pi, s.Results[0]) {
				v := w.pi.intExpr(s.Results[0], map[string]string{})
				w.leaves = append(w.leaves, tleaf{Ret: "constant " + v, Path: path})
				return "(TRet (VConst " + v + "))"
			}
		}
		return other("returns `" + src(s) + "`: neither the number parsed by strconv.ParseInt(<value of the variable>, 10, 64) nor a constant")
	case *ast.IfStmt:
		r := cloneRoles(roles)
		if s.Init != nil {
			w.bind(s.Init, r)
		}
		c := w.cond(s.Cond, r)
		ct := src(s.Cond)
		th := w.walk(append(append([]ast.Stmt{}, s.Body.List...), rest...), cloneRoles(r), append(append([]string{}, path...), ct))
		var el []ast.Stmt
		switch e := s.Else.(type) {
		case nil:
			el = rest
		case *ast.BlockStmt:
			el = append(append([]ast.Stmt{}, e.List...), rest...)
		case *ast.IfStmt:
			el = append([]ast.Stmt{e}, rest...)
		}
		// identifiers defined in the if's init are out of scope after it, but harmlessly kept for the else branch
		return fmt.Sprintf("(TIf %s %s %s)", c, th, w.walk(el, cloneRoles(r), append(append([]string{}, path...), "!("+ct+")")))
	case *ast.AssignStmt:
		w.bind(s, roles)
		return w.walk(rest, roles, path)
	}
	return other("unsupported statement `" + src(stmts[0]) + "`")
}

// okExpr: an integer expression made of literals, constants, conversions, + - *
func okExpr(pi *pkgInfo, e ast.Expr) bool {
	ok := true
	ast.Inspect(e, func(n ast.Node) bool {
		switch x := n.(type) {
		case *ast.Ident:
			if _, c := pi.consts[x.Name]; !c && !convs[x.Name] {
				ok = false
			}
		case *ast.BasicLit:
			if x.Kind != token.INT {
				ok = false
			}
		case *ast.CallExpr:
			if id, isID := x.Fun.(*ast.Ident); !isID || !convs[id.Name] {
				ok = false
			}
		case *ast.BinaryExpr:
			if x.Op != token.ADD && x.Op != token.SUB && x.Op != token.MUL {
				ok = false
			}
		case *ast.SelectorExpr, *ast.IndexExpr, *ast.FuncLit:
			ok = false
		}
		return ok
	})
	return ok
}

func (pi *pkgInfo) thresholdBody() *ast.BlockStmt {
	if fd, ok := pi.funcs["threshold"]; ok && fd.Body != nil {
		return fd.Body
	}
	e, ok := pi.vars["threshold"]
	if !ok {
		die("neither var threshold nor func threshold found")
	}
	if ce, ok := e.(*ast.CallExpr); ok && len(ce.Args) == 1 && strings.HasPrefix(pi.callee(ce.Fun), "sync.Once") {
		e = ce.Args[0]
	}
	if fl, ok := e.(*ast.FuncLit); ok {
		return fl.Body
	}
	die("var threshold is not sync.OnceValue(func() int64 {...}) or a function literal")
	return nil
}

// ---- FindAllIndex: decision tree

type leaf struct {
	Engine string   `json:"engine"`
	Input  string   `json:"input"`
	Limit  string   `json:"limit"`
	Path   []string `json:"path"`
	Why    []string `json:"why,omitempty"`
	Other  string   `json:"other,omitempty"`
}

type walker struct {
	pi         *pkgInfo
	recv, b, n string
	opaque     []string
	leaves     []leaf
}

type wstate struct {
	touched map[string]string // parameter name -> source text of the statement that touched it
	path    []string
}

func (s wstate) clone() wstate {
	t := map[string]string{}
	for k, v := range s.touched {
		t[k] = v
	}
	return wstate{touched: t, path: append([]string{}, s.path...)}
}

func mentions(n ast.Node, name string) bool {
	found := false
	ast.Inspect(n, func(m ast.Node) bool {
		if id, ok := m.(*ast.Ident); ok && id.Name == name {
			found = true
		}
		return !found
	})
	return found
}

func (w *walker) isRecvField(e ast.Expr) string {
	if se, ok := e.(*ast.SelectorExpr); ok {
		if id, ok := se.X.(*ast.Ident); ok && id.Name == w.recv {
			return w.pi.fields[se.Sel.Name]
		}
	}
	return ""
}

func isNil(e ast.Expr) bool { id, ok := e.(*ast.Ident); return ok && id.Name == "nil" }

func (w *walker) cond(e ast.Expr, st wstate) string {
	switch x := e.(type) {
	case *ast.ParenExpr:
		return w.cond(x.X, st)
	case *ast.Ident:
		if x.Name == "true" {
			return "CTrue"
		}
		if x.Name == "false" {
			return "CFalse"
		}
	case *ast.UnaryExpr:
		if x.Op == token.NOT {
			return "(CNot " + w.cond(x.X, st) + ")"
		}
	case *ast.BinaryExpr:
		switch x.Op {
		case token.LAND:
			return fmt.Sprintf("(CAnd %s %s)", w.cond(x.X, st), w.cond(x.Y, st))
		case token.LOR:
			return fmt.Sprintf("(COr %s %s)", w.cond(x.X, st), w.cond(x.Y, st))
		case token.NEQ, token.EQL:
			f := ""
			if isNil(x.Y) {
				f = w.isRecvField(x.X)
			} else if isNil(x.X) {
				f = w.isRecvField(x.Y)
			}
			if f == "RE2" {
				if x.Op == token.NEQ {
					return "CCompiled"
				}
				return "(CNot CCompiled)"
			}
		}
	case *ast.CallExpr:
		// useRE2(len(<untouched input parameter>))
		if id, ok := x.Fun.(*ast.Ident); ok && id.Name == "useRE2" && len(x.Args) == 1 {
			if ce, ok := x.Args[0].(*ast.CallExpr); ok && len(ce.Args) == 1 {
				if lf, ok := ce.Fun.(*ast.Ident); ok && lf.Name == "len" {
					if a, ok := ce.Args[0].(*ast.Ident); ok && a.Name == w.b && st.touched[w.b] == "" {
						return "CUsed"
					}
				}
			}
		}
	}
	w.opaque = append(w.opaque, src(e))
	return fmt.Sprintf("(COpaque %d)", len(w.opaque)-1)
}

func (w *walker) arg(e ast.Expr, param string, st wstate) (string, string) {
	if id, ok := e.(*ast.Ident); ok && id.Name == param {
		if t := st.touched[param]; t != "" {
			return "ArgDerived", fmt.Sprintf("%s was changed on this path by `%s`", param, t)
		}
		return "ArgParam", ""
	}
	return "ArgDerived", fmt.Sprintf("`%s` is passed instead of the parameter %s", src(e), param)
}

// touch marks the parameters a statement may change (rebinding, element assignment, passing to a call that could
// write through the slice): conservative
func (w *walker) touch(s ast.Stmt, st wstate) {
	for _, p := range []string{w.b, w.n} {
		if st.touched[p] != "" {
			continue
		}
		hit := false
		switch x := s.(type) {
		case *ast.AssignStmt:
			for _, l := range x.Lhs {
				if mentions(l, p) {
					hit = true
				}
			}
			// a call on the right-hand side receiving the slice may write through it, unless it is a known pure one
			for _, r := range x.Rhs {
				ast.Inspect(r, func(m ast.Node) bool {
					if ce, ok := m.(*ast.CallExpr); ok && p == w.b {
						for _, a := range ce.Args {
							if mentions(a, p) && !w.pureCall(ce) {
								hit = true
							}
						}
					}
					return true
				})
			}
		case *ast.IncDecStmt:
			hit = mentions(x.X, p)
		case *ast.DeclStmt:
			if gd, ok := x.Decl.(*ast.GenDecl); ok {
				for _, sp := range gd.Specs {
					if vs, ok := sp.(*ast.ValueSpec); ok {
						for _, nm := range vs.Names {
							if nm.Name == p {
								hit = true
							}
						}
					}
				}
			}
		case *ast.ExprStmt:
			if ce, ok := x.X.(*ast.CallExpr); ok && mentions(ce, p) && !w.pureCall(ce) {
				hit = true
			}
		}
		if hit {
			st.touched[p] = src(s)
		}
	}
}

// calls that are known not to write through a []byte argument
func (w *walker) pureCall(ce *ast.CallExpr) bool {
	if id, ok := ce.Fun.(*ast.Ident); ok {
		return id.Name == "len" || id.Name == "cap" || id.Name == "useRE2" || id.Name == "string" || convs[id.Name]
	}
	c := w.pi.callee(ce.Fun)
	for _, p := range []string{"bytes.Index", "bytes.Contains", "bytes.HasPrefix", "bytes.HasSuffix", "bytes.Count", "bytes.Equal", "bytes.LastIndex",
		"unicode/utf8.Valid", "unicode/utf8.RuneCount", "unicode/utf8.DecodeRune", "unicode/utf8.DecodeLastRune", "unicode/utf8.FullRune"} {
		if strings.HasPrefix(c, p) {
			return true
		}
	}
	return false
}

func (w *walker) walk(stmts []ast.Stmt, st wstate) string {
	if len(stmts) == 0 {
		w.leaves = append(w.leaves, leaf{Other: "falls off the end of the function", Path: st.path})
		return "DOther"
	}
	rest := stmts[1:]
	switch s := stmts[0].(type) {
	case *ast.BlockStmt:
		return w.walk(append(append([]ast.Stmt{}, s.List...), rest...), st)
	case *ast.ReturnStmt:
		if len(s.Results) == 1 {
			if ce, ok := s.Results[0].(*ast.CallExpr); ok && len(ce.Args) == 2 {
				if se, ok := ce.Fun.(*ast.SelectorExpr); ok && se.Sel.Name == "FindAllIndex" {
					if eng := w.isRecvField(se.X); eng != "" {
						in, why1 := w.arg(ce.Args[0], w.b, st)
						lim, why2 := w.arg(ce.Args[1], w.n, st)
						lf := leaf{Engine: eng, Input: in, Limit: lim, Path: st.path}
						for _, y := range []string{why1, why2} {
							if y != "" {
								lf.Why = append(lf.Why, y)
							}
						}
						w.leaves = append(w.leaves, lf)
						return fmt.Sprintf("(DRet %s %s %s)", eng, in, lim)
					}
				}
			}
		}
		w.leaves = append(w.leaves, leaf{Other: "returns `" + src(s) + "` (not an engine's FindAllIndex on the receiver's fields)", Path: st.path})
		return "DOther"
	case *ast.IfStmt:
		if s.Init != nil {
			w.touch(s.Init, st)
		}
		c := w.cond(s.Cond, st)
		ct := src(s.Cond)
		st1, st2 := st.clone(), st.clone()
		st1.path = append(st1.path, ct)
		st2.path = append(st2.path, "!("+ct+")")
		th := w.walk(append(append([]ast.Stmt{}, s.Body.List...), rest...), st1)
		var el []ast.Stmt
		switch e := s.Else.(type) {
		case nil:
			el = rest
		case *ast.BlockStmt:
			el = append(append([]ast.Stmt{}, e.List...), rest...)
		case *ast.IfStmt:
			el = append([]ast.Stmt{e}, rest...)
		default:
			die("unsupported else branch")
		}
		return fmt.Sprintf("(DIf %s %s %s)", c, th, w.walk(el, st2))
	case *ast.AssignStmt, *ast.IncDecStmt, *ast.DeclStmt, *ast.ExprStmt:
		w.touch(s, st)
		return w.walk(rest, st)
	case *ast.EmptyStmt:
		return w.walk(rest, st)
	}
	die("unsupported statement in Regexp.FindAllIndex: %s", src(stmts[0]))
	return ""
}

func main() {
	if len(os.Args) < 2 {
		die("usage: main.go <repo-root> [-json file]")
	}
	pi := load(os.Args[1])

	disabled := "-1"
	if c, ok := pi.consts["disabled"]; ok {
		disabled = pi.intExpr(c, map[string]string{})
	} else {
		die("const disabled not found")
	}

	tw := &twalker{pi: pi}
	ttree := tw.walk(pi.thresholdBody().List, map[string]string{}, nil)

	ci := pi.compile()

	use := pi.funcs["useRE2"]
	if use == nil || use.Body == nil || len(use.Type.Params.List) != 1 || len(use.Type.Params.List[0].Names) != 1 {
		die("func useRE2(inputLen) not found")
	}
	useBody := pi.boolBody(use.Body.List, map[string]string{use.Type.Params.List[0].Names[0].Name: "len", "threshold()": "thr"})

	fa := pi.methods["FindAllIndex"]
	if fa == nil || fa.Body == nil || len(fa.Recv.List[0].Names) != 1 {
		die("method (re *Regexp) FindAllIndex not found")
	}
	var params []string
	for _, p := range fa.Type.Params.List {
		for _, n := range p.Names {
			params = append(params, n.Name)
		}
	}
	if len(params) != 2 {
		die("FindAllIndex must have two parameters (input, limit)")
	}
	w := &walker{pi: pi, recv: fa.Recv.List[0].Names[0].Name, b: params[0], n: params[1]}
	tree := w.walk(fa.Body.List, wstate{touched: map[string]string{}})

	// the engines' FindAllIndex are methods on the field types: record the field types' packages
	var finds []string
	for _, eng := range []string{"Grafana", "RE2"} {
		for _, p := range pi.imports {
			if engineOfPath(p) == eng {
				finds = append(finds, eng+":"+p)
			}
		}
	}
	sort.Strings(finds)
	sort.Strings(ci.callees)

	var sb strings.Builder
	sb.WriteString("(* GENERATED by translator/hybridre2 from internal/hybridre2/*.go (Compile, useRE2, Regexp.FindAllIndex) - do not edit *)\n")
	sb.WriteString("From Coq Require Import ZArith Bool List String.\nFrom ZV Require Import Model.HybridReSyntax.\nImport ListNotations.\nLocal Open Scope Z_scope.\nLocal Open Scope bool_scope.\n\n")
	sb.WriteString("(* const disabled *)\nDefinition disabled_src : Z := " + disabled + ".\n\n")
	sb.WriteString("(* how threshold() reads " + tw.envName + " *)\nDefinition threshold_env_name : string := " + coqString(tw.envName) + "%string.\nDefinition threshold_tree : ttree :=\n  " + ttree + ".\n")
	sb.WriteString("Definition threshold_opaque_conds : list string := [")
	for i, o := range tw.opaque {
		if i > 0 {
			sb.WriteString("; ")
		}
		sb.WriteString(coqString(o))
	}
	sb.WriteString("]%string.\n\n")
	sb.WriteString("(* Compile stores a go-re2 program in the Regexp iff ... (thr = threshold()) *)\nDefinition re2_compiled_src (thr : Z) : bool := " + ci.cond + ".\n\n")
	sb.WriteString("(* func useRE2(inputLen) (thr = threshold()) *)\nDefinition use_re2_src (thr len : Z) : bool := " + useBody + ".\n\n")
	sb.WriteString("(* (re *Regexp) FindAllIndex(" + w.b + ", " + w.n + ") path by path *)\nDefinition find_all_index_tree : dtree :=\n  " + tree + ".\n\n")
	sb.WriteString("(* source text of the conditions the translator does not interpret *)\nDefinition opaque_conds : list string := [")
	for i, o := range w.opaque {
		if i > 0 {
			sb.WriteString("; ")
		}
		sb.WriteString(coqString(o))
	}
	sb.WriteString("]%string.\n\n")
	sb.WriteString("(* library functions behind the two engines: Compile calls (engine:function:argument) and the packages of the field types *)\n")
	sb.WriteString("Definition engine_compile_callees : list string := [")
	for i, c := range ci.callees {
		if i > 0 {
			sb.WriteString("; ")
		}
		sb.WriteString(coqString(c))
	}
	sb.WriteString("]%string.\nDefinition engine_packages : list string := [")
	for i, c := range finds {
		if i > 0 {
			sb.WriteString("; ")
		}
		sb.WriteString(coqString(c))
	}
	sb.WriteString("]%string.\n")
	fmt.Print(sb.String())

	for i := 2; i+1 < len(os.Args); i++ {
		if os.Args[i] == "-json" {
			js, _ := json.MarshalIndent(map[string]any{"leaves": w.leaves, "threshold_leaves": tw.leaves, "threshold_tree": ttree, "threshold_env_name": tw.envName, "opaque_conds": w.opaque, "tree": tree,
				"re2_compiled_src": ci.cond, "use_re2_src": useBody, "compile_callees": ci.callees, "engine_packages": finds}, "", " ")
			os.WriteFile(os.Args[i+1], js, 0o644)
		}
	}
}
