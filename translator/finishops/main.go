// finishops — lists, in program order, the file-system call sites (and the assignments to b.buildError) of the
// functions that make up an index install:  Builder.Finish, Builder.writeShard (index/builder.go),
// JsonMarshalRepoMetaTemp, setTombstone (index/tombstones.go).
//
//	go run /verif/translator/finishops/main.go -repo /repo   > coq/Generated/FinishSites.v
//
// Output: a Coq list `finish_sites : list (string * string * string)` of (function, call, context) where context is
// the chain of enclosing control statements, outermost first, joined by "/":
//
//	range                                                for ... range (the ranged expression is not recorded)
//	for                                                  other loops
//	iferr                                                body of `if <x> != nil` (x an identifier / selector ending in err/Error)
//	if, else                                             body / else branch of any other if
//	defer, func                                          deferred call, function literal
//	switch                                               a case clause
//
// Recorded: `return` statements of Finish directly inside a top-level if (the early exits that delimit its phases);
// calls: os.<mutating function>, methods Chmod/Write/Close/Sync/Truncate on a local identifier (file handles,
// the shard builder `ib`), calls of SetTombstone / JsonMarshalRepoMetaTemp, and `b.buildError = ...` assignments.
// Condition texts are deliberately NOT recorded so that renaming variables or rewording conditions does not change the
// output; reordering the rename loop and the delete loop, adding a mutation, or dropping an error guard does.
package main

import (
	"flag"
	"fmt"
	"go/ast"
	"go/parser"
	"go/token"
	"os"
	"path/filepath"
	"strings"
)

var osMut = map[string]bool{"Rename": true, "Remove": true, "RemoveAll": true, "Mkdir": true, "MkdirAll": true, "MkdirTemp": true,
	"CreateTemp": true, "Create": true, "OpenFile": true, "WriteFile": true, "Chmod": true, "Symlink": true, "Link": true, "Truncate": true}
var handleMethods = map[string]bool{"Chmod": true, "Write": true, "Close": true, "Sync": true, "Truncate": true, "WriteString": true}
var namedCalls = map[string]bool{"SetTombstone": true, "setTombstone": true, "JsonMarshalRepoMetaTemp": true}

type site struct{ fn, call, ctx string }

var sites []site

func lastIdent(e ast.Expr) string {
	switch x := e.(type) {
	case *ast.Ident:
		return x.Name
	case *ast.SelectorExpr:
		return x.Sel.Name
	case *ast.CallExpr:
		return lastIdent(x.Fun)
	case *ast.ParenExpr:
		return lastIdent(x.X)
	}
	return "?"
}

func isErrGuard(c ast.Expr) bool {
	b, ok := c.(*ast.BinaryExpr)
	if !ok || b.Op != token.NEQ {
		return false
	}
	if id, ok := b.Y.(*ast.Ident); !ok || id.Name != "nil" {
		return false
	}
	n := strings.ToLower(lastIdent(b.X))
	return strings.HasSuffix(n, "err") || strings.HasSuffix(n, "error")
}

func record(fn string, ctx []string, call string) {
	sites = append(sites, site{fn, call, strings.Join(ctx, "/")})
}

func walkExpr(fn string, ctx []string, e ast.Node) {
	if e == nil {
		return
	}
	ast.Inspect(e, func(n ast.Node) bool {
		switch x := n.(type) {
		case *ast.FuncLit:
			walkStmt(fn, append(append([]string{}, ctx...), "func"), x.Body)
			return false
		case *ast.CallExpr:
			// arguments first (evaluation order), then the call itself
			for _, a := range x.Args {
				walkExpr(fn, ctx, a)
			}
			switch f := x.Fun.(type) {
			case *ast.SelectorExpr:
				if id, ok := f.X.(*ast.Ident); ok {
					if id.Name == "os" && osMut[f.Sel.Name] {
						record(fn, ctx, "os."+f.Sel.Name)
					} else if id.Name != "os" && handleMethods[f.Sel.Name] && id.Obj != nil {
						record(fn, ctx, id.Name+"."+f.Sel.Name)
					}
				}
				walkExpr(fn, ctx, f.X)
			case *ast.Ident:
				if namedCalls[f.Name] {
					record(fn, ctx, f.Name)
				}
			default:
				walkExpr(fn, ctx, x.Fun)
			}
			return false
		}
		return true
	})
}

func walkStmt(fn string, ctx []string, s ast.Stmt) {
	with := func(c string) []string { return append(append([]string{}, ctx...), c) }
	switch x := s.(type) {
	case nil:
	case *ast.BlockStmt:
		if x == nil {
			return
		}
		for _, st := range x.List {
			walkStmt(fn, ctx, st)
		}
	case *ast.IfStmt:
		walkStmt(fn, ctx, x.Init)
		walkExpr(fn, ctx, x.Cond)
		tag := "if"
		if isErrGuard(x.Cond) {
			tag = "iferr"
		}
		walkStmt(fn, with(tag), x.Body)
		if x.Else != nil {
			if ei, ok := x.Else.(*ast.IfStmt); ok {
				walkStmt(fn, ctx, ei) // else-if chain: same nesting level
			} else {
				walkStmt(fn, with("else"), x.Else)
			}
		}
	case *ast.RangeStmt:
		walkExpr(fn, ctx, x.X)
		walkStmt(fn, with("range"), x.Body)
	case *ast.ForStmt:
		walkStmt(fn, ctx, x.Init)
		walkStmt(fn, with("for"), x.Body)
	case *ast.SwitchStmt:
		walkStmt(fn, ctx, x.Init)
		for _, c := range x.Body.List {
			for _, st := range c.(*ast.CaseClause).Body {
				walkStmt(fn, with("switch"), st)
			}
		}
	case *ast.DeferStmt:
		walkExpr(fn, with("defer"), x.Call)
	case *ast.GoStmt:
		walkExpr(fn, with("go"), x.Call)
	case *ast.AssignStmt:
		for _, r := range x.Rhs {
			walkExpr(fn, ctx, r)
		}
		for _, l := range x.Lhs {
			if sel, ok := l.(*ast.SelectorExpr); ok && sel.Sel.Name == "buildError" {
				record(fn, ctx, "buildError=")
			}
		}
	case *ast.LabeledStmt:
		walkStmt(fn, ctx, x.Stmt)
	case *ast.ReturnStmt:
		for _, r := range x.Results {
			walkExpr(fn, ctx, r)
		}
		// early exits of Finish directly under a top-level `if`: they delimit the phases (error of phase W, nothing to
		// install, a rename failed => the toDelete loop is skipped)
		if fn == "Finish" && len(ctx) == 1 {
			record(fn, ctx, "return")
		}
	default:
		walkExpr(fn, ctx, s)
	}
}

func main() {
	repo := flag.String("repo", "/repo", "module root")
	flag.Parse()
	want := map[string][]string{
		"index/builder.go":    {"Finish", "writeShard"},
		"index/tombstones.go": {"JsonMarshalRepoMetaTemp", "setTombstone"},
	}
	for _, rel := range []string{"index/builder.go", "index/tombstones.go"} {
		fset := token.NewFileSet()
		file, err := parser.ParseFile(fset, filepath.Join(*repo, rel), nil, 0)
		if err != nil {
			fmt.Fprintln(os.Stderr, err)
			os.Exit(1)
		}
		for _, name := range want[rel] {
			found := false
			for _, d := range file.Decls {
				if fd, ok := d.(*ast.FuncDecl); ok && fd.Name.Name == name && fd.Body != nil {
					found = true
					walkStmt(name, nil, fd.Body)
				}
			}
			if !found {
				sites = append(sites, site{name, "MISSING", ""})
			}
		}
	}
	fmt.Println("(* generated by translator/finishops from index/builder.go and index/tombstones.go; do not edit *)")
	fmt.Println("Require Import Coq.Strings.String Coq.Lists.List.\nImport ListNotations.\nOpen Scope string_scope.")
	fmt.Println("Definition finish_sites : list (string * string * string) := [")
	for i, s := range sites {
		sep := ";"
		if i == len(sites)-1 {
			sep = ""
		}
		fmt.Printf("  (%q, %q, %q)%s\n", s.fn, s.call, s.ctx, sep)
	}
	fmt.Println("].")
}
