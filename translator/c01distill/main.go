// Translator for C01 (regexp distillation): regenerates coq/Generated/DistillSwitch.v from /repo/index/eval.go.
//   go run main.go <repo-root>   (prints the Coq file on stdout; stdlib only: go/ast, go/parser)
// Extracted from (*indexData).regexpToMatchTreeRecursive, the `switch r.Op`:
//   * handled_ops: the syntax.Op* constants that have a case clause (sorted) - the operators the model's projection of
//     regexp/syntax.Regexp must represent; everything else falls to the final return.
//   * star_rules: for the clause of OpStar, one entry per `if` statement: the set of operand operators the condition accepts
//     (`r.Sub[0].Op == syntax.OpX`, possibly a disjunction, possibly through a variable bound in the if's init statement)
//     with the literal (isEqual, singleLine) results of the `return` in its body. A statement of that clause the translator
//     cannot classify is printed with the operand "?<source text>", an unconditional return with the operand "*":
//     the obligations over this table then do not check and the check reports it.
//   * lit_single_line: how the clause of OpLiteral computes singleLine ("no-newline" = !strings.Contains(s, "\n")).
//   * default_flags: (isEqual, singleLine) of the function's final return.
package main

import (
	"bytes"
	"fmt"
	"go/ast"
	"go/parser"
	"go/printer"
	"go/token"
	"os"
	"path/filepath"
	"sort"
	"strings"
)

func die(f string, a ...any) { fmt.Fprintf(os.Stderr, f+"\n", a...); os.Exit(2) }

var fset = token.NewFileSet()

func src(n ast.Node) string {
	var b bytes.Buffer
	printer.Fprint(&b, fset, n)
	return strings.Join(strings.Fields(b.String()), " ")
}

// opConst: syntax.OpX -> "OpX"
func opConst(e ast.Expr) (string, bool) {
	sel, ok := e.(*ast.SelectorExpr)
	if !ok {
		return "", false
	}
	if id, ok := sel.X.(*ast.Ident); !ok || id.Name != "syntax" {
		return "", false
	}
	if !strings.HasPrefix(sel.Sel.Name, "Op") {
		return "", false
	}
	return sel.Sel.Name, true
}

// isSub0: r.Sub[0] (for any receiver name)
func isSub0(e ast.Expr) bool {
	ix, ok := e.(*ast.IndexExpr)
	if !ok {
		return false
	}
	if l, ok := ix.Index.(*ast.BasicLit); !ok || l.Value != "0" {
		return false
	}
	s2, ok := ix.X.(*ast.SelectorExpr)
	return ok && s2.Sel.Name == "Sub"
}

// isSubOp: r.Sub[0].Op (for any receiver name), or the identifier bound to it ("=op"), or x.Op for x bound to r.Sub[0] ("=sub")
func isSubOp(e ast.Expr, alias string) bool {
	if p, ok := e.(*ast.ParenExpr); ok {
		return isSubOp(p.X, alias)
	}
	if id, ok := e.(*ast.Ident); ok {
		return strings.HasPrefix(alias, "op:") && id.Name == alias[3:]
	}
	sel, ok := e.(*ast.SelectorExpr)
	if !ok || sel.Sel.Name != "Op" {
		return false
	}
	if id, ok := sel.X.(*ast.Ident); ok {
		return strings.HasPrefix(alias, "sub:") && id.Name == alias[4:]
	}
	ix, ok := sel.X.(*ast.IndexExpr)
	if !ok {
		return false
	}
	if l, ok := ix.Index.(*ast.BasicLit); !ok || l.Value != "0" {
		return false
	}
	s2, ok := ix.X.(*ast.SelectorExpr)
	return ok && s2.Sel.Name == "Sub"
}

// accepted: the operand operators for which cond holds; ok=false if cond is not a disjunction of `subop == syntax.OpX`
func accepted(cond ast.Expr, alias string) ([]string, bool) {
	switch c := cond.(type) {
	case *ast.ParenExpr:
		return accepted(c.X, alias)
	case *ast.BinaryExpr:
		switch c.Op {
		case token.LOR:
			a, ok1 := accepted(c.X, alias)
			b, ok2 := accepted(c.Y, alias)
			return append(a, b...), ok1 && ok2
		case token.EQL:
			if op, ok := opConst(c.Y); ok && isSubOp(c.X, alias) {
				return []string{op}, true
			}
			if op, ok := opConst(c.X); ok && isSubOp(c.Y, alias) {
				return []string{op}, true
			}
		}
	}
	return nil, false
}

func boolLit(e ast.Expr) (bool, bool) {
	id, ok := e.(*ast.Ident)
	if !ok {
		return false, false
	}
	switch id.Name {
	case "true":
		return true, true
	case "false":
		return false, true
	}
	return false, false
}

// retFlags: `return x, B1, B2, err` with literal booleans
func retFlags(s ast.Stmt) (isEq, sl, ok bool) {
	r, ok := s.(*ast.ReturnStmt)
	if !ok || len(r.Results) != 4 {
		return false, false, false
	}
	a, ok1 := boolLit(r.Results[1])
	b, ok2 := boolLit(r.Results[2])
	return a, b, ok1 && ok2
}

// litSingleLine classifies the singleLine result of the clause of OpLiteral: the third result of the (single) return
// statement that builds the substring leaf: "no-newline" for !strings.Contains(<x>, "\n"), "always" / "never" for a literal
// boolean, "?<source>" otherwise.
func litSingleLine(cc *ast.CaseClause) string {
	var rets []*ast.ReturnStmt
	for _, st := range cc.Body {
		ast.Inspect(st, func(n ast.Node) bool {
			if r, ok := n.(*ast.ReturnStmt); ok && len(r.Results) == 4 {
				rets = append(rets, r)
			}
			return true
		})
	}
	if len(rets) != 1 {
		return fmt.Sprintf("?%d return statements in the clause of OpLiteral", len(rets))
	}
	e := rets[0].Results[2]
	if b, ok := boolLit(e); ok {
		if b {
			return "always"
		}
		return "never"
	}
	if u, ok := e.(*ast.UnaryExpr); ok && u.Op == token.NOT {
		if call, ok := u.X.(*ast.CallExpr); ok && len(call.Args) == 2 {
			if sel, ok := call.Fun.(*ast.SelectorExpr); ok && sel.Sel.Name == "Contains" {
				if id, ok := sel.X.(*ast.Ident); ok && id.Name == "strings" {
					if l, ok := call.Args[1].(*ast.BasicLit); ok && l.Kind == token.STRING && l.Value == `"\n"` {
						return "no-newline"
					}
				}
			}
		}
	}
	return "?" + src(e)
}

func cBool(b bool) string {
	if b {
		return "true"
	}
	return "false"
}

func cStrs(xs []string) string {
	var q []string
	for _, x := range xs {
		q = append(q, `"`+strings.ReplaceAll(x, `"`, `""`)+`"`)
	}
	return "[" + strings.Join(q, "; ") + "]"
}

func main() {
	if len(os.Args) < 2 {
		die("usage: main.go <repo-root>")
	}
	path := filepath.Join(os.Args[1], "index", "eval.go")
	f, err := parser.ParseFile(fset, path, nil, 0)
	if err != nil {
		die("parse %s: %v", path, err)
	}
	var fn *ast.FuncDecl
	for _, d := range f.Decls {
		if fd, ok := d.(*ast.FuncDecl); ok && fd.Name.Name == "regexpToMatchTreeRecursive" {
			fn = fd
		}
	}
	if fn == nil || fn.Body == nil {
		die("regexpToMatchTreeRecursive not found in %s", path)
	}
	var sw *ast.SwitchStmt
	for _, s := range fn.Body.List {
		if x, ok := s.(*ast.SwitchStmt); ok && x.Tag != nil {
			if sel, ok := x.Tag.(*ast.SelectorExpr); ok && sel.Sel.Name == "Op" {
				sw = x
				break
			}
		}
	}
	if sw == nil {
		die("no `switch r.Op` at the top level of regexpToMatchTreeRecursive")
	}
	var handled []string
	type rule struct {
		ops      []string
		isEq, sl bool
	}
	var rules []rule
	starSeen := false
	litSL := "?no clause for OpLiteral alone"
	for _, cs := range sw.Body.List {
		cc := cs.(*ast.CaseClause)
		isStar := false
		for _, e := range cc.List {
			op, ok := opConst(e)
			if !ok {
				handled = append(handled, "?"+src(e))
				continue
			}
			handled = append(handled, op)
			if op == "OpStar" {
				isStar = true
			}
		}
		if cc.List == nil {
			handled = append(handled, "default")
		}
		if len(cc.List) == 1 {
			if op, _ := opConst(cc.List[0]); op == "OpLiteral" {
				litSL = litSingleLine(cc)
			}
		}
		if !isStar {
			continue
		}
		starSeen = true
		if len(cc.List) != 1 {
			rules = append(rules, rule{ops: []string{"?OpStar shares its clause: " + src(cc.List[0])}})
		}
		for _, st := range cc.Body {
			if isEq, sl, ok := retFlags(st); ok {
				rules = append(rules, rule{[]string{"*"}, isEq, sl})
				continue
			}
			ifs, ok := st.(*ast.IfStmt)
			if !ok || ifs.Else != nil || len(ifs.Body.List) != 1 {
				rules = append(rules, rule{ops: []string{"?" + src(st)}})
				continue
			}
			alias := ""
			if ifs.Init != nil {
				as, ok := ifs.Init.(*ast.AssignStmt)
				if !ok || len(as.Lhs) != 1 || len(as.Rhs) != 1 || !(isSubOp(as.Rhs[0], "") || isSub0(as.Rhs[0])) {
					rules = append(rules, rule{ops: []string{"?" + src(st)}})
					continue
				}
				if isSub0(as.Rhs[0]) {
					alias = "sub:" + as.Lhs[0].(*ast.Ident).Name
				} else {
					alias = "op:" + as.Lhs[0].(*ast.Ident).Name
				}
			}
			ops, ok1 := accepted(ifs.Cond, alias)
			isEq, sl, ok2 := retFlags(ifs.Body.List[0])
			if !ok1 || !ok2 {
				rules = append(rules, rule{ops: []string{"?" + src(st)}})
				continue
			}
			sort.Strings(ops)
			rules = append(rules, rule{ops, isEq, sl})
		}
	}
	if !starSeen {
		// no clause for OpStar: every star falls to the final return
	}
	sort.Strings(handled)
	dEq, dSl, ok := false, false, false
	if n := len(fn.Body.List); n > 0 {
		dEq, dSl, ok = retFlags(fn.Body.List[n-1])
	}
	if !ok {
		die("the final statement of regexpToMatchTreeRecursive is not `return _, <bool>, <bool>, _`")
	}
	var b strings.Builder
	b.WriteString("(* GENERATED by translator/c01distill from index/eval.go (regexpToMatchTreeRecursive) - do not edit *)\n")
	b.WriteString("From Coq Require Import List String.\nImport ListNotations.\nOpen Scope string_scope.\n\n")
	b.WriteString("(* the regexp/syntax operators that have a case clause in the `switch r.Op` *)\n")
	b.WriteString("Definition handled_ops : list string := " + cStrs(handled) + ".\n\n")
	b.WriteString("(* the clause of OpStar: (operand operators accepted by the condition, (isEqual, singleLine) returned) *)\n")
	b.WriteString("Definition star_rules : list (list string * (bool * bool)) :=\n  [")
	for i, r := range rules {
		if i > 0 {
			b.WriteString(";\n   ")
		}
		b.WriteString("(" + cStrs(r.ops) + ", (" + cBool(r.isEq) + ", " + cBool(r.sl) + "))")
	}
	b.WriteString("].\n\n")
	b.WriteString("(* the clause of OpLiteral: singleLine of a literal of >= minTextSize bytes (no-newline = !strings.Contains(s, \"\\n\")) *)\n")
	b.WriteString("Definition lit_single_line : string := " + cStrs([]string{litSL})[1:len(cStrs([]string{litSL}))-1] + ".\n\n")
	b.WriteString("(* the final return: (isEqual, singleLine) of every operator / operand not handled above *)\n")
	b.WriteString("Definition default_flags : bool * bool := (" + cBool(dEq) + ", " + cBool(dSl) + ").\n")
	fmt.Print(b.String())
}
