// fsinstrument — on-the-fly source rewriter for filesystem fault / crash injection (no edits to /repo).
//
//	go run /verif/translator/fsinstrument/main.go -repo /repo -out <scratch-dir> [-fns Rename,Remove,...] \
//	       [-funcs Merge,Explode,...] index/merge.go cmd/zoekt-merge-index/main.go ...
//
// For every listed Go file (path relative to -repo) it writes a copy under <out>/src/<path> in which
// each call `os.<Fn>(...)` with <Fn> in -fns (default: every function the shim implements except
// Stat/Lstat/ReadDir) is replaced by `zzfs.<Fn>(...)`, and the import
// "<module>/internal/zzfs" is added. With -funcs only call sites inside the named top-level functions
// / methods are rewritten. It prints, on stdout, a JSON object
//
//	{"Replace": {"<repo>/<path>": "<out>/src/<path>", ..., "<repo>/internal/zzfs/zzfs.go": "<shim>"},
//	 "sites": [{"file":..,"line":..,"func":..,"call":"os.Rename"}...]}
//
// whose "Replace" map is merged into the overlay passed to `go build/test -overlay`. The shim package
// (shim/zzfs.go next to this file; see its package comment for Plan / Log / kill modes) is thereby
// added to the module as <module>/internal/zzfs without existing in /repo.
//
// The rewritten file is otherwise identical (same declarations, gofmt-printed), so the instrumented
// build runs the current working tree's code. Calls through *os.File methods (Write, Chmod, Close)
// cannot be rewritten at call sites; use the shim's "badwrite"/"closed" fault modes on the
// CreateTemp/Create/OpenFile that produced the handle.
package main

import (
	"encoding/json"
	"flag"
	"fmt"
	"go/ast"
	"go/format"
	"go/parser"
	"go/token"
	"os"
	"path/filepath"
	"runtime"
	"strconv"
	"strings"
)

var defaultFns = "Rename,Remove,RemoveAll,Mkdir,MkdirAll,MkdirTemp,CreateTemp,Create,OpenFile,WriteFile,Chmod,Symlink,Link,Truncate,Open,ReadFile"

type site struct {
	File string `json:"file"`
	Line int    `json:"line"`
	Func string `json:"func"`
	Call string `json:"call"`
}

func main() {
	repo := flag.String("repo", "/repo", "root of the module under test")
	out := flag.String("out", "", "scratch directory for rewritten sources")
	fns := flag.String("fns", defaultFns, "comma separated os.* functions to intercept (also available: Stat,Lstat,ReadDir)")
	funcs := flag.String("funcs", "", "only rewrite call sites inside these top-level functions/methods (comma separated; empty = whole file)")
	shim := flag.String("shim", "", "path of the shim source (default: shim/zzfs.go next to this program)")
	flag.Parse()
	if *out == "" || flag.NArg() == 0 {
		fmt.Fprintln(os.Stderr, "usage: fsinstrument -repo DIR -out DIR file.go...")
		os.Exit(2)
	}
	if *shim == "" {
		_, self, _, _ := runtime.Caller(0)
		*shim = filepath.Join(filepath.Dir(self), "shim", "zzfs.go")
	}
	mod := modulePath(*repo)
	want := map[string]bool{}
	for _, f := range strings.Split(*fns, ",") {
		if f = strings.TrimSpace(f); f != "" {
			want[f] = true
		}
	}
	only := map[string]bool{}
	for _, f := range strings.Split(*funcs, ",") {
		if f = strings.TrimSpace(f); f != "" {
			only[f] = true
		}
	}
	replace := map[string]string{}
	var sites []site
	for _, rel := range flag.Args() {
		src := filepath.Join(*repo, rel)
		fset := token.NewFileSet()
		file, err := parser.ParseFile(fset, src, nil, parser.ParseComments)
		if err != nil {
			fmt.Fprintln(os.Stderr, "fsinstrument:", err)
			os.Exit(1)
		}
		osName := ""
		for _, im := range file.Imports {
			if p, _ := strconv.Unquote(im.Path.Value); p == "os" {
				osName = "os"
				if im.Name != nil {
					osName = im.Name.Name
				}
			}
		}
		n := 0
		if osName != "" && osName != "_" && osName != "." {
			for _, d := range file.Decls {
				fd, ok := d.(*ast.FuncDecl)
				fname := ""
				if ok {
					fname = fd.Name.Name
				}
				if len(only) > 0 && !only[fname] {
					continue
				}
				ast.Inspect(d, func(nd ast.Node) bool {
					call, ok := nd.(*ast.CallExpr)
					if !ok {
						return true
					}
					sel, ok := call.Fun.(*ast.SelectorExpr)
					if !ok {
						return true
					}
					id, ok := sel.X.(*ast.Ident)
					if !ok || id.Name != osName || id.Obj != nil || !want[sel.Sel.Name] {
						return true
					}
					sites = append(sites, site{File: rel, Line: fset.Position(call.Pos()).Line, Func: fname, Call: "os." + sel.Sel.Name})
					id.Name = "zzfs"
					n++
					return true
				})
			}
		}
		if n > 0 {
			addImport(file, mod+"/internal/zzfs", osName)
		}
		dst := filepath.Join(*out, "src", rel)
		if err := os.MkdirAll(filepath.Dir(dst), 0o755); err != nil {
			panic(err)
		}
		f, err := os.Create(dst)
		if err != nil {
			panic(err)
		}
		if err := format.Node(f, fset, file); err != nil {
			panic(err)
		}
		f.Close()
		replace[src] = dst
	}
	replace[filepath.Join(*repo, "internal", "zzfs", "zzfs.go")] = *shim
	b, _ := json.MarshalIndent(map[string]any{"Replace": replace, "sites": sites}, "", " ")
	fmt.Println(string(b))
}

// addImport appends the import to the first import declaration. If "os" is no longer referenced the
// compiler would complain, so keep a blank use.
func addImport(file *ast.File, path string, osName string) {
	spec := &ast.ImportSpec{Path: &ast.BasicLit{Kind: token.STRING, Value: strconv.Quote(path)}}
	for _, d := range file.Decls {
		if gd, ok := d.(*ast.GenDecl); ok && gd.Tok == token.IMPORT {
			gd.Specs = append(gd.Specs, spec)
			if !gd.Lparen.IsValid() {
				gd.Lparen = gd.Pos()
				gd.Rparen = gd.End()
			}
			file.Imports = append(file.Imports, spec)
			goto keep
		}
	}
	file.Decls = append([]ast.Decl{&ast.GenDecl{Tok: token.IMPORT, Specs: []ast.Spec{spec}}}, file.Decls...)
keep:
	// `var _ = os.Getpid` keeps the "os" import used even if every os.* call was rewritten.
	file.Decls = append(file.Decls, &ast.GenDecl{Tok: token.VAR, Specs: []ast.Spec{&ast.ValueSpec{
		Names:  []*ast.Ident{ast.NewIdent("_")},
		Values: []ast.Expr{&ast.SelectorExpr{X: ast.NewIdent(osName), Sel: ast.NewIdent("Getpid")}},
	}}})
}

func modulePath(repo string) string {
	b, err := os.ReadFile(filepath.Join(repo, "go.mod"))
	if err != nil {
		panic(err)
	}
	for _, l := range strings.Split(string(b), "\n") {
		if strings.HasPrefix(l, "module ") {
			return strings.TrimSpace(strings.TrimPrefix(l, "module "))
		}
	}
	panic("no module line in go.mod")
}
