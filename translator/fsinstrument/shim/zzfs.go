// Package zzfs is the run-time half of /verif/translator/fsinstrument.
//
// It is NEVER part of /repo: the check maps this file into the module as
// <module>/internal/zzfs/zzfs.go with `go build/test -overlay`, together with rewritten copies of the
// source files under test in which every `os.<Fn>(...)` call of the functions listed below has been
// replaced by `zzfs.<Fn>(...)`.
//
// What it does:
//   - every intercepted call gets a global sequence number (0,1,2,...) and is logged as an Op
//     (kind, path arguments, result) — in memory (Log) and, if ZZFS_LOG is set, as JSON lines
//     appended (unbuffered) to that file, so the log survives a kill;
//   - a Plan selects operations, either by sequence number or by (kind, path-substring, occurrence),
//     to FAIL (the call returns an error and does nothing) or to KILL at (the process stops just
//     BEFORE performing that operation):
//     kill mode "exit"   = os.Exit(137) — for sub-process runs of a real command;
//     kill mode "freeze" = from then on every intercepted operation is skipped and returns an
//     error, so the directory keeps the state of the kill point while the calling
//     test keeps running (deferred clean-ups included: they are skipped too);
//   - CreateTemp/Create/OpenFile can also be made to return a handle on which later writes fail
//     ("badwrite": the file is created, then reopened read-only) or that is already closed
//     ("closed": Chmod/Write/Stat/Close all fail) — this is how failures of *os.File methods, which
//     are not call-site rewritable, are injected.
//
// In-process use (overlay test in the same module):   zzfs.Reset(zzfs.Plan{...}); ...; zzfs.Log()
// Sub-process use: environment ZZFS_PLAN=<json of Plan>, ZZFS_LOG=<file>.
package zzfs

import (
	"encoding/json"
	"errors"
	"io/fs"
	"os"
	"strings"
	"sync"
)

// Sel selects intercepted operations. An operation matches when (Seq >= 0 and its sequence number is
// Seq) or (Seq < 0 and Kind matches ("" or "*" = any kind) and every non-empty element of Args is a
// substring of (or, when written "=<path>", equal to; when written "$<suffix>", a suffix of) the corresponding path argument and it is the Occ-th (0-based) such match; Occ < 0 = every match).
type Sel struct {
	Seq  int      `json:"seq"`
	Kind string   `json:"kind,omitempty"`
	Args []string `json:"args,omitempty"`
	Occ  int      `json:"occ"`
	// Mode for faults: "" or "fail" = return an error; "badwrite" / "closed" = see package comment
	// (only for CreateTemp, Create, OpenFile; on other kinds they behave like "fail").
	Mode string `json:"mode,omitempty"`
}

// Plan is a set of faults plus an optional kill point.
type Plan struct {
	Fail     []Sel  `json:"fail,omitempty"`
	Kill     *Sel   `json:"kill,omitempty"`
	KillMode string `json:"kill_mode,omitempty"` // "exit" (default) | "freeze"
	// MutOnly: the kill selector only counts/matches mutating operations (everything except Open, ReadFile, Stat, Lstat, ReadDir).
	MutOnly bool `json:"mut_only,omitempty"`
}

// Op is one logged operation.
type Op struct {
	Seq    int      `json:"seq"`
	Kind   string   `json:"kind"`
	Args   []string `json:"args"`
	Mut    bool     `json:"mut"`
	Result string   `json:"result"` // done | failed (natural error) | injected | badwrite | closed | skipped (after a freeze) | killed
	Err    string   `json:"err,omitempty"`
}

var (
	mu      sync.Mutex
	plan    Plan
	seq     int
	frozen  bool
	ops     []Op
	counts  map[int]int // per selector index (fail: i, kill: -1) number of matches seen so far
	logFile *os.File
)

// ErrInjected is returned by operations failed by the plan; ErrKilled by operations skipped after a freeze.
var (
	ErrInjected = errors.New("zzfs: injected failure")
	ErrKilled   = errors.New("zzfs: process was killed here (frozen)")
)

func init() {
	if s := os.Getenv("ZZFS_PLAN"); s != "" {
		var p Plan
		if err := json.Unmarshal([]byte(s), &p); err != nil {
			panic("zzfs: bad ZZFS_PLAN: " + err.Error())
		}
		Reset(p)
	} else {
		Reset(Plan{})
	}
}

// Reset installs a plan and clears the log and all counters.
func Reset(p Plan) {
	mu.Lock()
	defer mu.Unlock()
	plan = p
	seq = 0
	frozen = false
	ops = nil
	counts = map[int]int{}
	if logFile != nil {
		logFile.Close()
		logFile = nil
	}
	if fn := os.Getenv("ZZFS_LOG"); fn != "" {
		logFile, _ = os.OpenFile(fn, os.O_CREATE|os.O_WRONLY|os.O_APPEND, 0o644)
	}
}

// Log returns a copy of the operations logged since the last Reset.
func Log() []Op {
	mu.Lock()
	defer mu.Unlock()
	return append([]Op(nil), ops...)
}

// Frozen reports whether a freeze-mode kill point has been reached.
func Frozen() bool {
	mu.Lock()
	defer mu.Unlock()
	return frozen
}

func (s *Sel) matches(idx int, n int, kind string, args []string) bool {
	if s.Seq >= 0 {
		return n == s.Seq
	}
	if s.Kind != "" && s.Kind != "*" && s.Kind != kind {
		return false
	}
	for i, a := range s.Args {
		if a == "" {
			continue
		}
		if i >= len(args) {
			return false
		}
		if strings.HasPrefix(a, "=") {
			if args[i] != a[1:] {
				return false
			}
		} else if strings.HasPrefix(a, "$") {
			if !strings.HasSuffix(args[i], a[1:]) {
				return false
			}
		} else if !strings.Contains(args[i], a) {
			return false
		}
	}
	c := counts[idx]
	counts[idx] = c + 1
	return s.Occ < 0 || c == s.Occ
}

// begin registers an operation. It returns the Op record (not yet logged) and the decision:
// "" = perform it, otherwise "fail" | "badwrite" | "closed" | "skip".
func begin(kind string, mut bool, args ...string) (*Op, string) {
	mu.Lock()
	defer mu.Unlock()
	op := &Op{Seq: seq, Kind: kind, Args: args, Mut: mut}
	seq++
	if frozen {
		return op, "skip"
	}
	if k := plan.Kill; k != nil && (mut || !plan.MutOnly) && k.matches(-1, op.Seq, kind, args) {
		op.Result = "killed"
		record(op)
		if plan.KillMode == "freeze" {
			frozen = true
			return nil, "skip"
		}
		if logFile != nil {
			logFile.Sync()
		}
		os.Exit(137)
	}
	for i := range plan.Fail {
		f := &plan.Fail[i]
		if f.matches(i, op.Seq, kind, args) {
			m := f.Mode
			if m == "" {
				m = "fail"
			}
			return op, m
		}
	}
	return op, ""
}

func record(op *Op) {
	ops = append(ops, *op)
	if logFile != nil {
		b, _ := json.Marshal(op)
		logFile.Write(append(b, '\n'))
	}
}

func end(op *Op, result string, err error) {
	if op == nil { // the kill record was already written
		return
	}
	mu.Lock()
	defer mu.Unlock()
	op.Result = result
	if err != nil {
		op.Err = err.Error()
	}
	record(op)
}

func finish(op *Op, err error) error {
	if err != nil {
		end(op, "failed", err)
	} else {
		end(op, "done", nil)
	}
	return err
}

func pathErr(opname, p string, dec string) error {
	e := ErrInjected
	if dec == "skip" {
		e = ErrKilled
	}
	return &fs.PathError{Op: opname, Path: p, Err: e}
}

func refuse(op *Op, dec, opname, p string) error {
	err := pathErr(opname, p, dec)
	if dec == "skip" {
		end(op, "skipped", err)
	} else {
		end(op, "injected", err)
	}
	return err
}

// degrade implements the "badwrite"/"closed" modes on a freshly created file.
func degrade(f *os.File, dec string) *os.File {
	name := f.Name()
	f.Close()
	if dec == "closed" {
		return f // a closed handle: every method fails with os.ErrClosed
	}
	g, err := os.Open(name) // read-only: Chmod/Stat/Close work, Write fails
	if err != nil {
		return f
	}
	return g
}

// ---- mutating operations

func Rename(oldpath, newpath string) error {
	op, dec := begin("Rename", true, oldpath, newpath)
	if dec != "" {
		return refuse(op, dec, "rename", oldpath)
	}
	return finish(op, os.Rename(oldpath, newpath))
}

func Remove(name string) error {
	op, dec := begin("Remove", true, name)
	if dec != "" {
		return refuse(op, dec, "remove", name)
	}
	return finish(op, os.Remove(name))
}

func RemoveAll(path string) error {
	op, dec := begin("RemoveAll", true, path)
	if dec != "" {
		return refuse(op, dec, "removeall", path)
	}
	return finish(op, os.RemoveAll(path))
}

func Mkdir(name string, perm os.FileMode) error {
	op, dec := begin("Mkdir", true, name)
	if dec != "" {
		return refuse(op, dec, "mkdir", name)
	}
	return finish(op, os.Mkdir(name, perm))
}

func MkdirAll(path string, perm os.FileMode) error {
	op, dec := begin("MkdirAll", true, path)
	if dec != "" {
		return refuse(op, dec, "mkdir", path)
	}
	return finish(op, os.MkdirAll(path, perm))
}

func MkdirTemp(dir, pattern string) (string, error) {
	op, dec := begin("MkdirTemp", true, dir, pattern)
	if dec != "" {
		return "", refuse(op, dec, "mkdirtemp", dir)
	}
	s, err := os.MkdirTemp(dir, pattern)
	if err == nil {
		op.Args = append(op.Args, s)
	}
	return s, finish(op, err)
}

func CreateTemp(dir, pattern string) (*os.File, error) {
	op, dec := begin("CreateTemp", true, dir, pattern)
	if dec == "fail" || dec == "skip" {
		return nil, refuse(op, dec, "createtemp", dir+"/"+pattern)
	}
	f, err := os.CreateTemp(dir, pattern)
	if err != nil {
		return nil, finish(op, err)
	}
	op.Args = append(op.Args, f.Name())
	if dec != "" {
		f = degrade(f, dec)
		end(op, dec, nil)
		return f, nil
	}
	return f, finish(op, nil)
}

func Create(name string) (*os.File, error) {
	op, dec := begin("Create", true, name)
	if dec == "fail" || dec == "skip" {
		return nil, refuse(op, dec, "open", name)
	}
	f, err := os.Create(name)
	if err != nil {
		return nil, finish(op, err)
	}
	if dec != "" {
		f = degrade(f, dec)
		end(op, dec, nil)
		return f, nil
	}
	return f, finish(op, nil)
}

func OpenFile(name string, flag int, perm os.FileMode) (*os.File, error) {
	mut := flag&(os.O_WRONLY|os.O_RDWR|os.O_CREATE|os.O_TRUNC|os.O_APPEND) != 0
	op, dec := begin("OpenFile", mut, name)
	if dec == "fail" || dec == "skip" {
		return nil, refuse(op, dec, "open", name)
	}
	f, err := os.OpenFile(name, flag, perm)
	if err != nil {
		return nil, finish(op, err)
	}
	if dec != "" && mut {
		f = degrade(f, dec)
		end(op, dec, nil)
		return f, nil
	}
	return f, finish(op, nil)
}

func WriteFile(name string, data []byte, perm os.FileMode) error {
	op, dec := begin("WriteFile", true, name)
	if dec != "" {
		return refuse(op, dec, "open", name)
	}
	return finish(op, os.WriteFile(name, data, perm))
}

func Chmod(name string, mode os.FileMode) error {
	op, dec := begin("Chmod", true, name)
	if dec != "" {
		return refuse(op, dec, "chmod", name)
	}
	return finish(op, os.Chmod(name, mode))
}

func Symlink(oldname, newname string) error {
	op, dec := begin("Symlink", true, oldname, newname)
	if dec != "" {
		return refuse(op, dec, "symlink", newname)
	}
	return finish(op, os.Symlink(oldname, newname))
}

func Link(oldname, newname string) error {
	op, dec := begin("Link", true, oldname, newname)
	if dec != "" {
		return refuse(op, dec, "link", newname)
	}
	return finish(op, os.Link(oldname, newname))
}

func Truncate(name string, size int64) error {
	op, dec := begin("Truncate", true, name)
	if dec != "" {
		return refuse(op, dec, "truncate", name)
	}
	return finish(op, os.Truncate(name, size))
}

// ---- non-mutating operations (faultable, never kill points when Plan.MutOnly)

func Open(name string) (*os.File, error) {
	op, dec := begin("Open", false, name)
	if dec != "" {
		return nil, refuse(op, dec, "open", name)
	}
	f, err := os.Open(name)
	return f, finish(op, err)
}

func ReadFile(name string) ([]byte, error) {
	op, dec := begin("ReadFile", false, name)
	if dec != "" {
		return nil, refuse(op, dec, "open", name)
	}
	b, err := os.ReadFile(name)
	return b, finish(op, err)
}

func Stat(name string) (os.FileInfo, error) {
	op, dec := begin("Stat", false, name)
	if dec != "" {
		return nil, refuse(op, dec, "stat", name)
	}
	fi, err := os.Stat(name)
	return fi, finish(op, err)
}

func Lstat(name string) (os.FileInfo, error) {
	op, dec := begin("Lstat", false, name)
	if dec != "" {
		return nil, refuse(op, dec, "lstat", name)
	}
	fi, err := os.Lstat(name)
	return fi, finish(op, err)
}

func ReadDir(name string) ([]os.DirEntry, error) {
	op, dec := begin("ReadDir", false, name)
	if dec != "" {
		return nil, refuse(op, dec, "open", name)
	}
	es, err := os.ReadDir(name)
	return es, finish(op, err)
}
