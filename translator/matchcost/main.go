// Translator for C07 (search beyond the kind dispatch): regenerates coq/Generated/MatchCost.v from /repo/index.
//   go run main.go <repo-root>   (prints the Coq file on stdout; stdlib only: go/ast, go/parser)
// Extracted from package index:
//   * the cost constants (costConst .. costMax);
//   * every type with a `matches(cp, cost, known) matchesState` method (the matchTree node kinds), and per method:
//       - the constants X of all comparisons `cost < X` in its body,
//       - whether the body calls evalMatchTree (the node evaluates other nodes: a composite),
//       - whether some `return matchesRequiresHigherCost` is NOT inside an if whose condition contains `cost < X`
//         (a leaf that could defer for a reason other than the cost level);
//   * struct embeddings that promote a matches method (noVisitMatchTree{matchTree}, symbolSubstrMatchTree{*substrMatchTree}, ...);
//   * the evaluation loop of indexData.Search: the bounds of `for cost := A; cost <= B; cost++` and the constant of the
//     `cost == X` test that guards log.Panicf("did not decide ...").
package main

import (
	"fmt"
	"go/ast"
	"go/parser"
	"go/token"
	"os"
	"path/filepath"
	"sort"
	"strconv"
	"strings"
)

func die(f string, a ...any) { fmt.Fprintf(os.Stderr, f+"\n", a...); os.Exit(2) }

type info struct {
	thresholds []string
	composite  bool
	unguarded  bool
}

func recvName(fd *ast.FuncDecl) string {
	if fd.Recv == nil || len(fd.Recv.List) != 1 {
		return ""
	}
	t := fd.Recv.List[0].Type
	if s, ok := t.(*ast.StarExpr); ok {
		t = s.X
	}
	if id, ok := t.(*ast.Ident); ok {
		return id.Name
	}
	return ""
}

// the constants X of `cost < X` inside e
func costGuards(e ast.Expr) []string {
	var out []string
	ast.Inspect(e, func(n ast.Node) bool {
		if b, ok := n.(*ast.BinaryExpr); ok && b.Op == token.LSS {
			if l, ok := b.X.(*ast.Ident); ok && l.Name == "cost" {
				if r, ok := b.Y.(*ast.Ident); ok {
					out = append(out, r.Name)
				}
			}
		}
		return true
	})
	return out
}

func returnsHigher(s ast.Stmt) bool {
	r, ok := s.(*ast.ReturnStmt)
	if !ok || len(r.Results) != 1 {
		return false
	}
	id, ok := r.Results[0].(*ast.Ident)
	return ok && id.Name == "matchesRequiresHigherCost"
}

// walk statements; guarded = we are inside the body of an if whose condition has a `cost < X`
func scan(n ast.Node, guarded bool, inf *info) {
	switch s := n.(type) {
	case nil:
		return
	case *ast.IfStmt:
		g := costGuards(s.Cond)
		inf.thresholds = append(inf.thresholds, g...)
		scan(s.Body, guarded || len(g) > 0, inf)
		if s.Else != nil {
			scan(s.Else, guarded, inf)
		}
		return
	case *ast.BlockStmt:
		for _, x := range s.List {
			scan(x, guarded, inf)
		}
		return
	case *ast.ReturnStmt:
		if returnsHigher(s) && !guarded {
			inf.unguarded = true
		}
	case *ast.AssignStmt:
		for _, r := range s.Rhs {
			if id, ok := r.(*ast.Ident); ok && id.Name == "matchesRequiresHigherCost" && !guarded {
				inf.unguarded = true
			}
		}
	case *ast.ForStmt:
		scan(s.Body, guarded, inf)
		return
	case *ast.RangeStmt:
		scan(s.Body, guarded, inf)
		return
	case *ast.SwitchStmt:
		scan(s.Body, guarded, inf)
		return
	case *ast.TypeSwitchStmt:
		scan(s.Body, guarded, inf)
		return
	case *ast.CaseClause:
		for _, x := range s.Body {
			scan(x, guarded, inf)
		}
		return
	case *ast.LabeledStmt:
		scan(s.Stmt, guarded, inf)
		return
	}
}

func main() {
	if len(os.Args) < 2 {
		die("usage: main <repo-root>")
	}
	dir := filepath.Join(os.Args[1], "index")
	fset := token.NewFileSet()
	ents, err := os.ReadDir(dir)
	if err != nil {
		die("%v", err)
	}
	var files []*ast.File
	for _, e := range ents {
		n := e.Name()
		if !strings.HasSuffix(n, ".go") || strings.HasSuffix(n, "_test.go") {
			continue
		}
		f, err := parser.ParseFile(fset, filepath.Join(dir, n), nil, 0)
		if err != nil {
			die("%v", err)
		}
		files = append(files, f)
	}
	// ---- cost constants (ints or references to earlier ones)
	consts := map[string]int{}
	var constNames []string
	for pass := 0; pass < 3; pass++ {
		for _, f := range files {
			for _, d := range f.Decls {
				gd, ok := d.(*ast.GenDecl)
				if !ok || gd.Tok != token.CONST {
					continue
				}
				for _, sp := range gd.Specs {
					vs := sp.(*ast.ValueSpec)
					for i, n := range vs.Names {
						if !strings.HasPrefix(n.Name, "cost") || i >= len(vs.Values) {
							continue
						}
						if _, done := consts[n.Name]; done {
							continue
						}
						switch v := vs.Values[i].(type) {
						case *ast.BasicLit:
							if v.Kind == token.INT {
								x, _ := strconv.Atoi(v.Value)
								consts[n.Name] = x
								constNames = append(constNames, n.Name)
							}
						case *ast.Ident:
							if x, ok := consts[v.Name]; ok {
								consts[n.Name] = x
								constNames = append(constNames, n.Name)
							}
						}
					}
				}
			}
		}
	}
	for _, need := range []string{"costMin", "costMax"} {
		if _, ok := consts[need]; !ok {
			die("constant %s not found", need)
		}
	}
	// ---- matches methods
	infos := map[string]*info{}
	for _, f := range files {
		for _, d := range f.Decls {
			fd, ok := d.(*ast.FuncDecl)
			if !ok || fd.Name.Name != "matches" || fd.Body == nil {
				continue
			}
			rn := recvName(fd)
			if rn == "" || fd.Type.Params == nil || len(fd.Type.Params.List) != 3 {
				continue
			}
			inf := &info{}
			scan(fd.Body, false, inf)
			ast.Inspect(fd.Body, func(n ast.Node) bool {
				if c, ok := n.(*ast.CallExpr); ok {
					if id, ok := c.Fun.(*ast.Ident); ok && id.Name == "evalMatchTree" {
						inf.composite = true
					}
				}
				return true
			})
			infos[rn] = inf
		}
	}
	if len(infos) == 0 {
		die("no matches methods found")
	}
	// ---- embeddings that promote matches: struct types without own method whose embedded field is a type with the method
	// (or the matchTree interface itself: the node behaves as the node it wraps)
	promoted := map[string]string{}
	for _, f := range files {
		for _, d := range f.Decls {
			gd, ok := d.(*ast.GenDecl)
			if !ok || gd.Tok != token.TYPE {
				continue
			}
			for _, sp := range gd.Specs {
				ts := sp.(*ast.TypeSpec)
				st, ok := ts.Type.(*ast.StructType)
				if !ok || infos[ts.Name.Name] != nil {
					continue
				}
				for _, fl := range st.Fields.List {
					if len(fl.Names) != 0 {
						continue
					}
					t := fl.Type
					if s, ok := t.(*ast.StarExpr); ok {
						t = s.X
					}
					if id, ok := t.(*ast.Ident); ok && (infos[id.Name] != nil || id.Name == "matchTree") {
						promoted[ts.Name.Name] = id.Name
					}
				}
			}
		}
	}
	// ---- the loop in Search
	loopLo, loopHi, panicAt := "", "", ""
	for _, f := range files {
		for _, d := range f.Decls {
			fd, ok := d.(*ast.FuncDecl)
			if !ok || fd.Name.Name != "Search" || recvName(fd) != "indexData" {
				continue
			}
			ast.Inspect(fd.Body, func(n ast.Node) bool {
				fs, ok := n.(*ast.ForStmt)
				if !ok || fs.Init == nil || fs.Cond == nil {
					return true
				}
				as, ok := fs.Init.(*ast.AssignStmt)
				if !ok || len(as.Lhs) != 1 {
					return true
				}
				if id, ok := as.Lhs[0].(*ast.Ident); !ok || id.Name != "cost" {
					return true
				}
				if id, ok := as.Rhs[0].(*ast.Ident); ok {
					loopLo = id.Name
				}
				if b, ok := fs.Cond.(*ast.BinaryExpr); ok && b.Op == token.LEQ {
					if id, ok := b.Y.(*ast.Ident); ok {
						loopHi = id.Name
					}
				}
				ast.Inspect(fs.Body, func(m ast.Node) bool {
					is, ok := m.(*ast.IfStmt)
					if !ok {
						return true
					}
					b, ok := is.Cond.(*ast.BinaryExpr)
					if !ok || b.Op != token.EQL {
						return true
					}
					l, lok := b.X.(*ast.Ident)
					r, rok := b.Y.(*ast.Ident)
					if lok && rok && l.Name == "cost" {
						hasPanic := false
						ast.Inspect(is.Body, func(k ast.Node) bool {
							if c, ok := k.(*ast.CallExpr); ok {
								if se, ok := c.Fun.(*ast.SelectorExpr); ok && se.Sel.Name == "Panicf" {
									hasPanic = true
								}
							}
							return true
						})
						if hasPanic {
							panicAt = r.Name
						}
					}
					return true
				})
				return false
			})
		}
	}
	if loopLo == "" || loopHi == "" || panicAt == "" {
		die("evaluation loop of indexData.Search not recognised (lo=%q hi=%q panic=%q)", loopLo, loopHi, panicAt)
	}
	val := func(n string) int {
		v, ok := consts[n]
		if !ok {
			die("unknown cost constant %s", n)
		}
		return v
	}
	var b strings.Builder
	b.WriteString("(* GENERATED by translator/matchcost from index/*.go - do not edit *)\n")
	b.WriteString("From Coq Require Import List NArith.\nImport ListNotations.\n\n")
	sort.Slice(constNames, func(i, j int) bool {
		if consts[constNames[i]] != consts[constNames[j]] {
			return consts[constNames[i]] < consts[constNames[j]]
		}
		return constNames[i] < constNames[j]
	})
	for _, n := range constNames {
		fmt.Fprintf(&b, "Definition %s : N := %d%%N.\n", n, consts[n])
	}
	fmt.Fprintf(&b, "\n(* indexData.Search: for cost := %s; cost <= %s; cost++ { ... if cost == %s { log.Panicf(\"did not decide\") } } *)\n", loopLo, loopHi, panicAt)
	fmt.Fprintf(&b, "Definition loop_lo : N := %d%%N.\nDefinition loop_hi : N := %d%%N.\nDefinition loop_panic_at : N := %d%%N.\n", val(loopLo), val(loopHi), val(panicAt))
	var kinds []string
	for k := range infos {
		kinds = append(kinds, k)
	}
	for k := range promoted {
		kinds = append(kinds, k)
	}
	sort.Strings(kinds)
	b.WriteString("\n(* every type of package index with a matches method (own or promoted from an embedded field) *)\nInductive mtkind : Set :=\n")
	for _, k := range kinds {
		fmt.Fprintf(&b, "| MT_%s\n", k)
	}
	b.WriteString(".\nDefinition all_mtkinds : list mtkind := [")
	for i, k := range kinds {
		if i > 0 {
			b.WriteString("; ")
		}
		b.WriteString("MT_" + k)
	}
	b.WriteString("].\nDefinition mtkind_code (k : mtkind) : N :=\n  match k with\n")
	for i, k := range kinds {
		fmt.Fprintf(&b, "  | MT_%s => %d\n", k, i)
	}
	b.WriteString("  end%N.\n")
	b.WriteString("\n(* own matches methods: (kind, (constants X of the guards `cost < X`, calls evalMatchTree, has a `matchesRequiresHigherCost` outside such a guard)) *)\n")
	b.WriteString("Definition matches_info : list (mtkind * (list N * bool * bool)) := [\n")
	var own []string
	for k := range infos {
		own = append(own, k)
	}
	sort.Strings(own)
	for i, k := range own {
		inf := infos[k]
		var th []string
		for _, t := range inf.thresholds {
			th = append(th, strconv.Itoa(val(t)))
		}
		ths := "(@nil N)"
		if len(th) > 0 {
			ths = "[" + strings.Join(th, ";") + "]%N"
		}
		sep := ";"
		if i == len(own)-1 {
			sep = ""
		}
		fmt.Fprintf(&b, "  (MT_%s, (%s, %v, %v))%s\n", k, ths, inf.composite, inf.unguarded, sep)
	}
	b.WriteString("].\n\n(* matches promoted from an embedded field: (kind, Some embedded kind | None = the embedded matchTree interface value) *)\n")
	b.WriteString("Definition matches_promoted : list (mtkind * option mtkind) := [")
	var pk []string
	for k := range promoted {
		pk = append(pk, k)
	}
	sort.Strings(pk)
	var pp []string
	for _, k := range pk {
		if promoted[k] == "matchTree" {
			pp = append(pp, fmt.Sprintf("(MT_%s, None)", k))
		} else {
			pp = append(pp, fmt.Sprintf("(MT_%s, Some MT_%s)", k, promoted[k]))
		}
	}
	b.WriteString(strings.Join(pp, "; "))
	b.WriteString("].\n")
	fmt.Print(b.String())
}
