// resultfields: translator for property C19 (ownership of search results).
//
// Reads the CURRENT sources of the repo (argv[1]) and prints coq/Generated/ResultFields.v:
//
//   - result_ty : gty — the Go type of zoekt.SearchResult (root package, non-test files) as a type descriptor,
//     computed with go/parser + go/types (struct fields in declaration order, named types resolved to their
//     underlying types, so `type Blob []byte` is a byte slice too).  Imports are NOT followed (the sandbox is
//     offline and `go list` is slow): a field whose type comes from another package becomes `GExternal "<expr>"`;
//     Props/C19.v requires that there is none below SearchResult.Files.
//   - copy_prog : list stmt — the body of `func copyFiles` in search/shards.go, statement by statement, in the
//     mini-language of Model/ResultOwn.v (range loops by index / by value, `x := &e`, `x := e`, copySlice(&e)).
//     Anything else is emitted as `SOther "<source>"`, which fails the obligation `prog_recognised`.
//   - copy_root : the name of copyFiles' parameter; copy_slice_recognised : copySlice has the expected shape
//     (nil check; make(len); copy; *src = dst).
//   - copy_call_sites : the functions of package search that call copyFiles (information only).
//
// Only the standard library is used.
package main

import (
	"fmt"
	"go/ast"
	"go/parser"
	"go/printer"
	"go/token"
	"go/types"
	"os"
	"path/filepath"
	"sort"
	"strings"
)

func die(f string, a ...any) {
	fmt.Fprintf(os.Stderr, "resultfields: "+f+"\n", a...)
	os.Exit(2)
}

var fset = token.NewFileSet()

func nodeStr(n ast.Node) string {
	var sb strings.Builder
	printer.Fprint(&sb, fset, n)
	return strings.Join(strings.Fields(sb.String()), " ")
}

func q(s string) string { return "\"" + strings.ReplaceAll(s, "\"", "\"\"") + "\"" }

// ---- types

type fakeImporter struct{}

func (fakeImporter) Import(path string) (*types.Package, error) {
	parts := strings.Split(path, "/")
	p := types.NewPackage(path, parts[len(parts)-1])
	p.MarkComplete()
	return p, nil
}

// fieldExpr[struct type][field name] = the source text of the field's type (used for GExternal)
var fieldExpr = map[*types.Struct]map[string]string{}

func gty(t types.Type, srcExpr string, seen map[*types.Named]bool) string {
	if n, ok := t.(*types.Named); ok {
		if seen[n] {
			return "(GExternal " + q("recursive type "+n.Obj().Name()) + ")"
		}
		seen[n] = true
		defer delete(seen, n)
	}
	switch u := t.Underlying().(type) {
	case *types.Basic:
		if u.Kind() == types.Invalid {
			return "(GExternal " + q(srcExpr) + ")"
		}
		if u.Info()&types.IsString != 0 {
			return "GString"
		}
		return "(GBasic " + q(u.Name()) + ")"
	case *types.Slice:
		if b, ok := u.Elem().Underlying().(*types.Basic); ok && b.Kind() == types.Uint8 {
			return "GBytes"
		}
		return "(GSlice " + gty(u.Elem(), strings.TrimPrefix(srcExpr, "[]"), seen) + ")"
	case *types.Array:
		return "(GArray " + gty(u.Elem(), srcExpr, seen) + ")"
	case *types.Pointer:
		return "(GPtr " + gty(u.Elem(), strings.TrimPrefix(srcExpr, "*"), seen) + ")"
	case *types.Map:
		return "(GMap " + gty(u.Key(), srcExpr, seen) + " " + gty(u.Elem(), srcExpr, seen) + ")"
	case *types.Struct:
		name := "struct"
		if n, ok := t.(*types.Named); ok {
			name = n.Obj().Name()
		}
		var fs []string
		for i := 0; i < u.NumFields(); i++ {
			f := u.Field(i)
			fs = append(fs, "("+q(f.Name())+", "+gty(f.Type(), fieldExpr[u][f.Name()], seen)+")")
		}
		return "(GStruct " + q(name) + " [" + strings.Join(fs, ";\n    ") + "])"
	default:
		return "(GExternal " + q(fmt.Sprintf("%s (%T)", srcExpr, u)) + ")"
	}
}

// ---- copyFiles

func pexpr(e ast.Expr) (string, bool) {
	switch x := e.(type) {
	case *ast.ParenExpr:
		return pexpr(x.X)
	case *ast.StarExpr:
		return pexpr(x.X)
	case *ast.Ident:
		return "(EVar " + q(x.Name) + ")", true
	case *ast.SelectorExpr:
		in, ok := pexpr(x.X)
		if !ok {
			return "", false
		}
		return "(EField " + in + " " + q(x.Sel.Name) + ")", true
	case *ast.IndexExpr:
		in, ok := pexpr(x.X)
		id, isID := x.Index.(*ast.Ident)
		if !ok || !isID {
			return "", false
		}
		return "(EIndex " + in + " " + q(id.Name) + ")", true
	}
	return "", false
}

func hasJump(b *ast.BlockStmt) bool {
	found := false
	ast.Inspect(b, func(n ast.Node) bool {
		switch n.(type) {
		case *ast.BranchStmt, *ast.ReturnStmt, *ast.GoStmt, *ast.DeferStmt, *ast.FuncLit:
			found = true
		}
		return !found
	})
	return found
}

func identName(e ast.Expr) (string, bool) {
	if e == nil {
		return "_", true
	}
	id, ok := e.(*ast.Ident)
	if !ok {
		return "", false
	}
	return id.Name, true
}

// classic `for i := 0; i < len(X); i++` is the same full walk as `for i := range X`
func classicFor(s *ast.ForStmt) (string, ast.Expr, bool) {
	as, ok := s.Init.(*ast.AssignStmt)
	if !ok || as.Tok != token.DEFINE || len(as.Lhs) != 1 || len(as.Rhs) != 1 {
		return "", nil, false
	}
	i, ok := as.Lhs[0].(*ast.Ident)
	lit, ok2 := as.Rhs[0].(*ast.BasicLit)
	if !ok || !ok2 || lit.Value != "0" {
		return "", nil, false
	}
	c, ok := s.Cond.(*ast.BinaryExpr)
	if !ok || c.Op != token.LSS {
		return "", nil, false
	}
	ci, ok := c.X.(*ast.Ident)
	call, ok2 := c.Y.(*ast.CallExpr)
	if !ok || !ok2 || ci.Name != i.Name || len(call.Args) != 1 {
		return "", nil, false
	}
	if f, ok := call.Fun.(*ast.Ident); !ok || f.Name != "len" {
		return "", nil, false
	}
	p, ok := s.Post.(*ast.IncDecStmt)
	if !ok || p.Tok != token.INC {
		return "", nil, false
	}
	if pi, ok := p.X.(*ast.Ident); !ok || pi.Name != i.Name {
		return "", nil, false
	}
	return i.Name, call.Args[0], true
}

func stmts(list []ast.Stmt, ind string) string {
	var out []string
	for _, s := range list {
		out = append(out, ind+stmt(s, ind))
	}
	if len(out) == 0 {
		return "[]"
	}
	return "[\n" + strings.Join(out, ";\n") + "]"
}

func stmt(s ast.Stmt, ind string) string {
	other := func() string { return "SOther " + q(nodeStr(s)) }
	switch x := s.(type) {
	case *ast.RangeStmt:
		over, ok := pexpr(x.X)
		k, ok1 := identName(x.Key)
		v, ok2 := identName(x.Value)
		if !ok || !ok1 || !ok2 || x.Tok != token.DEFINE || hasJump(x.Body) {
			return other()
		}
		if v == "_" {
			return "SRangeIdx " + q(k) + " " + over + " " + stmts(x.Body.List, ind+"  ")
		}
		return "SRangeVal " + q(k) + " " + q(v) + " " + over + " " + stmts(x.Body.List, ind+"  ")
	case *ast.ForStmt:
		i, overE, ok := classicFor(x)
		if !ok || hasJump(x.Body) {
			return other()
		}
		over, ok := pexpr(overE)
		if !ok {
			return other()
		}
		return "SRangeIdx " + q(i) + " " + over + " " + stmts(x.Body.List, ind+"  ")
	case *ast.AssignStmt:
		if x.Tok != token.DEFINE || len(x.Lhs) != 1 || len(x.Rhs) != 1 {
			return other()
		}
		l, ok := x.Lhs[0].(*ast.Ident)
		if !ok {
			return other()
		}
		if u, ok := x.Rhs[0].(*ast.UnaryExpr); ok && u.Op == token.AND {
			if e, ok := pexpr(u.X); ok {
				return "SAddr " + q(l.Name) + " " + e
			}
			return other()
		}
		if _, isStar := x.Rhs[0].(*ast.StarExpr); isStar {
			// x := *p copies the value p points to
			e, ok := pexpr(x.Rhs[0])
			if !ok {
				return other()
			}
			return "SVal " + q(l.Name) + " " + e
		}
		if e, ok := pexpr(x.Rhs[0]); ok {
			return "SVal " + q(l.Name) + " " + e
		}
		return other()
	case *ast.ExprStmt:
		c, ok := x.X.(*ast.CallExpr)
		if !ok || len(c.Args) != 1 {
			return other()
		}
		f, ok := c.Fun.(*ast.Ident)
		if !ok || f.Name != "copySlice" {
			return other()
		}
		if u, ok := c.Args[0].(*ast.UnaryExpr); ok && u.Op == token.AND {
			if e, ok := pexpr(u.X); ok {
				return "SCopySlice " + e
			}
			return other()
		}
		if id, ok := c.Args[0].(*ast.Ident); ok { // a pointer variable
			return "SCopySlice (EVar " + q(id.Name) + ")"
		}
		return other()
	case *ast.BlockStmt:
		return "SBlock " + stmts(x.List, ind+"  ")
	}
	return other()
}

const copySliceShape = `{ if *src == nil { return } dst := make([]byte, len(*src)) copy(dst, *src) *src = dst }`

func main() {
	if len(os.Args) < 2 {
		die("usage: resultfields <repo>")
	}
	repo := os.Args[1]

	// --- the result types
	pkgs, err := parser.ParseDir(fset, repo, func(fi os.FileInfo) bool { return !strings.HasSuffix(fi.Name(), "_test.go") }, 0)
	if err != nil {
		die("parse %s: %v", repo, err)
	}
	root := pkgs["zoekt"]
	if root == nil {
		die("package zoekt not found in %s", repo)
	}
	var names []string
	for n := range root.Files {
		names = append(names, n)
	}
	sort.Strings(names)
	var files []*ast.File
	for _, n := range names {
		files = append(files, root.Files[n])
	}
	info := &types.Info{Types: map[ast.Expr]types.TypeAndValue{}}
	conf := types.Config{Importer: fakeImporter{}, Error: func(error) {}}
	pkg, _ := conf.Check("github.com/sourcegraph/zoekt", fset, files, info)
	if pkg == nil {
		die("type check produced no package")
	}
	for _, f := range files {
		ast.Inspect(f, func(n ast.Node) bool {
			st, ok := n.(*ast.StructType)
			if !ok {
				return true
			}
			tv, ok := info.Types[st]
			if !ok {
				return true
			}
			ts, ok := tv.Type.(*types.Struct)
			if !ok {
				return true
			}
			m := map[string]string{}
			for _, fl := range st.Fields.List {
				if len(fl.Names) == 0 { // embedded
					t := fl.Type
					if s, ok := t.(*ast.StarExpr); ok {
						t = s.X
					}
					switch e := t.(type) {
					case *ast.Ident:
						m[e.Name] = nodeStr(fl.Type)
					case *ast.SelectorExpr:
						m[e.Sel.Name] = nodeStr(fl.Type)
					}
				}
				for _, nm := range fl.Names {
					m[nm.Name] = nodeStr(fl.Type)
				}
			}
			fieldExpr[ts] = m
			return true
		})
	}
	obj := pkg.Scope().Lookup("SearchResult")
	if obj == nil {
		die("zoekt.SearchResult not found")
	}
	resultTy := gty(obj.Type(), "SearchResult", map[*types.Named]bool{})

	// --- copyFiles / copySlice
	shards := filepath.Join(repo, "search", "shards.go")
	spkgs, err := parser.ParseDir(fset, filepath.Join(repo, "search"), func(fi os.FileInfo) bool { return !strings.HasSuffix(fi.Name(), "_test.go") }, 0)
	if err != nil {
		die("parse %s: %v", shards, err)
	}
	var copyFiles, copySlice *ast.FuncDecl
	var sites []string
	for _, p := range spkgs {
		var fnames []string
		for n := range p.Files {
			fnames = append(fnames, n)
		}
		sort.Strings(fnames)
		for _, fn := range fnames {
			for _, d := range p.Files[fn].Decls {
				fd, ok := d.(*ast.FuncDecl)
				if !ok || fd.Body == nil {
					continue
				}
				if fd.Recv == nil && fd.Name.Name == "copyFiles" {
					copyFiles = fd
				}
				if fd.Recv == nil && fd.Name.Name == "copySlice" {
					copySlice = fd
				}
				calls := false
				ast.Inspect(fd.Body, func(n ast.Node) bool {
					if c, ok := n.(*ast.CallExpr); ok {
						if id, ok := c.Fun.(*ast.Ident); ok && id.Name == "copyFiles" {
							calls = true
						}
					}
					return true
				})
				if calls {
					nm := fd.Name.Name
					if fd.Recv != nil && len(fd.Recv.List) == 1 {
						nm = nodeStr(fd.Recv.List[0].Type) + "." + nm
					}
					sites = append(sites, nm)
				}
			}
		}
	}
	if copyFiles == nil {
		die("func copyFiles not found in %s", filepath.Join(repo, "search"))
	}
	rootVar, rootTy := "", ""
	if ps := copyFiles.Type.Params.List; len(ps) == 1 && len(ps[0].Names) == 1 {
		rootVar, rootTy = ps[0].Names[0].Name, nodeStr(ps[0].Type)
	}
	sliceOK := false
	if copySlice != nil {
		ps := copySlice.Type.Params.List
		sliceOK = nodeStr(copySlice.Body) == copySliceShape && len(ps) == 1 && len(ps[0].Names) == 1 &&
			ps[0].Names[0].Name == "src" && nodeStr(ps[0].Type) == "*[]byte" && copySlice.Type.Results == nil
	}

	fmt.Println("(* generated by translator/resultfields from api.go (zoekt.SearchResult) and search/shards.go (copyFiles); do not edit *)")
	fmt.Println("From Coq Require Import List String.")
	fmt.Println("From ZV Require Import Model.ResultOwn.")
	fmt.Println("Import ListNotations.")
	fmt.Println("Open Scope string_scope.")
	fmt.Println()
	fmt.Println("Definition result_ty : gty :=\n  " + resultTy + ".")
	fmt.Println()
	fmt.Println("Definition copy_root : string := " + q(rootVar) + ".")
	fmt.Println("Definition copy_root_type : string := " + q(rootTy) + ".")
	fmt.Println("Definition copy_slice_recognised : bool := " + map[bool]string{true: "true", false: "false"}[sliceOK] + ".")
	fmt.Println("Definition copy_prog : list stmt := " + stmts(copyFiles.Body.List, "  ") + ".")
	var qs []string
	for _, s := range sites {
		qs = append(qs, q(s))
	}
	fmt.Println("Definition copy_call_sites : list string := [" + strings.Join(qs, "; ") + "].")
}
