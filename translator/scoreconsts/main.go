// scoreconsts: regenerates coq/Generated/ScoreConsts.v from the Go source of /repo:
//   - the scoring constants of index/contentprovider.go and index/score.go (const declarations,
//     evaluated with go/constant, emitted as exact rationals),
//   - the BM25 parameters k, b (the `k, b := 1.2, 0.75` assignments of score.go, which must agree),
//   - the arguments of the boostNovelExtension call in SortFiles,
//   - a bound of scoreSymbolKind's factor (largest `factor = <lit>` + the `factor += <lit>`s, times `factor *= <lit>` > 1),
//   - the epsilon of epsilonEqualsOne (index/bits.go),
//   - scoreSymbolKind and ctags.ParseSymbolKind as tables (per language and kind, modifiers; see kindTables below),
//   - maxBoostWeight (index/score.go), the cap setScoreWeight applies to the product of the boosts above a
//     match, as the exact value of the binary64 constant the compiled code compares against.
//
// Usage: go run main.go <repo-root>   (prints the Coq file on stdout)
package main

import (
	"bytes"
	"fmt"
	"go/ast"
	"go/constant"
	"go/parser"
	"go/printer"
	"go/token"
	"math/big"
	"os"
	"path/filepath"
	"sort"
	"strconv"
	"strings"
)

func ratOf(v constant.Value) string {
	v = constant.ToFloat(v)
	num := constant.Num(v)
	den := constant.Denom(v)
	n := num.ExactString()
	d := den.ExactString()
	if strings.HasPrefix(n, "-") {
		return fmt.Sprintf("((%s) # %s)", n, d)
	}
	return fmt.Sprintf("(%s # %s)", n, d)
}

func litVal(e ast.Expr) (constant.Value, bool) {
	switch x := e.(type) {
	case *ast.BasicLit:
		return constant.MakeFromLiteral(x.Value, x.Kind, 0), true
	case *ast.ParenExpr:
		return litVal(x.X)
	case *ast.UnaryExpr:
		if v, ok := litVal(x.X); ok {
			return constant.UnaryOp(x.Op, v, 0), true
		}
	case *ast.BinaryExpr:
		a, ok1 := litVal(x.X)
		b, ok2 := litVal(x.Y)
		if ok1 && ok2 {
			return constant.BinaryOp(a, x.Op, b), true
		}
	}
	return nil, false
}

func must(err error) {
	if err != nil {
		fmt.Fprintln(os.Stderr, "scoreconsts:", err)
		os.Exit(1)
	}
}

func main() {
	root := os.Args[1]
	fset := token.NewFileSet()
	parse := func(rel string) *ast.File {
		f, err := parser.ParseFile(fset, filepath.Join(root, rel), nil, 0)
		must(err)
		return f
	}
	cp := parse("index/contentprovider.go")
	sc := parse("index/score.go")
	bits := parse("index/bits.go")
	ck := parse("internal/ctags/symbol_kind.go")

	want := map[string]bool{"scorePartialWordMatch": true, "scoreWordMatch": true, "scoreBase": true, "scorePartialBase": true,
		"scoreSymbol": true, "scorePartialSymbol": true, "scoreKindMatch": true, "scoreFactorAtomMatch": true,
		"scoreLineOrderFactor": true, "scoreRepoRankFactor": true, "scoreFileOrderFactor": true,
		"ScoreOffset": true, "importantTermBoost": true, "lowPriorityFilePenalty": true}
	got := map[string]string{}
	for _, f := range []*ast.File{cp, sc} {
		for _, d := range f.Decls {
			gd, ok := d.(*ast.GenDecl)
			if !ok || gd.Tok != token.CONST {
				continue
			}
			for _, s := range gd.Specs {
				vs := s.(*ast.ValueSpec)
				for i, n := range vs.Names {
					if want[n.Name] && i < len(vs.Values) {
						if v, ok := litVal(vs.Values[i]); ok {
							got[n.Name] = ratOf(v)
						}
					}
				}
			}
		}
	}
	// maxBoostWeight: an untyped constant used as a float64 -> its binary64 rounding, exactly
	maxBoost := ""
	for _, d := range sc.Decls {
		gd, ok := d.(*ast.GenDecl)
		if !ok || gd.Tok != token.CONST {
			continue
		}
		for _, s := range gd.Specs {
			vs := s.(*ast.ValueSpec)
			for i, n := range vs.Names {
				if n.Name == "maxBoostWeight" && i < len(vs.Values) {
					if v, ok := litVal(vs.Values[i]); ok {
						f, _ := constant.Float64Val(constant.ToFloat(v))
						var r big.Rat
						if r.SetFloat64(f) == nil {
							must(fmt.Errorf("maxBoostWeight is not a finite float64"))
						}
						maxBoost = fmt.Sprintf("(%s # %s)", r.Num().String(), r.Denom().String())
					}
				}
			}
		}
	}
	if maxBoost == "" {
		must(fmt.Errorf("constant maxBoostWeight (cap of the boost weight, index/score.go) not found as a literal const"))
	}
	for n := range want {
		if _, ok := got[n]; !ok {
			must(fmt.Errorf("constant %s not found as a literal const", n))
		}
	}
	// k, b := 1.2, 0.75
	var kb []string
	ast.Inspect(sc, func(n ast.Node) bool {
		as, ok := n.(*ast.AssignStmt)
		if !ok || len(as.Lhs) != 2 || len(as.Rhs) != 2 {
			return true
		}
		a, ok1 := as.Lhs[0].(*ast.Ident)
		b, ok2 := as.Lhs[1].(*ast.Ident)
		if ok1 && ok2 && a.Name == "k" && b.Name == "b" {
			v1, o1 := litVal(as.Rhs[0])
			v2, o2 := litVal(as.Rhs[1])
			if o1 && o2 {
				kb = append(kb, ratOf(v1)+"|"+ratOf(v2))
			}
		}
		return true
	})
	if len(kb) == 0 {
		must(fmt.Errorf("k, b := ... not found in score.go"))
	}
	for _, x := range kb {
		if x != kb[0] {
			must(fmt.Errorf("BM25 parameters differ between scoreLineBM25 and scoreFileBM25: %v", kb))
		}
	}
	kbp := strings.Split(kb[0], "|")
	// boostNovelExtension(ms, 2, 0.9) inside SortFiles
	boostOff, boostRatio := "", ""
	for _, d := range cp.Decls {
		fd, ok := d.(*ast.FuncDecl)
		if !ok || fd.Name.Name != "SortFiles" {
			continue
		}
		ast.Inspect(fd, func(n ast.Node) bool {
			c, ok := n.(*ast.CallExpr)
			if !ok {
				return true
			}
			if id, ok := c.Fun.(*ast.Ident); ok && id.Name == "boostNovelExtension" && len(c.Args) == 3 {
				if v, ok := litVal(c.Args[1]); ok {
					boostOff = v.ExactString()
				}
				if v, ok := litVal(c.Args[2]); ok {
					boostRatio = ratOf(v)
				}
			}
			return true
		})
	}
	if boostOff == "" || boostRatio == "" {
		must(fmt.Errorf("boostNovelExtension(ms, <lit>, <lit>) not found in SortFiles"))
	}
	// bound of the factor computed by scoreSymbolKind: the largest `factor = <lit>`, plus every positive
	// `factor += <lit>`, times every `factor *= <lit>` above 1.  Any other way of changing factor is an error
	// (the bound would not be justified), as is a negative literal.
	maxFactor := constant.MakeInt64(0)
	addSum := constant.MakeInt64(0)
	mulProd := constant.MakeInt64(1)
	found := false
	for _, d := range cp.Decls {
		fd, ok := d.(*ast.FuncDecl)
		if !ok || fd.Name.Name != "scoreSymbolKind" {
			continue
		}
		ast.Inspect(fd, func(n ast.Node) bool {
			switch st := n.(type) {
			case *ast.IncDecStmt:
				if id, ok := st.X.(*ast.Ident); ok && id.Name == "factor" {
					must(fmt.Errorf("scoreSymbolKind: factor++/-- not understood"))
				}
			case *ast.AssignStmt:
				if len(st.Lhs) != 1 {
					return true
				}
				id, ok := st.Lhs[0].(*ast.Ident)
				if !ok || id.Name != "factor" {
					return true
				}
				v, ok := litVal(st.Rhs[0])
				if !ok {
					must(fmt.Errorf("scoreSymbolKind: non-literal factor assignment"))
				}
				if constant.Compare(v, token.LSS, constant.MakeInt64(0)) {
					must(fmt.Errorf("scoreSymbolKind: negative literal"))
				}
				switch st.Tok {
				case token.ASSIGN, token.DEFINE:
					found = true
					if constant.Compare(v, token.GTR, maxFactor) {
						maxFactor = v
					}
				case token.ADD_ASSIGN:
					addSum = constant.BinaryOp(addSum, token.ADD, v)
				case token.MUL_ASSIGN:
					if constant.Compare(v, token.GTR, constant.MakeInt64(1)) {
						mulProd = constant.BinaryOp(mulProd, token.MUL, v)
					}
				default:
					must(fmt.Errorf("scoreSymbolKind: factor %s not understood", st.Tok))
				}
			}
			return true
		})
	}
	if !found {
		must(fmt.Errorf("scoreSymbolKind factors not found"))
	}
	maxFactor = constant.BinaryOp(constant.BinaryOp(maxFactor, token.ADD, addSum), token.MUL, mulProd)
	// epsilonEqualsOne: the literal compared against
	eps := ""
	for _, d := range bits.Decls {
		fd, ok := d.(*ast.FuncDecl)
		if !ok || fd.Name.Name != "epsilonEqualsOne" {
			continue
		}
		ast.Inspect(fd, func(n ast.Node) bool {
			be, ok := n.(*ast.BinaryExpr)
			if ok && be.Op == token.LSS {
				if v, ok := litVal(be.Y); ok {
					eps = ratOf(v)
				}
			}
			return true
		})
	}
	if eps == "" {
		must(fmt.Errorf("epsilonEqualsOne epsilon not found"))
	}
	var b strings.Builder
	b.WriteString("(* GENERATED by translator/scoreconsts from /repo/index/{contentprovider,score,bits}.go and internal/ctags/symbol_kind.go — do not edit *)\n")
	b.WriteString("From Coq Require Import QArith NArith List.\nImport ListNotations.\nOpen Scope Q_scope.\n")
	names := make([]string, 0, len(got))
	for n := range got {
		names = append(names, n)
	}
	sort.Strings(names)
	for _, n := range names {
		fmt.Fprintf(&b, "Definition c_%s : Q := %s.\n", n, got[n])
	}
	fmt.Fprintf(&b, "Definition c_bm25_k : Q := %s.\nDefinition c_bm25_b : Q := %s.\n", kbp[0], kbp[1])
	fmt.Fprintf(&b, "Definition c_boostOffset : nat := %s%%nat.\nDefinition c_minScoreRatio : Q := %s.\n", boostOff, boostRatio)
	fmt.Fprintf(&b, "Definition c_maxKindFactor : Q := %s.\n", ratOf(maxFactor))
	fmt.Fprintf(&b, "Definition c_epsilon : Q := %s.\n", eps)
	fmt.Fprintf(&b, "Definition c_maxBoostWeight : Q := %s.\n", maxBoost)
	b.WriteString(kindTables(fset, cp, ck))
	fmt.Print(b.String())
}

// scoreSymbolKind / ctags.ParseSymbolKind as tables (appended to Generated/ScoreConsts.v):
//   c_kindNames      the ctags.SymbolKind constants in iota order (name bytes, value)
//   c_kindDefault    the `default:` factor of the generic switch
//   c_kindGeneric    the generic `switch kind` (kind value, factor)
//   c_kindLangs      one entry per `case` of `switch language`: (language names, (kind value, factor) of its
//                    `switch kind`, modifiers in statement order)
//                    modifier = (op, cond, suffix, literal): op 0 `factor += lit`, 1 `factor *= lit`;
//                    cond 0 = "the first rune of sym is upper case" (utf8.DecodeRune + unicode.IsUpper),
//                    cond 1 = bytes.HasSuffix(filename, []byte(suffix))
//   c_parseKind      ParseSymbolKind's cases (string after strings.ToLower, kind value), c_parseKindDefault
// Every statement of the two functions must be of a recognised shape; anything else is an error (the tie to
// the source would be broken), so that an edit of a factor, a language, a kind or a modifier changes the
// generated file and re-runs the proof obligations that compute over the tables.

func coqBytes(s string) string {
	var parts []string
	for i := 0; i < len(s); i++ {
		parts = append(parts, strconv.Itoa(int(s[i])))
	}
	return "[" + strings.Join(parts, ";") + "]%N"
}

func render(fset *token.FileSet, n ast.Node) string {
	var b bytes.Buffer
	printer.Fprint(&b, fset, n)
	return b.String()
}

func findFunc(f *ast.File, name string) *ast.FuncDecl {
	for _, d := range f.Decls {
		if fd, ok := d.(*ast.FuncDecl); ok && fd.Name.Name == name && fd.Recv == nil {
			return fd
		}
	}
	must(fmt.Errorf("func %s not found", name))
	return nil
}

// kind constants of internal/ctags/symbol_kind.go: one const block `X SymbolKind = iota; Y; Z ...`
func kindConsts(f *ast.File) (names []string, val map[string]int) {
	val = map[string]int{}
	for _, d := range f.Decls {
		gd, ok := d.(*ast.GenDecl)
		if !ok || gd.Tok != token.CONST {
			continue
		}
		first, ok := gd.Specs[0].(*ast.ValueSpec)
		if !ok || first.Type == nil || render(token.NewFileSet(), first.Type) != "SymbolKind" {
			continue
		}
		if len(first.Values) != 1 || render(token.NewFileSet(), first.Values[0]) != "iota" {
			must(fmt.Errorf("ctags.SymbolKind constants: first value is not iota"))
		}
		for i, s := range gd.Specs {
			vs := s.(*ast.ValueSpec)
			if len(vs.Names) != 1 || (i > 0 && (len(vs.Values) != 0 || vs.Type != nil)) {
				must(fmt.Errorf("ctags.SymbolKind constants: spec %d is not a plain iota continuation", i))
			}
			names = append(names, vs.Names[0].Name)
			val[vs.Names[0].Name] = i
		}
	}
	if len(names) == 0 {
		must(fmt.Errorf("ctags.SymbolKind constants not found"))
	}
	return
}

// `case ctags.A, ctags.B: factor = lit` clauses of a `switch kind`
func kindSwitch(fset *token.FileSet, sw *ast.SwitchStmt, val map[string]int, allowDefault bool) (entries []string, def string) {
	if sw.Init != nil || render(fset, sw.Tag) != "kind" {
		must(fmt.Errorf("scoreSymbolKind: expected `switch kind`, got switch %s", render(fset, sw.Tag)))
	}
	for _, c := range sw.Body.List {
		cc := c.(*ast.CaseClause)
		if len(cc.Body) != 1 {
			must(fmt.Errorf("scoreSymbolKind: case body is not a single assignment: %s", render(fset, cc)))
		}
		as, ok := cc.Body[0].(*ast.AssignStmt)
		if !ok || as.Tok != token.ASSIGN || len(as.Lhs) != 1 || render(fset, as.Lhs[0]) != "factor" {
			must(fmt.Errorf("scoreSymbolKind: case body is not `factor = <lit>`: %s", render(fset, cc)))
		}
		v, ok := litVal(as.Rhs[0])
		if !ok {
			must(fmt.Errorf("scoreSymbolKind: non-literal factor: %s", render(fset, as)))
		}
		if cc.List == nil {
			if !allowDefault {
				must(fmt.Errorf("scoreSymbolKind: unexpected default in a language switch"))
			}
			def = ratOf(v)
			continue
		}
		for _, e := range cc.List {
			se, ok := e.(*ast.SelectorExpr)
			if !ok || render(fset, se.X) != "ctags" {
				must(fmt.Errorf("scoreSymbolKind: case expression is not ctags.<Kind>: %s", render(fset, e)))
			}
			k, ok := val[se.Sel.Name]
			if !ok {
				must(fmt.Errorf("scoreSymbolKind: unknown kind constant %s", se.Sel.Name))
			}
			entries = append(entries, fmt.Sprintf("(%d%%N, %s)", k, ratOf(v)))
		}
	}
	return
}

func kindModifier(fset *token.FileSet, st *ast.IfStmt) string {
	if st.Else != nil || len(st.Body.List) != 1 {
		must(fmt.Errorf("scoreSymbolKind: modifier not understood: %s", render(fset, st)))
	}
	as, ok := st.Body.List[0].(*ast.AssignStmt)
	if !ok || len(as.Lhs) != 1 || render(fset, as.Lhs[0]) != "factor" {
		must(fmt.Errorf("scoreSymbolKind: modifier body not understood: %s", render(fset, st)))
	}
	v, ok := litVal(as.Rhs[0])
	if !ok {
		must(fmt.Errorf("scoreSymbolKind: non-literal modifier: %s", render(fset, as)))
	}
	op := -1
	switch as.Tok {
	case token.ADD_ASSIGN:
		op = 0
	case token.MUL_ASSIGN:
		op = 1
	default:
		must(fmt.Errorf("scoreSymbolKind: modifier operator %s not understood", as.Tok))
	}
	cond := render(fset, st.Cond)
	switch {
	case st.Init != nil && render(fset, st.Init) == "ch, _ := utf8.DecodeRune(sym)" && cond == "unicode.IsUpper(ch)":
		return fmt.Sprintf("(%d%%N, 0%%N, []%%N, %s)", op, ratOf(v))
	case st.Init == nil:
		if call, ok := st.Cond.(*ast.CallExpr); ok && render(fset, call.Fun) == "bytes.HasSuffix" && len(call.Args) == 2 && render(fset, call.Args[0]) == "filename" {
			if conv, ok := call.Args[1].(*ast.CallExpr); ok && render(fset, conv.Fun) == "[]byte" && len(conv.Args) == 1 {
				if lit, ok := conv.Args[0].(*ast.BasicLit); ok && lit.Kind == token.STRING {
					s, err := strconv.Unquote(lit.Value)
					must(err)
					return fmt.Sprintf("(%d%%N, 1%%N, %s, %s)", op, coqBytes(s), ratOf(v))
				}
			}
		}
	}
	must(fmt.Errorf("scoreSymbolKind: modifier condition not understood: %s", render(fset, st)))
	return ""
}

func kindTables(fset *token.FileSet, cp, ck *ast.File) string {
	names, val := kindConsts(ck)
	var b strings.Builder
	b.WriteString("(* ---- scoreSymbolKind (index/contentprovider.go) and ctags.ParseSymbolKind (internal/ctags/symbol_kind.go) as tables *)\n")
	var ns []string
	for i, n := range names {
		ns = append(ns, fmt.Sprintf("(%s, %d%%N)", coqBytes(n), i))
	}
	fmt.Fprintf(&b, "Definition c_kindNames : list (list N * N) := [%s].\n", strings.Join(ns, "; "))
	fd := findFunc(cp, "scoreSymbolKind")
	if got := render(fset, fd.Type); got != "func(language string, filename []byte, sym []byte, kind ctags.SymbolKind) float64" {
		must(fmt.Errorf("scoreSymbolKind: signature changed: %s", got))
	}
	body := fd.Body.List
	if len(body) != 4 {
		must(fmt.Errorf("scoreSymbolKind: expected `var factor; switch kind; switch language; return`, got %d statements", len(body)))
	}
	if render(fset, body[0]) != "var factor float64" {
		must(fmt.Errorf("scoreSymbolKind: first statement is %s", render(fset, body[0])))
	}
	gsw, ok := body[1].(*ast.SwitchStmt)
	if !ok {
		must(fmt.Errorf("scoreSymbolKind: second statement is not a switch"))
	}
	gen, def := kindSwitch(fset, gsw, val, true)
	if def == "" {
		must(fmt.Errorf("scoreSymbolKind: generic switch has no default"))
	}
	fmt.Fprintf(&b, "Definition c_kindDefault : Q := %s.\n", def)
	fmt.Fprintf(&b, "Definition c_kindGeneric : list (N * Q) := [%s].\n", strings.Join(gen, "; "))
	lsw, ok := body[2].(*ast.SwitchStmt)
	if !ok || lsw.Init != nil || render(fset, lsw.Tag) != "language" {
		must(fmt.Errorf("scoreSymbolKind: third statement is not `switch language`"))
	}
	var langs []string
	for _, c := range lsw.Body.List {
		cc := c.(*ast.CaseClause)
		if cc.List == nil {
			must(fmt.Errorf("scoreSymbolKind: `switch language` has a default"))
		}
		var lnames []string
		for _, e := range cc.List {
			lit, ok := e.(*ast.BasicLit)
			if !ok || lit.Kind != token.STRING {
				must(fmt.Errorf("scoreSymbolKind: language case is not a string literal: %s", render(fset, e)))
			}
			s, err := strconv.Unquote(lit.Value)
			must(err)
			lnames = append(lnames, coqBytes(s))
		}
		if len(cc.Body) == 0 {
			must(fmt.Errorf("scoreSymbolKind: empty language case"))
		}
		ksw, ok := cc.Body[0].(*ast.SwitchStmt)
		if !ok {
			must(fmt.Errorf("scoreSymbolKind: language case does not start with `switch kind`: %s", render(fset, cc.Body[0])))
		}
		tbl, _ := kindSwitch(fset, ksw, val, false)
		var mods []string
		for _, st := range cc.Body[1:] {
			is, ok := st.(*ast.IfStmt)
			if !ok {
				must(fmt.Errorf("scoreSymbolKind: statement after the kind switch not understood: %s", render(fset, st)))
			}
			mods = append(mods, kindModifier(fset, is))
		}
		langs = append(langs, fmt.Sprintf("([%s], [%s], [%s])", strings.Join(lnames, "; "), strings.Join(tbl, "; "), strings.Join(mods, "; ")))
	}
	fmt.Fprintf(&b, "Definition c_kindLangs : list (list (list N) * list (N * Q) * list (N * N * list N * Q)) :=\n  [%s].\n", strings.Join(langs, ";\n   "))
	if render(fset, body[3]) != "return factor * scoreKindMatch" {
		must(fmt.Errorf("scoreSymbolKind: return statement is %s", render(fset, body[3])))
	}
	// ParseSymbolKind
	pf := findFunc(ck, "ParseSymbolKind")
	pb := pf.Body.List
	if len(pb) != 2 || render(fset, pb[0]) != "kind = strings.ToLower(kind)" {
		must(fmt.Errorf("ParseSymbolKind: expected `kind = strings.ToLower(kind); switch kind`"))
	}
	psw, ok := pb[1].(*ast.SwitchStmt)
	if !ok || psw.Init != nil || render(fset, psw.Tag) != "kind" {
		must(fmt.Errorf("ParseSymbolKind: second statement is not `switch kind`"))
	}
	var pk []string
	pdef := ""
	for _, c := range psw.Body.List {
		cc := c.(*ast.CaseClause)
		if len(cc.Body) != 1 {
			must(fmt.Errorf("ParseSymbolKind: case body not understood"))
		}
		rs, ok := cc.Body[0].(*ast.ReturnStmt)
		if !ok || len(rs.Results) != 1 {
			must(fmt.Errorf("ParseSymbolKind: case body is not `return <Kind>`"))
		}
		k, ok := val[render(fset, rs.Results[0])]
		if !ok {
			must(fmt.Errorf("ParseSymbolKind: unknown kind %s", render(fset, rs.Results[0])))
		}
		if cc.List == nil {
			pdef = fmt.Sprintf("%d%%N", k)
			continue
		}
		for _, e := range cc.List {
			lit, ok := e.(*ast.BasicLit)
			if !ok || lit.Kind != token.STRING {
				must(fmt.Errorf("ParseSymbolKind: case is not a string literal"))
			}
			s, err := strconv.Unquote(lit.Value)
			must(err)
			pk = append(pk, fmt.Sprintf("(%s, %d%%N)", coqBytes(s), k))
		}
	}
	if pdef == "" {
		must(fmt.Errorf("ParseSymbolKind: no default"))
	}
	fmt.Fprintf(&b, "Definition c_parseKind : list (list N * N) :=\n  [%s].\nDefinition c_parseKindDefault : N := %s.\n", strings.Join(pk, "; "), pdef)
	return b.String()
}
