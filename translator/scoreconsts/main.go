// scoreconsts: regenerates coq/Generated/ScoreConsts.v from the Go source of /repo:
//   - the scoring constants of index/contentprovider.go and index/score.go (const declarations,
//     evaluated with go/constant, emitted as exact rationals),
//   - the BM25 parameters k, b (the `k, b := 1.2, 0.75` assignments of score.go, which must agree),
//   - the arguments of the boostNovelExtension call in SortFiles,
//   - a bound of scoreSymbolKind's factor (largest `factor = <lit>` + the `factor += <lit>`s, times `factor *= <lit>` > 1),
//   - the epsilon of epsilonEqualsOne (index/bits.go),
//   - maxBoostWeight (index/score.go), the cap setScoreWeight applies to the product of the boosts above a
//     match, as the exact value of the binary64 constant the compiled code compares against.
// Usage: go run main.go <repo-root>   (prints the Coq file on stdout)
package main

import (
	"fmt"
	"go/ast"
	"go/constant"
	"go/parser"
	"go/token"
	"math/big"
	"os"
	"path/filepath"
	"sort"
	"strings"
)

func ratOf(v constant.Value) string {
	v = constant.ToFloat(v)
	num := constant.Num(v)
	den := constant.Denom(v)
	n := num.ExactString()
	d := den.ExactString()
	if strings.HasPrefix(n, "-") {
		return fmt.Sprintf("((%s) # %s)", n, d)
	}
	return fmt.Sprintf("(%s # %s)", n, d)
}

func litVal(e ast.Expr) (constant.Value, bool) {
	switch x := e.(type) {
	case *ast.BasicLit:
		return constant.MakeFromLiteral(x.Value, x.Kind, 0), true
	case *ast.ParenExpr:
		return litVal(x.X)
	case *ast.UnaryExpr:
		if v, ok := litVal(x.X); ok {
			return constant.UnaryOp(x.Op, v, 0), true
		}
	case *ast.BinaryExpr:
		a, ok1 := litVal(x.X)
		b, ok2 := litVal(x.Y)
		if ok1 && ok2 {
			return constant.BinaryOp(a, x.Op, b), true
		}
	}
	return nil, false
}

func must(err error) {
	if err != nil {
		fmt.Fprintln(os.Stderr, "scoreconsts:", err)
		os.Exit(1)
	}
}

func main() {
	root := os.Args[1]
	fset := token.NewFileSet()
	parse := func(rel string) *ast.File {
		f, err := parser.ParseFile(fset, filepath.Join(root, rel), nil, 0)
		must(err)
		return f
	}
	cp := parse("index/contentprovider.go")
	sc := parse("index/score.go")
	bits := parse("index/bits.go")

	want := map[string]bool{"scorePartialWordMatch": true, "scoreWordMatch": true, "scoreBase": true, "scorePartialBase": true,
		"scoreSymbol": true, "scorePartialSymbol": true, "scoreKindMatch": true, "scoreFactorAtomMatch": true,
		"scoreLineOrderFactor": true, "scoreRepoRankFactor": true, "scoreFileOrderFactor": true,
		"ScoreOffset": true, "importantTermBoost": true, "lowPriorityFilePenalty": true}
	got := map[string]string{}
	for _, f := range []*ast.File{cp, sc} {
		for _, d := range f.Decls {
			gd, ok := d.(*ast.GenDecl)
			if !ok || gd.Tok != token.CONST {
				continue
			}
			for _, s := range gd.Specs {
				vs := s.(*ast.ValueSpec)
				for i, n := range vs.Names {
					if want[n.Name] && i < len(vs.Values) {
						if v, ok := litVal(vs.Values[i]); ok {
							got[n.Name] = ratOf(v)
						}
					}
				}
			}
		}
	}
	// maxBoostWeight: an untyped constant used as a float64 -> its binary64 rounding, exactly
	maxBoost := ""
	for _, d := range sc.Decls {
		gd, ok := d.(*ast.GenDecl)
		if !ok || gd.Tok != token.CONST {
			continue
		}
		for _, s := range gd.Specs {
			vs := s.(*ast.ValueSpec)
			for i, n := range vs.Names {
				if n.Name == "maxBoostWeight" && i < len(vs.Values) {
					if v, ok := litVal(vs.Values[i]); ok {
						f, _ := constant.Float64Val(constant.ToFloat(v))
						var r big.Rat
						if r.SetFloat64(f) == nil {
							must(fmt.Errorf("maxBoostWeight is not a finite float64"))
						}
						maxBoost = fmt.Sprintf("(%s # %s)", r.Num().String(), r.Denom().String())
					}
				}
			}
		}
	}
	if maxBoost == "" {
		must(fmt.Errorf("constant maxBoostWeight (cap of the boost weight, index/score.go) not found as a literal const"))
	}
	for n := range want {
		if _, ok := got[n]; !ok {
			must(fmt.Errorf("constant %s not found as a literal const", n))
		}
	}
	// k, b := 1.2, 0.75
	var kb []string
	ast.Inspect(sc, func(n ast.Node) bool {
		as, ok := n.(*ast.AssignStmt)
		if !ok || len(as.Lhs) != 2 || len(as.Rhs) != 2 {
			return true
		}
		a, ok1 := as.Lhs[0].(*ast.Ident)
		b, ok2 := as.Lhs[1].(*ast.Ident)
		if ok1 && ok2 && a.Name == "k" && b.Name == "b" {
			v1, o1 := litVal(as.Rhs[0])
			v2, o2 := litVal(as.Rhs[1])
			if o1 && o2 {
				kb = append(kb, ratOf(v1)+"|"+ratOf(v2))
			}
		}
		return true
	})
	if len(kb) == 0 {
		must(fmt.Errorf("k, b := ... not found in score.go"))
	}
	for _, x := range kb {
		if x != kb[0] {
			must(fmt.Errorf("BM25 parameters differ between scoreLineBM25 and scoreFileBM25: %v", kb))
		}
	}
	kbp := strings.Split(kb[0], "|")
	// boostNovelExtension(ms, 2, 0.9) inside SortFiles
	boostOff, boostRatio := "", ""
	for _, d := range cp.Decls {
		fd, ok := d.(*ast.FuncDecl)
		if !ok || fd.Name.Name != "SortFiles" {
			continue
		}
		ast.Inspect(fd, func(n ast.Node) bool {
			c, ok := n.(*ast.CallExpr)
			if !ok {
				return true
			}
			if id, ok := c.Fun.(*ast.Ident); ok && id.Name == "boostNovelExtension" && len(c.Args) == 3 {
				if v, ok := litVal(c.Args[1]); ok {
					boostOff = v.ExactString()
				}
				if v, ok := litVal(c.Args[2]); ok {
					boostRatio = ratOf(v)
				}
			}
			return true
		})
	}
	if boostOff == "" || boostRatio == "" {
		must(fmt.Errorf("boostNovelExtension(ms, <lit>, <lit>) not found in SortFiles"))
	}
	// bound of the factor computed by scoreSymbolKind: the largest `factor = <lit>`, plus every positive
	// `factor += <lit>`, times every `factor *= <lit>` above 1.  Any other way of changing factor is an error
	// (the bound would not be justified), as is a negative literal.
	maxFactor := constant.MakeInt64(0)
	addSum := constant.MakeInt64(0)
	mulProd := constant.MakeInt64(1)
	found := false
	for _, d := range cp.Decls {
		fd, ok := d.(*ast.FuncDecl)
		if !ok || fd.Name.Name != "scoreSymbolKind" {
			continue
		}
		ast.Inspect(fd, func(n ast.Node) bool {
			switch st := n.(type) {
			case *ast.IncDecStmt:
				if id, ok := st.X.(*ast.Ident); ok && id.Name == "factor" {
					must(fmt.Errorf("scoreSymbolKind: factor++/-- not understood"))
				}
			case *ast.AssignStmt:
				if len(st.Lhs) != 1 {
					return true
				}
				id, ok := st.Lhs[0].(*ast.Ident)
				if !ok || id.Name != "factor" {
					return true
				}
				v, ok := litVal(st.Rhs[0])
				if !ok {
					must(fmt.Errorf("scoreSymbolKind: non-literal factor assignment"))
				}
				if constant.Compare(v, token.LSS, constant.MakeInt64(0)) {
					must(fmt.Errorf("scoreSymbolKind: negative literal"))
				}
				switch st.Tok {
				case token.ASSIGN, token.DEFINE:
					found = true
					if constant.Compare(v, token.GTR, maxFactor) {
						maxFactor = v
					}
				case token.ADD_ASSIGN:
					addSum = constant.BinaryOp(addSum, token.ADD, v)
				case token.MUL_ASSIGN:
					if constant.Compare(v, token.GTR, constant.MakeInt64(1)) {
						mulProd = constant.BinaryOp(mulProd, token.MUL, v)
					}
				default:
					must(fmt.Errorf("scoreSymbolKind: factor %s not understood", st.Tok))
				}
			}
			return true
		})
	}
	if !found {
		must(fmt.Errorf("scoreSymbolKind factors not found"))
	}
	maxFactor = constant.BinaryOp(constant.BinaryOp(maxFactor, token.ADD, addSum), token.MUL, mulProd)
	// epsilonEqualsOne: the literal compared against
	eps := ""
	for _, d := range bits.Decls {
		fd, ok := d.(*ast.FuncDecl)
		if !ok || fd.Name.Name != "epsilonEqualsOne" {
			continue
		}
		ast.Inspect(fd, func(n ast.Node) bool {
			be, ok := n.(*ast.BinaryExpr)
			if ok && be.Op == token.LSS {
				if v, ok := litVal(be.Y); ok {
					eps = ratOf(v)
				}
			}
			return true
		})
	}
	if eps == "" {
		must(fmt.Errorf("epsilonEqualsOne epsilon not found"))
	}
	var b strings.Builder
	b.WriteString("(* GENERATED by translator/scoreconsts from /repo/index/{contentprovider,score,bits}.go — do not edit *)\n")
	b.WriteString("From Coq Require Import QArith.\nOpen Scope Q_scope.\n")
	names := make([]string, 0, len(got))
	for n := range got {
		names = append(names, n)
	}
	sort.Strings(names)
	for _, n := range names {
		fmt.Fprintf(&b, "Definition c_%s : Q := %s.\n", n, got[n])
	}
	fmt.Fprintf(&b, "Definition c_bm25_k : Q := %s.\nDefinition c_bm25_b : Q := %s.\n", kbp[0], kbp[1])
	fmt.Fprintf(&b, "Definition c_boostOffset : nat := %s%%nat.\nDefinition c_minScoreRatio : Q := %s.\n", boostOff, boostRatio)
	fmt.Fprintf(&b, "Definition c_maxKindFactor : Q := %s.\n", ratOf(maxFactor))
	fmt.Fprintf(&b, "Definition c_epsilon : Q := %s.\n", eps)
	fmt.Fprintf(&b, "Definition c_maxBoostWeight : Q := %s.\n", maxBoost)
	fmt.Print(b.String())
}
