// c26consts: regenerates coq/Generated/CodecConsts.v from the Go source of the tree under test:
// the CAPACITY of the varint scratch buffer of each of the three binary encoders
//
//	marshal.go        reposMapEncode       var enc [<len>]byte
//	query/marshal.go  stringSetEncode      var enc [<len>]byte
//	query/marshal.go  branchesReposEncode  var enc [<len>]byte
//
// binary.PutUvarint(enc[:], x) indexes enc[i] for every byte it writes, so the capacity decides whether the encoder
// panics; the Coq model (Model/Codec.v put_uvarint_chk) performs the same checked writes against these constants.
//
// The translator (go/ast, no type checker) insists on the shape it understands and fails otherwise:
//   - exactly one `var <name> [<len>]byte` declaration in the function whose name is the buffer used by PutUvarint,
//   - EVERY call binary.PutUvarint(..) in the function has `<name>[:]` (the whole buffer) as its first argument,
//   - <len> is an integer expression over literals, + - *, parentheses, and constants `binary.X` which are resolved by
//     parsing $GOROOT/src/encoding/binary/varint.go of the toolchain in use (MaxVarintLen16/32/64), or package-level
//     integer constants of the same file.
//
// Usage: go run main.go <repo-root>   (prints the Coq file on stdout; exit 1 with a message on an unknown shape)
package main

import (
	"fmt"
	"go/ast"
	"go/parser"
	"go/token"
	"os"
	"path/filepath"
	"runtime"
	"strconv"
	"strings"
)

func die(f string, a ...any) {
	fmt.Fprintf(os.Stderr, "c26consts: "+f+"\n", a...)
	os.Exit(1)
}

// integer constants declared at package level of the given files (literal values or expressions over earlier ones)
func pkgConsts(fset *token.FileSet, files []*ast.File, sel map[string]int64) map[string]int64 {
	out := map[string]int64{}
	for _, f := range files {
		for _, d := range f.Decls {
			gd, ok := d.(*ast.GenDecl)
			if !ok || gd.Tok != token.CONST {
				continue
			}
			for _, sp := range gd.Specs {
				vs := sp.(*ast.ValueSpec)
				for i, n := range vs.Names {
					if i < len(vs.Values) {
						if v, ok := eval(vs.Values[i], out, sel); ok {
							out[n.Name] = v
						}
					}
				}
			}
		}
	}
	return out
}

func eval(e ast.Expr, local, binaryConsts map[string]int64) (int64, bool) {
	switch x := e.(type) {
	case *ast.BasicLit:
		if x.Kind != token.INT {
			return 0, false
		}
		v, err := strconv.ParseInt(x.Value, 0, 64)
		return v, err == nil
	case *ast.ParenExpr:
		return eval(x.X, local, binaryConsts)
	case *ast.Ident:
		v, ok := local[x.Name]
		return v, ok
	case *ast.SelectorExpr:
		if p, ok := x.X.(*ast.Ident); ok && p.Name == "binary" {
			v, ok := binaryConsts[x.Sel.Name]
			return v, ok
		}
		return 0, false
	case *ast.BinaryExpr:
		a, ok1 := eval(x.X, local, binaryConsts)
		b, ok2 := eval(x.Y, local, binaryConsts)
		if !ok1 || !ok2 {
			return 0, false
		}
		switch x.Op {
		case token.ADD:
			return a + b, true
		case token.SUB:
			return a - b, true
		case token.MUL:
			return a * b, true
		}
	}
	return 0, false
}

func src(fset *token.FileSet, path string, n ast.Node) string {
	b, err := os.ReadFile(path)
	if err != nil {
		return "?"
	}
	return string(b[fset.Position(n.Pos()).Offset:fset.Position(n.End()).Offset])
}

type result struct {
	coqName, file, fn, lenSrc string
	cap                       int64
	nPut                      int
}

func extract(root, rel, fn, coqName string, binaryConsts map[string]int64) result {
	fset := token.NewFileSet()
	path := filepath.Join(root, rel)
	f, err := parser.ParseFile(fset, path, nil, 0)
	if err != nil {
		die("%v", err)
	}
	if !importsBinary(f) {
		die("%s does not import encoding/binary as `binary`", rel)
	}
	local := pkgConsts(fset, []*ast.File{f}, binaryConsts)
	var fd *ast.FuncDecl
	for _, d := range f.Decls {
		if x, ok := d.(*ast.FuncDecl); ok && x.Recv == nil && x.Name.Name == fn {
			fd = x
		}
	}
	if fd == nil || fd.Body == nil {
		die("%s: function %s not found", rel, fn)
	}
	// all byte-array variables declared in the function
	arrays := map[string]ast.Expr{}
	ast.Inspect(fd.Body, func(n ast.Node) bool {
		ds, ok := n.(*ast.DeclStmt)
		if !ok {
			return true
		}
		gd, ok := ds.Decl.(*ast.GenDecl)
		if !ok || gd.Tok != token.VAR {
			return true
		}
		for _, sp := range gd.Specs {
			vs := sp.(*ast.ValueSpec)
			at, ok := vs.Type.(*ast.ArrayType)
			if !ok || at.Len == nil {
				continue
			}
			if el, ok := at.Elt.(*ast.Ident); !ok || el.Name != "byte" {
				continue
			}
			for _, n := range vs.Names {
				if _, dup := arrays[n.Name]; dup {
					die("%s %s: byte array %s declared twice", rel, fn, n.Name)
				}
				arrays[n.Name] = at.Len
			}
		}
		return true
	})
	// every PutUvarint call writes into the whole of ONE of these arrays
	buf := ""
	nPut := 0
	ast.Inspect(fd.Body, func(n ast.Node) bool {
		ce, ok := n.(*ast.CallExpr)
		if !ok {
			return true
		}
		se, ok := ce.Fun.(*ast.SelectorExpr)
		if !ok || se.Sel.Name != "PutUvarint" {
			return true
		}
		if p, ok := se.X.(*ast.Ident); !ok || p.Name != "binary" {
			return true
		}
		if len(ce.Args) != 2 {
			die("%s %s: PutUvarint with %d arguments", rel, fn, len(ce.Args))
		}
		sl, ok := ce.Args[0].(*ast.SliceExpr)
		if !ok || sl.Low != nil || sl.High != nil || sl.Max != nil {
			die("%s %s: PutUvarint destination %q is not a whole-array slice x[:]", rel, fn, src(fset, path, ce.Args[0]))
		}
		id, ok := sl.X.(*ast.Ident)
		if !ok {
			die("%s %s: PutUvarint destination %q is not a local array", rel, fn, src(fset, path, ce.Args[0]))
		}
		if _, ok := arrays[id.Name]; !ok {
			die("%s %s: PutUvarint destination %s is not a byte array declared in the function", rel, fn, id.Name)
		}
		if buf != "" && buf != id.Name {
			die("%s %s: PutUvarint writes into two different buffers (%s, %s)", rel, fn, buf, id.Name)
		}
		buf = id.Name
		nPut++
		return true
	})
	if buf == "" {
		die("%s %s: no binary.PutUvarint call found", rel, fn)
	}
	v, ok := eval(arrays[buf], local, binaryConsts)
	if !ok || v < 0 || v > 4096 {
		die("%s %s: cannot evaluate the array length %q of %s", rel, fn, src(fset, path, arrays[buf]), buf)
	}
	return result{coqName: coqName, file: rel, fn: fn, lenSrc: strings.Join(strings.Fields(src(fset, path, arrays[buf])), " "), cap: v, nPut: nPut}
}

func importsBinary(f *ast.File) bool {
	for _, im := range f.Imports {
		if im.Path.Value == `"encoding/binary"` && (im.Name == nil || im.Name.Name == "binary") {
			return true
		}
	}
	return false
}

func main() {
	if len(os.Args) != 2 {
		die("usage: c26consts <repo-root>")
	}
	root := os.Args[1]
	// constants of encoding/binary of the toolchain in use
	fset := token.NewFileSet()
	vp := filepath.Join(runtime.GOROOT(), "src", "encoding", "binary", "varint.go")
	vf, err := parser.ParseFile(fset, vp, nil, 0)
	if err != nil {
		die("cannot read %s: %v", vp, err)
	}
	binaryConsts := pkgConsts(fset, []*ast.File{vf}, nil)
	for _, k := range []string{"MaxVarintLen16", "MaxVarintLen32", "MaxVarintLen64"} {
		if _, ok := binaryConsts[k]; !ok {
			die("%s: constant %s not found", vp, k)
		}
	}
	rs := []result{
		extract(root, "marshal.go", "reposMapEncode", "reposmap_enc_cap", binaryConsts),
		extract(root, filepath.Join("query", "marshal.go"), "stringSetEncode", "stringset_enc_cap", binaryConsts),
		extract(root, filepath.Join("query", "marshal.go"), "branchesReposEncode", "branchesrepos_enc_cap", binaryConsts),
	}
	fmt.Println("(* GENERATED by translator/c26consts from marshal.go and query/marshal.go - do not edit *)")
	fmt.Println("(* capacity (array length) of the scratch buffer every binary.PutUvarint call of the encoder writes into;")
	fmt.Printf("   encoding/binary of the toolchain: MaxVarintLen16 = %d, MaxVarintLen32 = %d, MaxVarintLen64 = %d *)\n",
		binaryConsts["MaxVarintLen16"], binaryConsts["MaxVarintLen32"], binaryConsts["MaxVarintLen64"])
	for _, r := range rs {
		fmt.Printf("\n(* %s %s: `var enc [%s]byte`, destination of all %d PutUvarint calls *)\n", r.file, r.fn, r.lenSrc, r.nPut)
		fmt.Printf("Definition %s : nat := %d.\n", r.coqName, r.cap)
	}
}
