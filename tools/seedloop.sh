#!/bin/bash
# runs tools/seedrun.sh for every confirmed seed that has no result yet; loops until /tmp/seedloop.stop exists
cd /verif
while [ ! -e /tmp/seedloop.stop ]; do
  did=0
  for d in seeded/C*/; do
    sid=$(basename $d); id=${sid%%-*}
    [ -e "$d/meta.json" ] || continue
    [ -e "$d/result.txt" ] && continue
    [ -e "props/$id/prop.py" ] || continue
    mkdir "/tmp/seedclaim-$sid" 2>/dev/null || continue
    nice -n 5 timeout 3600 tools/seedrun.sh $id /verif/seeded/$sid/patch.diff $id > "$d/result.txt.tmp" 2>&1
    mv "$d/result.txt.tmp" "$d/result.txt"; did=1
    echo "$(date +%H:%M) $(head -c 300 $d/result.txt)" >> /tmp/seedloop.log
  done
  [ $did = 0 ] && sleep 60
done
