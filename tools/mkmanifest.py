#!/usr/bin/env python3
"""Regenerate /verif/MANIFEST.json from props/*/manifest.json fragments (one per claimed property)
and tools/not_applicable.json. Keeps MANIFEST.json valid at all times: properties without a fragment
are listed under not_applicable with the reason 'not yet built'."""
import json, os, glob
ROOT = os.path.dirname(os.path.dirname(os.path.abspath(__file__)))
props = [json.loads(l)["id"] for l in open(os.path.join(ROOT, "properties.jsonl"))]
na_path = os.path.join(ROOT, "tools", "not_applicable.json")
na = json.load(open(na_path)) if os.path.exists(na_path) else {}
checks, notapp = [], []
for pid in props:
    frag = os.path.join(ROOT, "props", pid, "manifest.json")
    if os.path.exists(frag) and os.path.exists(os.path.join(ROOT, "props", pid, "prop.py")):
        f = json.load(open(frag))
        c = dict(property_id=pid,
                 quick_cmd="./check %s --tier quick" % pid,
                 thorough_cmd="./check %s --tier thorough" % pid,
                 evidence_file="/verif/evidence/%s.json" % pid,
                 replay_cmd_template="./check %s --replay {path}" % pid,
                 engine="rocq-model+correspondence",
                 level_claimed=dict(category=f.get("category", "proof"), text=f["text"], design_ref=f.get("design_ref", "DESIGN.md §5 " + pid)),
                 level_note=f["level_note"],
                 technique=f.get("technique", "Rocq (Coq 8.16.1) theorems about a Gallina model + model/implementation correspondence run"))
        checks.append(c)
    else:
        notapp.append(dict(property_id=pid, reason=na.get(pid, "not claimed yet: model/proofs/correspondence for this property are not built in this revision (see DESIGN.md §9 status)")))
m = dict(
    version=1,
    setup_cmd="./setup.sh",
    hooks=dict(guard="verif", enable="no source hooks: harness files are injected with `go test -overlay` from /verif/harness/overlay (see DESIGN.md §2)",
               baseline_off_cmd="cd /repo && GOFLAGS=-mod=mod GOPROXY=off go test -vet=off -count=1 -timeout 25m ./...",
               source_commits=[], add_only=True),
    engines=[dict(name="rocq-model+correspondence", path="/verif/check",
                  serves_properties=[c["property_id"] for c in checks],
                  kind_free_text="Coq 8.16.1 development under /verif/coq (models, proofs, property theorems) + Go overlay harness that runs the implementation on generated cases and coqc/vm_compute evaluation of the model on the same cases")],
    checks=checks,
    not_applicable=notapp,
    notes="Every check: ./check <ID> --tier quick|thorough; rebuilds the Coq cone of Props/<ID>.v and runs the Go harness against /repo's current working tree via -overlay. Known findings: /verif/known-findings.json.",
)
def atomic_dump(obj, path):
    tmp = path + ".tmp.%d" % os.getpid()
    with open(tmp, "w") as f:
        json.dump(obj, f, indent=1)
    os.replace(tmp, path)
atomic_dump(m, os.path.join(ROOT, "MANIFEST.json"))
# known findings: merge per-property fragments props/<ID>/known-findings.json (committed; never written at check time)
kf = dict(comment="Merged by tools/mkmanifest.py from props/*/known-findings.json. 'findings' (status open) suppress exactly the listed failing inputs/call sites with a KNOWN-FINDING line; 'fixed' entries suppress nothing.", findings=[], fixed=[])
for pid in props:
    fp = os.path.join(ROOT, "props", pid, "known-findings.json")
    if os.path.exists(fp):
        d = json.load(open(fp))
        for k in d.get("findings", []):
            k.setdefault("property", pid); k.setdefault("status", "open"); kf["findings"].append(k)
        kf["fixed"] += d.get("fixed", [])
atomic_dump(kf, os.path.join(ROOT, "known-findings.json"))
print("checks:", len(checks), "not_applicable:", len(notapp))
