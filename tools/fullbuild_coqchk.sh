#!/bin/bash
# Clean full .vo build of the whole development (no -vos) followed by coqchk on every property file.
cd "$(dirname "$0")/.."
python3 - <<'PY'
import sys, time
sys.path.insert(0, "lib")
import vf
t=time.time()
ok, log = vf.coq_build(timeout=7200)
print("FULL BUILD", "OK" if ok else "FAILED", "%.0fs" % (time.time()-t))
print(log[-2500:])
PY
cd coq
mods=$(ls Props/C*.v | sed 's/\.v$//; s#/#.#; s/^/ZV./' | tr '\n' ' ')
echo "coqchk on: $mods"
( time coqchk -silent -o -Q . ZV $mods ) 2>&1 | tail -40
