#!/bin/bash
# tools/runall.sh [tier] [ids...] — run every claimed check once (sequentially), print a one-line summary each.
cd "$(dirname "$0")/.."
tier="${1:-quick}"; shift
ids="$@"
[ -z "$ids" ] && ids=$(python3 -c "import json;print(' '.join(c['property_id'] for c in json.load(open('MANIFEST.json'))['checks']))")
for id in $ids; do
  s=$(date +%s)
  out=$(timeout 3600 ./check $id --tier $tier 2>&1); rc=$?
  e=$(( $(date +%s) - s ))
  line=$(echo "$out" | grep -E '^(VIOLATION|OK)' | head -2 | tr '\n' ' ')
  kf=$(echo "$out" | grep -c '^KNOWN-FINDING')
  valid=$(python3-vt -c "
import json,jsonschema,sys
try:
    jsonschema.validate(json.load(open('evidence/$id.json')), json.load(open('/root/.vp/EVIDENCE.schema.json'))); print('evidence-valid')
except Exception as ex: print('EVIDENCE-INVALID', str(ex)[:80])" 2>&1)
  echo "$id rc=$rc ${e}s known=$kf $valid :: $line"
done
