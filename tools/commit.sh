#!/bin/bash
# tools/commit.sh "message" path [path...]   — serialised commit of the given paths (+ regenerated MANIFEST/known-findings)
cd "$(dirname "$0")/.."
msg="$1"; shift
exec 9>.lock-git
flock 9
python3 tools/mkmanifest.py >/dev/null
git add -A -- "$@" MANIFEST.json known-findings.json 2>/dev/null
git commit -qm "$msg" -- "$@" MANIFEST.json known-findings.json 2>/dev/null || git commit -qm "$msg" 2>/dev/null
git log --oneline | head -1
