#!/usr/bin/env python3
"""Fold what was run against each seeded change into its meta.json (key 'checks_run')."""
import glob, json, os, re
ROOT = os.path.dirname(os.path.dirname(os.path.abspath(__file__)))
for d in sorted(glob.glob(os.path.join(ROOT, "seeded", "C*"))):
    mp = os.path.join(d, "meta.json")
    if not os.path.exists(mp):
        continue
    try:
        meta = json.load(open(mp))
    except Exception:
        continue
    runs = []
    for name, label in (("result.txt", "first run"), ("result-after.txt", "after the check was strengthened"), ("result-other.txt", "checks of other properties")):
        p = os.path.join(d, name)
        if os.path.exists(p):
            t = open(p).read()
            for line in t.splitlines():
                m = re.match(r"SEED (\S+) check (\S+) rc=(\d+): (.*)", line)
                if m:
                    verdict = "VIOLATION (no-failing-input-found)" if "no-failing-input-found" in m.group(4) else ("VIOLATION with replay" if "VIOLATION" in m.group(4) else "OK (missed)")
                    runs.append(dict(when=label, command="tools/seedrun.sh %s %s/patch.diff %s  (scratch worktree of /repo HEAD + patch, VERIF_REPO=<worktree> ./check %s)" % (m.group(1), os.path.relpath(d, ROOT), m.group(2), m.group(2)),
                                     check=m.group(2), exit_code=int(m.group(3)), verdict=verdict))
            keys = re.findall(r"replay \S+: ([^\n]{0,200})", t)
            if keys and runs:
                runs[-1]["first_replay"] = keys[0].strip()
    meta["checks_run"] = runs
    json.dump(meta, open(mp, "w"), indent=1)
print("ok")
