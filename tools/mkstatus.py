#!/usr/bin/env python3
"""Regenerate the status table of DESIGN.md (between the markers <!-- STATUS-BEGIN --> / <!-- STATUS-END -->)
from what is on disk: props/*/ (manifest, notes, known findings, mutants), coq/Props/*.v (theorem names), evidence/*.json,
seeded/*/ (red-team changes and which checks caught them)."""
import glob, json, os, re
ROOT = os.path.dirname(os.path.dirname(os.path.abspath(__file__)))
props = [json.loads(l) for l in open(os.path.join(ROOT, "properties.jsonl"))]
rows = []
for p in props:
    pid = p["id"]
    src = os.path.join(ROOT, "coq", "Props", pid + ".v")
    thms = re.findall(r"^\s*(?:Theorem|Corollary)\s+([A-Za-z0-9_']+)", open(src).read(), re.M) if os.path.exists(src) else []
    part = [t for t in thms if "_partial" in t]
    ref = [t for t in thms if "_refuted" in t]
    full = [t for t in thms if t not in part and t not in ref]
    kf = {}
    fp = os.path.join(ROOT, "props", pid, "known-findings.json")
    if os.path.exists(fp):
        kf = json.load(open(fp))
    openk = [k.get("key") or k.get("key_regex") for k in kf.get("findings", []) if k.get("status", "open") == "open"]
    fixed = [re.search(r"property=\S+\s+(\S+)", f).group(1) for f in kf.get("fixed", []) if re.search(r"property=\S+\s+(\S+)", f)]
    muts = sorted(os.path.basename(m) for m in glob.glob(os.path.join(ROOT, "props", pid, "mutants", "*")))
    ev = {}
    ep = os.path.join(ROOT, "evidence", pid + ".json")
    if os.path.exists(ep):
        try:
            ev = json.load(open(ep))
        except Exception:
            ev = {}
    seed = ""
    sd = os.path.join(ROOT, "seeded", pid)
    if os.path.exists(os.path.join(sd, "meta.json")):
        res = os.path.join(sd, "result.txt")
        if os.path.exists(res):
            t = open(res).read()
            if "VIOLATION" in t and "no-failing-input-found" not in t.split("\n")[0]:
                seed = "caught (replay)"
            elif "VIOLATION" in t:
                seed = "caught (no-failing-input-found)"
            elif " rc=0" in t:
                seed = "MISSED"
            else:
                seed = "not run: " + t.strip().split("\n")[0][:40]
        else:
            seed = "confirmed, not yet run"
    rows.append((pid, p["title"], len(full), len(part), len(ref), ev.get("level", "-"), ev.get("coverage", {}).get("evaluations", "-"),
                 ", ".join(fixed) or "-", "; ".join(openk) or "-", len(muts), seed or "-"))
out = ["| Prop | Title | thm full/partial/refuted | level | cases (last run) | fix: commits in /repo | open known findings (keys) | kept mutants | red-team seed |",
       "|---|---|---|---|---|---|---|---|---|"]
for r in rows:
    out.append("| %s | %s | %d / %d / %d | %s | %s | %s | %s | %d | %s |" % (r[0], r[1], r[2], r[3], r[4], r[5], r[6], r[7], r[8].replace("|", "\\|"), r[9], r[10]))
table = "\n".join(out)
# ---- second table: every seeded change (independent red team) and what the checks reported
seeds = ["", "### Seeded changes (independent red team; each confirmed in a scratch worktree: builds, existing tests pass, demo fails with / passes without) and what the checks report", "",
         "| seed | change (summary) | needs | reported by `tools/seedrun.sh` |", "|---|---|---|---|"]
for d in sorted(glob.glob(os.path.join(ROOT, "seeded", "C*"))):
    sid = os.path.basename(d)
    try:
        meta = json.load(open(os.path.join(d, "meta.json")))
    except Exception:
        continue
    rp = os.path.join(d, "result.txt")
    rep = "(not run yet)"
    if os.path.exists(rp):
        t = open(rp).read()
        first = t.split("\n")[0]
        keys = re.findall(r"replay \S+: ([^|]{0,90})", t)
        if "VIOLATION" in first:
            rep = ("VIOLATION, no-failing-input-found" if "no-failing-input-found" in first else "VIOLATION with replay") + (": `" + keys[0].strip() + "`" if keys else "")
        elif " rc=0" in first:
            rep = "**missed** (check strengthened afterwards, see NOTES.md of the property)" if not os.path.exists(os.path.join(d, "result-after.txt")) else "missed at first; after strengthening: " + open(os.path.join(d, "result-after.txt")).read().split("\n")[0][:160]
        else:
            rep = first[:120]
    ro = os.path.join(d, "result-other.txt")
    if os.path.exists(ro):
        caught = sorted(set(re.findall(r"check (C\d+) rc=1", open(ro).read())))
        if caught:
            rep += "; the change is reported with a replay by the check(s) of " + ", ".join(caught) + " (where its code lives)"
    def cl(x): return " ".join(str(x).replace("|", "/").split())[:260]
    seeds.append("| %s | %s | %s | %s |" % (sid, cl(meta.get("summary", "")), cl(meta.get("needs", "")), rep.replace("|", "/")))
table = table + "\n" + "\n".join(seeds)
# ---- third: genuine defects repaired (fix: commits) and open known findings
kfall = json.load(open(os.path.join(ROOT, "known-findings.json"))) if os.path.exists(os.path.join(ROOT, "known-findings.json")) else {"fixed": [], "findings": []}
sec = ["", "### Genuine defects of /repo found by the checks and repaired (`fix:` commits; recorded as `fixed:` entries, which suppress nothing)", ""]
for f in kfall.get("fixed", []):
    sec.append("* " + " ".join(f.split())[:420].replace("|", "/"))
sec += ["", "### Open known findings (genuine, not repaired; each suppresses exactly its key, any other violation is still reported)", ""]
for k in kfall.get("findings", []):
    if k.get("status", "open") == "open":
        sec.append("* **%s** `%s` — %s" % (k.get("property"), (k.get("key") or k.get("key_regex")), " ".join(str(k.get("what", "")).split())[:600].replace("|", "/")))
table = table + "\n" + "\n".join(sec)
dp = os.path.join(ROOT, "DESIGN.md")
s = open(dp).read()
b, e = "<!-- STATUS-BEGIN -->", "<!-- STATUS-END -->"
block = b + "\n" + table + "\n" + e
if b in s and e in s:
    s = s[:s.index(b)] + block + s[s.index(e) + len(e):]
else:
    s += "\n### Status table (generated by tools/mkstatus.py from the files on disk)\n\n" + block + "\n"
open(dp, "w").write(s)
print(table)
