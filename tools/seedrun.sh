#!/bin/bash
# tools/seedrun.sh <ID> [patch] [check-ids...] — run the checks against a seeded change WITHOUT touching /repo:
# a scratch worktree of /repo HEAD gets the patch, the check runs with VERIF_REPO pointing at it, the worktree is removed.
# (Equivalent to `git -C /repo apply; ./check; git -C /repo checkout -- .`, but safe while other work uses /repo.)
ID="$1"; PATCH="${2:-/verif/seeded/$ID/patch.diff}"; shift; shift
CHECKS="${@:-$ID}"
WT=$(mktemp -d /tmp/sr-$ID.XXXX); rmdir "$WT"
git -C /repo worktree add --detach "$WT" HEAD -q || exit 2
trap 'git -C /repo worktree remove --force "$WT" >/dev/null 2>&1' EXIT
if ! git -C "$WT" apply "$PATCH" 2>/dev/null; then
  if ! git -C "$WT" apply --3way "$PATCH" 2>/dev/null; then echo "SEED $ID: patch does not apply to /repo HEAD"; exit 3; fi
fi
( cd "$WT" && GOFLAGS=-mod=mod GOPROXY=off go build ./... ) || { echo "SEED $ID: does not build"; exit 4; }
cd /verif
for c in $CHECKS; do
  out=$(VERIF_REPO="$WT" ./check "$c" 2>&1); rc=$?
  echo "SEED $ID check $c rc=$rc: $(echo "$out" | grep -E '^(VIOLATION|OK)' | head -4 | cut -c1-220 | tr '\n' ' ') known=$(echo "$out" | grep -c '^KNOWN-FINDING')"
  for r in $(echo "$out" | grep -E '^VIOLATION' | sed -n 's/.*replay=\([^ ]*\).*/\1/p' | head -2); do
    [ -e "$r" ] && echo "  replay $r: $(python3 -c "import json,sys; d=json.load(open('$r')); print((str(d.get('key',''))+' | '+str(d.get('what') or d.get('broken',''))) [:400])" 2>/dev/null)"
  done
done
