#!/bin/bash
cd /verif
while [ ! -e /tmp/confirmloop3.stop ]; do
  did=0
  for d in /tmp/seedout3/C*/; do
    [ -d "$d" ] || continue
    id=$(basename $d)
    [ -e "$d/patch.diff" ] && [ -e "$d/meta.json" ] && ls $d/demo*.go >/dev/null 2>&1 || continue
    [ -e "seeded/$id-r3/meta.json" ] && continue
    [ -e "$d/confirm_failed.json" ] && continue
    mkdir "/tmp/confirmclaim3-$id" 2>/dev/null || continue
    nice -n 5 timeout 3000 python3 tools/confirm_seed.py $id --src $d --suffix -r3 >> /tmp/confirm_r3.log 2>&1
    did=1
  done
  [ $did = 0 ] && sleep 60
done
