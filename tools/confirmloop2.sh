#!/bin/bash
# confirms round-2 seeds as they are delivered to /tmp/seedout2/<ID>/ ; loops until /tmp/confirmloop2.stop exists
cd /verif
while [ ! -e /tmp/confirmloop2.stop ]; do
  did=0
  for d in /tmp/seedout2/C*/; do
    id=$(basename $d)
    [ -e "$d/patch.diff" ] && [ -e "$d/meta.json" ] && ls $d/demo*.go >/dev/null 2>&1 || continue
    [ -e "seeded/$id-r2/meta.json" ] && continue
    [ -e "$d/confirm_failed.json" ] && continue
    mkdir "/tmp/confirmclaim2-$id" 2>/dev/null || continue
    nice -n 5 timeout 3000 python3 tools/confirm_seed.py $id --src $d --suffix -r2 >> /tmp/confirm_r2.log 2>&1
    did=1
  done
  [ $did = 0 ] && sleep 60
done
