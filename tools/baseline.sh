#!/bin/bash
# tools/baseline.sh [repo-dir]  — run the repository's pinned test suite (the BASELINE.json command) on a tree and
# compare the set of passing tests with BASELINE.json's stable_pass. Exit 0 iff every baseline test still passes.
REPO_DIR="${1:-/repo}"
export GOFLAGS=-mod=mod GOPROXY=off
unset GOTOOLCHAIN GOSUMDB
out=$(mktemp /tmp/baseline.XXXXXX.json)
( cd "$REPO_DIR" && go test -mod=mod -json -vet=off -count=1 -timeout 25m ./... ) > "$out" 2>/dev/null
python3 - "$out" <<'PY'
import json,sys
base=set(json.load(open('/root/.vp/BASELINE.json'))['stable_pass'])
passed=set(); failed=set()
for l in open(sys.argv[1], errors='replace'):
    try: e=json.loads(l)
    except Exception: continue
    if e.get('Test') and e.get('Action') in ('pass','fail'):
        k="%s::%s"%(e['Package'],e['Test'])
        (passed if e['Action']=='pass' else failed).add(k)
missing=sorted(base-passed)
print("baseline tests:",len(base),"passed now:",len(base&passed),"missing/failing:",len(missing))
for m in missing[:40]: print("  NOT PASSING:",m, "(failed)" if m in failed else "(not run)")
sys.exit(1 if missing else 0)
PY
rc=$?
rm -f "$out"
exit $rc
