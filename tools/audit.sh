#!/bin/bash
# Fails (exit 1) if the Coq development declares axioms, leaves admits, or disables kernel checks.
cd "$(dirname "$0")/../coq"
out=$(grep -rnE '(^|[^A-Za-z_])(Admitted|admit|Axiom|Axioms|Parameter|Parameters|Conjecture|Admit Obligations|Unset Guard Checking|Unset Positivity Checking|Unset Universe Checking|bypass_check|Local Unset Guard)([^A-Za-z_]|$)' --include='*.v' Lib Model Proofs Props Generated Run 2>/dev/null | grep -v 'cases_' | grep -vE '^\S+:\s*[0-9]+:\s*\(\*.*\*\)\s*$')
out2=$(grep -rnE '^\s*(Variable|Variables|Hypothesis|Hypotheses)\b' --include='*.v' Lib Model Proofs Props Generated Run 2>/dev/null)
# Variables/Hypotheses are allowed only inside Sections: check each file that uses them has them between Section/End
bad2=""
if [ -n "$out2" ]; then
  for f in $(echo "$out2" | cut -d: -f1 | sort -u); do
    python3 - "$f" <<'PY' || bad2="$bad2 $f"
import re,sys
depth=0
for i,l in enumerate(open(sys.argv[1]),1):
    if re.match(r'^\s*Section\b',l): depth+=1
    elif re.match(r'^\s*End\b',l) and depth>0: depth-=1
    elif re.match(r'^\s*(Variable|Variables|Hypothesis|Hypotheses)\b',l) and depth==0:
        print("%s:%d: %s"%(sys.argv[1],i,l.strip())); sys.exit(1)
PY
  done
fi
if [ -n "$out" ] || [ -n "$bad2" ]; then echo "AUDIT FAIL"; echo "$out"; echo "$bad2"; exit 1; fi
echo "audit ok"
