#!/bin/bash
# tools/seed_after.sh <seed-dir-name>... — re-run seeds that were missed at first, after the check was strengthened; writes result-after.txt
cd /verif
for sid in "$@"; do
  id=${sid%%-*}
  nice -n 5 timeout 3600 tools/seedrun.sh $id /verif/seeded/$sid/patch.diff $id > seeded/$sid/result-after.txt.tmp 2>&1
  mv seeded/$sid/result-after.txt.tmp seeded/$sid/result-after.txt
  echo "$(date +%H:%M) AFTER $sid: $(head -c 250 seeded/$sid/result-after.txt)" >> /tmp/seedloop.log
done
