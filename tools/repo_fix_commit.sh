#!/bin/bash
# tools/repo_fix_commit.sh <patch-file> "fix: message"
# Applies a patch (made with `git diff` in a scratch worktree) to /repo and commits it, serialised.
set -e
patch="$(readlink -f "$1")"; msg="$2"
case "$msg" in fix:*) ;; *) echo "message must start with fix:"; exit 2;; esac
exec 9>/verif/.lock-repo
flock 9
cd /repo
if [ -n "$(git status --porcelain --untracked-files=no)" ]; then echo "/repo has uncommitted tracked changes; refusing"; git status --short; exit 3; fi
git apply --index "$patch"
git commit -qm "$msg"
git log --oneline | head -1
