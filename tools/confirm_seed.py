#!/usr/bin/env python3
"""tools/confirm_seed.py <ID> [--src /tmp/seedout/<ID>]
Confirms a seeded change in a scratch worktree of /repo HEAD (never in /repo):
  1. the patch applies and the tree builds
  2. the demonstration FAILS with the patch
  3. the existing tests of the touched packages PASS with the patch (demo removed)
  4. the demonstration PASSES without the patch
and, if all four hold, stores it as /verif/seeded/<ID>/{patch.diff, demo file, meta.json}.
"""
import json, os, re, shutil, subprocess, sys, time

ROOT = os.path.dirname(os.path.dirname(os.path.abspath(__file__)))


def sh(cmd, cwd, timeout=2400):
    env = dict(os.environ, GOFLAGS="-mod=mod", GOPROXY="off")
    env.pop("GOTOOLCHAIN", None); env.pop("GOSUMDB", None)
    try:
        p = subprocess.run(cmd, cwd=cwd, shell=True, env=env, timeout=timeout, stdout=subprocess.PIPE, stderr=subprocess.STDOUT, text=True, errors="replace")
        return p.returncode, p.stdout
    except subprocess.TimeoutExpired as e:
        return 124, "timeout"


def main():
    pid = sys.argv[1]
    src = "/tmp/seedout/" + pid
    if "--src" in sys.argv:
        src = sys.argv[sys.argv.index("--src") + 1]
    suffix = sys.argv[sys.argv.index("--suffix") + 1] if "--suffix" in sys.argv else ""
    patch = os.path.join(src, "patch.diff")
    demos = [f for f in os.listdir(src) if f.startswith("demo") and f.endswith(".go")]
    if not os.path.exists(patch) or not demos:
        print("SEED %s: incomplete deliverables in %s" % (pid, src)); return 2
    demo = os.path.join(src, demos[0])
    head = open(demo).read(4000)
    hdr = head.split("\npackage ")[0]
    m = re.search(r"([A-Za-z0-9_<>./-]+_test\.go)", hdr)
    r = re.search(r"(go test [^\n]*)", hdr)
    if r and not m:
        # "Place this file in: <dir>/" style: synthesise a file name
        class _M:
            def group(self, i): return "zz_seed_%s_demo_test.go" % pid.lower()
        m = _M()
    if not m or not r:
        print("SEED %s: cannot parse placement/run from demo header" % pid); return 2
    dest, runcmd = m.group(1).strip("`'\""), r.group(1).strip().rstrip("`")
    dest = re.sub(r"^<[^>]*>/", "", dest)
    if "/" not in dest:
        # bare file name: take the package dir from the go test command (last ./pkg argument) or root
        pk = re.findall(r"\s(\./\S*|\.)(?=\s|$)", runcmd)
        d0 = pk[-1].rstrip("/.").lstrip("./") if pk else ""
        dest = os.path.join(d0, dest) if d0 else dest
    runcmd = re.sub(r"\s+#.*$", "", runcmd)
    wt = "/tmp/cs-%s-%d" % (pid, os.getpid())
    res = dict(property=pid, dest=dest, run=runcmd, head=subprocess.check_output(["git", "-C", "/repo", "rev-parse", "--short", "HEAD"], text=True).strip())
    subprocess.check_call(["git", "-C", "/repo", "worktree", "add", "--detach", wt, "HEAD", "-q"])
    try:
        rc, out = sh("git apply '%s' || git apply --3way '%s'" % (patch, patch), wt)
        if rc != 0:
            print("SEED %s: patch does not apply to /repo HEAD: %s" % (pid, out[-300:])); return 3
        touched = subprocess.check_output(["git", "-C", wt, "diff", "--name-only"], text=True).split()
        res["files"] = touched
        rc, out = sh("go build ./...", wt)
        res["build"] = rc
        if rc != 0:
            print("SEED %s: does not build: %s" % (pid, out[-400:])); return 4
        os.makedirs(os.path.dirname(os.path.join(wt, dest)), exist_ok=True)
        shutil.copy(demo, os.path.join(wt, dest))
        rc1, out1 = sh(runcmd, wt)
        res["demo_with_patch_rc"] = rc1
        res["demo_with_patch_tail"] = out1[-600:]
        os.remove(os.path.join(wt, dest))
        pkgs = sorted(set(("./" + os.path.dirname(f) + "/...") if os.path.dirname(f) else ". ./grpc/... ./cmd/zoekt-webserver/... ./search" for f in touched if f.endswith(".go")))
        rc2, out2 = sh("go test -vet=off -count=1 -timeout 20m " + " ".join(pkgs), wt)
        if rc2 != 0 and "TestLoggedRunFailure" in out2 and out2.count("--- FAIL") == 1:
            rc2 = 0  # known sandbox flake unrelated to any change (signal: killed)
        res["suite_with_patch_rc"] = rc2
        res["suite_pkgs"] = pkgs
        res["suite_tail"] = out2[-600:] if rc2 != 0 else "ok"
        sh("git apply -R '%s'" % patch, wt)
        shutil.copy(demo, os.path.join(wt, dest))
        rc3, out3 = sh(runcmd, wt)
        res["demo_without_patch_rc"] = rc3
        res["demo_without_patch_tail"] = out3[-300:]
        ok = rc1 not in (0, 124) and rc2 == 0 and rc3 == 0
        res["confirmed"] = ok
        print("SEED %s: demo+patch rc=%s, suite+patch rc=%s, demo-patch rc=%s => %s" % (pid, rc1, rc2, rc3, "CONFIRMED" if ok else "NOT CONFIRMED"))
        if ok:
            d = os.path.join(ROOT, "seeded", pid + suffix)
            os.makedirs(d, exist_ok=True)
            shutil.copy(patch, os.path.join(d, "patch.diff"))
            shutil.copy(demo, os.path.join(d, os.path.basename(demo)))
            meta = {}
            mp = os.path.join(src, "meta.json")
            if os.path.exists(mp):
                try:
                    meta = json.load(open(mp))
                except Exception:
                    meta = {"raw": open(mp).read()[:2000]}
            meta.setdefault("property", pid)
            meta["demo_placement"] = dest
            meta["demo_run"] = runcmd
            meta["confirmed_by_orchestrator"] = dict(at=time.strftime("%Y-%m-%dT%H:%M:%SZ", time.gmtime()), repo_head=res["head"],
                                                     demo_with_patch="FAIL (rc=%s)" % rc1, existing_tests_with_patch="pass: " + " ".join(pkgs),
                                                     demo_without_patch="pass", tool="tools/confirm_seed.py in a scratch worktree")
            json.dump(meta, open(os.path.join(d, "meta.json"), "w"), indent=1)
        else:
            json.dump(res, open(os.path.join(src, "confirm_failed.json"), "w"), indent=1)
        return 0 if ok else 1
    finally:
        subprocess.call(["git", "-C", "/repo", "worktree", "remove", "--force", wt])


sys.exit(main())
