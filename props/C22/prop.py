import os
import vf

IMPORTS = ["From ZV Require Import Lib.Base Model.Truncate."]
RULE = ("index: random result lists (0-5 files per batch, 1-4 batches; distinct integral scores clustered so the 0.9 novelty "
        "threshold matters; 4 extensions skewed to .go; line mode: 1-4 line matches x 1-3 fragments; chunk mode: 1-3 chunks with "
        "1-4 ranges, multi-line ranges, 0-3 context lines, chunks clamped at end of file, with/without final newline, empty lines; "
        "12% malformed stream: empty matches, decreasing end lines, content without newlines) x doc/match/both/no limits; "
        "mode 0 = SortAndTruncateFiles, 1 = one DisplayTruncator over a stream of batches, 2 = collectSender Send*/Done (package search); "
        "search e2e: generated corpora in 1-3 shards, Search/StreamSearch with limits vs unlimited. non-trivial = the limits cut something.")
TRUSTED = ["correspondence harnesses harness/overlay/index/zz_verif_c22*_test.go, harness/overlay/search/zz_verif_c22_test.go (generator, canonicalisation, Go oracle)",
           "sort.Sort (unstable) modelled as stable insertion sort by decreasing score; correspondence uses distinct scores (order 'up to ties')",
           "file scores modelled as integers: the float test s < s0*0.9 is modelled as 10 s < 9 s0 (exact for integral scores < 2^50)",
           "uint32 line numbers/lengths as N/nat (no wrap-around below 2^32 lines)"]


def par_eval(ctx, pid, imports, case_type, fn, terms, shard=100, workers=6):
    """vf.coq_eval_cases on shards, several coqc processes at a time (elaborating the case terms dominates)."""
    from concurrent.futures import ThreadPoolExecutor
    chunks = [(s, terms[s:s + shard]) for s in range(0, len(terms), shard)]

    def one(a):
        s, ch = a
        return s, vf.coq_eval_cases(ctx, pid, imports, case_type, fn, ch, shard=shard, tag="_p%d" % s)
    out = dict(ok=True, bad=[], evaluated=0, log="")
    with ThreadPoolExecutor(max_workers=workers) as ex:
        for s, r in ex.map(one, chunks):
            out["ok"] = out["ok"] and r["ok"]
            out["bad"] += [s + i for i in r["bad"]]
            out["evaluated"] += r["evaluated"]
            out["log"] += r["log"]
    return out


def run(ctx):
    import time
    from concurrent.futures import ThreadPoolExecutor
    pid = ctx.pid
    T = {}
    t0 = time.time()
    broken, failures = [], []
    n = ctx.n(300, 5000)
    # the shared generator file, re-packaged for package search
    gen = open(os.path.join(vf.HARNESS, "overlay", "index", "zz_verif_c22gen_test.go")).read().replace("package index", "package search", 1)
    gp = os.path.join(ctx.tmp, "zz_verif_c22gen_search_test.go")
    with open(gp, "w") as f:
        f.write(gen)

    def h_index():
        return vf.go_harness(ctx, "index", "TestVerifC22$", ["index/zz_verif_c22_test.go", "index/zz_verif_c22gen_test.go"], n,
                             timeout=600 if ctx.tier == "quick" else 3000, out_name="out-index.jsonl")

    def h_search():
        return vf.go_harness(ctx, "search", "TestVerifC22", ["search/zz_verif_c22_test.go"], ctx.n(200, 4000),
                             timeout=600 if ctx.tier == "quick" else 3000, out_name="out-search.jsonl",
                             extra_replace={os.path.join(vf.REPO, "search", "zz_verif_c22gen_test.go"): gp})
    # the two Go harnesses run while the proofs are checked
    with ThreadPoolExecutor(max_workers=2) as ex:
        f1, f2 = ex.submit(h_index), ex.submit(h_search)
        proofs = vf.coq_props(ctx, pid)
        T["proofs"] = round(time.time() - t0, 1)
        aok, aout = vf.audit()
        if not aok:
            proofs["ok"] = False
            proofs["discharged"] = 0
            broken.append("audit: " + aout[-800:])
        if ctx.tier == "thorough" and proofs["ok"]:
            cok, cout = vf.coqchk(pid)
            proofs["coqchk"] = cout[-1500:]
            if not cok:
                proofs["ok"] = False
                broken.append("coqchk rejects Props/%s.vo: %s" % (pid, cout[-800:]))
        if not proofs["ok"]:
            broken.append("proof obligations of Props/%s.v do not check: %s" % (pid, (proofs.get("broken_files") or proofs.get("nonstd_axioms") or proofs["log"][-800:])))
        h1, h2 = f1.result(), f2.result()
    T["harnesses+proofs"] = round(time.time() - t0, 1)
    recs = []
    if h1["rc"] != 0:
        broken.append("harness TestVerifC22 (index) failed (rc=%d): %s" % (h1["rc"], h1["log"][-1500:]))
    recs += h1["records"]
    if h2["rc"] != 0:
        broken.append("harness TestVerifC22 (search) failed (rc=%d): %s" % (h2["rc"], h2["log"][-1500:]))
    recs += h2["records"]
    cases = [r for r in recs if r.get("kind") == "case"]
    for r in recs:
        if r.get("kind") == "oracle_fail":
            failures.append(dict(key=r.get("key", "?"), what=r.get("what", ""), replay=r.get("replay")))
    ev = dict(ok=True, bad=[], evaluated=0, log="")
    if cases:
        ev = par_eval(ctx, pid, IMPORTS, "c22case", "c22_mismatches", [c["coq"] for c in cases])
        T["model-eval"] = round(time.time() - t0, 1)
        if not ev["ok"]:
            broken.append("model evaluation failed: " + ev["log"][-1500:])
        for i in ev["bad"][:20]:
            broken.append("correspondence c22_mismatches: model and implementation disagree on case %s :: %s" % (
                str(cases[i].get("sample"))[:600], cases[i]["coq"][:1500]))
    else:
        broken.append("harness produced no cases")
    cov = dict(phase_seconds=T, evaluations=len(cases), distinct_nontrivial=vf.distinct_nontrivial(cases), rule=RULE,
               samples=[c.get("sample") for c in cases[:3]], traces_validated_against_impl=ev["evaluated"],
               correspondence_mismatches=len(ev["bad"]), oracle_failures=len(failures),
               input_distribution=vf.histogram(cases, "class"), trusted_base=TRUSTED)
    keys = {}
    for f_ in failures:
        keys[f_["key"]] = keys.get(f_["key"], 0) + 1
    cov["oracle_failure_keys"] = keys
    if proofs.get("coqchk"):
        cov["coqchk"] = proofs["coqchk"]
    for r_ in recs:
        if r_.get("kind") == "info":
            cov.setdefault("info", []).append({k: v for k, v in r_.items() if k != "kind"})
    return vf.finish(ctx, "proof", proofs, cov, failures=failures, broken=broken,
                     assumptions=["line numbers and content lengths < 2^32", "file scores compared exactly (no NaN)"])
