import json
import os
import re

import vf

IMPORTS = ["From ZV Require Import Lib.Base Model.Stream Model.StreamCollect."]
SERVER = dict(pkg_dir="cmd/zoekt-webserver/grpc/server", run="TestVerifC25$", files=["server/zz_verif_c25_test.go"])
SEARCH = dict(pkg_dir="search", run="TestVerifC25$", files=["search/zz_verif_c25_test.go"])
CHUNK = dict(pkg_dir="grpc/chunk", run="TestVerifC25Const$", files=["chunk/zz_verif_c25_const_test.go"])

RULE = ("(1) gRPC stage: event sequences pushed by a fake Streamer through the real Server.StreamSearch into a recording stream. Every second case is a "
        "ONE-HOT case: stats-only runs in which exactly one counter field of zoekt.Stats is non-zero; field and sub-shape cycle with the case index "
        "(field = k mod #fields, sub-shape = (k div #fields) mod 5) so that within the first 2*#fields cases every counter has a run that only Flush can deliver: "
        "onehot-tail (run ends the stream, after an optional prefix ending in a file event), onehot-minimal (the stream is one event with value 1 in one counter), "
        "onehot-period (99/100/101 one-hot events around the every-100th sampling point, or all-zero events up to the 99th and the first non-zero one as the 100th), "
        "onehot-then-file (run merged into the next file event), onehot-whole (run of 1..250 events is the whole stream). "
        "The other cases: seven shapes "
        "(mixed; stats-only runs of 95-106 events around the sampling period; several periods with all-zero stretches; huge files 300 KiB-1.1 MiB "
        "incl. single files above the budget and pairs straddling it; zero-only; files/100 stats/files; file pairs whose proto sizes sum to "
        "maxMessageSize-1/+0/+1 exactly), random counters on every numeric field of zoekt.Stats found by reflection, FlushReason, Duration, integral "
        "priorities and -Inf; maxMessageSize is read from grpc/chunk of the checked tree. (2) collect stage: 0-7 results through the real "
        "newFlushCollectSender with the flush point = FlushWallTime timer after k results (k = 0..n) or the final flush. Distinct by event list (+ flush point); "
        "non-trivial = >= 3 events and >= 2 messages (stage 1), >= 2 results (stage 2).")

TRUSTED = ["correspondence harnesses harness/overlay/server/zz_verif_c25_test.go (fake Streamer, recording stream), harness/overlay/search/zz_verif_c25_test.go "
           "(recording sender, timer-controlled flush point; cases in which the machine stalled the sender before the timer are discarded and regenerated), "
           "harness/overlay/chunk/zz_verif_c25_const_test.go (reads maxMessageSize); generators and Go oracles therein",
           "translator/statsfields (go/parser + go/ast over package zoekt of the checked tree): fields of `type Stats struct`, `s.X += o.X` of Stats.Add, `s.X > 0` leaves of "
           "Stats.Zero -> coq/Generated/StatsFields.v; statements/leaves of any other shape are listed as unrecognised and make C25_zero_tests_every_summed_counter fail; "
           "the named exceptions Duration (not touched by Add, not tested by Zero) and FlushReason (first non-zero wins) are written by hand in coq/Proofs/StatsFields.v",
           "proto.Size of each FileMatch is an input of the model (recorded by the harness)",
           "priorities restricted to integers and -Inf (math.Max / < modelled on option Z); all stream sends succeed",
           "ranking (index.SortFiles) is a parameter of the collect-stage theorems (any permutation); the correspondence compares the aggregate's files as a set; display limits (truncation) are outside the model",
           "the two stages are tied separately (different packages) and composed by theorem (deliver_fc)"]


def translate(ctx):
    """Regenerate coq/Generated/StatsFields.v (fields of zoekt.Stats, fields summed by Stats.Add, fields tested by
    Stats.Zero) from the CURRENT sources of the tree under check. Returns (error or None, dict of the lists)."""
    main = os.path.join(vf.ROOT, "translator", "statsfields", "main.go")
    errf = os.path.join(ctx.tmp, "statsfields.err")
    rc, out = vf.sh("go run %s . 2>%s" % (main, errf), cwd=vf.REPO, env=vf.go_env(), timeout=600)
    if rc != 0 or "Definition stats_zero_tested" not in out:
        err = open(errf).read()[-1500:] if os.path.exists(errf) else ""
        return "translator/statsfields failed (rc=%d): %s %s" % (rc, out[-500:], err), {}
    vf.write_if_changed(os.path.join(vf.COQ, "Generated", "StatsFields.v"), out)
    lists = {}
    for name in ("stats_struct_fields", "stats_add_summed", "stats_add_cross", "stats_add_sticky", "stats_add_unrecognised",
                 "stats_zero_tested", "stats_zero_unrecognised"):
        m = re.search(r"Definition %s\b[^=]*:=\s*(\[.*?\])\.\n" % name, out, re.S)
        body = m.group(1) if m else ""
        if name == "stats_struct_fields":
            lists[name] = ["%s %s" % (a, b) for a, b in re.findall(r'\("([^"]*)", "([^"]*)"\)', body)]
        elif name == "stats_add_cross":
            lists[name] = ["%s += %s" % (a, b) for a, b in re.findall(r'\("([^"]*)", "([^"]*)"\)', body)]
        else:
            lists[name] = re.findall(r'"((?:[^"]|"")*)"', body)
    return None, lists


def run(ctx):
    pid = ctx.pid
    broken, failures = [], []
    terr, gen_lists = translate(ctx)          # BEFORE coq_props: Props/C25.v states theorems about the generated lists
    if terr:
        broken.append(terr)
    proofs = vf.coq_props(ctx, pid)
    aok, aout = vf.audit()
    if not aok:
        proofs["ok"] = False
        proofs["discharged"] = 0
        broken.append("audit: the development contains Admitted/Axiom/Parameter or disables a kernel check: " + aout[-800:])
    if ctx.tier == "thorough" and proofs["ok"]:
        cok, cout = vf.coqchk(pid)
        proofs["coqchk"] = cout[-1500:]
        if not cok:
            proofs["ok"] = False
            broken.append("coqchk rejects Props/%s.vo: %s" % (pid, cout[-800:]))
    if not proofs["ok"]:
        broken.append("proof obligations of Props/%s.v do not check: %s" % (pid, (proofs.get("broken_files") or proofs.get("nonstd_axioms") or proofs["log"][-800:])))

    # translator step: maxMessageSize of the checked tree
    maxsz = None
    hc = vf.go_harness(ctx, CHUNK["pkg_dir"], CHUNK["run"], CHUNK["files"], 1, out_name="out-chunk.jsonl", timeout=600)
    for r in hc["records"]:
        if r.get("kind") == "info" and "maxMessageSize" in r:
            maxsz = int(r["maxMessageSize"])
    if hc["rc"] != 0 or not maxsz:
        broken.append("cannot read grpc/chunk.maxMessageSize (rc=%d): %s" % (hc["rc"], hc["log"][-800:]))
        maxsz = 1 << 20

    recs = []
    for h, n, out_name in ((SERVER, ctx.n(160, 2500), "out-server.jsonl"), (SEARCH, ctx.n(50, 400), "out-search.jsonl")):
        hr = vf.go_harness(ctx, h["pkg_dir"], h["run"], h["files"], n, env={"VERIF_C25_MAX": str(maxsz)}, out_name=out_name,
                           timeout=900 if ctx.tier == "quick" else 3000)
        for r in hr["records"]:
            r["_stage"] = h["pkg_dir"]
        recs += hr["records"]
        if hr["rc"] != 0:
            broken.append("harness TestVerifC25 in ./%s failed (rc=%d): %s" % (h["pkg_dir"], hr["rc"], hr["log"][-1500:]))
    # the counter vector handed to the model: the harness enumerates the counters by reflection in struct order; the
    # model (C25_named_zero_add_are_the_model) labels the vector with the summed fields in struct order
    summed = set(gen_lists.get("stats_add_summed", []))
    order = [f.split(" ")[0] for f in gen_lists.get("stats_struct_fields", []) if f.split(" ")[0] in summed]
    for r in recs:
        if r.get("kind") == "info" and "counters" in r and gen_lists and list(r["counters"]) != order:
            broken.append("counter vector of the harness (reflection over zoekt.Stats: %s) differs from the fields summed by Stats.Add in struct order "
                          "(translator/statsfields: %s)" % (r["counters"], order))
    for r in recs:
        if r.get("kind") == "oracle_fail":
            failures.append(dict(key=r.get("key", "?"), what=r.get("what", ""), replay=r.get("replay")))
    cases = [r for r in recs if r.get("kind") == "case"]
    evaluated, nbad = 0, 0
    for stage, ctype, fn, tag in ((SERVER["pkg_dir"], "c25case", "c25_mismatches", ""), (SEARCH["pkg_dir"], "c25fc_case", "c25fc_mismatches", "fc")):
        cs = [c for c in cases if c["_stage"] == stage]
        if not cs:
            if not broken:
                broken.append("harness in ./%s produced no cases" % stage)
            continue
        ev = vf.coq_eval_cases(ctx, pid, IMPORTS, ctype, fn, [c["coq"] for c in cs], shard=60, tag=tag)
        evaluated += ev["evaluated"]
        nbad += len(ev["bad"])
        if not ev["ok"]:
            broken.append("model evaluation failed: " + ev["log"][-1500:])
        for i in ev["bad"][:20]:
            broken.append("correspondence %s: model and implementation disagree on case %s" % (fn, json.dumps(cs[i].get("sample"), default=str)[:1500]))
    cov = dict(
        evaluations=len(cases),
        distinct_nontrivial=vf.distinct_nontrivial(cases),
        rule=RULE,
        samples=[c.get("sample") for c in cases[:3]] or [],
        traces_validated_against_impl=evaluated,
        correspondence_mismatches=nbad,
        oracle_failures=len(failures),
        input_distribution=vf.histogram(cases, "class"),
        trusted_base=TRUSTED,
        generated=dict(maxMessageSize=maxsz, **gen_lists),
    )
    if proofs.get("coqchk"):
        cov["coqchk"] = proofs["coqchk"]
    for r_ in recs:
        if r_.get("kind") == "info":
            cov.setdefault("info", []).append({k: v for k, v in r_.items() if k not in ("kind", "_stage")})
    return vf.finish(ctx, "proof", proofs, cov, failures=failures, broken=broken,
                     assumptions=["counters of produced results are >= 0 (stats_conserved); every ss.Send succeeds",
                                  "no display limits in the collect stage (MaxDocDisplayCount = MaxMatchDisplayCount = 0); ranking is a permutation"])
