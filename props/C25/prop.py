import vf

SPEC = dict(
    level="proof",
    harness=dict(pkg_dir="cmd/zoekt-webserver/grpc/server", run="TestVerifC25$", files=["server/zz_verif_c25_test.go"],
                 n_quick=160, n_thorough=2500),
    runner=dict(imports=["From ZV Require Import Lib.Base Model.Stream."], case_type="c25case",
                mismatch_fn="c25_mismatches", shard=60),
    rule="event sequences pushed by a fake Streamer through the real Server.StreamSearch into a recording stream: six shapes (mixed; stats-only "
         "runs of 95-106 events around the sampling period; several periods with all-zero stretches; huge files 300 KiB-1.1 MiB incl. single files "
         "above the 1 MiB budget and pairs straddling it; zero-only; files/100 stats/files), random counters (0/1/<1000) on every numeric field of "
         "zoekt.Stats found by reflection, FlushReason, Duration, integral priorities and -Inf. Distinct by event list; non-trivial = >= 3 events and >= 2 messages.",
    trusted_base=["correspondence harness harness/overlay/server/zz_verif_c25_test.go (generator, fake Streamer, recording stream, Go oracle)",
                  "proto.Size of each FileMatch is an input of the model (recorded by the harness); maxMessageSize = 1 MiB is copied into the harness",
                  "priorities restricted to integers and -Inf (math.Max modelled on option Z); all stream sends succeed",
                  "Stats -> proto -> Stats conversion is observed through zoekt.StatsFromProto (as the client does)"],
    assumptions=["counters of produced results are >= 0 (stats_conserved); every ss.Send succeeds"],
)


def run(ctx):
    return vf.standard_check(ctx, SPEC)
