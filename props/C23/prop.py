import vf

SPEC = dict(
    level="proof",
    harness=dict(pkg_dir="index", run="TestVerifC23$", files=["index/zz_verif_c23_test.go"],
                 n_quick=400, n_thorough=6000),
    runner=dict(imports=["From ZV Require Import Lib.Base Model.Tenant."], case_type="c23case",
                mismatch_fn="c23_mismatches"),
    rule="TODO",
    trusted_base=[],
    assumptions=[],
)

def run(ctx):
    return vf.standard_check(ctx, SPEC)
