import json
import vf

IMPORTS = ["From ZV Require Import Lib.Base Model.Tenant Model.TenantLoop."]
RULE = ("shard level (package index): 1-5 repositories (tenant id 1..3 or none, optional tombstone, file tombstones, 0-2 "
        "sub-repositories, repo id possibly 0; names unique per tenant only: 40 % of the repositories take the name of a repository of another "
        "tenant in the same shard) in one simple shard or one compound shard built by index.Merge; 8 cases per shard: "
        "45 % of the compound shards are DENSE (3-5 documents per repository, every document contains a common word on 1-2 lines, 25 % tombstoned "
        "repositories, file tombstones on first documents: an accessible repository with many matches is directly followed by a foreign / tombstoned one whose first document matches); "
        "context in {system, none, tenant1..4 (tenant4 owns nothing)} x random query of depth <= 2 (on dense shards half of them built around the common word) over {content/file substring, RepoSet, "
        "RepoIDs, Repo, RepoRegexp, Meta, BranchesRepos, Const, And, Or, Not} x Search options x List field; every case also runs the search with "
        "ShardRepoMaxMatchCount in {0,1,2} x ShardMaxMatchCount in {default,1,2,3,5} (compared with the loop model Model/TenantLoop.v; match counts per file taken from an unlimited system-context search); 7/8 strict, 1/8 "
        "non-strict. sharded level (package search): 2-6 repositories (names unique per tenant only, as above; same-named repositories carry the "
        "same URL templates there) over simple (possibly split) and compound shards loaded into "
        "the real shardedSearcher wrapped by typeRepoSearcher; queries incl. type:repo; Search aggregate and List (names, ReposMap ids, Stats.Documents) compared with the model, "
        "StreamSearch events checked by the oracle. non-trivial = the shard(s) hold a repository the caller may not see "
        "and the search reaches the document loop / returns files.")
TB = ["correspondence harnesses harness/overlay/index/zz_verif_c23_test.go, harness/overlay/search/zz_verif_c23s_test.go, "
      "harness/overlay/search/zz_verif_shardgen_test.go (generators, brute-force reference evaluator of the query, canonicalisation, leak oracle)",
      "loop model (Model/TenantLoop.v): the match-tree iterator mt.nextDoc() and ctx cancellation are universally quantified in the no-leak theorem; the correspondence "
      "instantiates them with 'never jumps' / 'never cancelled' (a jumping iterator only skips non-matching documents: C01's subject) and takes the per-file match counts from the implementation",
      "the query is abstract in the model: scan bit (Stats.ShardsScanned), per-document match bits (brute-force reference evaluator) "
      "and d.simplify's outcome are inputs of the model",
      "strings are opaque identifiers; SubRepoMap iteration order modelled as list order (generated names are unique)",
      "sharded level: the model is given every shard with the reference meaning of the original query (i.e. it assumes C18: "
      "shard selection/rewrite do not change the union), files compared as a set ordered by file id"]


def _apply_replay(ctx):
    """--replay <file>: re-run the check with the seed recorded in the replay (the failing case index and
    inputs are in the file; the harness is deterministic in the seed)."""
    if ctx.replay:
        try:
            import json as _json
            d = _json.load(open(ctx.replay))
            seed = (d.get("replay") or {}).get("seed")
            if seed is not None:
                ctx.seed = int(seed)
        except Exception:
            pass


def run(ctx):
    _apply_replay(ctx)
    pid = ctx.pid
    proofs = vf.coq_props(ctx, pid)
    broken, failures = [], []
    aok, aout = vf.audit()
    if not aok:
        proofs["ok"] = False
        proofs["discharged"] = 0
        broken.append("audit: " + aout[-800:])
    if ctx.tier == "thorough" and proofs["ok"]:
        cok, cout = vf.coqchk(pid)
        proofs["coqchk"] = cout[-1500:]
        if not cok:
            proofs["ok"] = False
            broken.append("coqchk rejects Props/%s.vo: %s" % (pid, cout[-800:]))
    if not proofs["ok"]:
        broken.append("proof obligations of Props/%s.v do not check: %s" % (pid, (proofs.get("broken_files") or proofs.get("nonstd_axioms") or proofs["log"][-800:])))

    levels = [
        dict(name="shard", pkg="index", run="TestVerifC23$", files=["index/zz_verif_c23_test.go"],
             n=ctx.n(200, 6000), case_type="c23l_case", fn="c23l_mismatches", out="out-shard.jsonl"),
        dict(name="sharded", pkg="search", run="TestVerifC23S$",
             files=["search/zz_verif_c23s_test.go", "search/zz_verif_shardgen_test.go"],
             n=ctx.n(72, 2500), case_type="c23scase", fn="c23s_mismatches", out="out-sharded.jsonl"),
    ]
    allcases, evaluated, mism = [], 0, 0
    for lv in levels:
        hr = vf.go_harness(ctx, lv["pkg"], lv["run"], lv["files"], lv["n"],
                           timeout=600 if ctx.tier == "quick" else 3000, out_name=lv["out"])
        recs = hr["records"]
        cases = [r for r in recs if r.get("kind") == "case"]
        for r in recs:
            if r.get("kind") == "oracle_fail":
                failures.append(dict(key=r.get("key", "?"), what=r.get("what", ""), replay=r.get("replay")))
        if hr["rc"] != 0:
            broken.append("harness %s failed (rc=%d): %s" % (lv["run"], hr["rc"], hr["log"][-1500:]))
        elif not cases:
            broken.append("harness %s produced no cases" % lv["run"])
        if cases:
            ev = vf.coq_eval_cases(ctx, pid, IMPORTS, lv["case_type"], lv["fn"], [c["coq"] for c in cases],
                                   shard=400, tag="_" + lv["name"])
            if not ev["ok"]:
                broken.append("model evaluation failed (%s): %s" % (lv["name"], ev["log"][-1500:]))
            evaluated += ev["evaluated"]
            mism += len(ev["bad"])
            for i in ev["bad"][:10]:
                broken.append("correspondence %s: model and implementation disagree on case %s" % (lv["fn"], json.dumps(cases[i].get("sample"), default=str)[:1500]))
        for c in cases:
            c["class"] = ["level=" + lv["name"]] + list(c.get("class") or [])
        allcases += cases
    cov = dict(
        evaluations=len(allcases),
        distinct_nontrivial=vf.distinct_nontrivial(allcases),
        rule=RULE,
        samples=[c.get("sample") for c in allcases[:2]] + [c.get("sample") for c in allcases[-1:]],
        traces_validated_against_impl=evaluated,
        correspondence_mismatches=mism,
        oracle_failures=len(failures),
        input_distribution=vf.histogram(allcases, "class"),
        trusted_base=TB,
    )
    if proofs.get("coqchk"):
        cov["coqchk"] = proofs["coqchk"]
    return vf.finish(ctx, "proof", proofs, cov, failures=failures, broken=broken,
                     assumptions=["strict enforcement mode is what tenant.enforceTenant() reads (SRC_TENANT_ENFORCEMENT_MODE=strict); "
                                  "the tenant of a request is what tenanttype.GetTenant finds in the context"])
