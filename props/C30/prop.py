import vf

SPEC = dict(
    level="proof",
    harness=dict(pkg_dir="cmd/zoekt-sourcegraph-indexserver", run="TestVerifC30$",
                 files=["cmd/zoekt-sourcegraph-indexserver/zz_verif_c30_test.go"],
                 n_quick=300, n_thorough=4000),
    runner=dict(imports=["From ZV Require Import Lib.Base Model.Queue."], case_type="c30case",
                mismatch_fn="c30_mismatches", shard=150),
    rule="random histories (5-60 operations + a final Bump/drain) of AddOrUpdate/Pop/Bump/SetIndexed(5 states)/MaybeRemoveMissing/"
         "Len/key-set over a pool of 3-8 ids (incl. 0, 2^32-ish, ids never added, duplicates in id lists), 4 backoff regimes "
         "(0/0, negative->0, 1h/2h, 2h/1h capped); every 10th case drives the bare backoff struct with explicit times. "
         "distinct by (regime, history); non-trivial = >= 2 successful Pops and heap length >= 3 at some point.",
    trusted_base=["correspondence harness harness/overlay/cmd/zoekt-sourcegraph-indexserver/zz_verif_c30_test.go (generator, "
                  "reference specification used as Go oracle, canonicalisation: id lists of MaybeRemoveMissing and the key set sorted)",
                  "hand-written model coq/Model/Queue.v (ids stand for *queueItem pointers; IndexOptions abstracted to (RepoID, tag); "
                  "time.Now() replaced by a logical clock: backoff 0 + strictly advancing clock, or backoff >= 1h > run time)",
                  "int/int64/Duration arithmetic modelled in Z (no overflow of seq / backoff product)"],
    assumptions=["seq and the backoff product do not overflow int64", "a correspondence run takes less than one hour; the clock advances between operations (the harness waits for it)"],
)

def run(ctx):
    return vf.standard_check(ctx, SPEC)
