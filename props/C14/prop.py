import json
import vf

PARTS = [
    dict(prefix="cat:", imports=["From ZV Require Import Lib.Base Model.Catfile."], case_type="c14ccase", mismatch_fn="c14c_mismatches", tag="c"),
    dict(prefix="slab:", imports=["From ZV Require Import Lib.Base Model.Catfile."], case_type="c14scase", mismatch_fn="c14s_mismatches", tag="s"),
    dict(prefix="git:", imports=["From ZV Require Import Lib.Base Model.IgnoreFile Model.DirWalk Model.Catfile Model.GitWalk."], case_type="c14gcase", mismatch_fn="c14g_mismatches", tag="g"),
]

RULE = ("VERIF_N = n: 3n synthetic cat-file response streams (0-5 responses: present with empty / newline-only / header-looking / NUL / long "
        "contents, missing, excluded; 22% malformed: truncated, header without space, non-numeric or overflowing size, size larger than content) "
        "read through the real catfileReader over a randomly chunking pipe and a 16-64 byte or 512 KiB bufio buffer with random plans of Next / "
        "Read(0..23|200) (full reads, partial reads, skips, reads past EOF); n contentSlab allocation sequences (sizes 0, small, = cap, > cap, "
        "with appends to returned slices); n repositories built with git plumbing (1-3 branches derived from a base tree by changing, deleting, "
        "adding, chmod-ing entries; nested directories; identical blobs at several paths; IDENTICAL DIRECTORIES at several paths (a directory "
        "copied to a sibling / vendored / below itself, copies of copies, fixture directories with a subdirectory at 2-3 places: same names, "
        "modes and blobs => the same tree object; in the base tree, hence on all branches, or on one branch only, and broken again on a branch "
        "by the per-branch changes — measured from `git ls-tree -t`: class same-tree-at-several-paths / nested-duplicate); 10%: entry names "
        "with control characters / backslashes (legal in git, refused by go-git's TreeWalker); executable, symlink and gitlink entries; empty, "
        "1-2 byte, binary, around-SizeMax and LargeFiles-exempt blobs; per-branch .sourcegraph/ignore, sometimes as a symlink) indexed with "
        "ZOEKT_DISABLE_CATFILE_BATCH=true and =false; plus ONE branch with 1025 nested directories under a watchdog. non-trivial = >= 2 responses and >= 4 ops / >= 3 allocations / >= 2 branches and >= 3 blob entries.")

TRUSTED = [
    "correspondence harness harness/overlay/gitindex/zz_verif_c14_test.go (generators, canonicalisation, Go oracles incl. the git CLI: ls-tree, cat-file)",
    "go-git's object store (object.GetTree / blob access: a branch enters the model as its root tree, a forest of (name, mode, object id, subtree) built from `git ls-tree -r -t`; the walk RepoWalker.walkTree itself is modelled: walk_forest) and the `git cat-file --batch` output format",
    "bufio.Reader: modelled as the unread remainder of the stream plus a per-call hand-over amount >= 1",
    "the glob engines (ignore file: gobwas/glob as a verdict function glob(pattern, path), instantiated with the real engine's verdicts; LargeFiles: doublestar via Options.IgnoreSizeMax's verdicts); the ignore file's line syntax and its lookup in the tree ARE modelled (Model/IgnoreFile.v, tree_ignore_content)",
    "index.Builder / shard writer / searcher round trip; Builder.Add's skip rewriting is modelled except the too-many-trigrams rule",
    "submodule recursion (Options.Submodules) and delta builds are outside the model",
]


def _replay_seed(ctx):
    """--replay <file>: the generators are deterministic in (seed, tier, n); re-run with the seed and tier recorded in the
    replay file's name so that the failing input is derived again (the file itself holds the input in readable form)."""
    import re
    if ctx.replay:
        m = re.search(r"-(quick|thorough)-(\d+)\.json$", ctx.replay)
        if m:
            ctx.tier, ctx.seed = m.group(1), int(m.group(2))


def run(ctx):
    _replay_seed(ctx)
    proofs = vf.coq_props(ctx, "C14")
    broken, failures = [], []
    aok, aout = vf.audit()
    if not aok:
        proofs["ok"] = False
        proofs["discharged"] = 0
        broken.append("audit: " + aout[-800:])
    if ctx.tier == "thorough" and proofs["ok"]:
        cok, cout = vf.coqchk("C14")
        proofs["coqchk"] = cout[-1500:]
        if not cok:
            proofs["ok"] = False
            broken.append("coqchk rejects Props/C14.vo: " + cout[-800:])
    if not proofs["ok"]:
        broken.append("proof obligations of Props/C14.v do not check: %s" % (proofs.get("broken_files") or proofs.get("nonstd_axioms") or proofs["log"][-800:]))
    n = ctx.n(12, 200)
    hr = vf.go_harness(ctx, "gitindex", "TestVerifC14$", ["gitindex/zz_verif_c14_test.go"], n,
                       timeout=900 if ctx.tier == "quick" else 5400)
    recs = hr["records"]
    cases = [r for r in recs if r.get("kind") == "case"]
    for r in recs:
        if r.get("kind") == "oracle_fail":
            failures.append(dict(key=r.get("key", "?"), what=r.get("what", ""), replay=r.get("replay")))
    if hr["rc"] != 0:
        broken.append("harness TestVerifC14 failed (rc=%d): %s" % (hr["rc"], hr["log"][-1500:]))
    evaluated, mism = 0, 0
    for part in PARTS:
        pc = [c for c in cases if str(c.get("key", "")).startswith(part["prefix"])]
        if not pc:
            if hr["rc"] == 0:
                broken.append("harness produced no %s cases" % part["prefix"])
            continue
        ev = vf.coq_eval_cases(ctx, "C14", part["imports"], part["case_type"], part["mismatch_fn"], [c["coq"] for c in pc],
                               shard=150, tag=part["tag"])
        if not ev["ok"]:
            broken.append("model evaluation failed (%s): %s" % (part["prefix"], ev["log"][-1500:]))
        evaluated += ev["evaluated"]
        mism += len(ev["bad"])
        for i in ev["bad"][:10]:
            broken.append("correspondence %s: model and implementation disagree on case %s" % (part["mismatch_fn"], json.dumps(pc[i].get("sample"), default=str)[:1200]))
    samples = []
    for part in PARTS:
        samples += [c.get("sample") for c in cases if str(c.get("key", "")).startswith(part["prefix"])][:1]
    cov = dict(
        evaluations=len(cases),
        distinct_nontrivial=vf.distinct_nontrivial(cases),
        rule=RULE,
        samples=samples,
        traces_validated_against_impl=evaluated,
        correspondence_mismatches=mism,
        oracle_failures=len(failures),
        input_distribution=vf.histogram(cases, "class"),
        trusted_base=TRUSTED,
    )
    if proofs.get("coqchk"):
        cov["coqchk"] = proofs["coqchk"]
    return vf.finish(ctx, "proof", proofs, cov, failures=failures, broken=broken,
                     assumptions=["well-formed cat-file response streams for the delivery theorems (the reader's behaviour on malformed streams is only covered by the correspondence)",
                                  "every requested blob is present in the object store for the agreement of the two reading paths",
                                  "Options.Submodules = false; normal (non-delta) builds",
                                  "at most 1024 nested directories per branch tree (deeper trees are refused by CollectFiles with an error: walk_forest = Err 1)"])
