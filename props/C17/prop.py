import os
import re
import vf

SPEC = dict(
    level="proof",
    harness=dict(pkg_dir="index", run="TestVerifC17$", files=["index/zz_verif_c17_test.go", "index/zz_verif_c17_hooks.go"],
                 n_quick=150, n_thorough=2500),
    runner=dict(imports=["From ZV Require Import Lib.Base Model.Tombstone."], case_type="c17case",
                mismatch_fn="c17_mismatches", shard=150),
    rule="12 real shards per run (1-5 repositories, 75% >= 3, merged with index.Merge, 1-4 files each over shared file names and words, "
         "some embedded FileTombstones, Metadata maps over 2 fields x 3 values) x sidecar absent / empty / pre-seeded (tombstones, file tombstones, renamed repo, other "
         "metadata changed) / shard missing x 1-5 Set/UnsetTombstone operations (existing or absent id, 25% repeats and 35% inverses of the "
         "previous op, 10% injected os.CreateTemp failure, 20% injected os.Rename failure) x 4 queries (the first a bare repo-level filter: query.Repo / RepoRegexp with "
         "anchored alternations, RepoSet over embedded and renamed names, RepoIDs, Meta - over subsets of the shard's repositories incl. all / all but one; "
         "the others boolean combinations of those with file-name and content substrings, And/Or/Not/Const) evaluated with Search, Search under ShardRepoMaxMatchCount in {0,1,2} "
         "(hidden / subset-of-unlimited / exact per-repository prefix oracles; compared with the model's search_lim) and List on a freshly reloaded shard before and after every op. "
         "Go oracle per observation: exact Search result against a reference evaluator, List bounds, hidden repositories/paths; per successful op: results of every "
         "OTHER alive repository identical before/after. distinct by (template, seed sidecar, op history, queries); non-trivial = compound shard (>= 2 repositories) and >= 2 ops.",
    trusted_base=["correspondence harness harness/overlay/index/zz_verif_c17_test.go (generator, canonicalisation, Go oracle) and the fault "
                  "injection: tombstones.go of the working tree with os.Rename/os.CreateTemp textually redirected to hooks (overlay, generated at check time)",
                  "abstraction of zoekt.Repository to (ID, Name, Tombstone, FileTombstones, Metadata pairs, digest of the rest) and of JSON (un)marshalling as the identity on it (validated by the reload comparison)",
                  "queries modelled as boolean combinations of arbitrary predicates on (repository id, name, metadata) / document; the match-tree evaluation itself is C01's subject"],
    assumptions=["well-formed shard directory (sidecar lists as many repositories as the shard; every document belongs to a listed repository) for the search theorems",
                 "queries do not depend on the Tombstone flag itself"],
)


def instrument(ctx):
    """tombstones.go of the tree under check with the two fallible fs calls redirected to the hooks."""
    src = os.path.join(vf.REPO, "index", "tombstones.go")
    text = open(src).read()
    t2, n1 = re.subn(r"\bos\.Rename\(", "vfC17Rename(", text)
    t2, n2 = re.subn(r"\bos\.CreateTemp\(", "vfC17CreateTemp(", t2)
    if n1 == 0 or n2 == 0:
        return None, (n1, n2)
    p = os.path.join(ctx.tmp, "tombstones_instrumented.go")
    with open(p, "w") as f:
        f.write(t2)
    return {src: p}, (n1, n2)


def run(ctx):
    rep, counts = instrument(ctx)
    spec = dict(SPEC)
    spec["harness"] = dict(SPEC["harness"], env={"VERIF_C17_INSTRUMENTED": "1" if rep else "0"})
    if not rep:
        ctx.notes.append("instrumentation points os.Rename/os.CreateTemp not found in tombstones.go %r: fault injection limited to the natural scenario" % (counts,))
    orig = vf.go_harness

    def gh(c, *a, **kw):
        if rep:
            kw["extra_replace"] = rep
        return orig(c, *a, **kw)
    vf.go_harness = gh
    try:
        return vf.standard_check(ctx, spec)
    finally:
        vf.go_harness = orig
