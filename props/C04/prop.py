import json
import vf

IMPORTS = ["From ZV Require Import Lib.Base Model.DocCache."]
RULE = ("one loaded shard per case: 1-4 repositories (metadata k in {yes,no,absent}, lang in {go,py}; 1-3 documents) as a simple "
        "shard or a compound shard built by index.Merge, loaded with ZOEKT_DOCMATCHTREE_CACHE in {0,1,2,10}; history of 1-8 queries "
        "(35 % repeats of an earlier query) of depth <= 2 over {Meta (60 %), content substring, RepoSet, Const, And, Or, Not}; every "
        "result compared with the same query on a freshly loaded searcher and with the model's run_history. non-trivial = cache "
        "enabled, >= 2 Meta atoms in the history, >= 2 repositories, history longer than 1. thorough tier: 4 goroutines x 30 "
        "searches on one searcher under -race, each result compared with its solo result.")
TB = ["correspondence harness harness/overlay/index/zz_verif_c04_test.go (generator, canonicalisation, fresh-searcher oracle)",
      "non-Meta atoms are nodes with a private fresh cursor in the model (their iterators are C01's subject); math.MaxUint32 modelled as ndocs",
      "cache key = xxhash of field:value assumed collision free; random eviction = arbitrary choice function (theorems quantify over it; "
      "the correspondence of the repaired code does not depend on it)",
      "concurrency: only interleavings of whole loop iterations with atomic builds are modelled (theorems *_partial); data races are "
      "not; thorough tier runs a -race stress test as supporting evidence only"]


def _apply_replay(ctx):
    """--replay <file>: re-run the check with the seed recorded in the replay (the failing case index and
    inputs are in the file; the harness is deterministic in the seed)."""
    if ctx.replay:
        try:
            import json as _json
            d = _json.load(open(ctx.replay))
            seed = (d.get("replay") or {}).get("seed")
            if seed is not None:
                ctx.seed = int(seed)
        except Exception:
            pass


def run(ctx):
    _apply_replay(ctx)
    pid = ctx.pid
    proofs = vf.coq_props(ctx, pid)
    broken, failures = [], []
    aok, aout = vf.audit()
    if not aok:
        proofs["ok"] = False
        proofs["discharged"] = 0
        broken.append("audit: " + aout[-800:])
    if ctx.tier == "thorough" and proofs["ok"]:
        cok, cout = vf.coqchk(pid)
        proofs["coqchk"] = cout[-1500:]
        if not cok:
            proofs["ok"] = False
            broken.append("coqchk rejects Props/%s.vo: %s" % (pid, cout[-800:]))
    if not proofs["ok"]:
        broken.append("proof obligations of Props/%s.v do not check: %s" % (pid, (proofs.get("broken_files") or proofs.get("nonstd_axioms") or proofs["log"][-800:])))
    hr = vf.go_harness(ctx, "index", "TestVerifC04$", ["index/zz_verif_c04_test.go"], ctx.n(300, 5000),
                       timeout=600 if ctx.tier == "quick" else 3000)
    recs = hr["records"]
    cases = [r for r in recs if r.get("kind") == "case"]
    for r in recs:
        if r.get("kind") == "oracle_fail":
            failures.append(dict(key=r.get("key", "?"), what=r.get("what", ""), replay=r.get("replay")))
    if hr["rc"] != 0:
        broken.append("harness TestVerifC04 failed (rc=%d): %s" % (hr["rc"], hr["log"][-1500:]))
    elif not cases:
        broken.append("harness produced no cases")
    ev = dict(ok=True, bad=[], evaluated=0, log="")
    if cases:
        ev = vf.coq_eval_cases(ctx, pid, IMPORTS, "c04case", "c04_mismatches", [c["coq"] for c in cases], shard=400)
        if not ev["ok"]:
            broken.append("model evaluation failed: " + ev["log"][-1500:])
        for i in ev["bad"][:10]:
            broken.append("correspondence c04_mismatches: model and implementation disagree on case %s" % json.dumps(cases[i].get("sample"), default=str)[:1500])
    info = []
    if ctx.tier == "thorough":
        hr2 = vf.go_harness(ctx, "index", "TestVerifC04Race$", ["index/zz_verif_c04_test.go"], 24, race=True,
                            timeout=3000, out_name="out-race.jsonl")
        nrace = 0
        for r in hr2["records"]:
            if r.get("kind") == "oracle_fail":
                failures.append(dict(key=r.get("key", "?"), what=r.get("what", ""), replay=r.get("replay")))
            if r.get("kind") == "info":
                nrace += 1
        if hr2["rc"] != 0:
            broken.append("-race stress TestVerifC04Race failed (rc=%d; data race or crash): %s" % (hr2["rc"], hr2["log"][-1500:]))
        info.append(dict(race_stress_cases=nrace, race_rc=hr2["rc"]))
    cov = dict(
        evaluations=len(cases),
        distinct_nontrivial=vf.distinct_nontrivial(cases),
        rule=RULE,
        samples=[c.get("sample") for c in cases[:3]],
        traces_validated_against_impl=ev["evaluated"],
        correspondence_mismatches=len(ev["bad"]),
        oracle_failures=len(failures),
        input_distribution=vf.histogram(cases, "class"),
        trusted_base=TB,
    )
    if info:
        cov["info"] = info
    if proofs.get("coqchk"):
        cov["coqchk"] = proofs["coqchk"]
    return vf.finish(ctx, "proof", proofs, cov, failures=failures, broken=broken,
                     assumptions=["concurrent half partial: interleavings at loop-iteration granularity only; data races outside the model",
                                  "ndocs < 2^32; cache-key checksums do not collide"])
