import os
import vf

GEN = os.path.join(vf.COQ, "Generated", "ScoreConsts.v")


def regen(ctx):
    """translator: scoring constants of /repo's current source -> coq/Generated/ScoreConsts.v"""
    env = dict(os.environ)
    env.pop("GOFLAGS", None)
    env["GOTOOLCHAIN"] = "local"
    env["GO111MODULE"] = "off"
    rc, out = vf.sh(["go", "run", "main.go", vf.REPO], cwd=os.path.join(vf.ROOT, "translator", "scoreconsts"), env=env, timeout=300)
    if rc != 0 or "Definition c_scoreWordMatch" not in out:
        return False, out[-1500:]
    text = out[out.index("(* GENERATED"):]
    if os.path.realpath(vf.REPO) != "/repo":
        # scratch tree: build against its constants, restore afterwards (see run)
        pass
    vf.write_if_changed(GEN, text)
    # BM25 parameters for the harness' tfScore samples (the harness cannot read the function-local k, b)
    import re
    env = SPEC["harness"].setdefault("env", {})
    for nm, var in (("c_bm25_k", "VERIF_BM25_K"), ("c_bm25_b", "VERIF_BM25_B")):
        m = re.search(r"Definition %s : Q := \(\(?(-?\d+)\)? # (\d+)\)" % nm, text)
        if m:
            env[var] = repr(int(m.group(1)) / int(m.group(2)))
    return True, text


SPEC = dict(
    level="proof",
    harness=dict(pkg_dir="index", run="TestVerifC29$", files=["index/zz_verif_c29_test.go"], n_quick=110, n_thorough=1500),
    runner=dict(imports=["From Coq Require Import QArith.", "From ZV Require Import Lib.Base Model.Score Model.ScoreBM25."], case_type="c29bcase",
                mismatch_fn="c29b_mismatches", shard=120),
    rule="1-3 in-memory shards (distinct repo ranks incl. 0 and 65535) x 1-6 documents (4 extensions/languages, words with "
         "word/partial boundaries, symbols covering/overlapping words with 12 ctags kinds, filenames containing the pattern) x 9 query "
         "shapes (substring, case, or, and, boosted atoms, file:, sym:; half of the queries carry a Boost: 55% ordinary weights 2/0.5/1.5/3/1+1e-10/1, "
         "30% special: +Inf, NaN, -Inf, 0, -2, 1e300, MaxFloat64, 1e100 (the cap), 1e101, 1e12, 5e-324; 15% two nested boosts whose product overflows / is NaN / "
         "is ordinary) x line/chunk mode x default/BM25; "
         "Search-API oracle (package search): 1-4 shards (a quarter of the files low-priority *_test names) through shardedSearcher.Search/StreamSearch with the default "
         "GOMAXPROCS, repeated 4x + DebugScore; 45% of its queries are built as PROTO messages with Boost doubles +Inf/NaN/-Inf/1e300 nested/MaxFloat64/0/-2/1e101/20 "
         "and converted by query.QFromProto (the real API path of a boost). "
         "every search is run 5x without and 1x with DebugScore; 3 tfScore(k,b,L,f) samples per case (exact L, relative 2^-40).  Correspondence (default scorer): candidate features re-derived "
         "independently from the corpus, the weight of a candidate is passed as the binary64 product of its boosts (rational, +-Inf or NaN) and capped by the model; "
         "model computes all scores and both orders; scores compared rank by rank and identity by identity within 2^-30 (matches) / 2^-12 (files) + 2^-48 relative, "
         "which fixes the order up to binary64 ties. non-trivial = >= 2 files and a file with >= 2 matches.  SECOND HARNESS (TestVerifC29K): K = scoreSymbolKind(language, filename, sym, ParseSymbolKind(kind)) on 28 language strings (both spellings of the 12 languages, "
         "unknown, wrong case) x 53 kind strings (all ParseSymbolKind cases, mixed case, unknown) x filenames (_test.go variants) x symbols (first rune upper/lower/non-ASCII/invalid): "
         "whole cross in the thorough tier, Go/go whole + 12% sample + random draws in the quick tier; A = match trees of random nested queries (or/and/not/boost/file:/sym:/regex/type:, "
         "depth <= 3) with the known map of every matching document vs the atom(n) of the DebugScore run; T = BM25 line-mode searches: candidates (term, important, weight), "
         "low priority, lengths vs the term-frequency map and file/line scores (relative 2^-40).",
    trusted_base=["correspondence harness harness/overlay/index/zz_verif_c29_test.go (corpus generator, feature re-derivation, Go oracle), oracle harness harness/overlay/search/zz_verif_c29_test.go",
                  "translator/scoreconsts (go/ast + go/constant) regenerating coq/Generated/ScoreConsts.v from the Go source on every run",
                  "first harness: the kind score of a candidate is passed as scoreSymbolKind returned it and the atom count as the DebugScore run printed it; the second harness "
                  "(harness/overlay/index/zz_verif_c29k_test.go) ties scoreSymbolKind/ParseSymbolKind to the generated tables, visitMatchAtoms to count_atoms and "
                  "calculateTermFrequency/scoreFileBM25/scoreLineBM25 to tf_extract/bm25_file/bm25_line; its document walk copies the loop of indexData.Search (a wrong copy shows as a mismatch)",
                  "features still taken from the implementation: unicode.IsUpper of a symbol's first rune, the low-priority classification of a file (read from the BM25 debug string), "
                  "which section a candidate overlaps; kind strings are ASCII (strings.ToLower modelled on ASCII)",
                  "binary64 vs exact rationals: scores within 2^-30 (matches) / 2^-12 (files) + 2^-48 relative, order up to entries closer than that (a large boost absorbs "
                  "the tie-breaking terms: equal binary64 scores come back in an unspecified order); 0.9 is 9/10 in the model",
                  "NaN and -Inf boost products are given the effective weight 0 in the exact model (they never win a comparison in scoreLine/boostScore, exactly like 0); tied by correspondence cases",
                  "sort.Sort (unstable) modelled as stable insertion sort: order 'up to ties'"],
    assumptions=["none on boost weights: C29_scores_finite_for_every_boost covers every binary64 product (rational, +-Inf, NaN) through the cap of setScoreWeight; "
                 "kind scores within the generated maximum, repository rank in uint16, document number below the document count",
                 "scores compared up to binary64 rounding"],
)


KIMPORTS = ["From Coq Require Import QArith.", "From ZV Require Import Lib.Base Model.Score Model.ScoreKind."]
# second correspondence harness (TestVerifC29K): record kind -> (case type, mismatch function, what)
KPARTS = {"kcase": ("c29kcase", "c29k_mismatches", "scoreSymbolKind/ParseSymbolKind vs the generated tables"),
          "acase": ("c29acase", "c29a_mismatches", "visitMatchAtoms (atom count of scoreFile) on real match trees"),
          "tcase": ("c29tcase", "c29t_mismatches", "calculateTermFrequency + scoreFileBM25/scoreLineBM25")}


def par_eval(ctx, pid, imports, case_type, fn, terms, shard, workers=8, tag=""):
    """vf.coq_eval_cases on shards, several coqc processes at a time"""
    from concurrent.futures import ThreadPoolExecutor
    chunks = [(s_, terms[s_:s_ + shard]) for s_ in range(0, len(terms), shard)]

    def one(a_):
        s_, ch = a_
        return s_, vf.coq_eval_cases(ctx, pid, imports, case_type, fn, ch, shard=shard, tag="%s_p%d" % (tag, s_))
    out = dict(ok=True, bad=[], evaluated=0, log="")
    with ThreadPoolExecutor(max_workers=workers) as ex:
        for s_, r_ in ex.map(one, chunks):
            out["ok"] = out["ok"] and r_["ok"]
            out["bad"] += [s_ + i for i in r_["bad"]]
            out["evaluated"] += r_["evaluated"]
            out["log"] += r_["log"]
    return out


def check(ctx, pre_broken=None):
    """standard_check + a second, oracle-only harness at the Search API (package search) + the second correspondence
    harness (kinds, atoms, term frequencies); the three Go harnesses run while the proofs are checked"""
    import time
    from concurrent.futures import ThreadPoolExecutor
    pid = ctx.pid
    T = {}
    t0 = time.time()
    broken, failures = list(pre_broken or []), []
    h, r = SPEC["harness"], SPEC["runner"]
    to = 900 if ctx.tier == "quick" else 3000
    with ThreadPoolExecutor(max_workers=3) as ex:
        f1 = ex.submit(vf.go_harness, ctx, h["pkg_dir"], h["run"], h["files"], ctx.n(h["n_quick"], h["n_thorough"]), env=h.get("env"), timeout=to, out_name="out-index.jsonl")
        f2 = ex.submit(vf.go_harness, ctx, "search", "TestVerifC29Search$", ["search/zz_verif_c29_test.go"], ctx.n(60, 1200), timeout=to, out_name="out-search.jsonl")
        f3 = ex.submit(vf.go_harness, ctx, "index", "TestVerifC29K$", ["index/zz_verif_c29_test.go", "index/zz_verif_c29k_test.go"], ctx.n(40, 300), env=h.get("env"), timeout=to, out_name="out-kinds.jsonl")
        proofs = vf.coq_props(ctx, pid)
        T["proofs"] = round(time.time() - t0, 1)
        aok, aout = vf.audit()
        if not aok:
            proofs["ok"] = False
            proofs["discharged"] = 0
            broken.append("audit: " + aout[-800:])
        if ctx.tier == "thorough" and proofs["ok"]:
            cok, cout = vf.coqchk(pid)
            proofs["coqchk"] = cout[-1500:]
            if not cok:
                proofs["ok"] = False
                broken.append("coqchk rejects Props/%s.vo: %s" % (pid, cout[-800:]))
        if not proofs["ok"]:
            broken.append("proof obligations of Props/%s.v do not check: %s" % (pid, (proofs.get("broken_files") or proofs.get("nonstd_axioms") or proofs["log"][-800:])))
        h1, h2, h3 = f1.result(), f2.result(), f3.result()
    T["harnesses+proofs"] = round(time.time() - t0, 1)
    if h1["rc"] != 0:
        broken.append("harness %s failed (rc=%d): %s" % (h["run"], h1["rc"], h1["log"][-1500:]))
    if h2["rc"] != 0:
        broken.append("harness TestVerifC29Search failed (rc=%d): %s" % (h2["rc"], h2["log"][-1500:]))
    if h3["rc"] != 0:
        broken.append("harness TestVerifC29K failed (rc=%d): %s" % (h3["rc"], h3["log"][-1500:]))
    recs = h1["records"] + h2["records"] + h3["records"]
    cases = [x for x in recs if x.get("kind") == "case"]
    for x in recs:
        if x.get("kind") == "oracle_fail":
            failures.append(dict(key=x.get("key", "?"), what=x.get("what", ""), replay=x.get("replay")))
    ev = dict(ok=True, bad=[], evaluated=0, log="")
    kev = {}
    if proofs["ok"]:
        if cases:
            ev = par_eval(ctx, pid, r["imports"], r["case_type"], r["mismatch_fn"], [c["coq"] for c in cases], shard=30)
            if not ev["ok"]:
                broken.append("model evaluation failed: " + ev["log"][-1500:])
            for i in ev["bad"][:20]:
                broken.append("correspondence %s: model and implementation disagree on case %s" % (r["mismatch_fn"], str(cases[i].get("sample"))[:1500]))
        elif h1["rc"] == 0:
            broken.append("harness produced no cases")
        for kind, (ctype, fn, what) in KPARTS.items():
            kc = [x for x in recs if x.get("kind") == kind]
            if not kc:
                if h3["rc"] == 0:
                    broken.append("harness TestVerifC29K produced no %s records" % kind)
                continue
            e = par_eval(ctx, pid, KIMPORTS, ctype, fn, [c["coq"] for c in kc], shard=400 if kind == "kcase" else 150, tag="_" + kind)
            kev[kind] = dict(what=what, cases=len(kc), distinct_nontrivial=vf.distinct_nontrivial(kc), evaluated=e["evaluated"],
                             mismatches=len(e["bad"]), input_distribution=vf.histogram(kc, "class"))
            if not e["ok"]:
                broken.append("model evaluation (%s) failed: %s" % (kind, e["log"][-1500:]))
            for i in e["bad"][:10]:
                broken.append("correspondence %s (%s): model and implementation disagree on %s" % (fn, what, vf.json.dumps(kc[i].get("sample"), default=str)[:1200]))
    T["model-eval"] = round(time.time() - t0, 1)
    kn = sum(v["cases"] for v in kev.values())
    cov = dict(phase_seconds=T, evaluations=len(cases) + kn,
               distinct_nontrivial=vf.distinct_nontrivial(cases) + sum(v["distinct_nontrivial"] for v in kev.values()), rule=SPEC["rule"],
               samples=[c.get("sample") for c in cases[:3]], traces_validated_against_impl=ev["evaluated"] + sum(v["evaluated"] for v in kev.values()),
               correspondence_mismatches=len(ev["bad"]) + sum(v["mismatches"] for v in kev.values()), oracle_failures=len(failures),
               input_distribution=vf.histogram(cases, "class"), second_harness=kev, trusted_base=SPEC["trusted_base"])
    if proofs.get("coqchk"):
        cov["coqchk"] = proofs["coqchk"]
    for x in recs:
        if x.get("kind") == "info":
            cov.setdefault("info", []).append({k: v for k, v in x.items() if k != "kind"})
    return vf.finish(ctx, "proof", proofs, cov, failures=failures, broken=broken, assumptions=SPEC["assumptions"])


def run(ctx):
    ok, out = regen(ctx)
    try:
        if not ok:
            # the generated constants are stale (left as they were): the tie is broken; still run the harnesses so
            # that the Go oracles can name concrete failing inputs
            return check(ctx, pre_broken=["translator/scoreconsts failed on the current source: " + out])
        return check(ctx)
    finally:
        if os.path.realpath(vf.REPO) != "/repo":
            # leave the generated file as /repo defines it
            saved = vf.REPO
            vf.REPO = "/repo"
            try:
                regen(ctx)
            finally:
                vf.REPO = saved
