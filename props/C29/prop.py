import os
import vf

GEN = os.path.join(vf.COQ, "Generated", "ScoreConsts.v")


def regen(ctx):
    """translator: scoring constants of /repo's current source -> coq/Generated/ScoreConsts.v"""
    env = dict(os.environ)
    env.pop("GOFLAGS", None)
    env["GOTOOLCHAIN"] = "local"
    env["GO111MODULE"] = "off"
    rc, out = vf.sh(["go", "run", "main.go", vf.REPO], cwd=os.path.join(vf.ROOT, "translator", "scoreconsts"), env=env, timeout=300)
    if rc != 0 or "Definition c_scoreWordMatch" not in out:
        return False, out[-1500:]
    text = out[out.index("(* GENERATED"):]
    if os.path.realpath(vf.REPO) != "/repo":
        # scratch tree: build against its constants, restore afterwards (see run)
        pass
    vf.write_if_changed(GEN, text)
    # BM25 parameters for the harness' tfScore samples (the harness cannot read the function-local k, b)
    import re
    env = SPEC["harness"].setdefault("env", {})
    for nm, var in (("c_bm25_k", "VERIF_BM25_K"), ("c_bm25_b", "VERIF_BM25_B")):
        m = re.search(r"Definition %s : Q := \(\(?(-?\d+)\)? # (\d+)\)" % nm, text)
        if m:
            env[var] = repr(int(m.group(1)) / int(m.group(2)))
    return True, text


SPEC = dict(
    level="proof",
    harness=dict(pkg_dir="index", run="TestVerifC29$", files=["index/zz_verif_c29_test.go"], n_quick=110, n_thorough=1500),
    runner=dict(imports=["From Coq Require Import QArith.", "From ZV Require Import Lib.Base Model.Score Model.ScoreBM25."], case_type="c29bcase",
                mismatch_fn="c29b_mismatches", shard=120),
    rule="1-3 in-memory shards (distinct repo ranks incl. 0 and 65535) x 1-6 documents (4 extensions/languages, words with "
         "word/partial boundaries, symbols covering/overlapping words with 12 ctags kinds, filenames containing the pattern) x 9 query "
         "shapes (substring, case, or, and, boosted atoms, file:, sym:; half of the queries carry a Boost: 55% ordinary weights 2/0.5/1.5/3/1+1e-10/1, "
         "30% special: +Inf, NaN, -Inf, 0, -2, 1e300, MaxFloat64, 1e100 (the cap), 1e101, 1e12, 5e-324; 15% two nested boosts whose product overflows / is NaN / "
         "is ordinary) x line/chunk mode x default/BM25; "
         "Search-API oracle (package search): 1-4 shards (a quarter of the files low-priority *_test names) through shardedSearcher.Search/StreamSearch with the default "
         "GOMAXPROCS, repeated 4x + DebugScore; 45% of its queries are built as PROTO messages with Boost doubles +Inf/NaN/-Inf/1e300 nested/MaxFloat64/0/-2/1e101/20 "
         "and converted by query.QFromProto (the real API path of a boost). "
         "every search is run 5x without and 1x with DebugScore; 3 tfScore(k,b,L,f) samples per case (exact L, relative 2^-40).  Correspondence (default scorer): candidate features re-derived "
         "independently from the corpus, the weight of a candidate is passed as the binary64 product of its boosts (rational, +-Inf or NaN) and capped by the model; "
         "model computes all scores and both orders; scores compared rank by rank and identity by identity within 2^-30 (matches) / 2^-12 (files) + 2^-48 relative, "
         "which fixes the order up to binary64 ties. non-trivial = >= 2 files and a file with >= 2 matches.",
    trusted_base=["correspondence harness harness/overlay/index/zz_verif_c29_test.go (corpus generator, feature re-derivation, Go oracle), oracle harness harness/overlay/search/zz_verif_c29_test.go",
                  "translator/scoreconsts (go/ast + go/constant) regenerating coq/Generated/ScoreConsts.v from the Go source on every run",
                  "scoreSymbolKind is called as is to obtain the kind score of a symbol (its table is not modelled; only its maximum factor is generated)",
                  "atom count per file is read from the debug string of the DebugScore run (visitMatchAtoms is not modelled)",
                  "binary64 vs exact rationals: scores within 2^-30 (matches) / 2^-12 (files) + 2^-48 relative, order up to entries closer than that (a large boost absorbs "
                  "the tie-breaking terms: equal binary64 scores come back in an unspecified order); 0.9 is 9/10 in the model",
                  "NaN and -Inf boost products are given the effective weight 0 in the exact model (they never win a comparison in scoreLine/boostScore, exactly like 0); tied by correspondence cases",
                  "sort.Sort (unstable) modelled as stable insertion sort: order 'up to ties'"],
    assumptions=["none on boost weights: C29_scores_finite_for_every_boost covers every binary64 product (rational, +-Inf, NaN) through the cap of setScoreWeight; "
                 "kind scores within the generated maximum, repository rank in uint16, document number below the document count",
                 "scores compared up to binary64 rounding"],
)


def check(ctx, pre_broken=None):
    """standard_check + a second, oracle-only harness at the Search API (package search)"""
    pid = ctx.pid
    proofs = vf.coq_props(ctx, pid)
    broken, failures = list(pre_broken or []), []
    aok, aout = vf.audit()
    if not aok:
        proofs["ok"] = False
        proofs["discharged"] = 0
        broken.append("audit: " + aout[-800:])
    if ctx.tier == "thorough" and proofs["ok"]:
        cok, cout = vf.coqchk(pid)
        proofs["coqchk"] = cout[-1500:]
        if not cok:
            proofs["ok"] = False
            broken.append("coqchk rejects Props/%s.vo: %s" % (pid, cout[-800:]))
    if not proofs["ok"]:
        broken.append("proof obligations of Props/%s.v do not check: %s" % (pid, (proofs.get("broken_files") or proofs.get("nonstd_axioms") or proofs["log"][-800:])))
    h, r = SPEC["harness"], SPEC["runner"]
    to = 900 if ctx.tier == "quick" else 3000
    h1 = vf.go_harness(ctx, h["pkg_dir"], h["run"], h["files"], ctx.n(h["n_quick"], h["n_thorough"]), env=h.get("env"), timeout=to, out_name="out-index.jsonl")
    if h1["rc"] != 0:
        broken.append("harness %s failed (rc=%d): %s" % (h["run"], h1["rc"], h1["log"][-1500:]))
    h2 = vf.go_harness(ctx, "search", "TestVerifC29Search$", ["search/zz_verif_c29_test.go"], ctx.n(60, 800), timeout=to, out_name="out-search.jsonl")
    if h2["rc"] != 0:
        broken.append("harness TestVerifC29Search failed (rc=%d): %s" % (h2["rc"], h2["log"][-1500:]))
    recs = h1["records"] + h2["records"]
    cases = [x for x in recs if x.get("kind") == "case"]
    for x in recs:
        if x.get("kind") == "oracle_fail":
            failures.append(dict(key=x.get("key", "?"), what=x.get("what", ""), replay=x.get("replay")))
    ev = dict(ok=True, bad=[], evaluated=0, log="")
    if cases:
        ev = vf.coq_eval_cases(ctx, pid, r["imports"], r["case_type"], r["mismatch_fn"], [c["coq"] for c in cases], shard=r.get("shard", 120))
        if not ev["ok"]:
            broken.append("model evaluation failed: " + ev["log"][-1500:])
        for i in ev["bad"][:20]:
            broken.append("correspondence %s: model and implementation disagree on case %s" % (r["mismatch_fn"], str(cases[i].get("sample"))[:1500]))
    elif h1["rc"] == 0:
        broken.append("harness produced no cases")
    cov = dict(evaluations=len(cases), distinct_nontrivial=vf.distinct_nontrivial(cases), rule=SPEC["rule"],
               samples=[c.get("sample") for c in cases[:3]], traces_validated_against_impl=ev["evaluated"],
               correspondence_mismatches=len(ev["bad"]), oracle_failures=len(failures),
               input_distribution=vf.histogram(cases, "class"), trusted_base=SPEC["trusted_base"])
    if proofs.get("coqchk"):
        cov["coqchk"] = proofs["coqchk"]
    for x in recs:
        if x.get("kind") == "info":
            cov.setdefault("info", []).append({k: v for k, v in x.items() if k != "kind"})
    return vf.finish(ctx, "proof", proofs, cov, failures=failures, broken=broken, assumptions=SPEC["assumptions"])


def run(ctx):
    ok, out = regen(ctx)
    try:
        if not ok:
            # the generated constants are stale (left as they were): the tie is broken; still run the harnesses so
            # that the Go oracles can name concrete failing inputs
            return check(ctx, pre_broken=["translator/scoreconsts failed on the current source: " + out])
        return check(ctx)
    finally:
        if os.path.realpath(vf.REPO) != "/repo":
            # leave the generated file as /repo defines it
            saved = vf.REPO
            vf.REPO = "/repo"
            try:
                regen(ctx)
            finally:
                vf.REPO = saved
