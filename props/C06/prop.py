"""C06 - query strings mean what doc/query_syntax.md says.

 proofs: Props/C06.v over Model/QueryDoc.v (documented grammar dexpr, printer render, meaning den) and Model/Parser.v
 tie:    harness in package index generates abstract queries of the documented grammar, prints them, records Parse's tree;
         the runner checks  render dq = printed string,  model parse = Parse,  Simplify (den dq) = Parse
 oracle: reference evaluation (Go regexp on a two-repository corpus) of the abstract query vs Parse+Search on in-memory shards
"""
import os, sys
import vf
sys.path.insert(0, os.path.join(vf.ROOT, "props", "C07"))

IMPORTS = ["From ZV Require Import Model.Regex.", "From ZV Require Import Lib.Base Model.Query Model.Parser Model.QueryDoc Model.QueryDocRun."]
RULE = ("random abstract queries of the documented EBNF: 1-3 or-ed conjunctions of 1-3 expressions, nesting depth <= 3, negation, all fields and "
        "aliases, quoted/escaped and plain values (regexps and literals, upper/lower case), <= 1 case: and <= 1 type: directive per group at a "
        "random position; 2 of 3 queries draw 40% of their values from generated regexps over the words of three documents that differ only in "
        "letter case (every segment of a word printed as a literal or below a class / repetition / group / alternation operator, so that the "
        "pattern's upper-case letters sit at every kind of syntax-tree position, in 60% ONLY below operators; 20% lower-cased; some negated classes); "
        "14% of all values are a corpus word with exactly ONE kind of regexp operator (every metacharacter of regexp/syntax: . + * ? {n} {n,} {n,m} | () [] ^ $ "
        "and backslash escapes) or with punctuation that is no operator ({ } , - = #); 12% are classes / flag groups that regexp/syntax turns into fold-case "
        "literals ([fF], [fF]oo, [hH][eE]llo, (?:f|F)oo, (?i:f)oo, (?i:foo), (?i)foo); "
        "1 query in 7 has an explicit case: directive in EVERY group at every depth (each flavour, also case:auto, inside each other flavour's scope), small "
        "conjunctions of mostly pattern atoms over words whose other spellings occur in other documents; "
        "printed with a blank after '('; distinct by printed string; non-trivial = >= 2 expressions. Every case is reference-evaluated on a corpus of "
        "2 repositories / 11 documents with symbols (incl. sym: and type:filename).")
TRUSTED = [
    "Model/QueryDoc.v is a hand-written reading of doc/query_syntax.md (the document is prose + EBNF; its Coq form is trusted to say the same)",
    "case:auto for regexps: Model/RegexCase.v models LowerRegexp + Regexp.Equal on the syntax tree dumped from the implementation's *syntax.Regexp "
    "(regexp/syntax's parser itself stays external); the documented rule is read on that tree (literal runes and class-range bounds)",
    "RegexpQuery's literal detection: Model/RegexLit.v decides Substring/Regexp (and the Substring's bytes) on the optimized syntax tree dumped from the "
    "implementation (for Substring answers: the harness' own OptimizeRegexp(syntax.Parse(text)) with a copy of query/parse.go's regexpFlags); regexp/syntax's parser and Simplify stay external",
    "hand-written parser model (tied by C07's and this correspondence); Model/Query.v Simplify (C05)",
    "external engines (regexp/syntax, grafana regexp, language table) are Section variables / fed from the implementation (Regexp.setCase(auto) is NOT fed: it is computed by the model)",
    "Go reference evaluator in harness/overlay/index/zz_verif_c06_test.go (Go's regexp on raw corpus text) and the in-memory shard search it is compared with",
]


def gen_doc_table(ctx):
    """doc/query_syntax.md -> coq/Generated/DocSyntax.v: the field/alias table and the value sets of the EBNF summary."""
    import re
    path = os.path.join(vf.REPO, "doc", "query_syntax.md")
    try:
        text = open(path, errors="replace").read()
    except OSError as e:
        return "cannot read doc/query_syntax.md: %s" % e

    def cb(x):
        return "[" + ";".join(str(b) for b in x.encode()) + "]%N" if x else "(@nil N)"
    rows = []
    for line in text.splitlines():
        m = re.match(r"^\|\s*`([^`]+)`\s*\|([^|]*)\|", line)
        if not m or m.group(1) == "Field":
            continue
        field = m.group(1)
        if field.startswith("meta."):
            field = "meta."
        aliases = re.findall(r"`([^`]+)`", m.group(2))
        rows.append((field, aliases))
    ebnf = re.search(r"```ebnf(.*?)```", text, re.S)
    if not rows or not ebnf:
        return "doc/query_syntax.md: field table or EBNF summary not found"
    e = ebnf.group(1)

    def alts(name):
        m = re.search(r"^\s*%s\s*=\s*([^;]*);" % name, e, re.M)
        return re.findall(r'"([^"]+)"', m.group(1)) if m else []
    types, bools = alts("type"), alts("boolean")
    mc = re.search(r'"case:"\s*,\s*\(([^)]*)\)', e)
    cases = re.findall(r'"([^"]+)"', mc.group(1)) if mc else []
    out = ["(* GENERATED by props/C06/prop.py from doc/query_syntax.md (field table + EBNF summary) - do not edit *)",
           "From Coq Require Import List NArith.", "Import ListNotations.", "",
           "Definition doc_fields : list (list N * list (list N)) := ["]
    out.append(";\n".join("  (%s, [%s]) (* %s %s *)" % (cb(f), "; ".join(cb(a) for a in al), f, " ".join(al)) for f, al in sorted(rows)))
    out.append("].")
    for name, vals in (("doc_types", types), ("doc_booleans", bools), ("doc_cases", cases)):
        out.append("Definition %s : list (list N) := [%s]. (* %s *)" % (name, "; ".join(cb(v) for v in vals), " ".join(vals)))
    vf.write_if_changed(os.path.join(vf.COQ, "Generated", "DocSyntax.v"), "\n".join(out) + "\n")
    return None


def run(ctx):
    import importlib.util
    spec = importlib.util.spec_from_file_location("c07prop", os.path.join(vf.ROOT, "props", "C07", "prop.py"))
    c07 = importlib.util.module_from_spec(spec)
    spec.loader.exec_module(c07)
    broken, failures = [], []
    err = c07.gen_tables(ctx)
    if err:
        broken.append(err)
    err = gen_doc_table(ctx)
    if err:
        broken.append(err)
    proofs = vf.coq_props(ctx, "C06")
    aok, aout = vf.audit()
    if not aok:
        proofs["ok"] = False
        proofs["discharged"] = 0
        broken.append("audit: " + aout[-800:])
    if ctx.tier == "thorough" and proofs["ok"]:
        cok, cout = vf.coqchk("C06")
        proofs["coqchk"] = cout[-1500:]
        if not cok:
            proofs["ok"] = False
            broken.append("coqchk rejects Props/C06.vo: " + cout[-800:])
    if not proofs["ok"]:
        broken.append("proof obligations of Props/C06.v do not check: %s" % (proofs.get("broken_files") or proofs.get("nonstd_axioms") or proofs["log"][-1200:]))
    h = vf.go_harness(ctx, "index", "TestVerifC06$", ["index/zz_verif_c06_test.go"], ctx.n(1000, 8000),
                      timeout=600 if ctx.tier == "quick" else 3000)
    if h["rc"] != 0:
        broken.append("harness TestVerifC06 failed (rc=%d): %s" % (h["rc"], h["log"][-1500:]))
    cases = [r for r in h["records"] if r.get("kind") == "case"]
    for r in h["records"]:
        if r.get("kind") == "oracle_fail":
            failures.append(dict(key=r.get("key", "?"), what=r.get("what", ""), replay=r.get("replay")))
    # report the smallest failing query first
    failures.sort(key=lambda f: len(str((f.get("replay") or {}).get("query", ""))) if isinstance(f.get("replay"), dict) else 0)
    ev = dict(ok=True, bad=[], evaluated=0, log="")
    if cases:
        ev = c07.par_eval(ctx, "C06", IMPORTS, "c06case", "c06_mismatches", [c["coq"] for c in cases], shard=150)
        if not ev["ok"]:
            broken.append("model evaluation failed: " + ev["log"][-1500:])
        for i in ev["bad"][:20]:
            broken.append("correspondence c06_mismatches: printer / model parser / documented meaning disagree with the implementation on %s" % vf.json.dumps(cases[i].get("sample"), default=str)[:800])
    elif h["rc"] == 0:
        broken.append("harness produced no cases")
    cov = dict(
        evaluations=len(cases),
        distinct_nontrivial=vf.distinct_nontrivial(cases),
        rule=RULE,
        samples=[c.get("sample") for c in cases[:3]],
        traces_validated_against_impl=ev["evaluated"],
        correspondence_mismatches=len(ev["bad"]),
        oracle_failures=len(failures),
        input_distribution=vf.histogram(cases, "class"),
        trusted_base=TRUSTED,
    )
    if proofs.get("coqchk"):
        cov["coqchk"] = proofs["coqchk"]
    return vf.finish(ctx, "proof", proofs, cov, failures=failures, broken=broken,
                     assumptions=["well-formedness of the abstract query (see Props/C06.v: wf) - values are valid regexps, plain values contain no blanks/quotes/parentheses, at most one case:/type: per group"])
