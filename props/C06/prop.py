"""C06 - query strings mean what doc/query_syntax.md says.

 proofs: Props/C06.v over Model/QueryDoc.v (documented grammar dexpr, printer render, meaning den) and Model/Parser.v
 tie:    harness in package index generates abstract queries of the documented grammar, prints them, records Parse's tree;
         the runner checks  render dq = printed string,  model parse = Parse,  Simplify (den dq) = Parse
 oracle: reference evaluation (Go regexp on a two-repository corpus) of the abstract query vs Parse+Search on in-memory shards
"""
import os, sys
import vf
sys.path.insert(0, os.path.join(vf.ROOT, "props", "C07"))

IMPORTS = ["From ZV Require Import Lib.Base Model.Query Model.Parser Model.QueryDoc Model.QueryDocRun."]
RULE = ("random abstract queries of the documented EBNF: 1-3 or-ed conjunctions of 1-3 expressions, nesting depth <= 3, negation, all fields and "
        "aliases, quoted/escaped and plain values (regexps and literals, upper/lower case), <= 1 case: and <= 1 type: directive per group at a "
        "random position; printed with a blank after '('; distinct by printed string; non-trivial = >= 2 expressions. 3 of 4 cases are also "
        "reference-evaluated on a corpus of 2 repositories / 7 documents (no sym:, no type:filename there).")
TRUSTED = [
    "Model/QueryDoc.v is a hand-written reading of doc/query_syntax.md (the document is prose + EBNF; its Coq form is trusted to say the same)",
    "hand-written parser model (tied by C07's and this correspondence); Model/Query.v Simplify (C05)",
    "external engines (regexp/syntax, grafana regexp, language table) are Section variables / fed from the implementation",
    "Go reference evaluator in harness/overlay/index/zz_verif_c06_test.go (Go's regexp on raw corpus text) and the in-memory shard search it is compared with",
]


def run(ctx):
    import importlib.util
    spec = importlib.util.spec_from_file_location("c07prop", os.path.join(vf.ROOT, "props", "C07", "prop.py"))
    c07 = importlib.util.module_from_spec(spec)
    spec.loader.exec_module(c07)
    broken, failures = [], []
    err = c07.gen_tables(ctx)
    if err:
        broken.append(err)
    proofs = vf.coq_props(ctx, "C06")
    aok, aout = vf.audit()
    if not aok:
        proofs["ok"] = False
        proofs["discharged"] = 0
        broken.append("audit: " + aout[-800:])
    if ctx.tier == "thorough" and proofs["ok"]:
        cok, cout = vf.coqchk("C06")
        proofs["coqchk"] = cout[-1500:]
        if not cok:
            proofs["ok"] = False
            broken.append("coqchk rejects Props/C06.vo: " + cout[-800:])
    if not proofs["ok"]:
        broken.append("proof obligations of Props/C06.v do not check: %s" % (proofs.get("broken_files") or proofs.get("nonstd_axioms") or proofs["log"][-1200:]))
    h = vf.go_harness(ctx, "index", "TestVerifC06$", ["index/zz_verif_c06_test.go"], ctx.n(1000, 8000),
                      timeout=600 if ctx.tier == "quick" else 3000)
    if h["rc"] != 0:
        broken.append("harness TestVerifC06 failed (rc=%d): %s" % (h["rc"], h["log"][-1500:]))
    cases = [r for r in h["records"] if r.get("kind") == "case"]
    for r in h["records"]:
        if r.get("kind") == "oracle_fail":
            failures.append(dict(key=r.get("key", "?"), what=r.get("what", ""), replay=r.get("replay")))
    ev = dict(ok=True, bad=[], evaluated=0, log="")
    if cases:
        ev = c07.par_eval(ctx, "C06", IMPORTS, "c06case", "c06_mismatches", [c["coq"] for c in cases], shard=150)
        if not ev["ok"]:
            broken.append("model evaluation failed: " + ev["log"][-1500:])
        for i in ev["bad"][:20]:
            broken.append("correspondence c06_mismatches: printer / model parser / documented meaning disagree with the implementation on %s" % vf.json.dumps(cases[i].get("sample"), default=str)[:800])
    elif h["rc"] == 0:
        broken.append("harness produced no cases")
    cov = dict(
        evaluations=len(cases),
        distinct_nontrivial=vf.distinct_nontrivial(cases),
        rule=RULE,
        samples=[c.get("sample") for c in cases[:3]],
        traces_validated_against_impl=ev["evaluated"],
        correspondence_mismatches=len(ev["bad"]),
        oracle_failures=len(failures),
        input_distribution=vf.histogram(cases, "class"),
        trusted_base=TRUSTED,
    )
    if proofs.get("coqchk"):
        cov["coqchk"] = proofs["coqchk"]
    return vf.finish(ctx, "proof", proofs, cov, failures=failures, broken=broken,
                     assumptions=["well-formedness of the abstract query (see Props/C06.v: wf) - values are valid regexps, plain values contain no blanks/quotes/parentheses, at most one case:/type: per group"])
