import vf

SPEC = dict(
    level="proof",
    harness=dict(pkg_dir="search", run="TestVerifC18$", files=["search/zz_verif_c18_test.go", "search/zz_verif_shardgen_test.go"],
                 n_quick=240, n_thorough=4000),
    runner=dict(imports=["From ZV Require Import Lib.Base Model.Shards."], case_type="c18case",
                mismatch_fn="c18_mismatches"),
    rule=("worlds of 2-6 repositories (branch lists over {main, dev, HEAD, main-old} in varying order incl. names containing one another, metadata k, 1-4 documents on branch subsets) "
         "laid out over simple shards (half of the multi-document repositories split over two shards) and compound shards of 2-3 "
         "repositories built by index.Merge, loaded into the real shardedSearcher wrapped by typeRepoSearcher (every third world: written as shard files and loaded by search.NewDirectorySearcher); 12 queries per world: "
         "shuffled top-level conjunction of 0-2 set filters {RepoSet, RepoIDs, Repo, Meta, BranchesRepos with 1-2 entries over branches "
         "{HEAD, main, dev, main-old, ma, \"\"} and 30/60/100 % of the repositories}, optional type:repo(child), 0-2 content atoms possibly under "
         "not/or (or with a set filter); single child queries mostly not wrapped in And; observed per case: file set, List rows, FileMatch.Branches per file (all three compared with the model). non-trivial = a set filter or type:repo is "
         "present and there are >= 2 shards."),
    trusted_base=["correspondence harness harness/overlay/search/zz_verif_c18_test.go + zz_verif_shardgen_test.go (generator, brute-force reference evaluator, canonicalisation, oracles)",
                  "per-shard search = reference meaning of the query (C01); query.Simplify not modelled (C05); both exercised by the correspondence",
                  "2/3 of the worlds: in-memory shardedSearcher (newShardedSearcher + replace) wrapped by typeRepoSearcher; 1/3: shard files loaded by the real search.NewDirectorySearcher"],
    assumptions=["every repository has at least one document (property quantifier)", "no tombstones (C17)"],
)

def _apply_replay(ctx):
    """--replay <file>: re-run the check with the seed recorded in the replay (the failing case index and
    inputs are in the file; the harness is deterministic in the seed)."""
    if ctx.replay:
        try:
            import json as _json
            d = _json.load(open(ctx.replay))
            seed = (d.get("replay") or {}).get("seed")
            if seed is not None:
                ctx.seed = int(seed)
        except Exception:
            pass


def run(ctx):
    _apply_replay(ctx)
    return vf.standard_check(ctx, SPEC)
