import os
import vf

SPEC = dict(
    level="proof",
    harness=dict(pkg_dir="index", run="TestVerifC38$", files=["index/zz_verif_c38_test.go"],
                 n_quick=300, n_thorough=1000),
    runner=dict(imports=["From ZV Require Import Lib.Base Model.Incremental.", "Require Import Coq.Strings.String."],
                case_type="c38case", mismatch_fn="c38_mismatches", shard=300),
    extra_targets=("Generated/HashFields.vo",),
    rule="four case kinds: HashCase = pairs of option sets (fields enumerated by reflection over index.Options; 0-2 fields flipped, "
         "sometimes reverted) with Go's verdict GetHash(o1)==GetHash(o2); MergeCase = Repository.MergeMutable on generated records "
         "(nil/empty/non-empty branches and RawConfig, name/id keys, 0-2 mutations); BuildCase = a real Builder run, the record read "
         "back from shard 0; StateCase = real Options.IndexState against real index directories (simple, compound, compound with "
         "tombstone, truncated shard, feature-version patched) with 0-2 options and 0-2 description fields changed, the metadata "
         "IndexState reads recorded as the model's disk. non-trivial = something was changed between the two sides. "
         "Oracle: every option of the specification list must change GetHash; end to end, for EVERY value field of Options: build, "
         "flip the field, IndexState==equal must imply a rebuild has identical canonical contents (fake ctags binaries make the "
         "ctags options observable).",
    trusted_base=["correspondence harness harness/overlay/index/zz_verif_c38_test.go (generator, canonical index dump, Go oracle, fake ctags)",
                  "translator/hashfields (go/ast reader of HashOptions()/GetHash()/readVersions/SetDefaults; its output is cross-checked "
                  "by the HashCase correspondence: equal model hash inputs <-> equal real hashes)",
                  "GetHash = H(hashed field values) with H injective: SHA-1 collision-freeness and unambiguity of the concatenated "
                  "%s%t%d%q%t encoding are ASSUMED (Section hypothesis H_inj), sampled by the HashCase correspondence",
                  "findShard / ReadMetadataPathAlive / JSON metadata round trip are outside the model: IndexState is modelled from the "
                  "metadata it reads; build_record (what a build stores) is tied by BuildCase",
                  "classification of Options fields into content-affecting / not (coq/Props/C38.v, justified field by field); "
                  "gitindex-level options (Submodules, BranchPrefix...) are not modelled"],
    assumptions=["H_inj: the options hash is injective on tuples of hashed field values (SHA-1 collision-freeness)",
                 "RawConfig[\"repoid\"], when present, is the decimal repository ID (as gitindex/indexserver set it)"],
)


def generate(ctx):
    rc, out = vf.sh(["go", "run", os.path.join(vf.ROOT, "translator", "hashfields", "main.go"), vf.REPO],
                    cwd=vf.REPO, env=vf.go_env(), timeout=300)
    if rc != 0 or "Definition hashed_fields" not in out:
        return "translator/hashfields failed: " + out[-1200:]
    with vf._Lock("coq"):
        vf.write_if_changed(os.path.join(vf.COQ, "Generated", "HashFields.v"), out)
    return None


def run(ctx):
    err = generate(ctx)
    if err:
        return vf.finish(ctx, "proof", dict(obligations=0, discharged=0), dict(evaluations=0, distinct_nontrivial=0,
                         trusted_base=SPEC["trusted_base"], rule=SPEC["rule"]), broken=[err], assumptions=SPEC["assumptions"])
    return vf.standard_check(ctx, SPEC)
