import os
import vf

SPEC = dict(
    level="proof",
    harness=dict(pkg_dir="index", run="TestVerifC38$", files=["index/zz_verif_c38_test.go"],
                 n_quick=300, n_thorough=1000),
    runner=dict(imports=["From ZV Require Import Lib.Base Model.Incremental Model.HashBytes.", "Require Import Coq.Strings.String."],
                case_type="c38case", mismatch_fn="c38_mismatches_all", shard=300),
    extra_targets=("Generated/HashFields.vo", "Model/HashProg.vo", "Model/HashBytes.vo"),
    rule="five case kinds: ByteCase = the BYTES GetHash hashes: a strconv-only reference encoder on the Go side whose SHA-1 the harness "
         "compares with the real GetHash(), and whose bytes the Coq byte model (Model/HashBytes.v, strconv.Quote replaced by the observed "
         "quotations, their assumed shape checked) must reproduce exactly; HashCase = pairs of option sets (fields enumerated by reflection over index.Options; 0-2 fields flipped, "
         "sometimes reverted; every third pair differs by a REARRANGEMENT of the LargeFiles list — reversed, rotated, swapped, sorted, "
         "de-duplicated, an element repeated — drawn from a pool of overlapping positive and negated patterns, and has its LanguageMap "
         "re-inserted in another order) with Go's verdict GetHash(o1)==GetHash(o2), compared with equality of the model's ordered write-token "
         "lists (every seventh pair is a splice: bytes of the concatenated encoding moved across value boundaries, near misses of "
         "paths and patterns); MergeCase = Repository.MergeMutable on generated records "
         "(nil/empty/non-empty branches and RawConfig, name/id keys, 0-2 mutations); BuildCase = a real Builder run, the record read "
         "back from shard 0; StateCase = real Options.IndexState against real index directories (simple, compound, compound with "
         "tombstone, truncated shard, feature-version patched) with 0-2 options and 0-2 description fields changed, the metadata "
         "IndexState reads recorded as the model's disk. non-trivial = something was changed between the two sides. "
         "Oracle: every option of the specification list must change GetHash; option sets with equal hashes must take the same "
         "IgnoreSizeMax decision on every probe path and have equal LanguageMaps; equal options hash the same on every call; end to end, "
         "for EVERY value field of Options and every rearrangement of a list-valued one (base LargeFiles: a file over SizeMax matched by a "
         "positive and a later negated pattern): build, change the field, IndexState==equal must imply a rebuild has identical canonical "
         "contents (fake ctags binaries make the ctags options observable).",
    trusted_base=["correspondence harness harness/overlay/index/zz_verif_c38_test.go (generator, canonical index dump, Go oracle, fake ctags)",
                  "translator/hashfields (go/ast reader of HashOptions()/GetHash()/readVersions/SetDefaults: GetHash is read statement by "
                  "statement into a hash program — field, format, if-guard, form of every write; any statement or value flow it does not "
                  "recognise is emitted as FUnknown/GUnknown/unrecognised and fails the obligation hash_prog_ok; its output is cross-checked "
                  "by the HashCase correspondence: equal model token lists <-> equal real hashes)",
                  "GetHash = H(ordered list of write tokens (format, values)) with H injective: SHA-1 collision-freeness and unambiguity of "
                  "the concatenation of the formatted writes are ASSUMED in theorems (1)-(7) (hypothesis H_inj), sampled by the HashCase "
                  "correspondence; that equal token lists imply equal effective field values (lists in order) is proved, not assumed. "
                  "C38_skip_sound_bytes_partial proves the unambiguity of the byte encoding too and assumes instead: SHA-1 collision-free, "
                  "strconv.Quote injective, a double quote inside a quoted body is preceded by a backslash (shape sampled by ByteCase)",
                  "findShard / ReadMetadataPathAlive / JSON metadata round trip are outside the model: IndexState is modelled from the "
                  "metadata it reads; build_record (what a build stores) is tied by BuildCase",
                  "classification of Options fields into content-affecting / not (coq/Props/C38.v, justified field by field); "
                  "gitindex-level options (Submodules, BranchPrefix...) are not modelled"],
    assumptions=["H_inj: the options hash is injective on the ordered list of formatted writes GetHash feeds into SHA-1 "
                 "(SHA-1 collision-freeness + unambiguous concatenation of the %s %t %d %q writes); in C38_skip_sound_bytes_partial: "
                 "SHA-1 collision-free on the rendered bytes, strconv.Quote injective and escaping every inner double quote with a backslash",
                 "RawConfig[\"repoid\"], when present, is the decimal repository ID (as gitindex/indexserver set it)"],
)


def generate(ctx):
    rc, out = vf.sh(["go", "run", os.path.join(vf.ROOT, "translator", "hashfields", "main.go"), vf.REPO],
                    cwd=vf.REPO, env=vf.go_env(), timeout=300)
    if rc != 0 or "Definition hashed_fields" not in out:
        return "translator/hashfields failed: " + out[-1200:]
    with vf._Lock("coq"):
        vf.write_if_changed(os.path.join(vf.COQ, "Generated", "HashFields.v"), out)
    return None


def run(ctx):
    err = generate(ctx)
    if err:
        return vf.finish(ctx, "proof", dict(obligations=0, discharged=0), dict(evaluations=0, distinct_nontrivial=0,
                         trusted_base=SPEC["trusted_base"], rule=SPEC["rule"]), broken=[err], assumptions=SPEC["assumptions"])
    return vf.standard_check(ctx, SPEC)
