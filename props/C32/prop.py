import vf

SPEC = dict(
    level="proof",
    harness=dict(pkg_dir="cmd/zoekt-sourcegraph-indexserver", run="TestVerifC32$",
                 files=["cmd/zoekt-sourcegraph-indexserver/zz_verif_c32_test.go"],
                 n_quick=70, n_thorough=1500),
    runner=dict(imports=["From ZV Require Import Lib.Base Model.Cleanup."], case_type="c32case",
                mismatch_fn="c32_mismatches", shard=200),
    rule="generated index directories of real shards over 2-6 repository ids: simple shards (1-2 per repository, 15% a second "
         "shard under another name = renamed repository), 0-2 compound shards (index.Merge, 1-3 repositories, 35% tombstoned via "
         "index.SetTombstone, overlapping with simple shards, occasionally renamed), trash with 1-2 shards per repository, mtimes "
         "from {now-100000, now-86401, now-86400, now-86399, now-3600, now-60, now, now+3600}, 0-2 *.tmp files, an unrelated "
         "file; random assigned subset in random order (6% of the cases with one id twice); shardMerging 65%; the real cleanup() is run twice and the directory "
         "(files, mtimes, per-shard repository metadata incl. tombstones) observed before / after / after the second run. "
         "non-trivial = >= 2 index shards, trash or compound shards present, and the first cleanup changed something.",
    trusted_base=["correspondence harness harness/overlay/cmd/zoekt-sourcegraph-indexserver/zz_verif_c32_test.go (generator, canonicalisation, Go oracle)",
                  "abstraction: shard + .meta sidecar as one unit carrying (id, name, tombstone, latest commit date) per repository; base names ordered like file names",
                  "Go map iteration order modelled as first-appearance order (result observed to be order-independent on all generated inputs)",
                  "file-system failures (rename/remove/chtimes errors, unreadable shards) are not modelled: moveAll's failure fallback is outside the theorems"],
    assumptions=["no file-system errors during cleanup", "the assigned list has no duplicates (restore theorem only; the model and the correspondence cover duplicates)",
                 "well-formed directory (unique base names per directory, trashed shards hold one repository)"],
)

def run(ctx):
    return vf.standard_check(ctx, SPEC)
