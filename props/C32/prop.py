import json
import os

import vf

SPEC = dict(
    level="proof",
    harness=dict(pkg_dir="cmd/zoekt-sourcegraph-indexserver", run="TestVerifC32$",
                 files=["cmd/zoekt-sourcegraph-indexserver/zz_verif_c32_test.go"],
                 n_quick=120, n_thorough=1200),
    runner=dict(imports=["From ZV Require Import Lib.Base Model.Cleanup."], case_type="c32case",
                mismatch_fn="c32_mismatches", shard=200),
    rule="generated index directories of real shards over 2-6 repository ids: simple shards (1-4 per repository, 60% multi-shard; 15% a second "
         "shard under another name = renamed repository), 0-2 compound shards (index.Merge, 1-3 repositories, 35% tombstoned via "
         "index.SetTombstone, overlapping with simple shards, occasionally renamed), trash with 1-4 shards per repository (65% trashed together = one mtime), mtimes "
         "from {now-100000, now-86401, now-86400, now-86399, now-3600, now-60, now, now+3600}, 0-2 *.tmp files, an unrelated "
         "file; random assigned subset in random order (6% of the cases with one id twice); shardMerging 65%; the real cleanup() is run twice and the directory "
         "(files, mtimes, per-shard repository metadata incl. tombstones) observed before / after / after the second run; in 40% of "
         "the cases the os.Rename of one or two shard files inside moveAll is made to fail during the first run (cleanup.go mapped "
         "through translator/fsinstrument + zzfs shim; 65% of the failures target the 2nd or a later shard of a multi-shard "
         "repository that cleanup is about to restore or trash, i.e. after earlier shards were moved), the observed failed renames "
         "are part of the case; the Go oracle includes the all-or-nothing clause (per repository the shards in the index / in the "
         "trash afterwards are none or one complete prior shard set). "
         "non-trivial = >= 2 index shards, trash or compound shards present, and the first cleanup changed something.",
    trusted_base=["correspondence harness harness/overlay/cmd/zoekt-sourcegraph-indexserver/zz_verif_c32_test.go (generator, canonicalisation, Go oracle)",
                  "abstraction: shard + .meta sidecar as one unit carrying (id, name, tombstone, latest commit date) per repository; base names ordered like file names",
                  "Go map iteration order modelled as first-appearance order (result observed to be order-independent on all generated inputs)",
                  "rename failures inside moveAll are modelled (cleanup_f) and injected by the harness through the zzfs shim (cleanup.go is mapped "
                  "as a copy in which ONLY moveAll's os.Rename call is rewritten to zzfs.Rename by translator/fsinstrument); failures of "
                  "os.Remove / Chtimes / SetTombstone and unreadable shards are not modelled"],
    assumptions=["no file-system errors during cleanup other than failing renames (the restore / trash-rule / revival theorems assume none at all)", "the assigned list has no duplicates (restore theorem only; the model and the correspondence cover duplicates)",
                 "well-formed directory (unique base names per directory, trashed shards hold one repository)"],
)

def run(ctx):
    # cleanup.go with moveAll's os.Rename routed through the fault-injection shim (regenerated from the tree under test each run)
    out = os.path.join(ctx.tmp, "fsi")
    os.makedirs(out, exist_ok=True)
    rc, txt = vf.sh(["go", "run", os.path.join(vf.ROOT, "translator", "fsinstrument", "main.go"), "-repo", vf.REPO, "-out", out,
                     "-fns", "Rename", "cmd/zoekt-sourcegraph-indexserver/cleanup.go"], cwd=vf.REPO, env=vf.go_env(), timeout=600)
    if rc != 0 or "{" not in txt:
        raise RuntimeError("fsinstrument failed: " + txt[-2000:])
    data = json.loads(txt[txt.index("{"):])
    sites = [s for s in data["sites"] if s.get("func") == "moveAll" and s.get("call") == "os.Rename"]
    if len(sites) != 1 or len(data["sites"]) != 1:
        raise RuntimeError("expected exactly one os.Rename call site, in moveAll; found: %r" % (data["sites"],))
    spec = dict(SPEC)
    spec["harness"] = dict(SPEC["harness"], extra_replace=data["Replace"])
    return vf.standard_check(ctx, spec)
