import json

import vf

# Two harness runs feed one correspondence: package index (exported rewrites + indexData.simplify +
# reference-evaluator oracle and its tie to the model's eval; TestVerifC05E2E additionally compares the
# real indexData.Search on a built compound shard with the reference evaluator) and package query (unexported
# evalConstants / flatten / stripCaseScopes with the parse-time node kinds + valuation oracle).
HARNESSES = [
    dict(pkg_dir="index", run="TestVerifC05(E2E)?$", files=["index/zz_verif_c05_test.go", "index/zz_verif_c05e2e_test.go"], n_quick=150, n_thorough=4000, out="out-index.jsonl"),
    dict(pkg_dir="query", run="TestVerifC05Q$", files=["query/zz_verif_c05q_test.go"], n_quick=60, n_thorough=2000, out="out-query.jsonl"),
]
RUNNER = dict(imports=["From ZV Require Import Lib.Base Model.Query Model.QueryStd."], case_type="c05case",
              mismatch_fn="c05_mismatches", shard=800)

SPEC = dict(
    level="proof",
    rule="random query trees (depth 1-4 plus same-kind nesting towers; every node kind of package query incl. caseQ/caseScopeQ; "
         "empty/nil/single-child And/Or, Const under Not/Type/Boost, empty patterns/sets/bitmaps, OpEmptyMatch regexps, RawConfig > 8 bit, "
         "false-valued RepoSet entries, exact/non-exact empty Branch) x random shard metadata (0-4 repos, tombstones, rawconfig, metadata, "
         "LanguageMap) and a 4-6 document corpus; each tree goes through query.Simplify, query.Map(ExpandFileContent), indexData.simplify "
         "(package index) and evalConstants, one flatten round, stripCaseScopes (package query); the output trees are compared with the "
         "model's; every 4th tree also compares the Go reference evaluator with the model's eval document by document. "
         "non-trivial = the rewrite changed the tree and the tree has >= 3 nodes. End-to-end oracle: the same number of trees through the real "
         "indexData.Search on a compound shard built from the world (tombstones applied) vs the reference evaluator on the original tree.",
    trusted_base=["correspondence harnesses harness/overlay/index/zz_verif_c05_test.go and harness/overlay/query/zz_verif_c05q_test.go "
                  "(generators, canonical rendering of query.Q as a Coq term, Go reference evaluator / valuation oracle)",
                  "the reference evaluator Model/Query.v:eval as the definition of the meaning of a query (atoms abstract: substring/regexp/"
                  "symbol/language matching are parameters; its concrete instance Model/QueryStd.v is compared with the Go oracle's evaluator)",
                  "regexp verdicts on repository names / metadata values are fed to the model as a table computed by the real engine",
                  "IndexFeatureVersion >= 12 (the < 12 language fallback of indexData.simplify is not modelled)"],
    assumptions=["atoms_ok: empty substring pattern / OpEmptyMatch regexp / empty non-exact branch pattern match every document",
                 "(the last law needs every document to be on >= 1 branch: guaranteed by the indexer commands, not enforced by ShardBuilder.Add)",
                 "per-shard theorem: the document belongs to a non-tombstoned repository of the shard (Search skips the others) and "
                 "LanguageMap has a key for the document's language"],
)


def run(ctx):
    pid = ctx.pid
    proofs = vf.coq_props(ctx, pid)
    broken, failures = [], []
    aok, aout = vf.audit()
    if not aok:
        proofs["ok"] = False
        proofs["discharged"] = 0
        broken.append("audit: the development contains Admitted/Axiom/Parameter or disables a kernel check: " + aout[-800:])
    if ctx.tier == "thorough" and proofs["ok"]:
        cok, cout = vf.coqchk(pid)
        proofs["coqchk"] = cout[-1500:]
        if not cok:
            proofs["ok"] = False
            broken.append("coqchk rejects Props/%s.vo: %s" % (pid, cout[-800:]))
    if not proofs["ok"]:
        broken.append("proof obligations of Props/%s.v do not check: %s" % (
            pid, (proofs.get("broken_files") or proofs.get("nonstd_axioms") or proofs["log"][-800:])))
    cases, infos = [], []
    for h in HARNESSES:
        n = ctx.n(h["n_quick"], h["n_thorough"])
        hr = vf.go_harness(ctx, h["pkg_dir"], h["run"], h["files"], n, out_name=h["out"],
                           timeout=900 if ctx.tier == "quick" else 3600)
        got = [r for r in hr["records"] if r.get("kind") == "case"]
        cases += got
        for r in hr["records"]:
            if r.get("kind") == "oracle_fail":
                failures.append(dict(key=r.get("key", "?"), what=r.get("what", ""), replay=r.get("replay")))
            elif r.get("kind") == "info":
                infos.append({k: v for k, v in r.items() if k != "kind"})
        if hr["rc"] != 0:
            broken.append("harness %s failed (rc=%d): %s" % (h["run"], hr["rc"], hr["log"][-1500:]))
        elif not got:
            broken.append("harness %s produced no cases" % h["run"])
    ev = dict(ok=True, bad=[], evaluated=0, log="")
    if cases:
        ev = vf.coq_eval_cases(ctx, pid, RUNNER["imports"], RUNNER["case_type"], RUNNER["mismatch_fn"],
                               [c["coq"] for c in cases], shard=RUNNER["shard"])
        if not ev["ok"]:
            broken.append("model evaluation failed: " + ev["log"][-1500:])
        for i in ev["bad"][:20]:
            broken.append("correspondence %s: model and implementation disagree on case %s" % (
                RUNNER["mismatch_fn"], json.dumps(cases[i].get("sample"), default=str)[:1500]))
    cov = dict(
        evaluations=len(cases),
        distinct_nontrivial=vf.distinct_nontrivial(cases),
        rule=SPEC["rule"],
        samples=[c.get("sample") for c in cases[:3]] or [],
        traces_validated_against_impl=ev["evaluated"],
        correspondence_mismatches=len(ev["bad"]),
        oracle_failures=len(failures),
        input_distribution=vf.histogram(cases, "class"),
        trusted_base=SPEC["trusted_base"],
    )
    if proofs.get("coqchk"):
        cov["coqchk"] = proofs["coqchk"]
    if infos:
        cov["info"] = infos
    return vf.finish(ctx, SPEC["level"], proofs, cov, failures=failures, broken=broken, assumptions=SPEC["assumptions"])
