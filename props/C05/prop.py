import vf

SPEC = dict(
    level="proof",
    harness=dict(pkg_dir="index", run="TestVerifC05$", files=["index/zz_verif_c05_test.go"],
                 n_quick=250, n_thorough=4000),
    runner=dict(imports=["From ZV Require Import Lib.Base Model.Query Model.QueryStd."], case_type="c05case",
                mismatch_fn="c05_mismatches", shard=300),
    rule="random query trees (depth 1-4 plus same-kind nesting towers; all node kinds reachable from package index; empty/nil/"
         "single-child And/Or, Const under Not/Type/Boost, empty patterns/sets/bitmaps, OpEmptyMatch regexps, RawConfig > 8 bit, "
         "false-valued RepoSet entries) x random shard metadata (0-4 repos, tombstones, rawconfig, metadata, LanguageMap) and a "
         "4-6 document corpus; each tree goes through query.Simplify, query.Map(ExpandFileContent) and indexData.simplify; "
         "non-trivial = the rewrite changed the tree and the tree has >= 3 nodes.",
    trusted_base=["correspondence harness harness/overlay/index/zz_verif_c05_test.go (generator, canonical rendering of query.Q as a Coq term, Go reference evaluator)",
                  "regexp engines, substring/symbol/language matching are abstract atom predicates (theorems quantify over them); "
                  "the shard's regexp verdicts are fed to the model as a table computed by the real engine",
                  "IndexFeatureVersion >= 12 (the < 12 language fallback of indexData.simplify is not modelled)"],
    assumptions=["atoms_ok: empty substring pattern / OpEmptyMatch regexp / empty non-exact branch pattern match every document",
                 "per-shard theorem: document belongs to a non-tombstoned repository of the shard (Search skips the others); "
                 "LanguageMap has a key for every document's language"],
)

def run(ctx):
    return vf.standard_check(ctx, SPEC)
