import json
import vf

IMPORTS = ["From ZV Require Import Lib.Base Model.IgnoreFile Model.DirWalk."]

HARNESSES = [
    dict(name="archive", pkg_dir="internal/archive", run="TestVerifC15$", files=["internal/archive/zz_verif_c15_test.go"],
         n_quick=160, n_thorough=1200, case_type="c15acase", mismatch_fn="c15a_mismatches", tag="a"),
    dict(name="dir", pkg_dir="cmd/zoekt-index", run="TestVerifC15$", files=["cmd/zoekt-index/zz_verif_c15_test.go"],
         n_quick=90, n_thorough=800, case_type="c15dcase", mismatch_fn="c15d_mismatches", tag="d"),
]

RULE = ("archive: 0-7 members (regular / directory / symlink / hard link, fifo, device; names of 1-4 components, leading '/', './', '//', "
        "long names forcing PAX records, duplicate names; data empty / 1-2 bytes / with NUL / around SizeMax / invalid UTF-8 / text) x "
        "tar|tgz|zip x strip 0-3 or 6 x SizeMax 24-63; 8% empty archives, 10% without a regular member. "
        "directory: generated trees of depth <= 4 on a scratch directory (regular files, empty files, fifos, symlinks to files / "
        "directories / outside the root / dangling / absolute, ignored directory names at every depth, .sourcegraph/ignore as a real "
        "file, as a symlink, inside a symlinked .sourcegraph, a directory, absent; patterns derived from the tree's own paths with globs, comments, "
        "blank lines, leading '/', padding, CRLF; unclean link targets) "
        "through the real indexArg. non-trivial = >= 2 members with a regular one / >= 3 nodes with a link or an ignore rule in effect.")

TRUSTED = [
    "correspondence harnesses harness/overlay/internal/archive/zz_verif_c15_test.go and harness/overlay/cmd/zoekt-index/zz_verif_c15_test.go (generators, canonicalisation, Go oracles)",
    "archive/tar, archive/zip, compress/gzip decoding and http.DetectContentType (the model starts from the member list)",
    "the glob engine github.com/gobwas/glob: a verdict function glob(pattern, path) in the model, instantiated in the correspondence with the real engine's verdicts for every (pattern, path) of the case; ParseIgnoreFile's line syntax IS modelled (Model/IgnoreFile.v: ASCII white space only, no 64 KiB line limit)",
    "index.Builder / shard writer / searcher: a document handed to Builder.Add is the document read back (C09/C10's subject); Builder.Add's skip rewriting (too large, too small, binary) is modelled, the too-many-trigrams rule is not (inputs stay below TrigramMax)",
    "the operating system: lstat/readdir/readlink/readfile succeed and return the tree's data (I/O errors and log.Fatal exits on them are not modelled)",
]


def _replay_seed(ctx):
    """--replay <file>: the generators are deterministic in (seed, tier, n); re-run with the seed and tier recorded in the
    replay file's name so that the failing input is derived again (the file itself holds the input in readable form)."""
    import re
    if ctx.replay:
        m = re.search(r"-(quick|thorough)-(\d+)\.json$", ctx.replay)
        if m:
            ctx.tier, ctx.seed = m.group(1), int(m.group(2))


def run(ctx):
    _replay_seed(ctx)
    proofs = vf.coq_props(ctx, "C15")
    broken, failures = [], []
    aok, aout = vf.audit()
    if not aok:
        proofs["ok"] = False
        proofs["discharged"] = 0
        broken.append("audit: " + aout[-800:])
    if ctx.tier == "thorough" and proofs["ok"]:
        cok, cout = vf.coqchk("C15")
        proofs["coqchk"] = cout[-1500:]
        if not cok:
            proofs["ok"] = False
            broken.append("coqchk rejects Props/C15.vo: " + cout[-800:])
    if not proofs["ok"]:
        broken.append("proof obligations of Props/C15.v do not check: %s" % (proofs.get("broken_files") or proofs.get("nonstd_axioms") or proofs["log"][-800:]))
    all_cases, evaluated, mism, infos = [], 0, 0, []
    # both harnesses build and run concurrently (separate packages, separate output files)
    from concurrent.futures import ThreadPoolExecutor

    import os
    import threading
    lock, orig_overlay = threading.Lock(), vf.make_overlay

    def locked_overlay(c, pkg_dir, files, **kw):
        # vf.make_overlay numbers its file by the size of ctx.tmp: serialise and give each package its own name
        with lock:
            op = orig_overlay(c, pkg_dir, files, **kw)
            new = op[:-5] + "-" + pkg_dir.replace("/", "_") + ".json"
            os.rename(op, new)
            return new

    def one(h):
        n = ctx.n(h["n_quick"], h["n_thorough"])
        return vf.go_harness(ctx, h["pkg_dir"], h["run"], h["files"], n, timeout=900 if ctx.tier == "quick" else 3600,
                             out_name="out-%s.jsonl" % h["name"])
    vf.make_overlay = locked_overlay
    try:
        with ThreadPoolExecutor(max_workers=2) as ex:
            results = list(ex.map(one, HARNESSES))
    finally:
        vf.make_overlay = orig_overlay
    for h, hr in zip(HARNESSES, results):
        recs = hr["records"]
        cases = [r for r in recs if r.get("kind") == "case"]
        for r in recs:
            if r.get("kind") == "oracle_fail":
                failures.append(dict(key=r.get("key", "?"), what=r.get("what", ""), replay=r.get("replay")))
            elif r.get("kind") == "info":
                infos.append({k: v for k, v in r.items() if k != "kind"})
        if hr["rc"] != 0:
            broken.append("harness %s (%s) failed (rc=%d): %s" % (h["run"], h["pkg_dir"], hr["rc"], hr["log"][-1500:]))
        if cases:
            ev = vf.coq_eval_cases(ctx, "C15", IMPORTS, h["case_type"], h["mismatch_fn"], [c["coq"] for c in cases], shard=200, tag=h["tag"])
            if not ev["ok"]:
                broken.append("model evaluation failed (%s): %s" % (h["name"], ev["log"][-1500:]))
            evaluated += ev["evaluated"]
            mism += len(ev["bad"])
            for i in ev["bad"][:10]:
                broken.append("correspondence %s: model and implementation disagree on case %s" % (h["mismatch_fn"], json.dumps(cases[i].get("sample"), default=str)[:1500]))
        elif hr["rc"] == 0:
            broken.append("harness %s produced no cases" % h["name"])
        for c in cases:
            c["class"] = ["%s:%s" % (h["name"], x) for x in (c.get("class") or [])]
            c["key"] = h["name"] + ":" + str(c.get("key"))
        all_cases += cases
    cov = dict(
        evaluations=len(all_cases),
        distinct_nontrivial=vf.distinct_nontrivial(all_cases),
        rule=RULE,
        samples=[c.get("sample") for c in all_cases[:2]] + [c.get("sample") for c in all_cases[-1:]],
        traces_validated_against_impl=evaluated,
        correspondence_mismatches=mism,
        oracle_failures=len(failures),
        input_distribution=vf.histogram(all_cases, "class"),
        trusted_base=TRUSTED,
    )
    if infos:
        cov["info"] = infos
    if proofs.get("coqchk"):
        cov["coqchk"] = proofs["coqchk"]
    return vf.finish(ctx, "proof", proofs, cov, failures=failures, broken=broken,
                     assumptions=["sibling names in a directory are distinct and contain no '/' (a file system guarantees it) for the uniqueness theorems",
                                  "no LargeFiles patterns; content stays below TrigramMax distinct trigrams"])
