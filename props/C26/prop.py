import json
import os

import vf

RUNNER = dict(imports=["From ZV Require Import Lib.Base Model.Codec."], case_type="c26case", mismatch_fn="c26_mismatches")

RULE = ("three codecs through MarshalBinary/UnmarshalBinary (every encoder call under recover(): a panic is an oracle failure "
        "`<codec>:encode:panic` with the value): (a0) DIRECTED values, part of every run: IndexTimeUnix -1, time.Time{}.Unix(), MinInt64, 0, "
        "2^31-1, 2^31, 2^32, 2^35-1, 2^35, 2^35+1, 2^42, 2^56, MaxInt64; ids 0, 127, 128, 16383, 16384, 2^28, 2^32-1; names of 127/128/16383/16384 "
        "bytes; 127/128/129 branches; 127/128/16383/16384 entries or keys; bitmap blobs of 126/128/130 bytes; (a) random values (empty/nil, 0-6 or 20-40 entries, ids around the varint and "
        "uint32 boundaries, negative/extreme IndexTimeUnix, 0-3 branches, names incl. empty/unicode/130-byte, bitmaps empty/array/run/bitmap "
        "containers) encoded by the real encoder; (b) version-1 and duplicate-key encodings from an independent reference encoder; "
        "(c) mutated encodings (bit flip, truncate, big-varint splice incl. 2^63-1, 2^64-1, remaining+1, junk tail, overlong varints); "
        "(d) a fixed hostile list; (e) all 0/1-byte strings and a sample of 2/3-byte strings. Every decode of (b)-(e) runs in a watchdog'd "
        "child process (deadline, RLIMIT_AS, recover) and is classified ok/err/panic/hang/crash; distinct by (kind, bytes); non-trivial = more than 3 bytes.")

TRUSTED = [
    "correspondence harnesses harness/overlay/root/zz_verif_c26_test.go, harness/overlay/query/zz_verif_c26_test.go and the watchdog "
    "harness/util/zz_verif_c26_wd_test.go.tmpl (generators, canonicalisation, reference encoders, Go oracle)",
    "roaring.Bitmap.FromBuffer/WriteTo are external: theorems quantify over an arbitrary blob decoder bm (assumed not to panic for decode_total; "
    "the bitmap payload is an opaque length-prefixed blob); the correspondence feeds the model the blob->result table observed on the real roaring",
    "cost model: steps = primitive reader operations (byt/uvarint), alloc = requested elements (clone, make hints, appends); after the first "
    "failing read the Go code performs at most 4 more O(1) reads in the same iteration before returning, which the model does not count",
    "Go maps modelled as insertion lists observed sorted by key with later-wins (canon_map / canon_set)",
    "translator/c26consts (go/ast): reads the array length of the scratch buffer `var enc [N]byte` that every binary.PutUvarint call of "
    "reposMapEncode / stringSetEncode / branchesReposEncode writes into (binary.MaxVarintLenNN resolved from the toolchain's "
    "encoding/binary/varint.go) into coq/Generated/CodecConsts.v on every run; the encoders' size pre-pass (same numbers through the same "
    "buffer) and bytes.Buffer are not modelled",
]


def _harness(ctx, pkg_dir, files, pkg_name, n, out_name):
    tmpl = open(os.path.join(vf.HARNESS, "util", "zz_verif_c26_wd_test.go.tmpl")).read().replace("package PKGNAME", "package " + pkg_name)
    wd = os.path.join(ctx.tmp, "zz_verif_c26_wd_%s_test.go" % pkg_name)
    with open(wd, "w") as f:
        f.write(tmpl)
    dst = os.path.normpath(os.path.join(vf.REPO, pkg_dir, "zz_verif_c26_wd_test.go"))
    return vf.go_harness(ctx, pkg_dir, "TestVerifC26$", files, n, pkg_name=pkg_name, extra_replace={dst: wd},
                         timeout=900 if ctx.tier == "quick" else 3000, out_name=out_name)


GEN = os.path.join(vf.COQ, "Generated", "CodecConsts.v")


def regen(ctx):
    """coq/Generated/CodecConsts.v: the capacity of the varint scratch buffer (`var enc [N]byte`) of reposMapEncode,
    stringSetEncode and branchesReposEncode, read from the source of the tree under test by translator/c26consts (go/ast).
    Returns (note for the evidence, broken message or None)."""
    rc, out = vf.sh(["go", "run", os.path.join(vf.ROOT, "translator", "c26consts", "main.go"), vf.REPO],
                    cwd=vf.REPO, env=vf.go_env(), timeout=600)
    names = ("reposmap_enc_cap", "stringset_enc_cap", "branchesrepos_enc_cap")
    if rc != 0 or "(* GENERATED" not in out or not all("Definition %s : nat := " % n in out for n in names):
        return ("NOT regenerated", "translator/c26consts could not read the scratch buffers of the encoders (shape of the code changed?); "
                "C26_encode_never_panics then speaks about the last generated capacities only: " + out.strip()[-600:])
    text = out[out.index("(* GENERATED"):]
    with vf._Lock("coq"):
        changed = vf.write_if_changed(GEN, text)
    caps = {n: int(text.split("Definition %s : nat := " % n)[1].split(".")[0]) for n in names}
    return "regenerated from %s/marshal.go and query/marshal.go%s: %s" % (vf.REPO, " (content changed)" if changed else "", json.dumps(caps, sort_keys=True)), None


def run(ctx):
    pid = ctx.pid
    broken, failures = [], []
    gen_note, gen_broken = regen(ctx)
    if gen_broken:
        broken.append(gen_broken)
    proofs = vf.coq_props(ctx, pid)
    aok, aout = vf.audit()
    if not aok:
        proofs["ok"] = False
        proofs["discharged"] = 0
        broken.append("audit: the development contains Admitted/Axiom/Parameter or disables a kernel check: " + aout[-800:])
    if ctx.tier == "thorough" and proofs["ok"]:
        cok, cout = vf.coqchk(pid)
        proofs["coqchk"] = cout[-1500:]
        if not cok:
            proofs["ok"] = False
            broken.append("coqchk rejects Props/%s.vo: %s" % (pid, cout[-800:]))
    if not proofs["ok"]:
        broken.append("proof obligations of Props/%s.v do not check: %s" % (pid, (proofs.get("broken_files") or proofs.get("nonstd_axioms") or proofs["log"][-800:])))

    n = ctx.n(120, 1500)
    recs = []
    for pkg_dir, files, pkg_name, out_name in (
            (".", ["root/zz_verif_c26_test.go"], "zoekt", "out-root.jsonl"),
            ("query", ["query/zz_verif_c26_test.go"], "query", "out-query.jsonl")):
        hr = _harness(ctx, pkg_dir, files, pkg_name, n, out_name)
        recs += hr["records"]
        if hr["rc"] != 0:
            broken.append("harness TestVerifC26 in ./%s failed (rc=%d): %s" % (pkg_dir, hr["rc"], hr["log"][-1500:]))
    cases = [r for r in recs if r.get("kind") == "case"]
    for r in recs:
        if r.get("kind") == "oracle_fail":
            failures.append(dict(key=r.get("key", "?"), what=r.get("what", ""), replay=r.get("replay")))
    # hang candidates beyond the first 6 confirmed ones of a harness run are not re-run alone (20 s each); they are no
    # violations (never confirmed) but they are listed in the evidence so that nothing is silently dropped
    unconfirmed = [{k: v for k, v in r.items() if k != "kind"} for r in recs if r.get("kind") == "unconfirmed_hang"]
    if unconfirmed:
        print("NOTE property=%s unconfirmed-hang candidates=%d (not re-run alone, not counted as violations; listed in the evidence under "
              "coverage.unconfirmed_hang_records), e.g. %s" % (pid, len(unconfirmed), json.dumps(unconfirmed[0])[:300]))
    ev = dict(ok=True, bad=[], evaluated=0, log="")
    if cases:
        ev = vf.coq_eval_cases(ctx, pid, RUNNER["imports"], RUNNER["case_type"], RUNNER["mismatch_fn"], [c["coq"] for c in cases], shard=300)
        if not ev["ok"]:
            broken.append("model evaluation failed: " + ev["log"][-1500:])
        for i in ev["bad"][:20]:
            broken.append("correspondence c26_mismatches: model and implementation disagree on case %s" % json.dumps(cases[i].get("sample"), default=str)[:1500])
    elif not broken:
        broken.append("harness produced no cases")
    cov = dict(
        evaluations=len(cases),
        distinct_nontrivial=vf.distinct_nontrivial(cases),
        rule=RULE,
        samples=[c.get("sample") for c in cases[:3]] or [],
        traces_validated_against_impl=ev["evaluated"],
        correspondence_mismatches=len(ev["bad"]),
        oracle_failures=len(failures),
        input_distribution=vf.histogram(cases, "class"),
        trusted_base=TRUSTED,
        generated_codec_consts=gen_note,
        unconfirmed_hangs=len(unconfirmed),
        unconfirmed_hang_records=unconfirmed[:200],
    )
    if proofs.get("coqchk"):
        cov["coqchk"] = proofs["coqchk"]
    for r_ in recs:
        if r_.get("kind") == "info":
            cov.setdefault("info", []).append({k: v for k, v in r_.items() if k != "kind"})
    return vf.finish(ctx, "proof", proofs, cov, failures=failures, broken=broken,
                     assumptions=["collection sizes and string lengths < 2^63 (Go int), repo ids < 2^32, IndexTimeUnix in int64 (round-trip theorems)",
                                  "the external blob decoder (roaring FromBuffer) returns a value or an error (decode_total for BranchesRepos)"])
