"""C27 — regexp printing and optimisation preserve the matched language.
Translation validation with a proved checker: see NOTES.md."""
import json
import os
import vf

IMPORTS = ["From ZV Require Import Lib.Base Model.Regex Model.CaseFold Model.RegexTV."]
HFILES = ["query/zz_verif_c27_test.go"]
TABLE = os.path.join(vf.COQ, "Generated", "UnicodeTables.v")


def regen_tables(ctx, broken):
    """Regenerate coq/Generated/UnicodeTables.v from the Go toolchain /repo builds with."""
    rc, out = vf.sh(["go", "run", os.path.join(vf.ROOT, "translator", "unicodetables", "main.go")],
                    cwd=vf.REPO, env=vf.go_env(), timeout=300)
    if rc != 0 or "Definition utab" not in out:
        broken.append("translator/unicodetables failed: " + out[-600:])
        return
    with vf._Lock("coq"):
        vf.write_if_changed(TABLE, out)


def eval_codes(ctx, cases, tag=""):
    """returns (ok, {index: code}, log)"""
    codes, ok, logs = {}, True, []
    shard = 500
    for s in range(0, len(cases), shard):
        chunk = cases[s:s + shard]
        ev = vf.coq_eval_cases(ctx, ctx.pid, IMPORTS, "c27case", "c27_mismatches", chunk, shard=10 ** 9,
                               tag="%s_%d" % (tag, s // shard))
        if not ev["ok"]:
            ok = False
            logs.append(ev["log"])
            continue
        for v in ev["bad"]:
            codes[s + v // 16] = v % 16
    return ok, codes, "\n".join(logs)


def run(ctx):
    pid = ctx.pid
    broken, failures = [], []
    regen_tables(ctx, broken)
    proofs = vf.coq_props(ctx, pid, extra_targets=["Model/RegexTV.vo"])
    aok, aout = vf.audit()
    if not aok:
        proofs["ok"] = False
        proofs["discharged"] = 0
        broken.append("audit: " + aout[-800:])
    if ctx.tier == "thorough" and proofs["ok"]:
        cok, cout = vf.coqchk(pid)
        proofs["coqchk"] = cout[-1500:]
        if not cok:
            proofs["ok"] = False
            broken.append("coqchk rejects Props/%s.vo: %s" % (pid, cout[-800:]))
    if not proofs["ok"]:
        broken.append("proof obligations of Props/%s.v do not check (norm_sound is what turns a `true` of the checker into a proof): %s"
                      % (pid, (proofs.get("broken_files") or proofs.get("nonstd_axioms") or proofs["log"][-800:])))
    n = ctx.n(700, 6000)
    hr = vf.go_harness(ctx, "query", "TestVerifC27$", HFILES, n, timeout=600 if ctx.tier == "quick" else 3000)
    recs = hr["records"]
    cases = [r for r in recs if r.get("kind") == "case"]
    for r in recs:
        if r.get("kind") == "oracle_fail":
            failures.append(dict(key=r.get("key", "?"), what=r.get("what", ""), replay=r.get("replay")))
    if hr["rc"] != 0:
        broken.append("harness TestVerifC27 failed (rc=%d): %s" % (hr["rc"], hr["log"][-1500:]))
    if not cases and hr["rc"] == 0:
        broken.append("harness produced no cases")
    ok, codes, log = eval_codes(ctx, [c["coq"] for c in cases])
    if not ok:
        broken.append("checker evaluation failed: " + log[-1500:])
    uncert = sorted(i for i, c in codes.items() if c & 11)
    sembad = sorted(i for i, c in codes.items() if c & 4)
    for i in sembad[:10]:
        broken.append("correspondence: Model/Regex.v's leftmost-longest match differs from Go's engine on pattern %s"
                      % json.dumps(cases[i]["sample"].get("pattern")))
    # ---- hunt: a distinguishing subject for every pattern the checker could not certify
    hunted = 0
    if uncert:
        hp = os.path.join(ctx.tmp, "hunt.txt")
        pats = [cases[i]["sample"]["pattern"] for i in uncert[:200]]
        with open(hp, "w") as f:
            f.write("\x00".join(pats))
        before = len(failures)
        h2 = vf.go_harness(ctx, "query", "TestVerifC27$", HFILES, len(pats), env={"VERIF_C27_HUNT": hp},
                           timeout=900, out_name="hunt.jsonl")
        hunted = len(pats)
        found = set()
        for r in h2["records"]:
            if r.get("kind") == "oracle_fail":
                failures.append(dict(key=r.get("key", "?"), what=r.get("what", ""), replay=r.get("replay")))
                found.add((r.get("replay") or {}).get("pattern"))
        for i in uncert[:20]:
            p = cases[i]["sample"]["pattern"]
            kind = "+".join(k for b, k in ((1, "print/parse round trip"), (2, "OptimizeRegexp"), (8, "print/parse round trip of the optimised regexp")) if codes[i] & b)
            broken.append("checker cannot certify language preservation of %s for pattern %s (printed %s, optimised %s)%s"
                          % (kind, json.dumps(p), json.dumps(cases[i]["sample"].get("printed")),
                             json.dumps(cases[i]["sample"].get("optimised")),
                             "" if p in found else "; bounded hunt (subjects up to 4 runes + 400 longer) found no distinguishing subject"))
    if os.environ.get("VERIF_DEBUG"):
        for b in broken:
            print("DEBUG broken:", b[:700])
        for f in failures[:10]:
            print("DEBUG failure:", f["key"], json.dumps(f["replay"])[:300])
    cov = dict(
        programs=len(cases),
        disagreements_checked=hunted,
        certified_print=len(cases) - sum(1 for c in codes.values() if c & 1) if ok else 0,
        certified_optimize=len(cases) - sum(1 for c in codes.values() if c & 2) if ok else 0,
        certified_print_of_optimized=len(cases) - sum(1 for c in codes.values() if c & 8) if ok else 0,
        evaluations=len(cases),
        distinct_nontrivial=vf.distinct_nontrivial(cases),
        rule="patterns: a fixed list of 39 + a random generator over the query syntax (literal runs incl. meta, non-printable, non-ASCII and "
             "multi-member fold-orbit runes; classes incl. negated/Perl/POSIX/Unicode; any; anchors; flag groups i/s/m/U; captures, named "
             "captures; * + ? {n} {n,} {n,m} and lazy/stacked forms; concatenation; alternation with shared prefixes and empty branches), "
             "kept when syntax.Parse accepts them; distinct by pattern text; non-trivial = the AST uses >= 3 construct classes or "
             "OptimizeRegexp changes the AST. Each program = (a0, a1, a2, a3 = Parse(RegexpString a2)) certified by three norm equalities under vm_compute; the Go oracle "
             "additionally enumerates all subjects of <= 3 runes over <= 6 runes drawn from the pattern (+20 longer random ones).",
        samples=[c.get("sample") for c in cases[:3]],
        traces_validated_against_impl=len(cases) - len(sembad) if ok else 0,
        correspondence_mismatches=len(sembad),
        oracle_failures=len(failures),
        uncertified=len(uncert),
        input_distribution=vf.histogram(cases, "class"),
        trusted_base=[
            "regexp/syntax.Parse is not modelled: the harness exports the ASTs it returns (harness/overlay/query/zz_verif_c27_test.go: exporter vfC27Coq, generator, Go-side reference matcher and engine comparison)",
            "Model/Regex.v semantics of the leaf operators (anchors, word boundary, classes, fold orbits) — tied to Go's engine by leftmost-longest samples on every pattern",
            "coq/Generated/UnicodeTables.v (SimpleFold orbits) dumped by translator/unicodetables from the Go toolchain in use",
            "NonGreedy is outside the model (does not change the language); the Go oracle compares the engine's match ranges of original / printed / optimised forms on the enumerated subjects",
        ],
    )
    if proofs.get("coqchk"):
        cov["coqchk"] = proofs["coqchk"]
    for r_ in recs:
        if r_.get("kind") == "info":
            cov.setdefault("info", []).append({k: v for k, v in r_.items() if k != "kind"})
    return vf.finish(ctx, "translation_validation", proofs, cov, failures=failures, broken=broken,
                     assumptions=["subjects are rune sequences (Go decodes invalid UTF-8 bytes to U+FFFD, width 1)",
                                  "Parse/Compile of the Go standard library are trusted; only their outputs are validated"])
