import importlib.util
import json
import os
import re
import threading
import vf

_spec = importlib.util.spec_from_file_location("fmtlib", os.path.join(vf.ROOT, "props", "C09", "fmtlib.py"))
fmtlib = importlib.util.module_from_spec(_spec)
_spec.loader.exec_module(fmtlib)

RULE = ("two real shards (2 and 5 documents, symbols, 2 branches; 2.4 and 3.3 KB) written by ShardBuilder; variants: truncation at a "
        "byte, flip of one bit, garbage files (empty, 1..70000 bytes random / 0xff / zero), the witness files of the Coq refutation "
        "theorems, the intact shards. thorough: ALL truncations, ALL single-bit flips of the last 600 bytes (TOC, trailer, section tables) and a seeded sample of the other flips of both shards (17k files; all 51k with VERIF_C11_ALL=1); quick: a seeded "
        "sample biased to the TOC/section tables. Each file is put next to a healthy shard and served by NewDirectorySearcher in a "
        "subprocess (7 s in-process + 10 s parent watchdog, ulimit -v 4 GiB, GOMEMLIMIT): 5 searches (const, substring, file name, "
        "symbol, regexp; Whole) + List (const and substring); the healthy shard's results must equal the baseline. SECOND PASS (every tier): "
        "targeted corruptions WRITTEN BY THE MODEL (Model/FormatPosting.v targets): the model's reader locates the posting lists of the "
        "5-document shard (TOC, ngram text, b-tree, postings index), picks 2 long / 3 short / 1 one-byte content lists and 2 file-name lists, "
        "and per list sets the continuation bit of the last byte (list ends inside a varint), of every byte, of the first byte, or writes an "
        "overflowing varint at the start / after the first posting; each file is served as above AND queried on exactly that trigram "
        "(substring case-sensitive/insensitive, regexp, (?i) regexp, List; Whole search = the iterator is walked to the end); control: the "
        "intact shard must answer these queries with hits. non-trivial = flips, truncations and targeted corruptions")

TRUSTED = ["hunt harness harness/overlay/search/zz_verif_c11_test.go (variant generator, subprocess watchdog, outcome classification, call-site extraction from goroutine dumps) and the iterator harness harness/overlay/index/zz_verif_c11_iter_test.go",
           "hand-written model of the reader (Model/Format.v) over arbitrary bytes; tied to the implementation by (a) the byte-exact C09 correspondence on valid shards and (b) the outcome correspondence here: model says load error => implementation did not load; model says loads => no crash/hang",
           "outside the theorems (hunt only): JSON metadata parsing, roaring bitmap, b-tree construction on unsorted keys, the match iterators ABOVE compressedPostingIterator (ngramDocIterator, mergingIterator, match trees), query evaluation",
           "mmap semantics: reads inside the last page beyond the file size return zeros; files are not modified after being loaded"]

OBS = {"error": 0, "served-ok": 1, "contained-crash": 2, "PROCESS-CRASH": 3, "HANG": 4, "api-error": 5}


def nlist(hexs):
    return "[" + ";".join(str(b) for b in bytes.fromhex(hexs)) + "]%N"


IMPORTS_P = ["From ZV Require Import Lib.Base Model.Format Model.FormatRobust Model.FormatStats Model.FormatPosting."]
TARGET_BASE = 1   # the 5-document shard: posting lists from 1 to 20+ bytes


def targeted_variants(ctx, base_hex):
    """Model-written targeted corruptions (Model/FormatPosting.v: targets): for a handful of posting lists of the real
    shard (located by the model's reader: TOC -> ngram text -> b-tree -> postings index) the list is made to end inside
    a varint / to contain an overflowing varint; returns (variants for the harness, model predictions, error)."""
    rc, out = vf.coq_eval_term(ctx, IMPORTS_P, "targets %s" % nlist(base_hex), timeout=900)
    m = re.search(r"r = \[(.*)\] : list \(list N\)", out)
    if rc != 0 or not m:
        return [], [], "could not evaluate the model's targeted corruptions: " + out[-600:]
    base = bytes.fromhex(base_hex)
    vs, preds, controls = [], [], {}
    for part in re.findall(r"\[([0-9; ]*)\]", m.group(1)):
        rec = [int(x) for x in part.replace(" ", "").split(";") if x]
        tkind, isname, r0, r1, r2, off, sz, pred = rec[:8]
        b = bytearray(base)
        for i in range(8, len(rec), 2):
            b[rec[i]] = rec[i + 1]
        tri = chr(r0) + chr(r1) + chr(r2)
        if (tri, isname) not in controls:
            controls[(tri, isname)] = dict(kind="target-control", hex=base_hex, tri=tri, name=bool(isname), off=off, sz=sz)
        vs.append(dict(kind="target", hex=bytes(b).hex(), tri=tri, name=bool(isname), tkind=tkind, off=off, sz=sz))
        preds.append(pred)
    return list(controls.values()) + vs, preds, None


def run(ctx):
    broken, failures = [], []
    okc, msg = fmtlib.regen_consts(ctx)
    if not okc:
        broken.append(msg)
    # the guards of the posting iterator's loop, read from index/hititer.go (go/ast) -> Generated/PostingGuard.v
    rc, out = vf.sh(["go", "run", os.path.join(vf.ROOT, "translator", "c11guard", "main.go"), vf.REPO], cwd=ctx.tmp, env=vf.go_env(), timeout=300)
    if rc != 0 or "Definition cpi_next_stops_on_zero" not in out:
        broken.append("translator/c11guard failed: " + out[-1200:])
    else:
        with vf._Lock("coq"):
            vf.write_if_changed(os.path.join(vf.COQ, "Generated", "PostingGuard.v"), out)
    proofs = vf.coq_props(ctx, "C11", extra_targets=["Model/FormatRobust.vo", "Model/FormatStats.vo", "Model/FormatPosting.vo"])
    aok, aout = vf.audit()
    if not aok:
        proofs["ok"] = False
        proofs["discharged"] = 0
        broken.append("audit: " + aout[-800:])
    if ctx.tier == "thorough" and proofs["ok"]:
        cok, cout = vf.coqchk("C11")
        proofs["coqchk"] = cout[-1500:]
        if not cok:
            proofs["ok"] = False
            broken.append("coqchk rejects Props/C11.vo: " + cout[-800:])
    if not proofs["ok"]:
        broken.append("proof obligations of Props/C11.v do not check: %s" % (proofs.get("broken_files") or proofs.get("nonstd_axioms") or proofs["log"][-800:]))
    # witnesses of the refutation theorems, computed by the model, replayed on the implementation
    wfile = os.path.join(ctx.tmp, "witnesses.json")
    nwit = 0
    if proofs["ok"]:
        rc, out = vf.coq_eval_term(ctx, ["From ZV Require Import Lib.Base Model.Format Model.FormatRobust Model.FormatStats."], "witnesses3")
        m = re.search(r"r = \[(.*)\] : list \(list N\)", out)
        if rc == 0 and m:
            ws = []
            for part in re.findall(r"\[([0-9; ]*)\]", m.group(1)):
                ws.append(bytes(int(x) for x in part.replace(" ", "").split(";") if x).hex())
            nwit = len(ws)
            json.dump(ws, open(wfile, "w"))
        else:
            broken.append("could not evaluate the model's witness files: " + out[-600:])
    n = ctx.n(80, 800)
    # tie of the posting-iterator model: differential run on arbitrary bytes in package index (own thread: its test binary
    # builds while the hunt runs)
    ires = {}

    def iter_pass():
        ires["hr"] = vf.go_harness(ctx, "index", "TestVerifC11Iter$", ["index/zz_verif_c11_iter_test.go"], ctx.n(300, 3000),
                                   timeout=900, out_name="out-iter.jsonl")

    ithread = threading.Thread(target=iter_pass)
    ithread.start()
    hr = vf.go_harness(ctx, "search", "TestVerifC11$", ["search/zz_verif_c11_test.go"], n,
                       env={"VERIF_C11_WITNESSES": wfile}, timeout=900 if ctx.tier == "quick" else 5400)
    recs = hr["records"]
    outcomes = [r for r in recs if r.get("kind") == "outcome"]
    for r in recs:
        if r.get("kind") == "oracle_fail":
            failures.append(dict(key=r.get("key", "?"), what=r.get("what", ""), replay=r.get("replay")))
    if hr["rc"] != 0:
        broken.append("harness TestVerifC11 failed (rc=%d): %s" % (hr["rc"], hr["log"][-1500:]))
    bases = [r for r in recs if r.get("kind") == "info" and r.get("what") == "c11-bases"]
    # second pass, in parallel with the model evaluation of the first pass: targeted corruptions of single posting lists
    tres = {}

    def targeted_pass():
        tvs, preds, err = targeted_variants(ctx, bases[0]["hex"][TARGET_BASE])
        if err or not tvs:
            tres["broken"] = err or "the model wrote no targeted corruption (no posting list found in the base shard)"
            return
        tfile = os.path.join(ctx.tmp, "targets.json")
        json.dump(tvs, open(tfile, "w"))
        tres["preds"] = preds
        tres["n"] = len(tvs)
        tres["hr"] = vf.go_harness(ctx, "search", "TestVerifC11$", ["search/zz_verif_c11_test.go"], n,
                                   env={"VERIF_C11_TARGETS": tfile}, timeout=900, out_name="out-targeted.jsonl")

    tthread = None
    # (also when Props/C11.v does not check: the model files are built with make -k, and a changed guard must still be
    # reported with the concrete file + query, not only as a broken proof)
    if bases and hr["rc"] == 0 and os.path.exists(os.path.join(vf.COQ, "Model", "FormatPosting.vo")):
        tthread = threading.Thread(target=targeted_pass)
        tthread.start()
    # correspondence: model outcome class vs implementation outcome class
    ev = dict(ok=True, bad=[], evaluated=0, log="")
    cases, csrc = [], []
    if bases and outcomes and proofs.get("ok"):
        outcomes.sort(key=lambda r: r["id"])
        wi = 0
        step = max(1, len([o for o in outcomes if o["base"] >= 0]) // ctx.n(40, 1500))
        k = 0
        for o in outcomes:
            obs = OBS.get(o["class"])
            if obs is None:
                continue
            if o["vkind"] == "witness":
                cases.append("C11W %d%%nat %d" % (wi, obs)); csrc.append(o); wi += 1
            elif o["base"] >= 0:
                k += 1
                if k % step:
                    continue
                kind = {"trunc": 0, "flip": 1}.get(o["vkind"], 2)
                cases.append("C11V %d%%nat %d %d %d %d" % (o["base"], kind, o["pos"], o["bit"], obs)); csrc.append(o)
        prelude = "Definition bases : list (list N) := [%s].\n" % "; ".join(nlist(h) for h in bases[0]["hex"])
        ev = fmtlib.eval_cases(ctx, "C11", ["From ZV Require Import Lib.Base Model.Format Model.FormatRobust Model.FormatStats."],
                               "c11case", "c11_mismatches_stats bases", cases, budget=25 * (40 if ctx.tier == "quick" else 200),
                               jobs=4 if ctx.tier == "quick" else 8, prelude=prelude)
        if not ev["ok"]:
            broken.append("model evaluation failed: " + ev["log"][-1500:])
        for i in ev["bad"][:20]:
            broken.append("correspondence c11_mismatches: model and implementation disagree on the outcome class of %s" % json.dumps(csrc[i])[:600])
    elif hr["rc"] == 0 and not outcomes:
        broken.append("harness produced no outcomes")
    ithread.join()
    ihr = ires.get("hr") or dict(rc=1, log="iterator harness did not run", records=[])
    icases = [r for r in ihr["records"] if r.get("kind") == "case"]
    for r in ihr["records"]:
        if r.get("kind") == "oracle_fail":
            failures.append(dict(key=r.get("key", "?"), what=r.get("what", ""), replay=r.get("replay")))
    for r in [r for r in ihr["records"] if r.get("kind") == "iter_panic"][:5]:
        broken.append("correspondence (posting iterator): the model says the iterator never panics, the implementation panicked: %s" % json.dumps(r)[:500])
    if ihr["rc"] != 0:
        broken.append("harness TestVerifC11Iter failed (rc=%d): %s" % (ihr["rc"], ihr["log"][-1500:]))
    iev = dict(ok=True, bad=[], evaluated=0, log="")
    if icases and proofs.get("ok"):
        iev = vf.coq_eval_cases(ctx, "C11", ["From ZV Require Import Lib.Base Model.FormatPosting."], "c11icase", "c11i_mismatches",
                                [c["coq"] for c in icases], shard=1000, tag="iter")
        if not iev["ok"]:
            broken.append("model evaluation (posting iterator) failed: " + iev["log"][-1500:])
        for i in iev["bad"][:20]:
            broken.append("correspondence c11i_mismatches: model and compressedPostingIterator disagree on %s" % json.dumps(icases[i].get("sample"))[:600])
    elif ihr["rc"] == 0 and not icases:
        broken.append("iterator harness produced no cases")
    toutcomes = []
    if tthread:
        tthread.join()
        if tres.get("broken"):
            broken.append(tres["broken"])
        else:
            thr = tres["hr"]
            for r in thr["records"]:
                if r.get("kind") == "oracle_fail":
                    failures.append(dict(key=r.get("key", "?"), what=r.get("what", ""), replay=r.get("replay")))
            if thr["rc"] != 0:
                broken.append("harness TestVerifC11 (targeted pass) failed (rc=%d): %s" % (thr["rc"], thr["log"][-1500:]))
            toutcomes = sorted([r for r in thr["records"] if r.get("kind") == "outcome"], key=lambda r: r["id"])
            tt = [o for o in toutcomes if o["vkind"] == "target"]
            if thr["rc"] == 0 and len(toutcomes) != tres["n"]:
                broken.append("targeted pass: %d of %d variants classified" % (len(toutcomes), tres["n"]))
            # the model says of every targeted file: it loads and the walk of the damaged list ends (3); the implementation
            # must serve it (or contain a crash) — HANG / PROCESS-CRASH are oracle failures already
            for o, pred in zip(tt, tres["preds"]):
                if pred != 3:
                    broken.append("targeted corruption %s: the model does not predict 'loads, iterator terminates' (pred=%d)" % (json.dumps(o)[:300], pred))
                elif o["class"] not in ("served-ok", "contained-crash", "HANG", "PROCESS-CRASH"):
                    broken.append("correspondence (targeted): model says the file loads and the posting iterator terminates, implementation class %s: %s" % (o["class"], json.dumps(o)[:300]))
    elif not broken and not failures:
        broken.append("the targeted pass did not run")
    # the model's witnesses must show the class the theorems predict for the repaired tree
    expect = ["served-ok", "served-ok", "served-ok", "error", "contained-crash", "served-ok", "error"]
    wobs = [o["class"] for o in sorted(outcomes, key=lambda r: r["id"]) if o["vkind"] == "witness"]
    if hr["rc"] == 0 and nwit and wobs != expect[:len(wobs)]:
        # a crash/hang on a witness is already reported as an oracle failure with its replay
        if not any(w in ("HANG", "PROCESS-CRASH") for w in wobs):
            broken.append("replay of the model's witness files: implementation classes %s, the theorems predict %s" % (wobs, expect[:len(wobs)]))
    hist = {}
    outcomes = outcomes + toutcomes
    for o in outcomes:
        hist["%s/%s" % (o["vkind"], o["class"])] = hist.get("%s/%s" % (o["vkind"], o["class"]), 0) + 1
    nontrivial = len(set((o["base"], o["vkind"], o["pos"], o["bit"], o.get("tri"), o.get("tkind"), o.get("name")) for o in outcomes if o["vkind"] in ("flip", "trunc", "target")))
    cov = dict(evaluations=len(outcomes), distinct_nontrivial=nontrivial, rule=RULE,
               samples=[{k: o[k] for k in ("vkind", "base", "pos", "bit", "class")} for o in outcomes[:3]],
               traces_validated_against_impl=ev["evaluated"] + iev["evaluated"], correspondence_mismatches=len(ev["bad"]) + len(iev["bad"]),
               posting_iterator=dict(cases=len(icases), evaluated=iev["evaluated"], mismatches=len(iev["bad"]), classes=vf.histogram(icases, "class"),
                                     rule="compressedPostingIterator on arbitrary bytes (valid delta lists, last byte's continuation bit set, a random continuation bit, "
                                          "overflowing 10/11-byte varints spliced in, random bytes; limits: complete walk next(first()) or arbitrary incl. MaxUint32) under a "
                                          "20 s watchdog; observed first() after every call, len(blob), indexBytesLoaded compared with Model/FormatPosting.v cpi_new/cpi_next"),
               oracle_failures=len(failures), input_distribution=dict(sorted(hist.items(), key=lambda kv: -kv[1])),
               witnesses_replayed=nwit, trusted_base=TRUSTED,
               info=[{k: v for k, v in r.items() if k not in ("kind", "hex")} for r in recs if r.get("kind") == "info" and r.get("what") != "c11-bases"])
    if proofs.get("coqchk"):
        cov["coqchk"] = proofs["coqchk"]
    return vf.finish(ctx, "proof", proofs, cov, failures=failures, broken=broken,
                     assumptions=["shard files are not modified after being loaded (mmap)",
                                  "the theorems cover the modelled reader (header, TOC, section reads, delta decoders, verify, calculateStats, per-document reads, per-shard error handling of the sharded searcher); the rest of the reader is covered by the hunt only"])
