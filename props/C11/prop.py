import importlib.util
import json
import os
import re
import vf

_spec = importlib.util.spec_from_file_location("fmtlib", os.path.join(vf.ROOT, "props", "C09", "fmtlib.py"))
fmtlib = importlib.util.module_from_spec(_spec)
_spec.loader.exec_module(fmtlib)

RULE = ("two real shards (2 and 5 documents, symbols, 2 branches; 2.4 and 3.3 KB) written by ShardBuilder; variants: truncation at a "
        "byte, flip of one bit, garbage files (empty, 1..70000 bytes random / 0xff / zero), the witness files of the Coq refutation "
        "theorems, the intact shards. thorough: ALL truncations, ALL single-bit flips of the last 600 bytes (TOC, trailer, section tables) and a seeded sample of the other flips of both shards (17k files; all 51k with VERIF_C11_ALL=1); quick: a seeded "
        "sample biased to the TOC/section tables. Each file is put next to a healthy shard and served by NewDirectorySearcher in a "
        "subprocess (7 s in-process + 10 s parent watchdog, ulimit -v 4 GiB, GOMEMLIMIT): 5 searches (const, substring, file name, "
        "symbol, regexp; Whole) + List (const and substring); the healthy shard's results must equal the baseline. non-trivial = flips and truncations")

TRUSTED = ["hunt harness harness/overlay/search/zz_verif_c11_test.go (variant generator, subprocess watchdog, outcome classification, call-site extraction from goroutine dumps)",
           "hand-written model of the reader (Model/Format.v) over arbitrary bytes; tied to the implementation by (a) the byte-exact C09 correspondence on valid shards and (b) the outcome correspondence here: model says load error => implementation did not load; model says loads => no crash/hang",
           "outside the theorems (hunt only): JSON metadata parsing, roaring bitmap, b-tree construction on unsorted keys, match iterators, query evaluation",
           "mmap semantics: reads inside the last page beyond the file size return zeros; files are not modified after being loaded"]

OBS = {"error": 0, "served-ok": 1, "contained-crash": 2, "PROCESS-CRASH": 3, "HANG": 4, "api-error": 5}


def nlist(hexs):
    return "[" + ";".join(str(b) for b in bytes.fromhex(hexs)) + "]%N"


def run(ctx):
    broken, failures = [], []
    okc, msg = fmtlib.regen_consts(ctx)
    if not okc:
        broken.append(msg)
    proofs = vf.coq_props(ctx, "C11", extra_targets=["Model/FormatRobust.vo", "Model/FormatStats.vo"])
    aok, aout = vf.audit()
    if not aok:
        proofs["ok"] = False
        proofs["discharged"] = 0
        broken.append("audit: " + aout[-800:])
    if ctx.tier == "thorough" and proofs["ok"]:
        cok, cout = vf.coqchk("C11")
        proofs["coqchk"] = cout[-1500:]
        if not cok:
            proofs["ok"] = False
            broken.append("coqchk rejects Props/C11.vo: " + cout[-800:])
    if not proofs["ok"]:
        broken.append("proof obligations of Props/C11.v do not check: %s" % (proofs.get("broken_files") or proofs.get("nonstd_axioms") or proofs["log"][-800:]))
    # witnesses of the refutation theorems, computed by the model, replayed on the implementation
    wfile = os.path.join(ctx.tmp, "witnesses.json")
    nwit = 0
    if proofs["ok"]:
        rc, out = vf.coq_eval_term(ctx, ["From ZV Require Import Lib.Base Model.Format Model.FormatRobust Model.FormatStats."], "witnesses3")
        m = re.search(r"r = \[(.*)\] : list \(list N\)", out)
        if rc == 0 and m:
            ws = []
            for part in re.findall(r"\[([0-9; ]*)\]", m.group(1)):
                ws.append(bytes(int(x) for x in part.replace(" ", "").split(";") if x).hex())
            nwit = len(ws)
            json.dump(ws, open(wfile, "w"))
        else:
            broken.append("could not evaluate the model's witness files: " + out[-600:])
    n = ctx.n(80, 800)
    hr = vf.go_harness(ctx, "search", "TestVerifC11$", ["search/zz_verif_c11_test.go"], n,
                       env={"VERIF_C11_WITNESSES": wfile}, timeout=900 if ctx.tier == "quick" else 5400)
    recs = hr["records"]
    outcomes = [r for r in recs if r.get("kind") == "outcome"]
    for r in recs:
        if r.get("kind") == "oracle_fail":
            failures.append(dict(key=r.get("key", "?"), what=r.get("what", ""), replay=r.get("replay")))
    if hr["rc"] != 0:
        broken.append("harness TestVerifC11 failed (rc=%d): %s" % (hr["rc"], hr["log"][-1500:]))
    bases = [r for r in recs if r.get("kind") == "info" and r.get("what") == "c11-bases"]
    # correspondence: model outcome class vs implementation outcome class
    ev = dict(ok=True, bad=[], evaluated=0, log="")
    cases, csrc = [], []
    if bases and outcomes and proofs.get("ok"):
        outcomes.sort(key=lambda r: r["id"])
        wi = 0
        step = max(1, len([o for o in outcomes if o["base"] >= 0]) // ctx.n(40, 1500))
        k = 0
        for o in outcomes:
            obs = OBS.get(o["class"])
            if obs is None:
                continue
            if o["vkind"] == "witness":
                cases.append("C11W %d%%nat %d" % (wi, obs)); csrc.append(o); wi += 1
            elif o["base"] >= 0:
                k += 1
                if k % step:
                    continue
                kind = {"trunc": 0, "flip": 1}.get(o["vkind"], 2)
                cases.append("C11V %d%%nat %d %d %d %d" % (o["base"], kind, o["pos"], o["bit"], obs)); csrc.append(o)
        prelude = "Definition bases : list (list N) := [%s].\n" % "; ".join(nlist(h) for h in bases[0]["hex"])
        ev = fmtlib.eval_cases(ctx, "C11", ["From ZV Require Import Lib.Base Model.Format Model.FormatRobust Model.FormatStats."],
                               "c11case", "c11_mismatches_stats bases", cases, budget=25 * (40 if ctx.tier == "quick" else 200),
                               jobs=4 if ctx.tier == "quick" else 8, prelude=prelude)
        if not ev["ok"]:
            broken.append("model evaluation failed: " + ev["log"][-1500:])
        for i in ev["bad"][:20]:
            broken.append("correspondence c11_mismatches: model and implementation disagree on the outcome class of %s" % json.dumps(csrc[i])[:600])
    elif hr["rc"] == 0 and not outcomes:
        broken.append("harness produced no outcomes")
    # the model's witnesses must show the class the theorems predict for the repaired tree
    expect = ["served-ok", "served-ok", "served-ok", "error", "contained-crash", "served-ok", "error"]
    wobs = [o["class"] for o in sorted(outcomes, key=lambda r: r["id"]) if o["vkind"] == "witness"]
    if hr["rc"] == 0 and nwit and wobs != expect[:len(wobs)]:
        # a crash/hang on a witness is already reported as an oracle failure with its replay
        if not any(w in ("HANG", "PROCESS-CRASH") for w in wobs):
            broken.append("replay of the model's witness files: implementation classes %s, the theorems predict %s" % (wobs, expect[:len(wobs)]))
    hist = {}
    for o in outcomes:
        hist["%s/%s" % (o["vkind"], o["class"])] = hist.get("%s/%s" % (o["vkind"], o["class"]), 0) + 1
    nontrivial = len(set((o["base"], o["vkind"], o["pos"], o["bit"]) for o in outcomes if o["vkind"] in ("flip", "trunc")))
    cov = dict(evaluations=len(outcomes), distinct_nontrivial=nontrivial, rule=RULE,
               samples=[{k: o[k] for k in ("vkind", "base", "pos", "bit", "class")} for o in outcomes[:3]],
               traces_validated_against_impl=ev["evaluated"], correspondence_mismatches=len(ev["bad"]),
               oracle_failures=len(failures), input_distribution=dict(sorted(hist.items(), key=lambda kv: -kv[1])),
               witnesses_replayed=nwit, trusted_base=TRUSTED,
               info=[{k: v for k, v in r.items() if k not in ("kind", "hex")} for r in recs if r.get("kind") == "info" and r.get("what") != "c11-bases"])
    if proofs.get("coqchk"):
        cov["coqchk"] = proofs["coqchk"]
    return vf.finish(ctx, "proof", proofs, cov, failures=failures, broken=broken,
                     assumptions=["shard files are not modified after being loaded (mmap)",
                                  "the theorems cover the modelled reader (header, TOC, section reads, delta decoders, verify, calculateStats, per-document reads, per-shard error handling of the sharded searcher); the rest of the reader is covered by the hunt only"])
