import os
import vf

FILES = ["web/zz_verif_c36_test.go", "web/zz_verif_c36gen_test.go", "web/zz_verif_c36routes_test.go", "web/zz_verif_c36resp_test.go", "web/zz_verif_c36funcs_test.go", "web/zz_verif_c36bodies_test.go"]

SPEC = dict(
    level="proof",
    harness=dict(pkg_dir="web", run="TestVerifC36$", files=FILES, n_quick=140, n_thorough=1500),
    runner=dict(imports=["From Coq Require Import String.", "From ZV Require Import Lib.Base Model.Web Model.WebResp Model.WebFuncs Model.WebRun."],
                case_type="c36xcase", mismatch_fn="c36x_mismatches", shard=150),
    extra_targets=("Model/WebRun.vo",),
    rule="A: 1-3 generated file matches x 0-3 line matches (line 0-12 bytes over an alphabet with markup, quotes, newline, invalid "
         "UTF-8; 0-4 bytes of spare capacity behind the line; fragments 72% sorted/non-overlapping/in-line, else random offsets "
         "-2..len+6 and lengths -1..5; sub-repository path a directory prefix / not a prefix / longer than the name; repeated "
         "checksums) through the real (*Server).formatResults with recover(); B: strings over specials, control bytes, invalid and "
         "non-character UTF-8, U+2028/9 and the payload list through html/template in 6 contexts; B2: URL-ish strings (schemes in mixed "
         "case, with tab/space/NUL, U+017F long s / U+212A Kelvin folds, slash before the colon, payloads) through html/template at "
         "the start of an href: was the value replaced by #ZgotmplZ; C: shape-identical benign/hostile "
         "corpus pairs (contents, file names, languages, repo/branch names, repo URLs, file/commit/line-fragment URL templates and the "
         "query are payloads; 60% of the files get 1-3 extra lines run ++ needle ++ run whose runs have lengths 0, L-1, L, L+1, L+2..61, 2L.. "
         "around the literal limits L of the templates' function calls (100) and consist of UTF-8 continuation bytes, lead bytes without "
         "continuation, 2/3/4-byte runes shifted by a phase so that the cut lands inside a rune, legacy double-byte text, 0xFF/0xFE; ASCII "
         "of the same lengths in the benign twin) served by the real web.Server in-process: results, repo list, search box, print, rejected query; "
         "responses tokenised by x/net/html; D: shards built by ShardBuilder with a sub-repository path longer than the file name. "
         "non-trivial = A: >= 2 fragments or a panic; B: the escaper changed the string; C: every page / snippet with > 3 tags; "
         "B2: the string contains ':'; E: every response; a sniffed type other than text/plain / octet-stream. "
         "F: min(2n, n+300) calls of the functions registered in web.Funcmap through reflection with recover(): literal arguments from a call site of "
         "the templates (75%) or generated, integers over small values / unit thresholds +-2 / int64 extremes / random 63-bit, strings of 1-3 "
         "runs of the 9 kinds (the pad kinds + newlines) with lengths around the literal limits and around the integer arguments of the "
         "same call (c-1, c, c+1, c+2..61, 2c.., 0..c), optional trailing newline; every F case is non-trivial.",
    trusted_base=["html/template's contextual analysis: which escaper is applied at which template position is read off the parse trees "
                  "after html/template rewrote them (translator), not modelled; that the escapers behave as Model/Web.v:esc on plain "
                  "strings is validated by the correspondence (part B) only",
                  "model tokenizer = golang.org/x/net/html Tokenizer (tag/attribute level; <script> treated like other raw-text "
                  "elements) — validated on every compared response and on hostile snippets (part C), not proved; browsers' HTML "
                  "parsing is represented by that tokenizer",
                  "translator harness/overlay/web/zz_verif_c36gen_test.go (go/types walk of the Execute data types, Funcmap result "
                  "types, URL-attribute heuristics) and the correspondence harness/oracle harness/overlay/web/zz_verif_c36_test.go",
                  "URL filter: Model/WebUrl.v:is_safe_url = html/template's isSafeURL (incl. strings.EqualFold's U+017F fold) is validated by "
                  "part B2 only; ua_scheme (URL Standard scheme parsing) is the user-agent assumption of C36_url_filter_harmless_partial; the "
                  "normaliser/attribute escaper after the filter are not in that theorem; Model/WebJs.v:js_lit (ES2019 string literal "
                  "scanner) is the assumption of C36_jsstr_literal_integrity",
                  "response classes: the user agent is the ASSUMPTION Model/WebResp.v:browser_markup (B1-B4: markup types are parsed as "
                  "markup, text/plain+nosniff and non-markup types never, text/plain without nosniff or no type is sniffed); that "
                  "Model/WebResp.v:detect equals http.DetectContentType (table generated from $GOROOT/src/net/http/sniff.go, matching "
                  "functions hand-modelled) and that net/http sniffs the first chunk when no type is set is validated by part E only",
                  "translator harness/overlay/web/zz_verif_c36routes_test.go (go/ast + go/types: mux registrations, response sinks "
                  "with syntactically dominating header operations, ResponseWriter followed through calls into zoekt packages; a "
                  "ResponseWriter stored in a struct or captured by an external library is not followed)",
                  "Go int arithmetic on LineOffset+MatchLength modelled in Z (no 64-bit overflow); methods callable from templates on "
                  "data values (time.Time.Format) are not walked by the sinks translator",
                  "Lib/RuneCount.v rune_width as utf8.DecodeRune's width (used by esc_nospace only)",
                  "template functions: Model/WebFuncs.v:apply_func equals the closures registered in web.Funcmap — validated by the direct-call "
                  "correspondence (part F) and, for bodies inside the translated Go subset, by the bounded-exhaustive comparison with "
                  "Generated/WebFuncBodies.v (translator zz_verif_c36bodies_test.go, interpreter Model/WebFuncsAst.v: fmt.Sprintf %d/%s, "
                  "strings.TrimSuffix, utf8.RuneStart as modelled there), not proved; the call-site translator (zz_verif_c36funcs_test.go: parse "
                  "trees of Top's templates, FuncMap composite literals via go/types); that a call's data arguments have the parameter kinds "
                  "is left to text/template's run-time check"],
    assumptions=["html/template applies the escapers recorded in its rewritten parse trees (third-party, trusted)",
                 "|LineOffset|, |MatchLength| < 2^62"],
)


def _gen(ctx):
    g = vf.go_harness(ctx, "web", "TestVerifC36Gen$", FILES, 1, out_name="gen.jsonl", timeout=600)
    texts = {r["file"]: r["text"] for r in g["records"] if r.get("kind") == "gen"}
    gen_dir = os.path.join(vf.COQ, "Generated")
    ok = g["rc"] == 0 and all(f in texts for f in ("WebPages.v", "WebSinks.v", "WebRoutes.v", "WebFuncs.v", "WebFuncBodies.v"))
    if not ok:
        # make the obligations fail loudly instead of silently re-using stale tables
        ctx.notes.append("translator failed: " + g["log"][-1500:])
        texts = {
            "WebPages.v": "(* translator failed *)\nFrom Coq Require Import String.\nFrom ZV Require Import Lib.Base Model.Web.\n"
                          "Definition page_results : page := PSlot KUnknown.\n"
                          "Definition pages : list (string * page) := [(\"translator-failed\"%string, page_results)].\n",
            "WebSinks.v": "(* translator failed *)\nFrom Coq Require Import String List Bool.\nImport ListNotations.\nOpen Scope string_scope.\n"
                          "Inductive tykind := TString | TInt | TBool | TFloat | TTime | TSafeContent | TInterface | TFunc | TOther.\n"
                          "Definition execs : list (string * string * string) := [].\n"
                          "Definition sinks : list (string * string * tykind) := [(\"translator failed\", \"\", TOther)].\n"
                          "Definition funcmap_results : list (string * string * tykind) := [].\n"
                          "Definition url_slots : list (string * string * bool * bool) := [].\n",
            "WebRoutes.v": "(* translator failed *)\nFrom Coq Require Import String.\nFrom ZV Require Import Lib.Base Model.Web Model.WebResp.\n"
                           "Definition routes : list route := [{| rt_pat := \"translator-failed\"; rt_handler := \"\"; rt_guard := \"\" |}].\n"
                           "Definition resp_sinks : list rsink := [].\n"
                           "Definition sniff_sigs : list sniffsig := [SUnknownSig \"translator failed\"].\n",
            "WebFuncs.v": "(* translator failed *)\nFrom Coq Require Import String.\nFrom ZV Require Import Lib.Base Model.Web Model.WebFuncs.\n"
                          "Local Open Scope string_scope.\n"
                          "Definition funcmap : list fdecl := [{| fd_name := \"translator-failed\"; fd_params := [TyUnknown]; fd_results := [TyUnknown] |}].\n"
                          "Definition func_calls : list fsite := [{| fs_tmpl := \"translator-failed\"; fs_func := \"\"; fs_args := [] |}].\n",
            "WebFuncBodies.v": "(* translator failed *)\nFrom Coq Require Import String.\n"
                               "From ZV Require Import Lib.Base Model.Web Model.WebFuncs Model.WebFuncsAst.\n"
                               "Definition func_bodies : list gfunc := [{| gf_name := \"translator-failed\"%string; gf_params := []; "
                               "gf_body := None; gf_why := \"\"%string |}].\n",
        }
    for name, text in texts.items():
        vf.write_if_changed(os.path.join(gen_dir, name), text)
    return ok, g


def run(ctx):
    ok, g = _gen(ctx)
    for r in g["records"]:
        if r.get("kind") == "info" and "func_bodies" in r:
            fb = r["func_bodies"]
            ctx.notes.append("template functions translated from source and compared with the model by computation: %s; outside the "
                             "translated Go subset (tied by the correspondence only): %s" % (", ".join(fb.get("translated") or []) or "none",
                             "; ".join("%s (%s)" % kv for kv in sorted((fb.get("opaque") or {}).items())) or "none"))
    rc = vf.standard_check(ctx, SPEC)
    if not ok:
        print("note: the C36 translator failed (obligations over Generated/WebPages.v, WebSinks.v, WebRoutes.v were made to fail): " + g["log"][-600:])
    return rc
