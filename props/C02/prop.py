import os
import vf

FILES = ["index/zz_verif_c03_test.go", "index/zz_verif_c02_test.go"]   # C02 reuses the helpers of the C03 harness

SPEC = dict(
    level="proof",
    harness=dict(pkg_dir="index", run="TestVerifC02$", files=FILES, n_quick=30, n_thorough=600),
    runner=dict(imports=["From ZV Require Import Lib.Base Model.Lines Model.Ranges."], case_type="c02case",
                mismatch_fn="c02_mismatches", shard=3000),
    rule="once per run: 7 deterministic corner shards of the rune->byte translation (corpus ending on a multiple of runeOffsetFrequency, "
         "> 75 four-byte runes after a sample, documents ending in truncated lead bytes followed by continuation bytes, samples on "
         "document starts, empty documents) with findOffset at 0, 1, around every multiple of the frequency and at the end. "
         "once per run, END TO END through Search: 57 deterministic documents (60..250 runes of 1, 2, 3 or 4 bytes in front of a match, i.e. "
         "matches right before / on / after multiples of runeOffsetFrequency and > 75 four-byte runes between a sample and a match; a "
         "900-rune document of mixed 1-4-byte runs with a match every 37 runes), each as a shard of its own and all in one shard, plus 21 "
         "such file names; content and file-name substring queries, case sensitive and insensitive, LineMatches and ChunkMatches: the "
         "ranges must be the scanning oracle's leftmost non-overlapping occurrences and every document with an occurrence must be reported; "
         "the match starts also go through findOffset (G_find). "
         "once per run, word-boundary regexps \\bLIT\\b END TO END through Search: 31 literals of every first/last byte class combination "
         "(word..word get, non-word..word .get ->next $x, word..non-word get( x. next->, non-word..non-word . -> (a) and literals holding a "
         "newline) against 25 document shapes (LIT, LITLIT, LITLITLIT, LITLITLITLIT, runs at the start / end of the text, one word / one "
         "non-word byte in front, behind and between two occurrences, upper-case variants, truncated occurrences, overlapping occurrences), "
         "as contents and as file names, case sensitive (wordMatchTree fast path) and insensitive (regexp engine), LineMatches and "
         "ChunkMatches: the reported ranges must be exactly stdlib regexp FindAllIndex on the text (in line mode broken on newlines) and every "
         "document with a match must be reported; the real wordMatchTree.matches on every document's bytes (G_word), the reported chunk-mode "
         "ranges against gather(word_cands) of the model (G_wordsearch), all 256 byte values through the scan loop's class test. "
         "per iteration: one generated literal (first and last byte class drawn independently, 1-5 bytes over a small alphabet incl. "
         "newline and multi-byte runes) against 4 random token sequences (the literal x4, separators of both classes, prefixes/suffixes of "
         "the literal, its upper-case form) with the same oracle (30%: also as file names); "
         "6 generated candidate sets (content/file-name mixes, equal offsets, nested, overlapping, empty) through "
         "the real gatherMatches on a tree or(substring, and(word, regexp), symbol-regexp) of the four atom kinds gatherMatches collects from; 3 candidate lists (40% lengthened, 30% newline-heavy "
         "contents) through breakMatchesOnNewlines; a generated sampling table through "
         "makeRuneOffsetMap + 4 lookups (incl. offsets on multiples of 100); a 1-4 document shard of runs of 1..4-byte runes "
         "(runs of 60-140 wide runes, 10% plain ASCII) with the builder's stored samples read back, 6 findOffset calls on "
         "content and 6 on file names (offsets on / just before multiples of runeOffsetFrequency); 4 single-substring / "
         "or-of-substrings / single-regexp (incl. matches continuing after a newline) queries end-to-end in LineMatches and "
         "ChunkMatches mode. non-trivial = candidates dropped or > 2, a candidate containing a newline, "
         "non-empty correction table, non-ASCII shard, a document with more than one \\bLIT\\b match.",
    trusted_base=["correspondence harness harness/overlay/index/zz_verif_c02_test.go (+ helpers of zz_verif_c03_test.go): generator, Go oracle "
                  "(bytes scan for substrings, Go regexp FindAllIndex for regexps incl. \\bLIT\\b)",
                  "hand-written model coq/Model/Ranges.v tied by differential correspondence; constants runeOffsetFrequency and the "
                  "findOffset read window are regenerated from the source into coq/Generated/RangesConsts.v on every run; the word-character table of "
                  "bits.go characterClass is regenerated (by evaluating it on all 256 byte values) into coq/Generated/RangesWordBytes.v and the "
                  "model's is_word_byte is PROVED equal to it (C02_word_class_table)",
                  "sort.Sort(sortByOffsetSlice) modelled as insertion sort: only the key sequence (fileName, offset, size) is observable and "
                  "the sorted key sequence is unique",
                  "WHICH candidates an atom produces (all occurrences / engine matches) is C01's model; here they are hypotheses of the theorems "
                  "— except for the word fast path (wordMatchTree.matches), whose scan loop is modelled here (Model/Ranges.v word_scan, tied by "
                  "G_word / G_wordsearch) and proved equal to the successive matches of \\bLIT\\b; that this byte-level definition of a match "
                  "(occurrence + ASCII word/non-word transition at both ends, text ends non-word) is what the regexp engine computes is tied by the "
                  "Go oracle (stdlib regexp on the same texts)",
                  "uint32 offsets modelled as nat (sizes < 2^32)"],
    assumptions=["|content| < 2^32 (offsets are uint32 in Go, nat in the model)",
                 "findOffset is called with rune offsets strictly inside the document (candidate starts: both call sites in matchtree.go); the read is clipped to the document, so nothing is assumed about the bytes behind the content section"],
)


def write_consts(c):
    """translator output: constants of the source -> coq/Generated/RangesConsts.v"""
    text = ("(* generated by props/C02/prop.py from /repo/index (shard_builder.go: const runeOffsetFrequency; contentprovider.go: "
            "findOffset's readContentSlice window); do not edit *)\n"
            "Definition rune_offset_frequency : nat := %d.\n"
            "Definition find_offset_window_factor : nat := %d.\n" % (int(c["rune_offset_frequency"]), int(c["find_offset_window_factor"])))
    vf.write_if_changed(os.path.join(vf.COQ, "Generated", "RangesConsts.v"), text)


def write_word_bytes(rec):
    """translator output: the table of bits.go characterClass (obtained by running it on every byte value) ->
    coq/Generated/RangesWordBytes.v; Proofs/RangesWord.v proves the model's is_word_byte equal to it"""
    wb = rec.get("word_bytes")
    if wb is None:
        return
    text = ("(* generated by props/C02/prop.py from /repo/index/bits.go characterClass (evaluated on every byte value by the harness); "
            "do not edit *)\nFrom Coq Require Import NArith List.\nImport ListNotations.\n"
            "Definition word_bytes : list N := [%s]%%N.\n" % "; ".join(str(int(b)) for b in wb))
    vf.write_if_changed(os.path.join(vf.COQ, "Generated", "RangesWordBytes.v"), text)


def run(ctx):
    # ONE `go test` invocation: TestVerifC02 first emits the translator record (constants of the tree under test), then the
    # cases.  The constants must be written before the proofs are built, so the harness runs first and standard_check
    # gets its result handed over instead of running it a second time.
    h = SPEC["harness"]
    n = ctx.n(h["n_quick"], h["n_thorough"])
    hr = vf.go_harness(ctx, h["pkg_dir"], h["run"], h["files"], n, timeout=900 if ctx.tier == "quick" else 3600)
    info = [r for r in hr["records"] if r.get("kind") == "info" and r.get("consts")]
    extra_broken = []
    if not info and hr["rc"] != 0:
        # the main test did not get as far as the translator record (e.g. it does not compile against a changed tree):
        # try the translator test alone
        hc = vf.go_harness(ctx, "index", "TestVerifC02Consts$", FILES, 1, out_name="consts.jsonl")
        info = [r for r in hc["records"] if r.get("kind") == "info" and r.get("consts")]
    for r in hr["records"]:
        if r.get("kind") == "info" and r.get("word_bytes") is not None:
            write_word_bytes(r)
            break
    if info:
        write_consts(info[0])
        write_word_bytes(info[0])
    else:
        # The window expression of findOffset could not be evaluated from the source: the generated constants stay as they
        # are and the run cannot be OK; the oracle results of the main test (corner shards, end-to-end ranges) are still
        # reported, so a concrete failing input wins over this message.
        extra_broken.append("translator: cannot evaluate the read window of findOffset (readContentSlice(byteOff, <constant>)) from "
                            "index/contentprovider.go; coq/Generated/RangesConsts.v not regenerated: " + hr["log"][-600:])
    orig, orig_finish = vf.go_harness, vf.finish
    vf.go_harness = lambda *a, **k: hr
    if extra_broken:
        vf.finish = lambda c, level, proofs, cov, failures=(), broken=(), **kw: orig_finish(
            c, level, proofs, cov, failures=failures, broken=list(broken) + extra_broken, **kw)
    try:
        return vf.standard_check(ctx, SPEC)
    finally:
        vf.go_harness, vf.finish = orig, orig_finish
