import json
import os
import vf

HARNESS = dict(pkg_dir="index", run="TestVerifC01$", files=["index/zz_verif_c01_test.go"], n_quick=300, n_thorough=4000)
RUNNER = dict(imports=["From ZV Require Import Lib.Base Model.SearchCore."], case_type="c01case", shard=200)
RULE = ("random corpora (1-4 repositories in simple / compound shards, 28 % of the repositories of multi-repo shards tombstoned, 1-10 documents over a small token alphabet with forced "
        "repeats and overlaps, multi-byte runes, texts crossing the 100-rune sampling boundary, empty and < 3 rune files, skipped "
        "documents, repository and file tombstones, 0-5 sorted symbol sections per document via Document.Symbols: adjacent, at offset 0, up to the end, "
        "inside multi-byte runs, rarely empty) written with the real ShardBuilder and read back with NewSearcher, x query "
        "trees of depth <= 4 over all modelled atom kinds incl. Symbol{Substring} / Symbol{Regexp} (14 % of the atoms; patterns = a section text, inside "
        "one, straddling / just outside a section boundary) 30 % of the documents line-structured (1-4 lines of 1-4 words over a 9-word vocabulary, the word starting a line repeated alone on another line); "
        "18 % of the atoms (+ 22 % of the regexp atoms) content regexps lit SEP lit (SEP lit) with 26 newline-capable separators ((?s:.*), (?s:.)*, (?s:.+), [\\s\\S]*, (?:.|\\n)*, [^q]*, \\s*, \\n, .*\\n.*, flag groups (?s (?i (?m (?U around the star or the whole regexp ...) and 12 same-line ones (.*, [^\\n]*, (?U:.*), (?m:.*) ...), "
        "the literals taken from the same line / adjacent lines / the first and the last line / reversed (first word at column 0, last word at the line end or at the end of a file without final newline, random cuts), literals wrapped in (?i: ), ( ), (?m:^ ), (?m: $); "
        "30 % of the regexps parsed only (gRPC path: no OptimizeRegexp), 6 % of the atoms raw counted repetitions (L){2,} {2} {2,3} {1,2}; on shards with a tombstoned repository 16 % of the atoms RepoSet / RepoIDs filters; "
        "12 % of the atoms content regexps of the same-line shape (55 % of them W0.*W1 with W0 at column 0 and more frequent than W1) or lit.*lit(.*lit) with the literals taken from ONE line (first word at column 0 / last word at the line end / random cuts, sometimes reversed) "
        "(patterns are substrings of real texts, case-flipped, boundary-straddling "
        "or noise; RepoSet / RepoIDs filters often contain every tombstoned repository plus as many alive ones as make matching = alive); non-trivial = the query selects a proper non-empty subset of the documents.")
TRUSTED = ["translator/c01distill (go/ast over regexpToMatchTreeRecursive's `switch r.Op`: operators with a clause, the OpStar rule, the final return -> Generated/DistillSwitch.v); the per-operator bodies other than OpStar's are tied by the differential run only",
           "correspondence harness harness/overlay/index/zz_verif_c01_test.go (generator, read-back of the index, serialiser, Go oracle)",
           "texts modelled as rune lists: byte-level operations of the code on valid UTF-8 are taken to coincide with the rune-level model",
           "regexp engine, unicode.ToLower and unicode.SimpleFold are external (Section variables; tables recorded from Go in the run)",
           "posting lists at the level of sorted position lists (their byte coding is C09; only the byte SIZE of the delta-varint coding is modelled, for the trigram frequencies); nextFileIndex's galloping search as a linear scan",
           "symbol sections: the shard stores byte offsets, the model rune offsets - converted by the harness after reading the sections back from the shard; the symbol nodes' borrowed docIterator is abstracted in the model (prefilter clause of re_okb checked per case)",
           "internal observable through the overlay: per substring atom (leftPad, rightPad, distance, freq=0) of the implementation's match tree is compared with the model's trigram selection"]
ASSUME = ["documents are valid UTF-8", "symbol sections sorted, non-overlapping, inside the content (enforced by ShardBuilder.Add; checked per case)", "total runes + pattern length < 2^32",
          "case-insensitive atoms: lower-casing and simple folding agree on the runes involved (otherwise C08)"]


def regen_distill_switch(ctx):
    """Regenerate coq/Generated/DistillSwitch.v from index/eval.go (regexpToMatchTreeRecursive) of the tree under check."""
    rc, out = vf.sh(["go", "run", os.path.join(vf.ROOT, "translator", "c01distill", "main.go"), vf.REPO], cwd=ctx.tmp, env=vf.go_env(), timeout=300)
    if rc != 0 or "Definition star_rules" not in out:
        return "translator/c01distill failed (rc=%d): %s" % (rc, out[-1200:])
    gen = out[out.index("(* GENERATED"):]
    vf.write_if_changed(os.path.join(vf.COQ, "Generated", "DistillSwitch.v"), gen)
    return None


def run(ctx):
    pid = ctx.pid
    broken, failures = [], []
    terr = regen_distill_switch(ctx)
    if terr:
        broken.append(terr)
    proofs = vf.coq_props(ctx, pid)
    aok, aout = vf.audit()
    if not aok:
        proofs["ok"] = False
        proofs["discharged"] = 0
        broken.append("audit: " + aout[-800:])
    if ctx.tier == "thorough" and proofs["ok"]:
        cok, cout = vf.coqchk(pid)
        proofs["coqchk"] = cout[-1500:]
        if not cok:
            proofs["ok"] = False
            broken.append("coqchk rejects Props/%s.vo: %s" % (pid, cout[-800:]))
    if not proofs["ok"]:
        broken.append("proof obligations of Props/%s.v do not check: %s" % (pid, (proofs.get("broken_files") or proofs.get("nonstd_axioms") or proofs["log"][-800:])))
    h = HARNESS
    n = ctx.n(h["n_quick"], h["n_thorough"])
    hr = vf.go_harness(ctx, h["pkg_dir"], h["run"], h["files"], n, timeout=900 if ctx.tier == "quick" else 3600)
    recs = hr["records"]
    cases = [r for r in recs if r.get("kind") == "case"]
    failed_cases = set()
    for r in recs:
        if r.get("kind") == "oracle_fail":
            failures.append(dict(key=r.get("key", "?"), what=r.get("what", ""), replay=r.get("replay")))
            failed_cases.add((r.get("replay") or {}).get("case"))
    if hr["rc"] != 0:
        broken.append("harness %s failed (rc=%d): %s" % (h["run"], hr["rc"], hr["log"][-1500:]))
    ev = dict(ok=True, bad=[], evaluated=0, log="")
    mech_bad = []
    leaf_bad = []
    hyp_bad = []
    if cases:
        ev = vf.coq_eval_cases(ctx, pid, RUNNER["imports"], RUNNER["case_type"], "c01_mismatches", [c["coq"] for c in cases], shard=RUNNER["shard"])
        if not ev["ok"]:
            broken.append("model evaluation failed: " + ev["log"][-1500:])
        if ev["bad"]:
            sub = [cases[i] for i in ev["bad"]]
            ev2 = vf.coq_eval_cases(ctx, pid, RUNNER["imports"], RUNNER["case_type"], "c01_mech_mismatches", [c["coq"] for c in sub], shard=RUNNER["shard"], tag="m")
            if not ev2["ok"]:
                broken.append("model evaluation failed: " + ev2["log"][-1500:])
            mech_bad = [ev["bad"][j] for j in ev2["bad"]]
            ev3 = vf.coq_eval_cases(ctx, pid, RUNNER["imports"], RUNNER["case_type"], "c01_hyp_mismatches", [c["coq"] for c in sub], shard=RUNNER["shard"], tag="h")
            if not ev3["ok"]:
                broken.append("model evaluation failed: " + ev3["log"][-1500:])
            hyp_bad = [ev["bad"][j] for j in ev3["bad"]]
            ev4 = vf.coq_eval_cases(ctx, pid, RUNNER["imports"], RUNNER["case_type"], "c01_leaf_mismatches", [c["coq"] for c in sub], shard=RUNNER["shard"], tag="l")
            if not ev4["ok"]:
                broken.append("model evaluation failed: " + ev4["log"][-1500:])
            leaf_bad = [ev["bad"][j] for j in ev4["bad"]]
            for i in ev["bad"]:
                c = cases[i]
                smp = c.get("sample") or {}
                if i in hyp_bad:
                    broken.append("hypothesis re_okb of C01_search_exact_partial is violated on case %s: the regexp engine matches a text on which the distilled literal tree does not hold (or the engine's verdict on \\bLIT\\b differs from the reference semantics)" % json.dumps(smp, default=str)[:1500])
                    if smp.get("case") not in failed_cases:
                        failures.append(dict(key="prefilter-obligation:" + ",".join(sorted(x for x in c.get("class", []) if "=" not in x)),
                                             what="regexp prefilter obligation violated", replay=smp))
                elif i in leaf_bad:
                    broken.append("correspondence c01_verdict=4: the trigram selection of a substring atom (leftPad / rightPad / distance / freq=0: iterateNgrams, findSelectiveNgrams) differs between model and implementation on case %s" % json.dumps(smp, default=str)[:1500])
                elif i in mech_bad:
                    broken.append("correspondence c01_verdict=1: the model's search mechanism and indexData.Search disagree on case %s" % json.dumps(smp, default=str)[:1500])
                elif smp.get("case") not in failed_cases:
                    # the faithful mechanism model reproduces the implementation, and both differ from the specification
                    failures.append(dict(key="model-spec:" + ",".join(sorted(x for x in c.get("class", []) if "=" not in x)),
                                         what="Search differs from the specification evaluator of the model (reproduced by the mechanism model)",
                                         replay=smp))
    elif hr["rc"] == 0:
        broken.append("harness produced no cases")
    cov = dict(
        evaluations=len(cases),
        distinct_nontrivial=vf.distinct_nontrivial(cases),
        rule=RULE,
        samples=[c.get("sample") for c in cases[:3]] or [],
        traces_validated_against_impl=ev["evaluated"],
        correspondence_mismatches=len(mech_bad) + (len(leaf_bad) if ev["bad"] else 0),
        spec_mismatches_reproduced_by_model=len(ev["bad"]) - len(mech_bad) - len(leaf_bad) - len(hyp_bad),
        oracle_failures=len(failures),
        input_distribution=vf.histogram(cases, "class"),
        trusted_base=TRUSTED,
    )
    if proofs.get("coqchk"):
        cov["coqchk"] = proofs["coqchk"]
    for r_ in recs:
        if r_.get("kind") == "info":
            cov.setdefault("info", []).append({k: v for k, v in r_.items() if k != "kind"})
    if "info" in cov:
        cov["info"] = cov["info"][:20]
    return vf.finish(ctx, "proof", proofs, cov, failures=failures, broken=broken, assumptions=ASSUME)
