import vf

SPEC = dict(
    level="proof",
    harness=dict(pkg_dir="index", run="TestVerifC03$", files=["index/zz_verif_c03_test.go"],
                 n_quick=150, n_thorough=3000),
    runner=dict(imports=["From ZV Require Import Lib.Base Model.Lines."], case_type="c03case",
                mismatch_fn="c03_mismatches", shard=3000),
    rule="generated layouts (0-7 lines over a word alphabet with 2/3/4-byte runes, empty lines, CRLF, optional trailing "
         "newline, 25% with stray invalid UTF-8 bytes) x (a) direct calls of newLinesIndices, newlines.atOffset/lineStart/"
         "offsetRangeToLineRange/getLines (arguments beyond both file ends), utf8.RuneCount on random bytes, columnHelper.get "
         "sequences (monotone and not), breakMatchesOnNewlines, chunkCandidates, contentProvider.fillMatches/"
         "fillContentMatches/fillChunkMatches on a one-document shard with sorted, unsorted, overlapping, empty, multi-line and "
         "file-name candidates, context 0..3 (fillContentMatches without newline splitting is checked against the multi-line "
         "specification lm_ok_ml when its hypotheses hold); (b) end-to-end Search (27 substring/regexp/file-name queries, LineMatches and "
         "ChunkMatches, context 0..3) on 1-3 document shards. non-trivial = more than one newline / line / chunk / "
         "candidate involved (per-kind rule in the harness).",
    trusted_base=["correspondence harness harness/overlay/index/zz_verif_c03_test.go (generator, canonicalisation: matches "
                  "re-sorted by position because Search orders them by score; Go oracle)",
                  "hand-written model coq/Model/Lines.v tied by differential correspondence (not by translation); sort.Search is "
                  "modelled as the same binary search (Lib/GoSearch.v) and proved equal to the least-index specification",
                  "utf8.RuneCount modelled by the RFC 3629 width table of Lib/RuneCount.v (validated against unicode/utf8 by the K_rc cases)",
                  "uint32 offsets modelled as nat: statements assume |content| < 2^32; scores / symbol info / BestLineMatch are not modelled (Go oracle only)"],
    assumptions=["|content| < 2^32 (offsets are uint32 in Go)", "NumContextLines >= 0"],
)

def run(ctx):
    return vf.standard_check(ctx, SPEC)
