import vf

SPEC = dict(
    level="proof",
    harness=dict(pkg_dir="cmd/zoekt-local-sync", run="TestVerifC33$", files=["cmd/zoekt-local-sync/zz_verif_c33_test.go"],
                 n_quick=90, n_thorough=800, pkg_name="main"),
    runner=dict(imports=["From ZV Require Import Lib.Base Model.LocalSync Model.LocalSyncIdem."], case_type="lscase3",
                mismatch_fn="ls3_mismatches", shard=100),
    rule="histories over a scratch world (roots r1, r2, r1/team, r3.git; work/bare/empty/broken git repositories copied from "
         "git-CLI templates; add, move between roots keeping the name, rename, new commit, zoekt.web-url change, delete, clutter) "
         "and one index directory (missing/empty/populated by earlier real runs, shards of other tools, foreign files, corrupt "
         "shard, multi-shard repositories); every step runs the real execute() as preview, then with -f, then as preview AGAIN on the state the forced "
         "run left (all three outputs and error classes go to the model) (sync with varying root "
         "sets incl. overlapping/duplicate/missing roots, or remove with name/source selectors); non-trivial = the preview "
         "announces at least one removal or indexing, or fails. 60 % of the histories start from an index brought up to date by a "
         "set-up run; class labels decision=... record which IndexState branch each previewed decision came from.",
    trusted_base=["correspondence harness harness/overlay/cmd/zoekt-local-sync/zz_verif_c33_test.go (generator, output parser, snapshots, Go oracle)",
                  "shard file naming (index.shardName: QueryEscape, injective below 200 bytes) abstracted to the key (name, number)",
                  "IndexState's comparisons other than the name abstracted to one fingerprint (options hash, HEAD commit, zoekt.web-url)",
                  "file-system operations succeed (no faults/crashes/concurrent writers); paths absolute and clean; no symlinks"],
    assumptions=["no file-system faults, no concurrent writer (the forced run holds the directory lock)",
                 "repository names below 200 bytes (shard file names injective)"],
)

def run(ctx):
    return vf.standard_check(ctx, SPEC)
