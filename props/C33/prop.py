import os
import vf

FILES = ["cmd/zoekt-local-sync/zz_verif_c33_test.go", "cmd/zoekt-local-sync/zz_verif_c33gen_test.go"]

SPEC = dict(
    level="proof",
    harness=dict(pkg_dir="cmd/zoekt-local-sync", run="TestVerifC33$", files=FILES,
                 n_quick=90, n_thorough=800, pkg_name="main"),
    runner=dict(imports=["From ZV Require Import Lib.Base Model.LocalSync Model.LocalSyncIdem."], case_type="lscase3",
                mismatch_fn="ls3_mismatches", shard=100),
    extra_targets=("Model/LocalSyncIdem.vo",),
    rule="histories over a scratch world (roots r1, r2, r1/team, r3.git; work/bare/empty/broken git repositories copied from "
         "git-CLI templates; add, move between roots keeping the name, rename, new commit, zoekt.web-url change, delete, clutter) "
         "and one index directory (missing/empty/populated by earlier real runs, shards of other tools, foreign files, corrupt "
         "shard, multi-shard repositories); every step runs the real execute() as preview, then with -f, then as preview AGAIN on the state the forced "
         "run left (all three outputs and error classes go to the model) (sync with varying root "
         "sets incl. overlapping/duplicate/missing roots, or remove with name/source selectors); non-trivial = the preview "
         "announces at least one removal or indexing, or fails. 60 % of the histories start from an index brought up to date by a "
         "set-up run; class labels decision=... record which IndexState branch each previewed decision came from.",
    trusted_base=["translator harness/overlay/cmd/zoekt-local-sync/zz_verif_c33gen_test.go (go/ast: calls of os.* outside a read-only whitelist, "
                  "gitindex.IndexGitRepo, index.NewBuilder; syntactic dominance by conditions mentioning force/dry; calls through function "
                  "values, methods of other packages and goroutines are not followed)",
                  "correspondence harness harness/overlay/cmd/zoekt-local-sync/zz_verif_c33_test.go (generator, output parser, snapshots, Go oracle)",
                  "shard file naming (index.shardName: QueryEscape, injective below 200 bytes) abstracted to the key (name, number)",
                  "IndexState's comparisons other than the name abstracted to one fingerprint (options hash, HEAD commit, zoekt.web-url)",
                  "file-system operations succeed (no faults/crashes/concurrent writers); paths absolute and clean; no symlinks"],
    assumptions=["no file-system faults, no concurrent writer (the forced run holds the directory lock)",
                 "repository names below 200 bytes (shard file names injective)"],
)

def _gen(ctx):
    """regenerate coq/Generated/LocalSyncSinks.v (fs-mutating calls of cmd/zoekt-local-sync + indexGitRepo's DryRun gate) from the checked tree"""
    g = vf.go_harness(ctx, "cmd/zoekt-local-sync", "TestVerifC33Gen$", FILES, 1, out_name="gen.jsonl", timeout=600, pkg_name="main")
    texts = {r["file"]: r["text"] for r in g["records"] if r.get("kind") == "gen"}
    ok = g["rc"] == 0 and "LocalSyncSinks.v" in texts
    if not ok:  # make the obligation over the table fail loudly instead of silently re-using a stale table
        ctx.notes.append("translator failed: " + g["log"][-1500:])
        texts = {"LocalSyncSinks.v": "(* translator failed *)\nFrom Coq Require Import String List.\nImport ListNotations.\nLocal Open Scope string_scope.\n"
                 "Definition ls_sinks : list (string * string * string) := [(\"translator failed\", \"\", \"\")].\n"
                 "Definition ls_sink_calls : list (string * string * string * string) := [].\n"
                 "Definition ls_gate : bool * list string := (false, []).\n"}
    vf.write_if_changed(os.path.join(vf.COQ, "Generated", "LocalSyncSinks.v"), texts["LocalSyncSinks.v"])
    return ok, g


def run(ctx):
    ok, g = _gen(ctx)
    rc = vf.standard_check(ctx, SPEC)
    if not ok:
        print("note: the C33 translator failed (the obligation over Generated/LocalSyncSinks.v was made to fail): " + g["log"][-600:])
    return rc
