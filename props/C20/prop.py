import vf

SPEC = dict(
    level="proof",
    harness=dict(pkg_dir="search", run="TestVerifC20$", files=["search/zz_verif_c20_test.go"],
                 n_quick=250, n_thorough=4000),
    runner=dict(imports=["From ZV Require Import Lib.Base Model.Sched."], case_type="c20case",
                mismatch_fn="c20_mismatches", shard=250),
    rule="one case = one trial: a fresh newMultiScheduler (capacity in {1,2,3,4,5,8}, batchdiv in {default,1,2,3}, "
         "interactiveDuration in {0,30us,300us,1h}) driven by 2..16 goroutines through Acquire/Yield/Release in 3 stages with "
         "pre-cancelled, timer-cancelled and driver-cancelled contexts; slots carried over stage ends; the real occupancy of both "
         "semaphores is probed at each quiescent stage end. The whole logged trace must be accepted by the model's `accepts`. "
         "Non-trivial = at least one real move to the batch queue (or failed move) and the interactive queue was full or an "
         "Acquire was cancelled while waiting.",
    trusted_base=["correspondence harness harness/overlay/search/zz_verif_c20_test.go (driver, logging discipline: releases logged "
                  "before the call, grants after the return, Yield classified at return; Go replay oracle)",
                  "golang.org/x/sync/semaphore.Weighted modelled by its contract (counter with capacity, Acquire fails only with "
                  "ctx.Err(), Release panics on underflow); FIFO fairness not modelled (superset of behaviours)",
                  "time is abstracted: the time slice elapsing is an event that may happen at any moment after Acquire"],
    assumptions=["callers follow the documented protocol: Yield is not called concurrently with itself or Release, Release is the "
                 "last call on a process",
                 "capacity >= 1"],
)

def run(ctx):
    return vf.standard_check(ctx, SPEC)
