import os

import vf

SPEC = dict(
    level="proof",
    harness=dict(pkg_dir="search", run="TestVerifC20$", files=["search/zz_verif_c20_test.go"],
                 n_quick=250, n_thorough=4000),
    runner=dict(imports=["From ZV Require Import Lib.Base Model.Sched."], case_type="c20case",
                mismatch_fn="c20_mismatches", shard=250),
    rule="capacity sweep (deterministic, every run): newMultiScheduler for every capacity 1..40 x batchdiv in {default,1..8,16,64}, both "
         "semaphores probed, empty trace, non-trivial = capacity is not a multiple of batchdiv (the rounding matters). Then "
         "one case = one trial: a fresh newMultiScheduler (capacity in {1,2,3,4,5,8}, batchdiv in {default,1,2,3}, "
         "interactiveDuration in {0,30us,300us,1h}) driven by 2..16 goroutines through Acquire/Yield/Release in 3 stages with "
         "pre-cancelled, timer-cancelled and driver-cancelled contexts; slots carried over stage ends; the real occupancy of both "
         "semaphores is probed at each quiescent stage end. The whole logged trace must be accepted by the model's `accepts`. "
         "Non-trivial = at least one real move to the batch queue (or failed move) and the interactive queue was full or an "
         "Acquire was cancelled while waiting.",
    trusted_base=["translator/schedconsts (reads default batchdiv and the batch-size computation of newMultiScheduler from search/sched.go "
                  "into coq/Generated/SchedConsts.v on every run; Go `/` on int64 = Z.quot)",
                  "correspondence harness harness/overlay/search/zz_verif_c20_test.go (driver, logging discipline: releases logged "
                  "before the call, grants after the return, Yield classified at return; Go replay oracle)",
                  "golang.org/x/sync/semaphore.Weighted modelled by its contract (counter with capacity, Acquire fails only with "
                  "ctx.Err(), Release panics on underflow); FIFO fairness not modelled (superset of behaviours)",
                  "time is abstracted: the time slice elapsing is an event that may happen at any moment after Acquire"],
    assumptions=["callers follow the documented protocol: Yield is not called concurrently with itself or Release, Release is the "
                 "last call on a process",
                 "capacity >= 1"],
)

GEN = os.path.join(vf.COQ, "Generated", "SchedConsts.v")


def regen(ctx):
    """coq/Generated/SchedConsts.v (default batchdiv + the computation of the batch semaphore's size) from the
    search/sched.go of the tree under test.  Returns (note for the evidence, broken message or None)."""
    rc, out = vf.sh(["go", "run", os.path.join(vf.ROOT, "translator", "schedconsts", "main.go"), vf.REPO],
                    cwd=vf.REPO, env=vf.go_env(), timeout=300)
    if rc != 0 or "Definition batch_cap_src" not in out or "Definition default_batchdiv" not in out:
        # a shape of newMultiScheduler the translator does not read: the formula theorem then speaks about the last
        # generated computation only; the capacity sweep still compares the real semaphore sizes with it
        return "NOT regenerated (translator/schedconsts: %s); tie by the capacity sweep only" % out.strip()[-300:], None
    start = out.index("(* GENERATED")
    with vf._Lock("coq"):
        changed = vf.write_if_changed(GEN, out[start:])
    return "regenerated from %s/search/sched.go%s" % (vf.REPO, " (content changed)" if changed else ""), None


def run(ctx):
    note, _ = regen(ctx)
    orig = vf.finish

    def finish2(ctx_, level, proofs, coverage, failures=(), broken=(), **kw):
        coverage = dict(coverage)
        coverage["generated_sched_consts"] = note
        return orig(ctx_, level, proofs, coverage, failures=failures, broken=broken, **kw)
    vf.finish = finish2
    try:
        return vf.standard_check(ctx, SPEC)
    finally:
        vf.finish = orig
