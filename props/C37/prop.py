import vf

SPEC = dict(
    level="proof",
    harness=dict(pkg_dir="index", run="TestVerifC37$", files=["index/zz_verif_c37_test.go"],
                 n_quick=400, n_thorough=6000),
    runner=dict(imports=["From ZV Require Import Lib.Base Model.Ctags."], case_type="c37case",
                mismatch_fn="c37_mismatches"),
    rule="random contents (0-6 lines over a small word alphabet incl. a multi-byte rune, optional final newline) x 0-8 ctags "
         "entries (line in -1..lines+1, names present/absent/empty/overlapping); distinct by (content,tags); non-trivial = "
         ">= 2 sections derived. The same tagsToSections value is reused across cases (nlsBuf reuse).",
    trusted_base=["correspondence harness harness/overlay/index/zz_verif_c37_test.go (generator, canonicalisation, Go oracle)",
                  "model of sort.Sort(symbolSlice) as a stable insertion sort on Start (validated by the correspondence on Add's verdict)",
                  "uint32 offsets modelled as nat: statements assume |content| < 2^32"],
    assumptions=["|content| < 2^32 (offsets are uint32 in Go)"],
)

def run(ctx):
    return vf.standard_check(ctx, SPEC)
