import vf

SPEC = dict(
    level="proof",
    # the run pattern matches TestVerifC37 (Convert/Add streams) and TestVerifC37Utf8 (tie of Lib/Utf8.v to unicode/utf8)
    harness=dict(pkg_dir="index", run="TestVerifC37", files=["index/zz_verif_c37_test.go"],
                 n_quick=400, n_thorough=6000),
    runner=dict(imports=["From ZV Require Import Lib.Base Lib.Utf8 Model.Ctags."], case_type="c37case",
                mismatch_fn="c37_mismatches", shard=2500),
    rule="CConv: random contents (0-6 lines over a word alphabet with 2/3/4-byte runes; streams: valid content / content "
         "with stray invalid bytes / invalid-UTF-8 names) x 0-8 (6%: 12-41) ctags entries (line in -1..lines+1, names "
         "present/absent/empty/overlapping); the same tagsToSections value is reused across cases; non-trivial = >= 2 "
         "sections derived. CAdd: ShardBuilder.Add on arbitrary section lists (on/off rune boundaries, swapped, Start>End, "
         "past end, at end, duplicates). CUtf8Row/CUtf8/CEnc: unicode/utf8 vs Lib/Utf8.v — all 1- and 2-byte strings "
         "exhaustively (thorough: all 3-byte strings too), 3/4-byte rows exhaustive in the last byte, random and mutated strings (DecodeRune loop, Valid, "
         "RuneCount, []rune round trip), AppendRune on valid/surrogate/out-of-range runes. Distinct by full input.",
    trusted_base=["correspondence harness harness/overlay/index/zz_verif_c37_test.go (generator, canonicalisation, Go oracle)",
                  "model of sort.Sort(symbolSlice) as a stable insertion sort on Start (validated by the correspondence on Add's "
                  "verdict incl. >= 12 sections; the theorems show Convert's output is already sorted)",
                  "uint32 offsets modelled as nat: statements assume |content| < 2^32",
                  "Add's binary-content path (a NUL byte replaces the content and drops the symbols) is not modelled; generators emit no NUL",
                  "ctags names are valid UTF-8 because go-ctags json.Unmarshal-s them (hypothesis of C37_accepted_by_builder)"],
    assumptions=["|content| < 2^32 (offsets are uint32 in Go)",
                 "ctags entry names are valid UTF-8 (go-ctags decodes them with encoding/json)"],
)

def run(ctx):
    return vf.standard_check(ctx, SPEC)
