import os

import vf

SPEC = dict(
    level="proof",
    harness=dict(pkg_dir="gitindex", run="TestVerifC13$", files=["gitindex/zz_verif_c13_test.go"],
                 n_quick=int(os.environ.get("VERIF_C13_N", "120")), n_thorough=int(os.environ.get("VERIF_C13_N", "2000")),
                 # a build allocates >= 4 tables of 16 MiB; the harness collects after every build, and with MADV_FREE the
                 # freed pages stay resident instead of being faulted in again (page faults dominated the run time)
                 env={"GODEBUG": "madvdontneed=0"}),
    runner=dict(imports=["From ZV Require Import Lib.Base Model.Delta Model.DeltaDecide."], case_type="c13case",
                mismatch_fn="c13_mismatches", shard=100),
    rule="generated histories over 1-3 branches (+ HEAD indexed as an alias of main in 25%): a REAL bare git repository "
         "(git init + git fast-import, one commit per changed branch and step), 2-6 steps of 0-3 edits each (add, modify, "
         "delete, rename, revert a branch to an earlier tree, copy a file from another branch, sync a branch to another "
         "branch's tree, move a file between branches, swap two files, modify one path on every branch, submodule entries "
         "(gitlinks) added / replacing a file / replaced by a file; small content pool so "
         "the same blob sits on several branches/paths), each step followed by gitindex.IndexGitRepo full or delta (75% "
         "delta; first run sometimes delta = fallback); 30% of the histories with a tiny ShardMax (several shards per build). "
         "After EVERY run: per branch Search(branch:<b>, Whole) vs `git ls-tree -r` (Go oracle) and the stack of layers (raw "
         "documents with branch sets read without sidecar + FileTombstones) vs the model. Case = one history; non-trivial = "
         ">= 1 delta run and >= 1 edit class.",
    trusted_base=["correspondence harness harness/overlay/gitindex/zz_verif_c13_test.go (history generator, numbering of paths/"
                  "contents, grouping of shards into layers by IndexMetadata.ID, Go oracle by git blob id of the returned content)",
                  "model abstractions: go-git DiffTree(DetectRenames=false) = set of paths whose blob differs; trees as "
                  "association lists; documents keyed by (path, blob) with branch sets; a layer = all shards of one build; "
                  "file modes, symlinks, submodules, .sourcegraph/ignore, branch-set / option changes and the shard-count "
                  "fallback are outside the model (not generated)",
                  "index/eval.go visibility (FileTombstones, branch mask) is modelled by view_layer and exercised through the "
                  "Go oracle's real searches, not proved about the Go code"],
    assumptions=["the set and order of indexed branches and the index options do not change between runs (otherwise gitindex "
                 "falls back to a full build, which re-establishes the invariant)",
                 "every run completes (crashes inside a run are C12)"],
)


def run(ctx):
    return vf.standard_check(ctx, SPEC)
