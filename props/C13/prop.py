import os

import vf

SPEC = dict(
    level="proof",
    harness=dict(pkg_dir="gitindex", run="TestVerifC13$", files=["gitindex/zz_verif_c13_test.go"],
                 n_quick=int(os.environ.get("VERIF_C13_N", "120")), n_thorough=int(os.environ.get("VERIF_C13_N", "1500")),
                 # a build allocates >= 4 tables of 16 MiB; the harness collects after every build, and with MADV_FREE the
                 # freed pages stay resident instead of being faulted in again (page faults dominated the run time)
                 env={"GODEBUG": "madvdontneed=0"}),
    runner=dict(imports=["From ZV Require Import Lib.Base Model.Delta Model.DeltaDecide."], case_type="c13case",
                mismatch_fn="c13_mismatches", shard=100),
    rule="generated histories over 1-3 git branches; the list of indexed branches (Options.Branches: a subset in some order, "
         "+ HEAD in front as an alias of main in 25%) CHANGES between runs in 14% of the steps (branch added / dropped / order "
         "changed / HEAD alias on-off), the index options that enter Options.GetHash change in 8% (4 variants that do not "
         "change what is indexed), ShardMax changes in 8% (not hashed: no fallback), 20% of the histories set "
         "DeltaShardNumberFallbackThreshold 1-3. All histories of a chunk of 50 live in ONE real bare git repository: every "
         "commit of every step is written by a single `git fast-import`, git's own listing of every commit is read back by a "
         "single `git fast-export --all --full-tree --no-data` (ground truth of the oracle), a step points refs/heads/* at its "
         "commits. 2-6 steps of 0-3 edits each (add, modify, delete, rename, revert a branch to an earlier tree, copy a file "
         "from another branch, sync a branch to another branch's tree (branches with equal trees SHARE the commit: fast-forward / branch cut; 25% of the multi-branch histories start with all branches at one commit), move a file between branches, swap two files, modify "
         "one path on every branch, submodule entries (gitlinks) added / replacing a file / replaced by a file; small content "
         "pool so the same blob sits on several branches/paths), each step followed by gitindex.IndexGitRepo full or delta "
         "(75% delta requested; first run sometimes delta = fallback); 30% of the histories with a tiny ShardMax (several "
         "shards per build); an orphan .meta planted before 15% of the runs; 30% of the histories have `.sourcegraph/ignore` (\"dir/\") "
         "on some but not all branches (files under dir/ exist on every branch, half of the add/modify edits go there; the "
         "ignore file appears/disappears by edits and branch syncs = fallback). After EVERY run: per indexed branch "
         "Search(branch:<b>, Whole) vs git's listing of the branch's commit, branches that are not indexed must find nothing "
         "(Go oracle); which kind of build happened (every old shard kept = delta build, all replaced = normal build) vs the "
         "model's decision; the stack of layers (raw documents with branch sets read without sidecar + FileTombstones) vs the "
         "model. Case = one history; non-trivial = >= 1 delta build actually happened and >= 1 edit/request class.",
    trusted_base=["correspondence harness harness/overlay/gitindex/zz_verif_c13_test.go (history generator, numbering of paths/"
                  "contents/branch names/option variants, grouping of shards into layers by IndexMetadata.ID, the delta-vs-normal "
                  "observation by shard file + build id, Go oracle by git blob id of the returned content against "
                  "`git fast-export --full-tree`, which the harness also cross-checks against the generated trees)",
                  "model abstractions: go-git DiffTree(DetectRenames=false) = set of paths whose blob differs; trees as "
                  "association lists; documents keyed by (path, blob) with branch positions; a layer = all shards of one build; "
                  "the options hash is an opaque number (variants with distinct hashes); 'more shards than the threshold' is an "
                  "input of the decision (the model has layers, not shards); file modes, symlinks, Options.Submodules, "
                  ".sourcegraph/ignore and unreadable metadata / missing commits (all fall back or are not generated) are "
                  "outside the model",
                  "index/eval.go visibility (FileTombstones, branch mask) is modelled by view_layer and exercised through the "
                  "Go oracle's real searches, not proved about the Go code"],
    assumptions=["every run completes (crashes inside a run are C12)",
                 "Options.Submodules is off; ignore files only with the pattern dir/ (an ignored file is absent from the model's tree)"],
)


def run(ctx):
    return vf.standard_check(ctx, SPEC)
