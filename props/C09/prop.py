import importlib.util
import json
import os
import vf

_spec = importlib.util.spec_from_file_location("fmtlib", os.path.join(os.path.dirname(os.path.abspath(__file__)), "fmtlib.py"))
fmtlib = importlib.util.module_from_spec(_spec)
_spec.loader.exec_module(fmtlib)

RULE = ("real shards built with ShardBuilder.Add/Write: 1-3 repositories (simple v16 / compound v17), 0-64 branches, "
        "sub-repositories, 0-5 documents each (empty, tiny, long single line, multi-byte runes around the 100-rune sampling "
        "boundary, invalid UTF-8, NUL bytes, preset skip reasons, 0-27 symbols, shuffled / overlapping / past-the-end symbol "
        "ranges) + crafted single-document shards with exactly k distinct trigrams around btreeBucketSize/2 and btreeBucketSize; "
        "b-tree cases: newBtree with bucketSize in {2,4,6,8,10}, v in {2,3,4}, 0-400 ascending keys (inner splits), every probe "
        "value; sequences: 3-9 documents through ONE reused DocChecker and ONE index.Builder with TrigramMax 5-18 / SizeMax 80-199 (many-trigram, long repetitive, empty, tiny, binary, too large, allow-listed); codec cases: arbitrary (unsorted) uint32/uint16 lists through to/fromSizedDeltas(16) and marshalDocSections. "
        "non-trivial = shard with >= 2 documents or > 3000 bytes, b-tree with more keys than one bucket, codec list >= 2")

TRUSTED = ["correspondence harness harness/overlay/index/zz_verif_c09_test.go (generator, canonicalisation, Go oracle via Search(Const true, Whole)/List)",
           "opaque inputs of the model: JSON metadata blobs, crc64 checksums, language codes, categories, roaring bitmap of repo ids (copied through byte for byte)",
           "hand-written model of ShardBuilder.Add/Write and of the reader, tied byte-exactly to the implementation by the correspondence run; constants, TOC tag list and skip explanations generated from the compiled code (coq/Generated/FormatConsts.v)",
           "sort.Sort(symbolSlice) modelled as a stable insertion sort (inputs with distinct starts)",
           "writer offsets are not wrapped: statements about written files assume |file| < 2^32"]


def run(ctx):
    broken, failures = [], []
    n = ctx.n(12, 80)
    hr = vf.go_harness(ctx, "index", "TestVerifC09$", ["index/zz_verif_c09_test.go"], n, timeout=900 if ctx.tier == "quick" else 3600)
    okc, msg = fmtlib.regen_consts(ctx, hr["records"])
    if not okc:
        broken.append(msg)
    proofs = vf.coq_props(ctx, "C09", extra_targets=["Model/FormatRun.vo"])
    aok, aout = vf.audit()
    if not aok:
        proofs["ok"] = False
        proofs["discharged"] = 0
        broken.append("audit: " + aout[-800:])
    if ctx.tier == "thorough" and proofs["ok"]:
        cok, cout = vf.coqchk("C09")
        proofs["coqchk"] = cout[-1500:]
        if not cok:
            proofs["ok"] = False
            broken.append("coqchk rejects Props/C09.vo: " + cout[-800:])
    if not proofs["ok"]:
        broken.append("proof obligations of Props/C09.v do not check: %s" % (proofs.get("broken_files") or proofs.get("nonstd_axioms") or proofs["log"][-800:]))
    recs = [r for r in hr["records"] if not (r.get("kind") == "info" and r.get("what") == "consts")]
    cases = [r for r in recs if r.get("kind") == "case"]
    for r in recs:
        if r.get("kind") == "info":
            continue
        if r.get("kind") == "oracle_fail":
            failures.append(dict(key=r.get("key", "?"), what=r.get("what", ""), replay=r.get("replay")))
    if hr["rc"] != 0:
        broken.append("harness TestVerifC09 failed (rc=%d): %s" % (hr["rc"], hr["log"][-1500:]))
    ev = dict(ok=True, bad=[], evaluated=0, log="")
    if cases and proofs.get("ok"):
        ev = fmtlib.eval_cases(ctx, "C09", ["From ZV Require Import Lib.Base Model.Format Model.Btree Model.FormatRun."],
                               "c09case", "c09_mismatches", [c["coq"] for c in cases], jobs=4 if ctx.tier == "quick" else 8)
        if not ev["ok"]:
            broken.append("model evaluation failed: " + ev["log"][-1500:])
        for i in ev["bad"][:20]:
            broken.append("correspondence c09_mismatches: model and implementation disagree on case %s" % json.dumps(cases[i].get("sample"), default=str)[:1500])
    elif not cases and hr["rc"] == 0:
        broken.append("harness produced no cases")
    cov = dict(evaluations=len(cases), distinct_nontrivial=vf.distinct_nontrivial(cases), rule=RULE,
               samples=[c.get("sample") for c in cases[:3]], traces_validated_against_impl=ev["evaluated"],
               correspondence_mismatches=len(ev["bad"]), oracle_failures=len(failures),
               input_distribution=vf.histogram(cases, "class"), trusted_base=TRUSTED,
               generated=["coq/Generated/FormatConsts.v (" + msg + ")"])
    if proofs.get("coqchk"):
        cov["coqchk"] = proofs["coqchk"]
    return vf.finish(ctx, "proof", proofs, cov, failures=failures, broken=broken,
                     assumptions=["|file| < 2^32 (NewIndexFile refuses larger files; writer offsets are uint32)",
                                  "btreeBucketSize even, >= 2 and v >= 2 (checked against the generated constants inside the theorems)",
                                  "sub-repositories carry the parent's branch list (Search indexes sr.Branches by the parent's branch index)"])
