import json
import os

import vf

FILES = ["cmd/zoekt-merge-index/main.go", "index/merge.go"]

SPEC = dict(
    level="proof",
    harness=dict(pkg_dir="cmd/zoekt-merge-index", run="TestVerifC35$", files=["cmd/zoekt-merge-index/zz_verif_c35_test.go"],
                 n_quick=360, n_thorough=3000),
    runner=dict(imports=["From ZV Require Import Lib.Base Model.MergeDriver."], case_type="c35case",
                mismatch_fn="c35_mismatches", shard=150),
    rule="generated directories of REAL shards (1-3 simple inputs / a 1-3 repo compound, optional bystander shard, compound "
         "input with .meta tombstones, missing / garbage / directory inputs, duplicate names, a directory squatting on the "
         "destination or its .tmp name; an ORPHAN sidecar <dst>.zoekt.meta (real JSON of the repository metadata with a "
         "tombstone / another priority, garbage, or a directory) waiting at a destination name of Explode / merge, and a "
         "destination name taken by a shard with a sidecar: a repository "
         "tombstoned in a compound alive in a newer simple shard beside it: 6 (quick) / 11 (thorough) forced scenarios of these classes open every run) run through the real merge() / index.Explode() built from the working tree with its "
         "os.* call sites routed through the zzfs shim (translator/fsinstrument, via -overlay): no fault; every single "
         "operation of the observed trace failing (+ temp-file write failing); killed (freeze) before every mutating "
         "operation without and (sampled in quick) with a preceding fault. Observed: error/path result, existence of every "
         "*.zoekt/.meta, index.ReadMetadataPath of every shard. non-trivial = a fault, a kill or a defect in the inputs. "
         "Additionally 9 runs of the REAL COMMAND (test binary re-executing main()): exit status + stdout for merge ok / missing input / "
         "os.Exit(137) before each mutation / explode with a blocked rename, checked by the Go oracle.",
    trusted_base=["correspondence harness harness/overlay/cmd/zoekt-merge-index/zz_verif_c35_test.go (generator, abstraction of "
                  "file names to model paths, Go oracle)",
                  "translator/fsinstrument (call-site rewriter + zzfs shim): kill = freeze of all later intercepted operations; "
                  "failures of *os.File methods injected as a read-only handle",
                  "model abstractions: shard = its repo metadata list; sha1 of the compound name injective; operations atomic; "
                  "a failed operation leaves the state unchanged; os.Stat in IndexFilePaths never fails"],
    assumptions=["no concurrent writer in the index directory while merge/explode runs",
                 "initial directory has no repository alive in two shards; a stale .meta at a destination name, if any, is an "
                 "orphan (no shard of that name beside it) -- needed only because the model does not tie shard contents to file names"],
)


def instrument(ctx):
    out = os.path.join(ctx.tmp, "fsinstrument")
    os.makedirs(out, exist_ok=True)
    rc, txt = vf.sh(["go", "run", os.path.join(vf.ROOT, "translator", "fsinstrument", "main.go"), "-repo", vf.REPO, "-out", out] + FILES,
                    cwd=vf.REPO, env=vf.go_env(), timeout=300)
    if rc != 0:
        raise RuntimeError("fsinstrument failed: " + txt[-2000:])
    data = json.loads(txt[txt.index("{"):])
    return data["Replace"], data["sites"]


def run(ctx):
    rep, sites = instrument(ctx)
    ctx.notes.append("fsinstrument sites: %d" % len(sites))
    orig = vf.go_harness

    def patched(*a, **k):
        k["extra_replace"] = rep
        return orig(*a, **k)
    vf.go_harness = patched
    try:
        return vf.standard_check(ctx, SPEC)
    finally:
        vf.go_harness = orig
