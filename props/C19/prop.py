import vf

FILES = ["search/zz_verif_c19_test.go", "search/zz_verif_c19race_test.go"]
SPEC = dict(
    level="proof",
    harness=dict(pkg_dir="search", run="TestVerifC19$", files=FILES, n_quick=40, n_thorough=500),
    runner=dict(imports=["From ZV Require Import Lib.Base Model.Watcher."], case_type="c19case",
                mismatch_fn="c19_mismatches", shard=150),
    rule="script cases: 4-9 steps of 1-3 directory changes each (create / replace by rename / delete / sidecar write+delete / junk / "
         "odd *.zoekt names incl. '_.'-names / unloadable files; names x versions {15,16,17,18} x shard {0,1}; fresh, equal and "
         "sidecar-dominated mtimes) on a scratch directory, explicit scan() after each step, real Lstat mtimes; non-trivial = at "
         "least one drop and one reload after the first scan. vfp cases (4 per script): versionFromPath on builder-style and "
         "random strings over {_ . v digits + - / ...}; non-trivial = contains both '_' and '.'.",
    trusted_base=["correspondence harness harness/overlay/search/zz_verif_c19_test.go (directory scripts, content identities via a "
                  "real search on each loaded shard, Go oracle)",
                  "filepath.Glob / os.Lstat / strconv.Atoi modelled by their contracts (suffix filter, listing lookup, signed decimal int64)",
                  "PARTIAL: data races / use-after-unmap (finalizer + KeepAlive, mmap) are not modelled; thorough tier adds a -race "
                  "stress run of a real DirectorySearcher (harness/overlay/search/zz_verif_c19race_test.go) as evidence, not proof"],
    assumptions=["directory listings have unique paths",
                 "convergence theorems: a file never changes content while keeping its effective mtime (known finding stale:equal-mtime otherwise)",
                 "shard files are complete when they appear (installed by rename)"],
)


def run(ctx):
    if ctx.tier != "thorough":
        return vf.standard_check(ctx, SPEC)
    # thorough tier: -race stress run of the real directory searcher (supporting evidence for the runtime half)
    hr = vf.go_harness(ctx, "search", "TestVerifC19Race$", FILES, 300, race=True, timeout=420, out_name="race.jsonl")
    extra_fail, extra_broken, info = [], [], {}
    for r in hr["records"]:
        if r.get("kind") == "oracle_fail":
            extra_fail.append(dict(key=r.get("key", "?"), what=r.get("what", ""), replay=r.get("replay")))
        elif r.get("kind") == "info":
            info.update({k: v for k, v in r.items() if k != "kind"})
    if "DATA RACE" in hr["log"]:
        extra_fail.append(dict(key="race:data-race", what="the race detector reported a data race during concurrent reloads and searches",
                               replay=dict(seed=ctx.seed, log=hr["log"][-3000:])))
    elif hr["rc"] != 0 and not extra_fail:
        # supporting evidence only: a run that neither reports a race nor an oracle failure (e.g. it timed out on an
        # overloaded machine) is recorded as inconclusive, it does not decide the verdict
        info["race_stress_inconclusive"] = "rc=%d: %s" % (hr["rc"], hr["log"][-300:])
    orig = vf.finish

    def finish2(ctx_, level, proofs, coverage, failures=(), broken=(), **kw):
        coverage = dict(coverage)
        coverage["race_stress"] = dict(info.get("race_stress", {}), rc=hr["rc"], race_detector=True,
                                       inconclusive=info.get("race_stress_inconclusive", ""))
        return orig(ctx_, level, proofs, coverage, failures=list(failures) + extra_fail, broken=list(broken) + extra_broken, **kw)
    vf.finish = finish2
    try:
        return vf.standard_check(ctx, SPEC)
    finally:
        vf.finish = orig
