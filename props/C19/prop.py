import vf

SPEC = dict(
    level="proof",
    harness=dict(pkg_dir="search", run="TestVerifC19$", files=["search/zz_verif_c19_test.go"],
                 n_quick=40, n_thorough=500),
    runner=dict(imports=["From ZV Require Import Lib.Base Model.Watcher."], case_type="c19case",
                mismatch_fn="c19_mismatches", shard=150),
    rule="script cases: 4-9 steps of 1-3 directory changes each (create / replace by rename / delete / sidecar write+delete / junk / "
         "odd *.zoekt names / unloadable files; names x versions {15,16,17,18} x shard {0,1}; fresh, equal and sidecar-dominated "
         "mtimes) on a scratch directory, explicit scan() after each step, real Lstat mtimes; non-trivial = at least one drop and one "
         "reload after the first scan. vfp cases: versionFromPath on builder-style and random strings over {_ . v digits + - / ...}.",
    trusted_base=["correspondence harness harness/overlay/search/zz_verif_c19_test.go (directory scripts, content identities via a "
                  "real search on each loaded shard, Go oracle)",
                  "filepath.Glob / os.Lstat / strconv.Atoi modelled by their contracts (suffix filter, listing lookup, signed decimal int64)",
                  "data races / use-after-unmap (finalizer + KeepAlive) are NOT modelled: partial, see level_note"],
    assumptions=["directory listings have unique paths", "shard files are complete when they appear (installed by rename)"],
)

def run(ctx):
    return vf.standard_check(ctx, SPEC)
