import os
import re

import vf

FILES = ["search/zz_verif_c19_test.go", "search/zz_verif_c19race_test.go", "search/zz_verif_c19watch_test.go",
         "search/zz_verif_c19held_test.go", "search/zz_verif_c19own_test.go"]
SPEC = dict(
    level="proof",
    harness=dict(pkg_dir="search", run="TestVerifC19$", files=FILES, n_quick=40, n_thorough=400),
    runner=dict(imports=["From ZV Require Import Lib.Base Model.Watcher Model.C19Cases."], case_type="c19xcase",
                mismatch_fn="c19x_mismatches", shard=1000),
    rule="script cases: 4-9 steps of 1-3 directory changes each (create / replace by rename / delete / sidecar write+delete / junk / "
         "odd *.zoekt names incl. '_.'-names / unloadable files; names x versions {15,16,17,18} x shard {0,1}; replacement mtimes "
         "later, EQUAL and OLDER than the replaced file's; sidecars later than / equal to the shard, dominating sidecars removed) on a "
         "scratch directory, explicit scan() after each step, real Lstat mtimes; non-trivial = at least one drop and one reload "
         "after the first scan. vfp cases (4 per script): versionFromPath on builder-style and random strings over "
         "{_ . v digits + - / ...}; non-trivial = contains both '_' and '.'. Every script also HOLDS the lists getLoaded() returns after "
         "the drop and after each scan and iterates them again after later scans (s_held). held-search cases (12 quick / 120 thorough): "
         "a real Search/StreamSearch held open by 2*procs+2..+6 fake shards blocking on a gate (GOMAXPROCS 1-3) while 1-4 batches of "
         "replace/drop/add go through shardedSearcher.replace; non-trivial = at least one replace or drop. ownership cases (84 quick / "
         "400 thorough): 1-3 shards from a pool of generated shard images served from memory the test owns (every fifth trial: really "
         "mmap'd scratch files), every combination of {LineMatches, ChunkMatches} x {Whole} x {NumContextLines 0,1,3} over seven query "
         "kinds (content / file name / either / regexp / symbol / const / or), display limits in ~45 % of the trials, through the raw index searcher, raw + the real copyFiles, "
         "shardedSearcher.Search and StreamSearch; the result is deep-copied by a reflective walk over every []byte and string, the shard "
         "memory is overwritten (XOR 0xff) or unmapped (IndexFile.Close) and the result walked again; non-trivial = the raw result had "
         "views of shard memory in at least two fields.",
    trusted_base=["correspondence harness harness/overlay/search/zz_verif_c19_test.go (directory scripts, content identities via a "
                  "real search on each loaded shard, Go oracle) and zz_verif_c19held_test.go (searches held open by blocking fake shards)",
                  "coq/Model/RankedStore.v: Go slices as (address, length) headers into a store of arrays; the order of the published "
                  "list (ranking) is not modelled, lists are compared as sets of (key, content)",
                  "ownership (coq/Model/ResultOwn.v): a result is the list of its non-nil []byte fields (field path, region/offset/length "
                  "header); copyFiles is read by translator/resultfields (go/parser + go/types, imports not followed) into a statement "
                  "program whose abstract execution yields the set of copied fields for ALL elements (range loops are full walks; a range "
                  "VALUE variable is a local copy); strings are outside the model (Go strings are immutable copies; the harness walks them "
                  "too); the harness zz_verif_c19own_test.go ties the type table to reflection over the compiled type and the copied set to "
                  "the real copyFiles / Search / StreamSearch",
                  "filepath.Glob / os.Lstat / strconv.Atoi modelled by their contracts (suffix filter, listing lookup, signed decimal int64)",
                  "PARTIAL: data races / use-after-unmap (finalizer + KeepAlive, mmap) are not modelled; thorough tier adds a -race "
                  "stress run of a real DirectorySearcher (harness/overlay/search/zz_verif_c19race_test.go) as evidence, not proof"],
    assumptions=["directory listings have unique paths",
                 "convergence theorems: a file never changes content while keeping its effective mtime (known finding stale:equal-mtime otherwise)",
                 "shard files are complete when they appear (installed by rename)"],
)

# What in the output of the -race stress run decides the verdict: a report of the race detector, a crash of the
# process, a panic in a search.  Everything else the stress run observes (schedule- and load-dependent: convergence
# within a deadline, ...) is recorded in the evidence as supporting information only.
_CRASH_RE = re.compile(r"(fatal error: [^\n]*|unexpected fault address[^\n]*|SIGSEGV[^\n]*|SIGBUS[^\n]*|^panic: [^\n]*)", re.M)
_DECIDING_KEYS = ("race:search-panic", "race:list-panic")
_RACE_CMD = "go test -race -run TestVerifC19Race$ ./search (overlay harness/overlay/search/zz_verif_c19race_test.go)"


def _go_test_full_log(ctx, run, n, timeout, out_name):
    """like vf.go_harness(race=True) but keeps the WHOLE output: the cause of a crash (fatal error / unexpected fault
    address) is printed before a goroutine dump that can be far longer than the tail vf.go_harness keeps"""
    import json
    import os
    ov = vf.make_overlay(ctx, "search", FILES)
    outp = os.path.join(ctx.tmp, out_name)
    if os.path.exists(outp):
        os.remove(outp)
    e = vf.go_env({"VERIF_OUT": outp, "VERIF_SEED": str(ctx.seed), "VERIF_N": str(n), "VERIF_TIER": ctx.tier,
                   "VERIF_TMP": ctx.tmp, "VERIF_ROOT": vf.ROOT})
    cmd = ["go", "test", "-overlay", ov, "-count=1", "-vet=off", "-run", run, "-timeout", "%ds" % timeout, "-race", "./search"]
    rc, log = vf.sh(cmd, cwd=vf.REPO, env=e, timeout=timeout + 120)
    recs = []
    if os.path.exists(outp):
        for line in open(outp, errors="replace"):
            try:
                recs.append(json.loads(line))
            except Exception:
                pass
    return dict(rc=rc, log=log, records=recs)


def race_stress(ctx):
    """-race stress run of the real directory searcher (supporting evidence for the runtime half).
    Returns (deciding failures, coverage record)."""
    hr = _go_test_full_log(ctx, "TestVerifC19Race$", 240, timeout=540, out_name="race.jsonl")
    deciding, soft, info = [], [], {}
    for r in hr["records"]:
        if r.get("kind") == "oracle_fail":
            f = dict(key=r.get("key", "?"), what=r.get("what", ""), replay=r.get("replay"))
            (deciding if f["key"] in _DECIDING_KEYS else soft).append(f)
        elif r.get("kind") == "info":
            info.update({k: v for k, v in r.items() if k != "kind"})
    log = hr["log"]
    data_race = "DATA RACE" in log
    if data_race:
        i = log.index("DATA RACE")
        deciding.append(dict(key="race:data-race", what="the race detector reported a data race during concurrent reloads and searches",
                             replay=dict(seed=ctx.seed, run=_RACE_CMD, log=log[max(0, i - 200):i + 3500])))
    m = _CRASH_RE.search(log) if hr["rc"] not in (0, 124) else None
    if m and "test timed out" in m.group(1):     # go test's own watchdog: the run did not finish, nothing crashed
        m = None
    if not m and hr["rc"] not in (0, 124) and not info.get("race_stress") and "--- FAIL" not in log and "test timed out" not in log:
        m = re.search(r"^FAIL\s+\S+/search[^\n]*", log, re.M)   # the test binary died without a test failure message
    if m and not deciding:
        deciding.append(dict(key="race:crash", what="the process crashed during concurrent reloads and searches: " + m.group(0)[:200],
                             replay=dict(seed=ctx.seed, run=_RACE_CMD, log=log[max(0, m.start() - 200):m.start() + 3500])))
    rec = dict(info.get("race_stress", {}), rc=hr["rc"], race_detector=True, completed=bool(info.get("race_stress")),
               data_race=data_race, crash=bool(m),
               non_deciding_observations=[dict(key=f["key"], what=f["what"][:300]) for f in soft],
               role="supporting evidence only: decides the verdict only through a data-race report or a crash/panic")
    if not rec["completed"] and not deciding:
        rec["inconclusive"] = "rc=%d: %s" % (hr["rc"], log[-300:])
    for f in soft:
        print("NOTE property=C19 race-stress observation (supporting evidence, does not decide the verdict): %s: %s" % (f["key"], f["what"][:200]))
    return deciding, rec


def generate(ctx):
    """Generated/ResultFields.v: zoekt.SearchResult's type table and copyFiles' program, from the CURRENT sources"""
    rc, out = vf.sh(["go", "run", os.path.join(vf.ROOT, "translator", "resultfields", "main.go"), vf.REPO],
                    cwd=vf.REPO, env=vf.go_env(), timeout=300)
    if rc != 0 or "Definition copy_prog" not in out or "Definition result_ty" not in out:
        return "translator/resultfields failed: " + out[-1200:]
    with vf._Lock("coq"):
        vf.write_if_changed(os.path.join(vf.COQ, "Generated", "ResultFields.v"), out)
    return None


def run(ctx):
    err = generate(ctx)
    if err:
        return vf.finish(ctx, "proof", dict(obligations=0, discharged=0), dict(evaluations=0, distinct_nontrivial=0,
                         trusted_base=SPEC["trusted_base"], rule=SPEC["rule"]), broken=[err], assumptions=SPEC["assumptions"])
    if ctx.tier != "thorough":
        return vf.standard_check(ctx, SPEC)
    extra_fail, rec = race_stress(ctx)
    orig = vf.finish

    def finish2(ctx_, level, proofs, coverage, failures=(), broken=(), **kw):
        coverage = dict(coverage)
        coverage["race_stress"] = rec
        return orig(ctx_, level, proofs, coverage, failures=list(failures) + extra_fail, broken=broken, **kw)
    vf.finish = finish2
    try:
        return vf.standard_check(ctx, SPEC)
    finally:
        vf.finish = orig
