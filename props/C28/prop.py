"""C28 — the RE2 size threshold never changes search results (partial: reduction to engine agreement is proved,
engine agreement is checked by searches under every setting)."""
import json
import os
import re
import vf

IMPORTS = ["From ZV Require Import Lib.Base Model.HybridRe."]
ENV = "ZOEKT_RE2_THRESHOLD_BYTES"
# fixed settings; the settings ABOVE every document (go-re2 compiled but never selected) are derived from the generated
# corpus at run time: largest document + 1 and 2^30 (see search_settings)
BASE_SEARCH_SETTINGS = ["-1", "0", "1", "64", "4096"]
# 100001 = the largest generated input of the dispatch harness + 1; 2^63-1 / 2^63 = largest int64 / out of range
# (unparsable => disabled); "", " 7", "abc" unparsable; "+7" = 7; "-7" negative => disabled; None = unset
DISPATCH_SETTINGS = ["-1", "0", "1", "64", "4096", "100001", str(2 ** 30), str(2 ** 63 - 1), str(2 ** 63), "abc", "", " 7", "+7", "-7", None]
GEN = os.path.join(vf.COQ, "Generated", "HybridRe2.v")


def regen(ctx):
    """coq/Generated/HybridRe2.v (conditions of Compile/useRE2, Regexp.FindAllIndex path by path) from the
    internal/hybridre2 of the tree under test. Returns (note, description of the leaves, broken message or None)."""
    js = os.path.join(ctx.tmp, "hybridre2-tree.json")
    rc, out = vf.sh(["go", "run", os.path.join(vf.ROOT, "translator", "hybridre2", "main.go"), vf.REPO, "-json", js],
                    cwd=vf.REPO, env=vf.go_env(), timeout=600)
    if rc != 0 or "Definition find_all_index_tree" not in out or "(* GENERATED" not in out:
        return ("NOT regenerated", None,
                "translator/hybridre2 cannot read the dispatch of internal/hybridre2 (Compile / useRE2 / Regexp.FindAllIndex have a shape it "
                "does not know), so the theorems of Props/C28.v are not about this source: " + out.strip()[-600:])
    start = out.index("(* GENERATED")
    with vf._Lock("coq"):
        changed = vf.write_if_changed(GEN, out[start:])
    desc = None
    try:
        desc = json.load(open(js))
    except Exception:
        pass
    return "regenerated from %s/internal/hybridre2%s" % (vf.REPO, " (content changed)" if changed else ""), desc, None


def explain_tree(desc):
    """human-readable reasons why the generated dispatch tree fails the checker (for the broken message)"""
    out = []
    for lf in (desc or {}).get("leaves", []):
        path = " && ".join(lf.get("path") or ["(always)"])
        if lf.get("other"):
            out.append("path [%s] %s" % (path, lf["other"]))
        elif lf.get("input") != "ArgParam" or lf.get("limit") != "ArgParam":
            out.append("path [%s] calls the %s engine on something else than FindAllIndex's own arguments: %s" % (path, lf.get("engine"), "; ".join(lf.get("why", []))))
    for lf in (desc or {}).get("threshold_leaves", []):
        if lf.get("ret") == "other":
            out.append("threshold(): path [%s] %s" % (" && ".join(lf.get("path") or ["(always)"]), lf.get("why")))
    d = desc or {}
    out.append("as read from the source: threshold() = %s; go-re2 compiled iff %s; useRE2 = %s; Compile calls %s" % (
        d.get("threshold_tree"), d.get("re2_compiled_src"), d.get("use_re2_src"), d.get("compile_callees")))
    return out


def build_test_binary(ctx, pkg_dir, files, name):
    """go test -c once; the binary is then started once per setting (the setting is read once per process)."""
    ov = vf.make_overlay(ctx, pkg_dir, files)
    out = os.path.join(ctx.tmp, name)
    rc, log = vf.sh(["go", "test", "-c", "-overlay", ov, "-vet=off", "-o", out, "./" + pkg_dir], cwd=vf.REPO, env=vf.go_env(), timeout=1500)
    return (out if rc == 0 and os.path.exists(out) else None), log


def run_test_binary(ctx, binary, pkg_dir, run, n, env, out_name, timeout):
    outp = os.path.join(ctx.tmp, out_name)
    if os.path.exists(outp):
        os.remove(outp)
    e = vf.go_env({"VERIF_OUT": outp, "VERIF_SEED": str(ctx.seed), "VERIF_N": str(n), "VERIF_TIER": ctx.tier,
                   "VERIF_TMP": ctx.tmp, "VERIF_ROOT": vf.ROOT})
    if ctx.replay:
        e["VERIF_REPLAY"] = os.path.abspath(ctx.replay)
    e.pop(ENV, None)
    if env:
        e.update(env)
    rc, log = vf.sh([binary, "-test.run", run, "-test.count=1", "-test.timeout", "%ds" % timeout],
                    cwd=os.path.join(vf.REPO, pkg_dir), env=e, timeout=timeout + 60)
    recs = []
    if os.path.exists(outp):
        for line in open(outp, errors="replace"):
            line = line.strip()
            if line:
                try:
                    recs.append(json.loads(line))
                except Exception:
                    pass
    return dict(rc=rc, log=log[-4000:], records=recs)


def run(ctx):
    try:
        return _run(ctx)
    finally:
        # a run against a scratch tree (VERIF_REPO=..., mutants / seeded changes) must not leave the scratch tree's dispatch
        # in coq/Generated: put /repo's back
        if os.path.realpath(vf.REPO) != "/repo":
            rc, out = vf.sh(["go", "run", os.path.join(vf.ROOT, "translator", "hybridre2", "main.go"), "/repo"],
                            cwd="/repo", env=vf.go_env(), timeout=600)
            if rc == 0 and "(* GENERATED" in out:
                with vf._Lock("coq"):
                    vf.write_if_changed(GEN, out[out.index("(* GENERATED"):])


def _run(ctx):
    pid = ctx.pid
    os.environ.pop(ENV, None)
    broken, failures = [], []
    gen_note, tree_desc, gen_broken = regen(ctx)
    if gen_broken:
        broken.append(gen_broken)
    proofs = vf.coq_props(ctx, pid, extra_targets=["Model/HybridRe.vo"])
    aok, aout = vf.audit()
    if not aok:
        proofs["ok"] = False
        proofs["discharged"] = 0
        broken.append("audit: " + aout[-800:])
    if ctx.tier == "thorough" and proofs["ok"]:
        cok, cout = vf.coqchk(pid)
        proofs["coqchk"] = cout[-1500:]
        if not cok:
            proofs["ok"] = False
            broken.append("coqchk rejects Props/%s.vo: %s" % (pid, cout[-800:]))
    if not proofs["ok"]:
        why = explain_tree(tree_desc)
        broken.append("proof obligations of Props/%s.v do not check%s: %s" % (
            pid, (" — the dispatch read from the source (Generated/HybridRe2.v) is not the specified one: " + " | ".join(why)) if why else "",
            str(proofs.get("broken_files") or proofs.get("nonstd_axioms") or "") + " " + " ".join(re.findall(r'File "[^"]+", line \d+[^\n]*\n(?:.*\n){0,8}?Error:[^\n]*(?:\n[^\n]+){0,4}', proofs.get("log", ""))[:2])[-1200:]))

    # ---- correspondence: dispatch decisions of the real package under each setting vs Model/HybridRe.v
    dcases = []
    dbin, dlog = build_test_binary(ctx, "internal/hybridre2", ["internal/hybridre2/zz_verif_c28d_test.go"], "c28d.test")
    if not dbin:
        broken.append("building the dispatch harness failed: " + dlog[-1200:])
    for st in (DISPATCH_SETTINGS if dbin else []):
        env = {ENV: st} if st is not None else None
        hr = run_test_binary(ctx, dbin, "internal/hybridre2", "TestVerifC28D$", ctx.n(40, 400), env, "disp_%s.jsonl" % (st or "unset"), 900)
        if hr["rc"] != 0:
            broken.append("harness TestVerifC28D failed under %s=%s (rc=%d): %s" % (ENV, st, hr["rc"], hr["log"][-1200:]))
        for r in hr["records"]:
            if r.get("kind") == "case":
                dcases.append(r)
            elif r.get("kind") == "oracle_fail":
                failures.append(dict(key=r.get("key", "?"), what=r.get("what", ""), replay=r.get("replay")))
    ev = dict(ok=True, bad=[], evaluated=0, log="")
    if dcases:
        ev = vf.coq_eval_cases(ctx, pid, IMPORTS, "c28case", "c28_mismatches", [c["coq"] for c in dcases], shard=2000)
        if not ev["ok"]:
            broken.append("model evaluation failed: " + ev["log"][-1500:])
        for i in ev["bad"][:10]:
            broken.append("correspondence c28_mismatches: dispatch decision of internal/hybridre2 differs from Model/HybridRe.v on %s" % json.dumps(dcases[i].get("sample")))
    else:
        broken.append("dispatch harness produced no cases")

    # ---- the property itself: identical search results under every setting
    nq = ctx.n(240, 1500)
    per = {}
    corpora = {}
    meta = {}
    sbin, slog = build_test_binary(ctx, "index", ["index/zz_verif_c28_test.go"], "c28s.test")
    if not sbin:
        broken.append("building the search harness failed: " + slog[-1200:])
    # settings: the fixed ones, the replay's own, and — derived from the corpus the harness generated (emitted by the first
    # process) — values above EVERY document: go-re2 is compiled but the grafana engine is selected for all of them
    settings = list(BASE_SEARCH_SETTINGS)
    if ctx.replay:
        try:
            rp = json.load(open(ctx.replay)).get("replay") or {}
            for st in (rp.get("results_by_setting") or {}):
                if st not in settings:
                    settings.append(st)
        except Exception:
            pass
    derived = False
    i = 0
    while sbin and i < len(settings):
        st = settings[i]
        i += 1
        hr = run_test_binary(ctx, sbin, "index", "TestVerifC28$", nq, {ENV: st, "VERIF_C28_CLASSIFY": "1" if st == "-1" else "0"},
                             "search_%s.jsonl" % st, 1500 if ctx.tier == "quick" else 3400)
        if hr["rc"] != 0:
            broken.append("harness TestVerifC28 failed under %s=%s (rc=%d): %s" % (ENV, st, hr["rc"], hr["log"][-1200:]))
        got = 0
        for r in hr["records"]:
            if r.get("kind") == "c28res":
                per.setdefault(r["id"], {})[st] = r["result"]
                if r.get("classified") or r["id"] not in meta:
                    meta[r["id"]] = r
                got += 1
            elif r.get("kind") == "c28corpus":
                corpora[r["corpus"]] = r["docs"]
        if got == 0 and hr["rc"] == 0:
            broken.append("search harness produced no results under %s=%s" % (ENV, st))
        if not derived and corpora:
            derived = True
            sizes = sorted(set(d["bytes"] for docs in corpora.values() for d in docs))
            for v in [str(sizes[-1] + 1), str(2 ** 30)]:
                if v not in settings:
                    settings.append(v)
            if ctx.tier == "thorough":
                # additionally every boundary: a threshold equal to a document's size (selected exactly) and one above it
                mids = [x for x in sizes if x > 1]
                for v in [str(mids[len(mids) // 2]), str(mids[len(mids) // 2] + 1), str(sizes[-1])]:
                    if v not in settings:
                        settings.append(v)
    SEARCH_SETTINGS = settings
    compared = differing = 0
    for qid, res in per.items():
        if len(res) != len(SEARCH_SETTINGS):
            broken.append("query %s was not evaluated under every setting (generation must not depend on the setting)" % qid)
            continue
        compared += 1
        if len(set(res.values())) > 1:
            differing += 1
            m = meta[qid]
            key = "threshold-changes-results"
            causes = []
            # mixed_fold_rune is computed from the COMPILED regexp (a literal carrying syntax.FoldCase with a fold partner of
            # another UTF-8 length), so it already covers query-level case-insensitivity AND inline (?i) groups of a
            # case-sensitive query (e.g. "(?i)k", which stays a regexp since /repo efa35e5).
            if (not m["grafana_eq_std"]) and m["mixed_fold_rune"]:
                causes.append("grafana-fold-prefix:" + m["mixed_fold_rune"])
            if (not m["re2_eq_std"]) and m["re2_inside_rune"] and "\\B" in m["compiled"]:
                causes.append("re2-noword-boundary-inside-utf8")
            if any(v.startswith("PANIC") for v in res.values()):
                key = "threshold-changes-results:panic"
            elif causes and (m["grafana_eq_std"] or "grafana-fold-prefix:" + m["mixed_fold_rune"] in causes) \
                    and (m["re2_eq_std"] or "re2-noword-boundary-inside-utf8" in causes):
                key = "engine-divergence:" + "+".join(causes)
            # smallest document on which the per-file results differ
            files = {}
            for st, v in res.items():
                for part in v.split(" | "):
                    if ":" in part:
                        fn, rs = part.split(":", 1)
                        files.setdefault(fn, {})[st] = rs
            diff_files = [fn for fn, d in files.items() if len(d) != len(res) or len(set(d.values())) > 1]
            docs = [d for d in corpora.get(m["corpus"], []) if d["name"] in diff_files]
            docs.sort(key=lambda d: d["bytes"])
            failures.append(dict(key=key,
                                 what="search results depend on %s for regexp %s (case_sensitive=%s)" % (ENV, json.dumps(m["pattern"]), m["case_sensitive"]),
                                 replay=dict(pattern=m["pattern"], case_sensitive=m["case_sensitive"], compiled=m["compiled"], seed=ctx.seed,
                                             query_id=qid, results_by_setting={st: v[:600] for st, v in res.items()},
                                             differing_files=diff_files[:5], smallest_differing_document=(docs[0] if docs else None))))
    if os.environ.get("VERIF_DEBUG"):
        for b in broken:
            print("DEBUG broken:", b[:900])
        for f in failures[:12]:
            print("DEBUG failure:", f["key"], f["what"], json.dumps(f["replay"].get("results_by_setting") if isinstance(f.get("replay"), dict) else "")[:500])
    nontrivial = set(qid for qid, m in meta.items() if m.get("nontrivial"))
    cov = dict(
        evaluations=sum(len(v) for v in per.values()) + len(dcases),
        distinct_nontrivial=len(nontrivial),
        rule="6 corpora x 9 valid-UTF-8 documents (0 .. ~8000 bytes, sizes straddling the thresholds 1/64/4096; ASCII identifiers, "
             "case variants, k/K/Kelvin, s/long s, ß/ẞ, Greek incl. final sigma, CJK, emoji, blank lines; in 2 of 3 documents 12-60 % of the "
             "words are special valid code points — U+FFFD, BOM, U+2028/2029, noncharacters U+FFFE/U+FFFF, U+10FFFF, U+D7FF/U+E000, "
             "control characters, combining marks, ZWSP/NBSP, CR — alone and glued before/after/inside words) x generated regexps of the query "
             "syntax (literals, classes incl. negated/Perl/POSIX/Unicode, anchors, \\b/\\B, empty-matching forms, lazy and counted repeats, flag "
             "groups, alternations) with random case sensitivity; every query is searched with indexData.Search in one process per "
             "setting in {-1,0,1,64,4096, largest document + 1, 2^30} (the last two derived from the generated corpus: go-re2 compiled but "
             "never selected); canonical result = sorted files with sorted byte ranges. distinct by (corpus, query); "
             "non-trivial = the query matches something. Plus the dispatch decisions (compiled?, used?) for 50 input lengths under 7 "
             "settings (incl. above every input, int64 limits, unparsable and unset) compared with the model and with the conditions "
             "generated from the source; per length 4 (pattern, limit) pairs on generated valid UTF-8 with the same special code points: "
             "FindAllIndex must equal the selected engine's result on the same bytes and limit.",
        generated_dispatch=gen_note,
        generated_dispatch_tree=(tree_desc or {}).get("tree"),
        samples=[dict(pattern=m["pattern"], case_sensitive=m["case_sensitive"], result=m["result"][:200]) for m in list(meta.values())[:3]] or ["(none)"],
        queries_compared_across_settings=compared,
        queries_with_setting_dependent_results=differing,
        settings=SEARCH_SETTINGS,
        input_distribution=vf.histogram([dict(c=[m["kindq"].split(".")[-1], "case_sensitive" if m["case_sensitive"] else "case_insensitive",
                                                 "matches" if m.get("nontrivial") else "no-match"]
                                                + (["has-\\B"] if "\\B" in m["compiled"] else [])
                                                + (["mixed-length-fold-rune"] if m["mixed_fold_rune"] else [])) for m in meta.values()], "c"),
        traces_validated_against_impl=ev["evaluated"],
        correspondence_mismatches=len(ev["bad"]),
        oracle_failures=len(failures),
        trusted_base=[
            "PARTIAL: the two regexp engines (github.com/grafana/regexp; RE2 compiled to WebAssembly behind github.com/wasilibs/go-re2) are not modelled; "
            "C28_threshold_irrelevant_partial assumes (Section hypotheses grafana_spec, re2_spec) that both implement a common spec_find_all on valid UTF-8; "
            "engine agreement is only checked on the generated (corpus, regexp) pairs",
            "harness harness/overlay/index/zz_verif_c28_test.go (generator, canonicalisation) and harness/overlay/internal/hybridre2/zz_verif_c28d_test.go",
            "translator/hybridre2 (go/ast: reads const disabled, threshold() path by path, the guard of Compile's go-re2 branch, the body of useRE2 and every path of "
            "Regexp.FindAllIndex into coq/Generated/HybridRe2.v on every run; conservative: anything it does not recognise becomes an opaque "
            "condition / a derived argument / a non-engine leaf, which the checker tree_ok rejects unless harmless)",
            "one process per setting: threshold is read once per process (sync.OnceValue)",
        ],
    )
    if proofs.get("coqchk"):
        cov["coqchk"] = proofs["coqchk"]
    return vf.finish(ctx, "proof", proofs, cov, failures=failures, broken=broken,
                     assumptions=["valid UTF-8 contents", "both engines implement the same FindAllIndex semantics (checked on generated inputs, not proved)"])
