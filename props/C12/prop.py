import json
import os

import vf

FILES = ["index/builder.go", "index/tombstones.go"]
FNS = "Rename,Remove,RemoveAll,Mkdir,MkdirAll,MkdirTemp,CreateTemp,Create,OpenFile,WriteFile,Chmod,Symlink,Link,Truncate"

SPEC = dict(
    level="proof",
    harness=dict(pkg_dir="search", run="TestVerifC12$", files=["search/zz_verif_c12_test.go"],
                 n_quick=14, n_thorough=40),
    runner=dict(imports=["From ZV Require Import Lib.Base Model.FsOps Model.FinishOps."], case_type="c12case",
                mismatch_fn="c12_mismatches", shard=300),
    rule="REAL index builds of one repository through index.Builder (working tree's index/builder.go + index/tombstones.go with "
         "their os.* mutation call sites routed through the zzfs shim by translator/fsinstrument, via -overlay). Scenario = old "
         "index (none | full build with 1-3 shards | full + 1-2 delta builds, so .meta sidecars exist | repository alive in a "
         "compound shard with/without sidecar, ShardMerging) x new build (full 1-3 shards | delta with 0-2 new shards; "
         "Parallelism 1 or 3). Per scenario: undisturbed run; killed (freeze) before EVERY mutation; killed by a real os.Exit in "
         "a child process before every mutation (first scenarios in quick, all in thorough); EVERY single mutation failing "
         "(CreateTemp also as 'file created, write fails'). After each run the directory is loaded with "
         "search.NewDirectorySearcher. Second harness (package cmd/zoekt-sourcegraph-indexserver): the REAL mergeMeta "
         "(metadata-only update: one temp sidecar per shard, then a rename loop) on indexes with 1-3 shards with/without old "
         "sidecars, same kill / fault enumeration, model instance = delta build without new shards. Case = (build parameters, executed op list, killed?, Finish error?, per-slot view); "
         "non-trivial = a kill or a fault, distinct by (parameters, ops, view).",
    trusted_base=["correspondence harness harness/overlay/search/zz_verif_c12_test.go (scenario generator, file-name -> model-name "
                  "abstraction, classification of a visible shard/sidecar as old/new by IndexMetadata.ID / sidecar bytes, Go oracle "
                  "by digest of List + Search(TRUE, Whole))",
                  "translator/fsinstrument + zzfs shim: kill = freeze of all later intercepted operations (validated against real "
                  "os.Exit kills of a child process); writes through *os.File are not intercepted: the harness inserts the write "
                  "of every temp file after its CreateTemp (complete before the next intercepted operation)",
                  "translator/finishops (go/ast walk listing the fs call sites of Finish/writeShard/JsonMarshalRepoMetaTemp/"
                  "setTombstone in program order -> Generated/FinishSites.v, matched against the model by vm_compute)",
                  "model abstractions: shard/sidecar contents are 'old' | 'new' | partial per slot; operations are atomic; a failed "
                  "operation has no effect; reads (Stat, ReadMetadataPathAlive, IndexFilePaths) never fail; rename(2) atomicity and "
                  "durability (no fsync reasoning) are assumed"],
    assumptions=["no other writer in the index directory during the build; no temp files / other repositories' files interfere",
                 "rename is atomic and a kill loses no completed operation (process kill, not power loss)",
                 "fault-free prefix theorems assume phase W completed every temp file before the rename loop (Finish waits for all "
                 "shard builders; checked per run by the correspondence)"],
)


def instrument(ctx, files=None, sub="fsinstrument"):
    files = files or FILES
    out = os.path.join(ctx.tmp, sub)
    os.makedirs(out, exist_ok=True)
    rc, txt = vf.sh(["go", "run", os.path.join(vf.ROOT, "translator", "fsinstrument", "main.go"), "-repo", vf.REPO, "-out", out,
                     "-fns", FNS] + files, cwd=vf.REPO, env=vf.go_env(), timeout=300)
    if rc != 0:
        raise RuntimeError("fsinstrument failed: " + txt[-2000:])
    data = json.loads(txt[txt.index("{"):])
    return data["Replace"], data["sites"]


def generate(ctx):
    """Generated/FinishSites.v: the fs call sites of Finish/writeShard/JsonMarshalRepoMetaTemp/setTombstone in program order.
    Only a run against /repo itself rewrites the shared file (Props/C12.v imports it). A run against another tree
    (VERIF_REPO = mutant / seed worktree) must not clobber it for concurrent runs: its generated list goes to a private
    file under coq/Run and is matched against the model's expected_sites by the same vm_compute equation there.
    Returns a list of 'broken' messages."""
    rc, txt = vf.sh(["go", "run", os.path.join(vf.ROOT, "translator", "finishops", "main.go"), "-repo", vf.REPO],
                    cwd=vf.REPO, env=vf.go_env(), timeout=300)
    if rc != 0 or "Definition finish_sites" not in txt:
        raise RuntimeError("translator/finishops failed: " + txt[-2000:])
    gen = txt[txt.index("(* generated"):]
    if os.path.realpath(vf.REPO) == os.path.realpath("/repo"):
        vf.write_if_changed(os.path.join(vf.COQ, "Generated", "FinishSites.v"), gen)
        return []
    ok, log = vf.coq_build(["Model/FinishOps.vo"])
    name = "sites_C12_p%d" % os.getpid()
    path = os.path.join(vf.COQ, "Run", name + ".v")
    os.makedirs(os.path.dirname(path), exist_ok=True)
    with open(path, "w") as f:
        f.write(gen + "\nFrom ZV Require Import Model.FinishOps.\n"
                "Goal finish_sites = expected_sites. Proof. vm_compute. reflexivity. Qed.\n")
    try:
        rc, out = vf.sh(["coqc", "-Q", ".", "ZV", "-w", "-all", "Run/" + name + ".v"], cwd=vf.COQ, timeout=600)
    finally:
        for ext in (".v", ".vo", ".vok", ".vos", ".glob"):
            try:
                os.remove(os.path.join(vf.COQ, "Run", name + ext))
            except OSError:
                pass
        try:
            os.remove(os.path.join(vf.COQ, "Run", "." + name + ".aux"))
        except OSError:
            pass
    if rc != 0:
        return ["C12_finish_sites_match_model fails on this tree: the call-site order / early returns / buildError assignments "
                "of Finish, writeShard, JsonMarshalRepoMetaTemp, setTombstone extracted from the source differ from the model's "
                "expected_sites: " + out[-600:]]
    return []


META_FILES = ["cmd/zoekt-sourcegraph-indexserver/meta.go"]


def run(ctx):
    """standard_check with two harnesses: builds through index.Builder (package search) and metadata-only updates through
    the indexserver's mergeMeta (package main); both feed the same model runner."""
    pid = ctx.pid
    spec = SPEC
    site_broken = generate(ctx)
    proofs = vf.coq_props(ctx, pid)
    broken, failures = list(site_broken), []
    if site_broken:
        proofs["ok"] = False
    aok, aout = vf.audit()
    if not aok:
        proofs["ok"] = False
        proofs["discharged"] = 0
        broken.append("audit: the development contains Admitted/Axiom/Parameter or disables a kernel check: " + aout[-800:])
    if ctx.tier == "thorough" and proofs["ok"]:
        cok, cout = vf.coqchk(pid)
        proofs["coqchk"] = cout[-1500:]
        if not cok:
            proofs["ok"] = False
            broken.append("coqchk rejects Props/%s.vo: %s" % (pid, cout[-800:]))
    if not proofs["ok"]:
        broken.append("proof obligations of Props/%s.v do not check: %s" % (pid, (proofs.get("broken_files") or proofs.get("nonstd_axioms") or proofs["log"][-800:])))
    h = spec["harness"]
    n = int(os.environ.get("VERIF_C12_N") or ctx.n(h["n_quick"], h["n_thorough"]))
    to = 1500 if ctx.tier == "quick" else 5400
    rep, _sites = instrument(ctx, FILES, "fsi-build")
    hr = vf.go_harness(ctx, h["pkg_dir"], h["run"], h["files"], n, timeout=to, extra_replace=rep, out_name="out-build.jsonl")
    rep2, _sites2 = instrument(ctx, META_FILES, "fsi-meta")
    hm = vf.go_harness(ctx, "cmd/zoekt-sourcegraph-indexserver", "TestVerifC12Meta$",
                       ["cmd/zoekt-sourcegraph-indexserver/zz_verif_c12meta_test.go"], ctx.n(4, 4), timeout=to,
                       extra_replace=rep2, out_name="out-meta.jsonl")
    recs = hr["records"] + hm["records"]
    for name, r_ in (("TestVerifC12", hr), ("TestVerifC12Meta", hm)):
        if r_["rc"] != 0:
            broken.append("harness %s failed (rc=%d): %s" % (name, r_["rc"], r_["log"][-1500:]))
        elif not [x for x in r_["records"] if x.get("kind") == "case"]:
            broken.append("harness %s produced no cases" % name)
    cases = [r_ for r_ in recs if r_.get("kind") == "case"]
    for r_ in recs:
        if r_.get("kind") == "oracle_fail":
            failures.append(dict(key=r_.get("key", "?"), what=r_.get("what", ""), replay=r_.get("replay")))
    ev = dict(ok=True, bad=[], evaluated=0, log="")
    r = spec["runner"]
    if cases:
        ev = vf.coq_eval_cases(ctx, pid, r["imports"], r["case_type"], r["mismatch_fn"], [c["coq"] for c in cases], shard=r.get("shard", 400))
        if not ev["ok"]:
            broken.append("model evaluation failed: " + ev["log"][-1500:])
        for i in ev["bad"][:20]:
            broken.append("correspondence %s: model and implementation disagree on case %s" % (r["mismatch_fn"], json.dumps(cases[i].get("sample"), default=str)[:1500]))
    cov = dict(
        evaluations=len(cases),
        distinct_nontrivial=vf.distinct_nontrivial(cases),
        rule=spec["rule"],
        samples=[c.get("sample") for c in cases[:2]] + [c.get("sample") for c in cases if "mergeMeta" in str(c.get("class"))][:1],
        traces_validated_against_impl=ev["evaluated"],
        correspondence_mismatches=len(ev["bad"]),
        oracle_failures=len(failures),
        input_distribution=vf.histogram(cases, "class"),
        trusted_base=spec["trusted_base"],
    )
    if proofs.get("coqchk"):
        cov["coqchk"] = proofs["coqchk"]
    return vf.finish(ctx, spec["level"], proofs, cov, failures=failures, broken=broken, assumptions=spec["assumptions"])
