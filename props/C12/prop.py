import json
import os

import vf

FILES = ["index/builder.go", "index/tombstones.go"]
FNS = "Rename,Remove,RemoveAll,Mkdir,MkdirAll,MkdirTemp,CreateTemp,Create,OpenFile,WriteFile,Chmod,Symlink,Link,Truncate"

SPEC = dict(
    level="proof",
    harness=dict(pkg_dir="search", run="TestVerifC12$", files=["search/zz_verif_c12_test.go"],
                 n_quick=14, n_thorough=120),
    runner=dict(imports=["From ZV Require Import Lib.Base Model.FsOps Model.FinishOps."], case_type="c12case",
                mismatch_fn="c12_mismatches", shard=300),
    rule="",
    trusted_base=[],
    assumptions=[],
)


def instrument(ctx):
    out = os.path.join(ctx.tmp, "fsinstrument")
    os.makedirs(out, exist_ok=True)
    rc, txt = vf.sh(["go", "run", os.path.join(vf.ROOT, "translator", "fsinstrument", "main.go"), "-repo", vf.REPO, "-out", out,
                     "-fns", FNS] + FILES, cwd=vf.REPO, env=vf.go_env(), timeout=300)
    if rc != 0:
        raise RuntimeError("fsinstrument failed: " + txt[-2000:])
    data = json.loads(txt[txt.index("{"):])
    return data["Replace"], data["sites"]


def run(ctx):
    rep, sites = instrument(ctx)
    orig = vf.go_harness

    def patched(*a, **k):
        k["extra_replace"] = rep
        return orig(*a, **k)
    vf.go_harness = patched
    try:
        return vf.standard_check(ctx, SPEC)
    finally:
        vf.go_harness = orig
