import json
import os

import vf

FILES = ["index/builder.go", "index/tombstones.go"]
FNS = "Rename,Remove,RemoveAll,Mkdir,MkdirAll,MkdirTemp,CreateTemp,Create,OpenFile,WriteFile,Chmod,Symlink,Link,Truncate"

SPEC = dict(
    level="proof",
    harness=dict(pkg_dir="search", run="TestVerifC12$", files=["search/zz_verif_c12_test.go"],
                 n_quick=14, n_thorough=120),
    runner=dict(imports=["From ZV Require Import Lib.Base Model.FsOps Model.FinishOps."], case_type="c12case",
                mismatch_fn="c12_mismatches", shard=300),
    rule="REAL index builds of one repository through index.Builder (working tree's index/builder.go + index/tombstones.go with "
         "their os.* mutation call sites routed through the zzfs shim by translator/fsinstrument, via -overlay). Scenario = old "
         "index (none | full build with 1-3 shards | full + 1-2 delta builds, so .meta sidecars exist | repository alive in a "
         "compound shard with/without sidecar, ShardMerging) x new build (full 1-3 shards | delta with 0-2 new shards; "
         "Parallelism 1 or 3). Per scenario: undisturbed run; killed (freeze) before EVERY mutation; killed by a real os.Exit in "
         "a child process before every mutation (first scenarios in quick, all in thorough); EVERY single mutation failing "
         "(CreateTemp also as 'file created, write fails'). After each run the directory is loaded with "
         "search.NewDirectorySearcher. Case = (build parameters, executed op list, killed?, Finish error?, per-slot view); "
         "non-trivial = a kill or a fault, distinct by (parameters, ops, view).",
    trusted_base=["correspondence harness harness/overlay/search/zz_verif_c12_test.go (scenario generator, file-name -> model-name "
                  "abstraction, classification of a visible shard/sidecar as old/new by IndexMetadata.ID / sidecar bytes, Go oracle "
                  "by digest of List + Search(TRUE, Whole))",
                  "translator/fsinstrument + zzfs shim: kill = freeze of all later intercepted operations (validated against real "
                  "os.Exit kills of a child process); writes through *os.File are not intercepted: the harness inserts the write "
                  "of every temp file after its CreateTemp (complete before the next intercepted operation)",
                  "translator/finishops (go/ast walk listing the fs call sites of Finish/writeShard/JsonMarshalRepoMetaTemp/"
                  "setTombstone in program order -> Generated/FinishSites.v, matched against the model by vm_compute)",
                  "model abstractions: shard/sidecar contents are 'old' | 'new' | partial per slot; operations are atomic; a failed "
                  "operation has no effect; reads (Stat, ReadMetadataPathAlive, IndexFilePaths) never fail; rename(2) atomicity and "
                  "durability (no fsync reasoning) are assumed"],
    assumptions=["no other writer in the index directory during the build; no temp files / other repositories' files interfere",
                 "rename is atomic and a kill loses no completed operation (process kill, not power loss)",
                 "fault-free prefix theorems assume phase W completed every temp file before the rename loop (Finish waits for all "
                 "shard builders; checked per run by the correspondence)"],
)


def instrument(ctx):
    out = os.path.join(ctx.tmp, "fsinstrument")
    os.makedirs(out, exist_ok=True)
    rc, txt = vf.sh(["go", "run", os.path.join(vf.ROOT, "translator", "fsinstrument", "main.go"), "-repo", vf.REPO, "-out", out,
                     "-fns", FNS] + FILES, cwd=vf.REPO, env=vf.go_env(), timeout=300)
    if rc != 0:
        raise RuntimeError("fsinstrument failed: " + txt[-2000:])
    data = json.loads(txt[txt.index("{"):])
    return data["Replace"], data["sites"]


def generate(ctx):
    """Generated/FinishSites.v: the fs call sites of Finish/writeShard/JsonMarshalRepoMetaTemp/setTombstone in program order."""
    rc, txt = vf.sh(["go", "run", os.path.join(vf.ROOT, "translator", "finishops", "main.go"), "-repo", vf.REPO],
                    cwd=vf.REPO, env=vf.go_env(), timeout=300)
    if rc != 0 or "Definition finish_sites" not in txt:
        raise RuntimeError("translator/finishops failed: " + txt[-2000:])
    vf.write_if_changed(os.path.join(vf.COQ, "Generated", "FinishSites.v"), txt[txt.index("(* generated"):])


def run(ctx):
    generate(ctx)
    rep, sites = instrument(ctx)
    orig = vf.go_harness

    def patched(*a, **k):
        k["extra_replace"] = rep
        return orig(*a, **k)
    vf.go_harness = patched
    try:
        return vf.standard_check(ctx, SPEC)
    finally:
        vf.go_harness = orig
