"""C07 - query parsing and API query decoding never crash.

 1. translator/qparser regenerates coq/Generated/ParserTables.v from /repo (token consts, prefix table, the query.Q
    kinds, the type-switch cases of QToProto and newMatchTree)
 2. proofs: Props/C07.v (parse never panics / terminates within fuel / parsed queries are convertible and dispatchable)
 3. correspondence: harness in package query (token scan, Parse outcome + error code + result tree vs the model)
 4. oracle: Parse/String/QToProto/QFromProto under recover (package query); Search/List on an in-memory shard and the
    JSON API handlers with well-formed and malformed bodies (package index)
"""
import os
import vf

IMPORTS = ["From ZV Require Import Model.Regex.", "From ZV Require Import Lib.Base Model.Query Model.Parser."]
RULE = ("regression corpus + ALL strings of <= 3 (thorough: 4) symbols over the 12-symbol alphabet "
        "( ) \" \\ - : space or a f:  case:yes type:repo meta.k:  (finite sweep) + random: queries generated from the "
        "EBNF of doc/query_syntax.md, the same with one random edit, and 4-12 random symbols incl. invalid UTF-8 / NUL / tab / newline; "
        "distinct by input string; non-trivial = the token scan yields >= 2 tokens. Second harness (oracle only): parsed queries searched/"
        "listed on an in-memory shard and sent through the JSON API, plus malformed / wrongly typed JSON bodies.")
TRUSTED = [
    "hand-written parser model coq/Model/Parser.v (tied by the differential correspondence: tokens, outcome class, error code, result tree)",
    "external engines as Section variables: regexp/syntax.Parse+OptimizeRegexp (RegexpQuery), grafana regexp.Compile, languages lookup, Regexp.setCase(auto); "
    "the theorems hold for every behaviour of them, the correspondence feeds the real answers",
    "translator/qparser (go/ast) for the generated tables; Model/Query.v Simplify (owned by C05)",
    "search/list/JSON stages: only newMatchTree's kind dispatch is modelled (mt_kinds); the rest is exercised by the Go oracle under recover()",
    "encoding/json, net/http, fmt are trusted",
]


def par_eval(ctx, pid, imports, case_type, fn, terms, shard=300, workers=8):
    """vf.coq_eval_cases on shards, several coqc processes at a time (elaborating the case terms dominates)."""
    from concurrent.futures import ThreadPoolExecutor
    chunks = [(s, terms[s:s + shard]) for s in range(0, len(terms), shard)]

    def one(a):
        s, ch = a
        r = vf.coq_eval_cases(ctx, pid, imports, case_type, fn, ch, shard=shard, tag="_p%d" % s)
        return s, r
    out = dict(ok=True, bad=[], evaluated=0, log="")
    with ThreadPoolExecutor(max_workers=workers) as ex:
        for s, r in ex.map(one, chunks):
            out["ok"] = out["ok"] and r["ok"]
            out["bad"] += [s + i for i in r["bad"]]
            out["evaluated"] += r["evaluated"]
            out["log"] += r["log"]
    return out


def gen_tables(ctx):
    rc, out = vf.sh(["go", "run", os.path.join(vf.ROOT, "translator", "qparser", "main.go"), vf.REPO], cwd=ctx.tmp, env=vf.go_env(), timeout=300)
    if rc != 0 or "Definition prefixes" not in out:
        return "translator/qparser failed: " + out[-1500:]
    vf.write_if_changed(os.path.join(vf.COQ, "Generated", "ParserTables.v"), out)
    return None


def run(ctx):
    import time
    T = {}
    t0 = time.time()
    broken, failures = [], []
    err = gen_tables(ctx)
    if err:
        broken.append(err)
    proofs = vf.coq_props(ctx, "C07")
    aok, aout = vf.audit()
    if not aok:
        proofs["ok"] = False
        proofs["discharged"] = 0
        broken.append("audit: " + aout[-800:])
    if ctx.tier == "thorough" and proofs["ok"]:
        cok, cout = vf.coqchk("C07")
        proofs["coqchk"] = cout[-1500:]
        if not cok:
            proofs["ok"] = False
            broken.append("coqchk rejects Props/C07.vo: " + cout[-800:])
    if not proofs["ok"]:
        broken.append("proof obligations of Props/C07.v do not check: %s" % (proofs.get("broken_files") or proofs.get("nonstd_axioms") or proofs["log"][-1200:]))

    T['proofs+audit'] = round(time.time() - t0, 1); t0 = time.time()
    # ---- harness A: package query (correspondence + oracle)
    ha = vf.go_harness(ctx, "query", "TestVerifC07$", ["query/zz_verif_c07_test.go"], ctx.n(700, 4000),
                       timeout=600 if ctx.tier == "quick" else 3000, out_name="outA.jsonl")
    if ha["rc"] != 0:
        broken.append("harness TestVerifC07 failed (rc=%d): %s" % (ha["rc"], ha["log"][-1500:]))
    cases = [r for r in ha["records"] if r.get("kind") == "case"]
    T['harnessA'] = round(time.time() - t0, 1); t0 = time.time()
    # ---- harness B: package index (oracle: search / list / JSON API)
    hb = vf.go_harness(ctx, "index", "TestVerifC07b$", ["index/zz_verif_c07b_test.go"], ctx.n(300, 2500),
                       timeout=600 if ctx.tier == "quick" else 3000, out_name="outB.jsonl")
    if hb["rc"] != 0:
        broken.append("harness TestVerifC07b failed (rc=%d): %s" % (hb["rc"], hb["log"][-1500:]))
    T['harnessB'] = round(time.time() - t0, 1); t0 = time.time()
    stages = [r for r in hb["records"] if r.get("kind") == "stage"]
    jcases = [r for r in hb["records"] if r.get("kind") == "jcase"]
    for r in ha["records"] + hb["records"]:
        if r.get("kind") == "oracle_fail":
            failures.append(dict(key=r.get("key", "?"), what=r.get("what", ""), replay=r.get("replay")))
    ev = dict(ok=True, bad=[], evaluated=0, log="")
    if cases:
        ev = par_eval(ctx, "C07", IMPORTS, "c07case", "c07_mismatches", [c["coq"] for c in cases])
        if not ev["ok"]:
            broken.append("model evaluation failed: " + ev["log"][-1500:])
        for i in ev["bad"][:20]:
            broken.append("correspondence c07_mismatches: model and implementation disagree on case %s" % vf.json.dumps(cases[i].get("sample"), default=str)[:800])
    elif ha["rc"] == 0:
        broken.append("harness produced no cases")
    jev = dict(ok=True, bad=[], evaluated=0, log="")
    if jcases:
        jev = vf.coq_eval_cases(ctx, "C07", ["From ZV Require Import Lib.Base Model.Query Model.JsonApi."], "jcase", "json_mismatches",
                                [c["coq"] for c in jcases], shard=4000, tag="_json")
        if not jev["ok"]:
            broken.append("model evaluation (JSON handlers) failed: " + jev["log"][-1500:])
        for i in jev["bad"][:10]:
            broken.append("correspondence json_mismatches: handler status differs from the model on %s" % vf.json.dumps(jcases[i].get("sample"), default=str)[:600])
    elif hb["rc"] == 0:
        broken.append("harness B produced no JSON handler cases")
    if not stages and hb["rc"] == 0:
        broken.append("harness B produced no stage records")
    T['model-eval'] = round(time.time() - t0, 1)
    cov = dict(
        phase_seconds=T,
        evaluations=len(cases) + len(stages),
        distinct_nontrivial=vf.distinct_nontrivial(cases) + vf.distinct_nontrivial(stages),
        rule=RULE,
        samples=[c.get("sample") for c in cases[200:203]] + [s.get("sample") for s in stages[:2]],
        traces_validated_against_impl=ev["evaluated"] + jev["evaluated"],
        correspondence_mismatches=len(ev["bad"]) + len(jev["bad"]),
        json_handler_cases=len(jcases),
        oracle_failures=len(failures),
        input_distribution=vf.histogram(cases, "class"),
        stage_distribution=vf.histogram(stages, "class"),
        trusted_base=TRUSTED,
    )
    if proofs.get("coqchk"):
        cov["coqchk"] = proofs["coqchk"]
    return vf.finish(ctx, "proof", proofs, cov, failures=failures, broken=broken,
                     assumptions=["the external engines (regexp/syntax, grafana regexp, go-enry) return normally (they are quantified over as total functions)"])
