import os
import vf

SPEC = dict(
    level="proof",
    harness=dict(pkg_dir="cmd/zoekt-webserver/grpc/server", run="TestVerifC24(Stream)?$",
                 files=["grpcserver/zz_verif_c24_test.go", "grpcserver/zz_verif_c24s_test.go"],
                 n_quick=260, n_thorough=2000),
    runner=dict(imports=["From ZV Require Import Lib.Base Lib.WireTypes Model.Wire Model.WireGen."], case_type="wcase",
                mismatch_fn="c24_mismatches", shard=300),
    extra_targets=["Proofs/Wire.vo", "Proofs/WireGen.vo"],
    rule="40% random Go values of the 19 zoekt types with a ToProto/FromProto pair (reflective generator: boundary integers, NaN, "
         "nil/empty collections, nil pointers, zoned/zero times, unnamed enum values ~6%), each giving a ToProto case, a FromProto "
         "case and (in-domain values) a domain case; 20% random query trees of all 19 wire kinds (depth<=4, ~4% nil children, "
         "unnamed Type / RawConfig bits) through QToProto -> Marshal/Unmarshal -> QFromProto; 20% random protobuf Q messages with "
         "unset children / unset oneof / invalid patterns / invalid bitmaps through QFromProto; 20% Search/StreamSearch/List "
         "requests (unset query, nil opts, unset stream request, overflowing durations) against the real Server over a real "
         "one-shard directory searcher with recover(), the first 15 directed (every handler x every subset of {query, opts} set, "
         "StreamSearch without inner request); a wrapping Streamer records the (query, options) the handler hands to the searcher "
         "and the result it returns: WHandlerA (decoding) and WHandlerR (response = model's encoding of that result) cases. Every run "
         "also: XFromProto(nil) and XFromProto(&X{}) of all 19 zoekt and 18 query struct types, and every ToProto output again with a "
         "random subset of its sub-messages / map values unset. Also every run (Go-side oracle only, TestVerifC24Stream): 10 (thorough 60) "
         "scripted event sequences (stats-only events; events whose file matches are small / medium / around / above the 1 MiB chunk limit, "
         "the big match first, in the middle, last) streamed through the real Server.StreamSearch, every stream message serialised and decoded "
         "with SearchResultFromProto: all file matches in order and the sum of all events' stats must reach the client. Non-trivial = encoded value > 200 (150 for queries) characters, and "
         "every wire-side / handler / unset-message case.",
    trusted_base=["correspondence harness harness/overlay/grpcserver/zz_verif_c24_test.go (reflective encoder into the model's `val`, generators, Go oracle) and the "
                  "service-level stream oracle harness/overlay/grpcserver/zz_verif_c24s_test.go (Go-side only: sampling and chunking of stream events are not in the model)",
                  "translator/protofields (go/ast + go/types classification of the conversion expressions); an expression it cannot classify becomes CUnknown and fails fields_ok",
                  "regexp printing/parsing fidelity (CReTo/CReFrom: property C27) and the roaring bitmap codec (CBitmapTo/CBitmapFrom) are assumed inverse",
                  "time.Time represented as (Unix seconds, nanoseconds): location and monotonic clock are not on the wire; Go int is 64 bit",
                  "handler model: request decoding, dispatch and response encoding (res.ToProto()) are modelled; the searcher is a section variable "
                  "assumed not to panic on non-nil options and to return values of the result type's round-trip domain; the chunking of stream events (grpc/chunk) is outside",
                  "protobuf-go getters return the zero value on a nil receiver (XFromProto(nil) = XFromProto(&X{}) for getter-only functions; checked by the harness oracle nil-vs-empty)"],
    assumptions=["Go int is 64 bit", "regexp print/parse and roaring encode/decode are inverse (trusted codecs)",
                 "searchers dereference *SearchOptions (nil options panic) and accept nil *ListOptions",
                 "searchers return results inside the round-trip domain of SearchResult / RepoList (named enum values, non-nil RepoList)"],
)


def translate(ctx):
    """Regenerate coq/Generated/ProtoFields.v from the CURRENT sources of the repo under check."""
    main = os.path.join(vf.ROOT, "translator", "protofields", "main.go")
    rc, out = vf.sh("go run %s 2>%s/translator.err" % (main, ctx.tmp), cwd=vf.REPO, env=vf.go_env(), timeout=600)
    dst = os.path.join(vf.COQ, "Generated", "ProtoFields.v")
    if rc != 0 or "Definition pf_tables" not in out:
        err = open(os.path.join(ctx.tmp, "translator.err")).read()[-1500:] if os.path.exists(os.path.join(ctx.tmp, "translator.err")) else ""
        return "translator/protofields failed (rc=%d): %s %s" % (rc, out[-500:], err)
    vf.write_if_changed(dst, out)
    return None


def run(ctx):
    err = translate(ctx)
    if err:
        proofs = dict(ok=False, obligations=0, discharged=0, theorems=[])
        return vf.finish(ctx, "proof", proofs, dict(trusted_base=SPEC["trusted_base"], rule=SPEC["rule"]), broken=[err],
                         assumptions=SPEC["assumptions"])
    return vf.standard_check(ctx, SPEC)
