import vf

SPEC = dict(
    level="proof",
    harness=dict(pkg_dir="index", run="TestVerifC21$", files=["index/zz_verif_c01_test.go", "index/zz_verif_c21_test.go"],
                 n_quick=300, n_thorough=6000),
    runner=dict(imports=["From ZV Require Import Lib.Base Model.SearchCore Model.SearchLimits."], case_type="c21case",
                mismatch_fn="c21_mismatches", shard=150),
    rule="C01's corpora (real shards: 1-3 repositories, 1-10 documents, tombstones) x broad and random query trees x limit settings "
         "(ShardMaxMatchCount in {default,1..6,100}, ShardRepoMaxMatchCount in {0,1,2,3}, both, LineMatches / ChunkMatches) and cancellation "
         "through a context whose Done() reports closed after k in 0..5 polls; non-trivial = the limited run returns fewer files than the "
         "unlimited one.",
    trusted_base=["correspondence harness harness/overlay/index/zz_verif_c21_test.go + zz_verif_c01_test.go (generator, oracle: limited files are a "
                  "subsequence of the unlimited files with reflect.DeepEqual FileMatch values; prefix when no per-repository limit)",
                  "the search-core model of C01 (coq/Model/SearchCore.v) with its trusted base",
                  "the match count a file contributes is taken from the unlimited run of the implementation (a function of the document only, "
                  "theorem C21_file_payload_independent)",
                  "promptness of real deadlines is runtime behaviour: only 'terminates, no panic' is observed (polled context)"],
    assumptions=["as C01: valid UTF-8, agree, sizes < 2^32"],
)

def run(ctx):
    return vf.standard_check(ctx, SPEC)
