import json
import vf

H_INDEX = dict(pkg_dir="index", run="TestVerifC21$", files=["index/zz_verif_c01_test.go", "index/zz_verif_c21_test.go"], n_quick=120, n_thorough=3000)
H_TOTAL = dict(pkg_dir="search", run="TestVerifC21Total$", files=["search/zz_verif_c21_test.go"], n_quick=24, n_thorough=400)
H_DEADLINE = dict(pkg_dir="search", run="TestVerifC21Deadline$", files=["search/zz_verif_c21deadline_test.go"], n_quick=16, n_thorough=160)
IMPORTS = ["From ZV Require Import Lib.Base Model.SearchCore Model.SearchLimits Model.SearchDeadline."]
RULE = ("C01's corpora (real shards: 1-3 repositories, 1-10 documents, tombstones) x broad and random query trees x limit settings "
        "(ShardMaxMatchCount in {default,1..6,100}, ShardRepoMaxMatchCount in {0,1,2,3}, both, LineMatches / ChunkMatches) and cancellation "
        "through a context whose Done() reports closed after k in 0..5 polls; plus 2-5 single-repository shards behind a real shardedSearcher "
        "(one worker) x TotalMaxMatchCount in 1..5; non-trivial = the limited run returns fewer files / shard results than the unlimited one. "
        "Deadline cases: 2-7 fake shards (1+ of them returning only when their context is done) behind a real shardedSearcher x Search / "
        "StreamSearch x {MaxWallTime only, MaxWallTime with a later / earlier caller deadline, caller deadline only, caller cancels while "
        "the slow shards are running (with / without a far MaxWallTime)}; non-trivial = some deadline is set.")
TRUSTED = ["correspondence harnesses harness/overlay/index/zz_verif_c21_test.go (+ zz_verif_c01_test.go) and harness/overlay/search/zz_verif_c21_test.go "
           "(generators; oracle: limited files are a subsequence of the unlimited files with reflect.DeepEqual FileMatch values, prefix when no "
           "per-repository limit, every repository kept under ShardRepoMaxMatchCount=1, whole shard results under the total limit)",
           "the search-core model of C01 (coq/Model/SearchCore.v) with its trusted base",
           "the match count a file contributes is taken from the unlimited run of the implementation (a function of the document only, "
           "theorem C21_file_payload_independent)",
           "total limit: one worker (GOMAXPROCS(1)) so that shard results arrive in dispatch order; the number of in-flight shards at stop() is "
           "existentially quantified (<= 3) in the comparison",
           "deadlines: the wiring (which context the shard searches receive) is compared with the model exactly (deadline of the context a "
           "fake shard is handed); promptness in real time is an oracle with a generous bound (return within 20x the deadline; a shard that "
           "ignores its context is outside the model: shards are cooperative, indexData.Search polls ctx.Done() per document)"]
ASSUME = ["as C01: valid UTF-8, agree, sizes < 2^32"]


def run(ctx):
    pid = ctx.pid
    proofs = vf.coq_props(ctx, pid)
    broken, failures = [], []
    aok, aout = vf.audit()
    if not aok:
        proofs["ok"] = False
        proofs["discharged"] = 0
        broken.append("audit: " + aout[-800:])
    if ctx.tier == "thorough" and proofs["ok"]:
        cok, cout = vf.coqchk(pid)
        proofs["coqchk"] = cout[-1500:]
        if not cok:
            proofs["ok"] = False
            broken.append("coqchk rejects Props/%s.vo: %s" % (pid, cout[-800:]))
    if not proofs["ok"]:
        broken.append("proof obligations of Props/%s.v do not check: %s" % (pid, (proofs.get("broken_files") or proofs.get("nonstd_axioms") or proofs["log"][-800:])))
    allcases, evaluated, mism, infos = [], 0, 0, []
    for h, ctype, fn, tag in ((H_INDEX, "c21case", "c21_mismatches", "i"), (H_TOTAL, "c21tcase", "c21t_mismatches", "t"),
                              (H_DEADLINE, "c21dcase", "c21d_mismatches", "d")):
        n = ctx.n(h["n_quick"], h["n_thorough"])
        hr = vf.go_harness(ctx, h["pkg_dir"], h["run"], h["files"], n, timeout=900 if ctx.tier == "quick" else 3600, out_name="out-%s.jsonl" % tag)
        recs = hr["records"]
        cases = [r for r in recs if r.get("kind") == "case"]
        for r in recs:
            if r.get("kind") == "oracle_fail":
                failures.append(dict(key=r.get("key", "?"), what=r.get("what", ""), replay=r.get("replay")))
            elif r.get("kind") == "info":
                infos.append({k: v for k, v in r.items() if k != "kind"})
        if hr["rc"] != 0:
            broken.append("harness %s failed (rc=%d): %s" % (h["run"], hr["rc"], hr["log"][-1500:]))
        if cases:
            ev = vf.coq_eval_cases(ctx, pid, IMPORTS, ctype, fn, [c["coq"] for c in cases], shard=150, tag=tag)
            if not ev["ok"]:
                broken.append("model evaluation failed: " + ev["log"][-1500:])
            evaluated += ev["evaluated"]
            mism += len(ev["bad"])
            for i in ev["bad"][:20]:
                broken.append("correspondence %s: model and implementation disagree on case %s" % (fn, json.dumps(cases[i].get("sample"), default=str)[:1500]))
        elif hr["rc"] == 0:
            broken.append("harness %s produced no cases" % h["run"])
        allcases += cases
    cov = dict(
        evaluations=len(allcases),
        distinct_nontrivial=vf.distinct_nontrivial(allcases),
        rule=RULE,
        samples=[c.get("sample") for c in allcases[:3]] or [],
        traces_validated_against_impl=evaluated,
        correspondence_mismatches=mism,
        oracle_failures=len(failures),
        input_distribution=vf.histogram(allcases, "class"),
        trusted_base=TRUSTED,
    )
    if proofs.get("coqchk"):
        cov["coqchk"] = proofs["coqchk"]
    if infos:
        cov["info"] = infos
    return vf.finish(ctx, "proof", proofs, cov, failures=failures, broken=broken, assumptions=ASSUME)
