import json
import vf

RULE = ("SortCase: real sortDocuments on 0-8 generated documents (skip reason, category default/test/vendored/generated/config/missing, "
        "name/content length, #symbols, #branches with many ties) -> order; PostCase: ONE pooled postingsBuilder used for chains of 1-3 "
        "shards with reset() in between and across cases (documents over an alphabet with shared trigrams, multi-byte runes, invalid "
        "UTF-8, empty shards, >100 runes), observed = the bytes the real writePostings wrote cut into (ngram, data), runeOffsets, "
        "endRunes, isPlainASCII; PartCase: real Builder runs (ShardMax 1..2^20, SizeMax/binary skips) -> document->shard assignment read "
        "back from the shard files, Parallelism 1 and 3. non-trivial = >=3 documents / >=2 shards in the chain / >=2 shards written. "
        "End-to-end oracle (package search): corpora of 2-3 repositories x {tiny/medium/small shards, Parallelism 1/2/16, reversed and "
        "random insertion order, compound shard via index.Merge}; a directory searcher must return identical canonical results for a "
        "17-query battery plus 25 repository-filter queries (RepoSet / RepoIDs / Repo regexp / single-branch BranchesRepos selecting each single "
        "repository and first+last, alone and in a top-level And: in the compound builds a strict subset of the shard's repositories).")
TB = ["correspondence harnesses harness/overlay/index/zz_verif_c10_test.go and harness/overlay/search/zz_verif_c10e2e_test.go (generators, canonicalisation, Go oracles)",
      "rank(): the float vector is modelled as an integer vector: squashRange x/(1+x) assumed strictly increasing on the lengths that occur (< 2^26)",
      "sort.Slice modelled as insertion sort on the rank vector; legitimate because the vector is a strict total order (last component = original index); tied by SortCase",
      "utf8.DecodeRune is outside the model (documents are given as decoded (rune, size) sequences); symbol sections, file names postings share the same code path and are not modelled separately",
      "C10_config_independent assumes per-shard search is document-local (explicit hypothesis search_local: the result of a shard is, up to order, the union of the per-document results); "
      "that hypothesis is what properties C01/C18 are about and is sampled here by the end-to-end oracle",
      "parallel buildShard: shards are independent given their document lists (each goroutine gets its own ShardBuilder; pooled postingsBuilders are handed out by sync.Pool to one user at a time) — races are outside the model (C04/C19)"]
ASSUME = ["search_local (per-shard search is a function of the shard's document set, document by document)",
          "document lengths < 2^26 so that squashRange is injective in float64"]


def run(ctx):
    pid = ctx.pid
    proofs = vf.coq_props(ctx, pid)
    broken, failures = [], []
    aok, aout = vf.audit()
    if not aok:
        proofs["ok"] = False
        proofs["discharged"] = 0
        broken.append("audit: the development contains Admitted/Axiom/Parameter or disables a kernel check: " + aout[-800:])
    if ctx.tier == "thorough" and proofs["ok"]:
        cok, cout = vf.coqchk(pid)
        proofs["coqchk"] = cout[-1500:]
        if not cok:
            proofs["ok"] = False
            broken.append("coqchk rejects Props/%s.vo: %s" % (pid, cout[-800:]))
    if not proofs["ok"]:
        broken.append("proof obligations of Props/%s.v do not check: %s" % (pid, (proofs.get("broken_files") or proofs.get("nonstd_axioms") or proofs["log"][-800:])))
    n = ctx.n(200, 1200)
    to = 900 if ctx.tier == "quick" else 3600
    h1 = vf.go_harness(ctx, "index", "TestVerifC10$", ["index/zz_verif_c10_test.go"], n, timeout=to, out_name="out1.jsonl")
    # watchdog: corrupted postings can make searches spin; the e2e test is small, so a short timeout is a verdict, not a hiccup
    h2 = vf.go_harness(ctx, "search", "TestVerifC10E2E$", ["search/zz_verif_c10e2e_test.go"], n, timeout=(420 if ctx.tier == "quick" else 2400), out_name="out2.jsonl")
    recs = h1["records"] + h2["records"]
    for name, h in (("TestVerifC10", h1), ("TestVerifC10E2E", h2)):
        if h["rc"] != 0:
            broken.append("harness %s failed (rc=%d): %s" % (name, h["rc"], h["log"][-1500:]))
    cases = [r for r in recs if r.get("kind") == "case"]
    for r in recs:
        if r.get("kind") == "oracle_fail":
            failures.append(dict(key=r.get("key", "?"), what=r.get("what", ""), replay=r.get("replay")))
    ev = dict(ok=True, bad=[], evaluated=0, log="")
    if cases:
        ev = vf.coq_eval_cases(ctx, pid, ["From ZV Require Import Lib.Base Model.BuilderFlow."], "c10case", "c10_mismatches",
                               [c["coq"] for c in cases], shard=120)
        if not ev["ok"]:
            broken.append("model evaluation failed: " + ev["log"][-1500:])
        for i in ev["bad"][:20]:
            broken.append("correspondence c10_mismatches: model and implementation disagree on case %s" % json.dumps(cases[i].get("sample"), default=str)[:1500])
    elif h1["rc"] == 0:
        broken.append("harness produced no cases")
    e2e = [r for r in recs if r.get("kind") == "info" and "e2e_corpus" in r]
    if h2["rc"] == 0 and len([r for r in e2e if r.get("cfg") != "base"]) < 3:
        broken.append("end-to-end harness compared fewer than 3 configurations")
    cov = dict(evaluations=len(cases) + len(e2e), distinct_nontrivial=vf.distinct_nontrivial(cases), rule=RULE,
               samples=[c.get("sample") for c in cases[:2]] + e2e[:1], traces_validated_against_impl=ev["evaluated"],
               correspondence_mismatches=len(ev["bad"]), oracle_failures=len(failures),
               input_distribution=vf.histogram(cases, "class"), trusted_base=TB,
               e2e_configurations=[{k: v for k, v in r.items() if k != "kind"} for r in e2e][:40])
    if proofs.get("coqchk"):
        cov["coqchk"] = proofs["coqchk"]
    return vf.finish(ctx, "proof", proofs, cov, failures=failures, broken=broken, assumptions=ASSUME)
