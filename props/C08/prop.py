"""C08 — case-insensitive literal vs regexp search agree on all Unicode (refuted on the fold-orbit != ToLower runes)."""
import json
import os
import vf

IMPORTS = ["From ZV Require Import Lib.Base Model.Regex Model.CaseFold Model.CaseCmp."]
HFILES = ["index/zz_verif_c08_test.go"]
TABLE = os.path.join(vf.COQ, "Generated", "UnicodeTables.v")


def regen_tables(ctx, broken):
    rc, out = vf.sh(["go", "run", os.path.join(vf.ROOT, "translator", "unicodetables", "main.go")],
                    cwd=vf.REPO, env=vf.go_env(), timeout=300)
    if rc != 0 or "Definition utab" not in out:
        broken.append("translator/unicodetables failed: " + out[-600:])
        return
    with vf._Lock("coq"):
        vf.write_if_changed(TABLE, out)


def run(ctx):
    pid = ctx.pid
    broken, failures = [], []
    regen_tables(ctx, broken)
    proofs = vf.coq_props(ctx, pid, extra_targets=["Model/CaseCmp.vo"])
    aok, aout = vf.audit()
    if not aok:
        proofs["ok"] = False
        proofs["discharged"] = 0
        broken.append("audit: " + aout[-800:])
    if ctx.tier == "thorough" and proofs["ok"]:
        cok, cout = vf.coqchk(pid)
        proofs["coqchk"] = cout[-1500:]
        if not cok:
            proofs["ok"] = False
            broken.append("coqchk rejects Props/%s.vo: %s" % (pid, cout[-800:]))
    if not proofs["ok"]:
        broken.append("proof obligations of Props/%s.v do not check: %s" % (pid, (proofs.get("broken_files") or proofs.get("nonstd_axioms") or proofs["log"][-800:])))
    n = ctx.n(400, 3000)
    hr = vf.go_harness(ctx, "index", "TestVerifC08$", HFILES, n, timeout=900 if ctx.tier == "quick" else 3000)
    recs = hr["records"]
    cases = [r for r in recs if r.get("kind") == "case"]
    for r in recs:
        if r.get("kind") == "oracle_fail":
            failures.append(dict(key=r.get("key", "?"), what=r.get("what", ""), replay=r.get("replay")))
    if hr["rc"] != 0:
        broken.append("harness TestVerifC08 failed (rc=%d): %s" % (hr["rc"], hr["log"][-1500:]))
    if not cases and hr["rc"] == 0:
        broken.append("harness produced no cases")
    bad_sub, bad_re, evaluated, ok = [], [], 0, True
    shard = 400
    for s in range(0, len(cases), shard):
        chunk = [c["coq"] for c in cases[s:s + shard]]
        ev = vf.coq_eval_cases(ctx, pid, IMPORTS, "c08case", "c08_mismatches", chunk, shard=10 ** 9, tag="_%d" % (s // shard))
        if not ev["ok"]:
            ok = False
            broken.append("model evaluation failed: " + ev["log"][-1500:])
            continue
        evaluated += len(chunk)
        for v in ev["bad"]:
            i, code = s + v // 4, v % 4
            if code & 1:
                bad_sub.append(i)
            if code & 2:
                bad_re.append(i)
    vcases = [r for r in recs if r.get("kind") == "variants"]
    vbad = 0
    if vcases:
        ev2 = vf.coq_eval_cases(ctx, pid, IMPORTS, "c08vcase", "c08v_mismatches", [c["coq"] for c in vcases], shard=10 ** 9, tag="_v")
        if not ev2["ok"]:
            broken.append("model evaluation (case variants) failed: " + ev2["log"][-1200:])
        vbad = len(ev2["bad"])
        for i in ev2["bad"][:5]:
            broken.append("correspondence c08v_ok: generateCaseNgrams differs from the product of SimpleFold orbits on %s" % json.dumps(vcases[i].get("sample"), ensure_ascii=False))
    elif hr["rc"] == 0:
        broken.append("harness produced no case-variant records")
    for i in bad_sub[:10]:
        broken.append("correspondence c08_sub_ok: model of the Substring path (case-variant prefilter + ToLower verification) and indexData.Search disagree on %s"
                      % json.dumps(cases[i].get("sample"), ensure_ascii=False)[:1200])
    for i in bad_re[:10]:
        broken.append("correspondence c08_re_ok: model of the (?i) regexp path (fold orbits) and indexData.Search disagree on %s"
                      % json.dumps(cases[i].get("sample"), ensure_ascii=False)[:1200])
    if os.environ.get("VERIF_DEBUG"):
        for b in broken:
            print("DEBUG broken:", b[:900])
        keys = {}
        for f in failures:
            keys[f["key"]] = keys.get(f["key"], 0) + 1
        print("DEBUG failure keys:", keys)
    cov = dict(
        evaluations=len(cases),
        distinct_nontrivial=vf.distinct_nontrivial(cases),
        rule="one-document shards built with the real ShardBuilder; (1) one case per rune of the toolchain's table whose ToLower-equality and "
             "SimpleFold-orbit membership disagree (all of them, every run), (2) a random sample of the other table rows — pattern of 3-5 runes "
             "with the rune at a random position, content = one line per related rune (fold orbit, same lower case, case mappings) + adjacent "
             "occurrences + noise, (3) random 3-6 rune patterns over disagreeing runes/relatives/ASCII against random variant texts. Observed: "
             "files + (byte offset, byte size) ranges of Search(Substring) and Search(Regexp forced through the engine). distinct by "
             "(pattern, content); non-trivial = at least one of the two searches reports a match.",
        samples=[c.get("sample") for c in cases[:3]],
        traces_validated_against_impl=evaluated - len(set(bad_sub) | set(bad_re)) if ok else 0,
        correspondence_mismatches=len(set(bad_sub) | set(bad_re)) + vbad,
        case_variant_trigrams_validated=len(vcases) - vbad,
        oracle_failures=len(failures),
        oracle_failure_keys=sorted(set(f["key"] for f in failures))[:80],
        input_distribution=vf.histogram(cases, "class"),
        trusted_base=[
            "coq/Generated/UnicodeTables.v: unicode.ToLower / unicode.SimpleFold of the Go toolchain in use, dumped by translator/unicodetables (regenerated each run)",
            "hand-written model Model/CaseCmp.v of iterateNgrams' freq=0 exit, the two selective trigrams (offsets recomputed by the harness with the real findSelectiveNgrams), generateCaseNgrams = product of fold orbits, caseFoldingEqualsRunes = rune-wise ToLower equality, gatherMatches' overlap removal; tied by the correspondence run on both paths",
            "the (?i) engine semantics = fold-orbit membership per rune (Model/Regex.v RLit with FoldCase; validated on every case against the real engine through Search)",
            "harness harness/overlay/index/zz_verif_c08_test.go (generator, range extraction, Go-side oracle and classification of disagreements)",
        ],
    )
    if proofs.get("coqchk"):
        cov["coqchk"] = proofs["coqchk"]
    for r_ in recs:
        if r_.get("kind") == "info":
            cov.setdefault("info", []).append({k: v for k, v in r_.items() if k != "kind"})
    return vf.finish(ctx, "proof", proofs, cov, failures=failures, broken=broken,
                     assumptions=["documents are valid UTF-8", "patterns of >= 3 runes (shorter ones are evaluated by the regexp engine on both paths)"])
