import vf

SPEC = dict(
    level="proof",
    harness=dict(pkg_dir="index", run="TestVerifC16$", files=["index/zz_verif_c16_test.go"],
                 n_quick=70, n_thorough=550),
    runner=dict(imports=["From ZV Require Import Lib.Base Model.MergeDocs."], case_type="c16case",
                mismatch_fn="c16_mismatches", shard=60),
    rule="random simple shards built with the real ShardBuilder (1-4 repos per round, distinct priorities, 1-3 branches "
         "from a rotating pool or, 25 %, 33-64 branches with documents on the branches 33..64, optional sub-repositories, 1-4 "
         "documents with branch subsets, explicit or detected language, 0-3 symbols with metadata or, 20 % of the shards, "
         "symbol sections WITHOUT metadata, occasional binary content) -> real index.Merge -> optional .meta tombstones (real "
         "SetTombstone on the compound's first / middle / last member) + fresh simple shards (35 % of them tombstoned through "
         "their own .meta) -> Merge again (compound input, shuffled order) -> real "
         "explode (optionally after another tombstone). Each step is one case: encoded inputs as held by indexData and "
         "the decoded outputs (branch masks read bit by bit over all 64 bits); all cases are non-trivial (>= 1 repo with documents "
         "copied or dropped). Classes: branches>32, symbols-without-metadata, tomb-first/-middle/-last (position of a tombstoned "
         "repository with documents in merge's processing order), tomb-multi-doc (>= 2 documents).",
    trusted_base=["correspondence harness harness/overlay/index/zz_verif_c16_test.go (generator, dump of indexData's encoded "
                  "fields, decoding of outputs with the accessors addDocument uses, Go oracle = fixed query battery over "
                  "inputs vs outputs incl. branch/lang/symbol/regexp queries and List)",
                  "model abstractions: strings are identifiers; branch mask = bit list (walk width explicit: decode_w); symbols = ranges + "
                  "metadata id (0 = none stored, copied as the empty metadata), category opaque payload; "
                  "postings / query engine not modelled: search equivalence is proved for every document-local engine (hypothesis), "
                  "document-locality of indexData.Search/List itself is checked by the oracle's query battery (cf. C01), not proved here"],
    assumptions=["input shards well-formed (wf_shard): masks as long as the branch list, distinct branch names and sub-repo paths, "
                 "indices in range; for totality additionally mergeable: repo indices of live documents non-decreasing, live repositories with "
                 "documents have <= 64 branches (proved necessary: C16_merge_ok_mergeable); the runner evaluates both on every generated input"],
)


def run(ctx):
    return vf.standard_check(ctx, SPEC)
