import json
import os
import re
import time
from concurrent.futures import ThreadPoolExecutor

import vf

PKG = "cmd/zoekt-sourcegraph-indexserver"
HFILE = PKG + "/zz_verif_c31_test.go"
IMPORTS = ["From ZV Require Import Lib.Base Model.IndexMutex."]

RULE = ("each case: 2-16 goroutines released together, each issuing 1-7 random With(name)/Global calls (1-4 names incl. the "
        "empty name, 0/10/25 % Global) with critical sections that yield 0-3 times (no sleeps); the recorded event log "
        "(call/RLock/runningMu.Lock/.../enter/exit/RUnlock/return per goroutine, logged while the lock is held) is one case; "
        "distinct by trace; non-trivial = at least one skipped With or one Global in the run.")
TRUSTED = [
    "correspondence harness harness/overlay/cmd/zoekt-sourcegraph-indexserver/zz_verif_c31_test.go (schedule generator, logging "
    "wrappers, occupancy oracle)",
    "instrumented run: index_mutex.go is mapped with ONLY the field types sync.RWMutex/sync.Mutex textually replaced by logging "
    "wrappers around the same sync types (props/C31/prop.py); With/Global bodies are the unmodified source; the plain run uses the "
    "unmodified file for the occupancy oracle",
    "sync.RWMutex/sync.Mutex are modelled by their safety contract (Go's implementation is trusted); the Go scheduler only explores "
    "some interleavings - the theorems cover all of them, the traces only tie the model's step relation to the code",
]


def instrumented_copy(ctx):
    src = os.path.join(vf.REPO, PKG, "index_mutex.go")
    text = open(src).read()
    new, n1 = re.subn(r"\bsync\.RWMutex\b", "vfRWMutex", text)
    new, n2 = re.subn(r"\bsync\.Mutex\b", "vfMutex", new)
    new += "\n// verification harness: keep the sync import used\nvar _ sync.Locker = (*sync.Mutex)(nil)\n"
    out = os.path.join(ctx.tmp, "index_mutex_instr.go")
    with open(out, "w") as f:
        f.write(new)
    return {src: out}, n1, n2


def run(ctx):
    pid = ctx.pid
    proofs = vf.coq_props(ctx, pid)
    broken, failures = [], []
    aok, aout = vf.audit()
    if not aok:
        proofs["ok"] = False
        proofs["discharged"] = 0
        broken.append("audit: the development contains Admitted/Axiom/Parameter or disables a kernel check: " + aout[-800:])
    if ctx.tier == "thorough" and proofs["ok"]:
        cok, cout = vf.coqchk(pid)
        proofs["coqchk"] = cout[-1500:]
        if not cok:
            proofs["ok"] = False
            broken.append("coqchk rejects Props/%s.vo: %s" % (pid, cout[-800:]))
    if not proofs["ok"]:
        broken.append("proof obligations of Props/%s.v do not check: %s" % (pid, (proofs.get("broken_files") or proofs.get("nonstd_axioms") or proofs["log"][-800:])))

    n = ctx.n(30, 1500)
    tmo = 600 if ctx.tier == "quick" else 3000
    rep, n1, n2 = instrumented_copy(ctx)
    if n1 == 0 or n2 == 0:
        broken.append("index_mutex.go no longer declares a sync.RWMutex and a sync.Mutex field: the model's lock structure does not apply")
    # both runs concurrently: 1. instrumented (trace validation + oracle)  2. plain, unmodified source (oracle only)
    with ThreadPoolExecutor(max_workers=2) as ex:
        f1 = ex.submit(vf.go_harness, ctx, PKG, "TestVerifC31$", [HFILE], n, env={"VERIF_C31_MODE": "instr"}, timeout=tmo,
                       extra_replace=rep, out_name="instr.jsonl")
        time.sleep(1.5)  # vf.make_overlay names its file by directory size: keep the two calls apart
        f2 = ex.submit(vf.go_harness, ctx, PKG, "TestVerifC31$", [HFILE], n, env={"VERIF_C31_MODE": "plain"}, timeout=tmo,
                       out_name="plain.jsonl")
        hr, hp = f1.result(), f2.result()
    recs = hr["records"] + hp["records"]
    cases = [r for r in hr["records"] if r.get("kind") == "case"]
    for r in recs:
        if r.get("kind") == "oracle_fail":
            failures.append(dict(key=r.get("key", "?"), what=r.get("what", ""), replay=r.get("replay")))
    for name, h in (("instrumented", hr), ("plain", hp)):
        if h["rc"] != 0:
            broken.append("harness TestVerifC31 (%s) failed (rc=%d): %s" % (name, h["rc"], h["log"][-1500:]))
    ev = dict(ok=True, bad=[], evaluated=0, log="")
    if cases:
        ev = vf.coq_eval_cases(ctx, pid, IMPORTS, "c31case", "c31_mismatches", [c["coq"] for c in cases], shard=30)
        if not ev["ok"]:
            broken.append("model evaluation failed: " + ev["log"][-1500:])
        for i in ev["bad"][:10]:
            broken.append("trace validation c31_mismatches: the model rejects a trace recorded from the implementation: %s" %
                          json.dumps(cases[i].get("sample"), default=str)[:1500])
    elif hr["rc"] == 0:
        broken.append("harness produced no traces")
    plain_info = [r for r in hp["records"] if r.get("kind") == "info"]
    cov = dict(
        evaluations=len(cases) + len(plain_info),
        distinct_nontrivial=vf.distinct_nontrivial(cases),
        rule=RULE,
        samples=[c.get("sample") for c in cases[:3]] or [],
        traces_validated_against_impl=ev["evaluated"],
        trace_events=sum((c.get("sample") or {}).get("events", 0) for c in cases),
        correspondence_mismatches=len(ev["bad"]),
        oracle_failures=len(failures),
        oracle_runs_plain=len(plain_info),
        plain_skips=sum(r.get("skips", 0) for r in plain_info),
        plain_globals=sum(r.get("globals", 0) for r in plain_info),
        input_distribution=vf.histogram(cases, "class"),
        trusted_base=TRUSTED,
    )
    if proofs.get("coqchk"):
        cov["coqchk"] = proofs["coqchk"]
    return vf.finish(ctx, "proof", proofs, cov, failures=failures, broken=broken,
                     assumptions=["sync.RWMutex and sync.Mutex satisfy their mutual-exclusion contract"])
