#!/bin/bash
# Build the framework from files on disk only (offline): full Coq build + warm the Go build cache.
set -u
cd "$(dirname "$0")"
export GOFLAGS=-mod=mod GOPROXY=off
unset GOTOOLCHAIN GOSUMDB
python3 - <<'PY'
import sys
sys.path.insert(0, "lib")
import vf
ok, log = vf.coq_build()
print(log[-3000:])
print("coq build ok" if ok else "coq build had failures (checks report them per property)")
PY
# warm Go caches for the packages the harness injects tests into (compile only)
( cd /repo && go build ./... >/dev/null 2>&1; go test -vet=off -count=1 -run '^$' ./index ./query ./search ./ ./cmd/zoekt-sourcegraph-indexserver ./cmd/zoekt-webserver/... ./gitindex ./web ./internal/... ./cmd/zoekt-local-sync ./cmd/zoekt-merge-index ./cmd/zoekt-index >/dev/null 2>&1 )
exit 0
