package search

// Shared generator of shard sets for the search-package harnesses (C18, C23): repositories with tenants,
// branches, metadata, sub-repositories; simple shards (a repository may be split over several) and
// compound shards built by the real index.Merge; queries with a brute-force reference evaluator.
// Mapped into /repo/search by `go test -overlay`; never copied into /repo.

import (
	"bytes"
	"context"
	"fmt"
	"os"
	"path/filepath"
	"strings"
	"testing"

	"github.com/RoaringBitmap/roaring/v2"
	"github.com/grafana/regexp"

	"github.com/sourcegraph/zoekt"
	"github.com/sourcegraph/zoekt/index"
	"github.com/sourcegraph/zoekt/internal/tenant/systemtenant"
	"github.com/sourcegraph/zoekt/query"
)

type vfsSub struct{ path, name, url, frag string }
type vfsDoc struct {
	name, content string
	branches      []string
	sub           int // 0 root, k = subs[k-1]
	fid           uint64
}
type vfsRepo struct {
	gi           int
	name, marker string
	id           uint32
	tenant       int
	tomb         bool
	url, frag    string
	branches     []string
	meta         map[string]string
	subs         []vfsSub
	docs         []*vfsDoc // all documents of the repository (over all its shards)
	ftomb        map[string]struct{}
	shared       bool // the name is also the name of a repository of another tenant (vfsGenOpts.dupnames)
}
type vfsShard struct {
	key   string
	parts []vfsPart // in shard order
	s     zoekt.Searcher
	blob  []byte
}
type vfsPart struct {
	repo *vfsRepo
	docs []*vfsDoc
}
type vfsWorld struct {
	repos  []*vfsRepo
	shards []*vfsShard
	ids    map[string]uint64
}

type vfsMemFile struct{ b []byte }

func (s *vfsMemFile) Name() string { return "vfsmem" }
func (s *vfsMemFile) Close()       {}
func (s *vfsMemFile) Read(off, sz uint32) ([]byte, error) {
	if uint64(off)+uint64(sz) > uint64(len(s.b)) {
		return nil, fmt.Errorf("vfsMemFile: read past end")
	}
	return s.b[off : off+sz], nil
}
func (s *vfsMemFile) Size() (uint32, error) { return uint32(len(s.b)), nil }

var vfsWords = []string{"needle", "apple", "banana", "cherry"}

type vfsGenOpts struct {
	tenants    bool // assign tenant ids 1..3 (else all 0)
	tombstones bool
	subrepos   bool
	branchy    bool // varied branch sets incl. a branch literally named HEAD
	split      bool // split repositories over several simple shards
	dupnames   bool // repository names are unique per tenant only: some repositories share their name across tenants
}

func vfsGenRepo(r *vfRand, gi int, o vfsGenOpts) *vfsRepo {
	marker := fmt.Sprintf("zq%dx", gi)
	rp := &vfsRepo{gi: gi, marker: marker,
		id:   uint32(7000000 + gi),
		url:  fmt.Sprintf("http://host-%s/{{.Path}}", marker),
		frag: fmt.Sprintf("#L{{.LineNumber}}-%s", marker),
		meta: map[string]string{"k": r.Pick([]string{"yes", "no"}), "secret": "meta" + marker},
	}
	if o.tenants {
		rp.tenant = 1 + r.Intn(3)
	}
	rp.name = fmt.Sprintf("t%d-r%d-%s", rp.tenant, gi, marker)
	rp.branches = []string{"main"}
	if o.branchy {
		// incl. branch names that contain one another (main / main-old; a substring match on "main" would also hit "main-old")
		rp.branches = [][]string{{"main"}, {"main", "dev"}, {"main", "HEAD"}, {"HEAD"}, {"HEAD", "dev"}, {"dev", "main"}, {"main", "dev", "HEAD"},
			{"main", "main-old"}, {"main-old", "main"}, {"main-old"}, {"HEAD", "main-old", "main"}, {"main-old", "dev"}}[r.Intn(12)]
	}
	if o.subrepos && r.Chance(30) {
		rp.subs = append(rp.subs, vfsSub{path: "sub0", name: "subrepo0-" + marker, url: "http://subhost0-" + marker + "/{{.Path}}", frag: "#S0-" + marker})
	}
	nd := 1 + r.Intn(4)
	for j := 0; j < nd; j++ {
		var ws []string
		for k, nw := 0, 1+r.Intn(3); k < nw; k++ {
			ws = append(ws, r.Pick(vfsWords))
		}
		ws = append(ws, "word"+marker)
		dc := &vfsDoc{name: fmt.Sprintf("%s/f%d.txt", marker, j), content: strings.Join(ws, " ") + "\n", fid: uint64(1000 + gi*10 + j)}
		for _, b := range rp.branches {
			if r.Chance(60) {
				dc.branches = append(dc.branches, b)
			}
		}
		if len(dc.branches) == 0 {
			dc.branches = []string{rp.branches[r.Intn(len(rp.branches))]}
		}
		if len(rp.subs) > 0 && r.Chance(50) {
			dc.sub = 1
			dc.name = "sub0/" + dc.name
		}
		rp.docs = append(rp.docs, dc)
	}
	if o.tombstones && len(rp.docs) >= 2 && r.Chance(15) { // every repository keeps a live document
		rp.ftomb = map[string]struct{}{rp.docs[r.Intn(len(rp.docs))].name: {}}
	}
	return rp
}

func (rp *vfsRepo) zoektRepo() *zoekt.Repository {
	zr := &zoekt.Repository{
		TenantID: rp.tenant, ID: rp.id, Name: rp.name, URL: "http://url-" + rp.marker,
		Metadata: rp.meta, Source: "/src/" + rp.marker,
		CommitURLTemplate: "http://commit-" + rp.marker + "/{{.Version}}",
		FileURLTemplate:   rp.url, LineFragmentTemplate: rp.frag,
		RawConfig:      map[string]string{"cfg": "raw" + rp.marker},
		FileTombstones: rp.ftomb,
		Tombstone:      rp.tomb,
	}
	for _, b := range rp.branches {
		zr.Branches = append(zr.Branches, zoekt.RepositoryBranch{Name: b, Version: "v-" + b + "-" + rp.marker})
	}
	if len(rp.subs) > 0 {
		zr.SubRepoMap = map[string]*zoekt.Repository{}
		for _, s := range rp.subs {
			sr := &zoekt.Repository{Name: s.name, URL: "http://suburl-" + rp.marker, FileURLTemplate: s.url, LineFragmentTemplate: s.frag}
			for _, b := range rp.branches {
				sr.Branches = append(sr.Branches, zoekt.RepositoryBranch{Name: b, Version: "sv-" + b + "-" + rp.marker})
			}
			zr.SubRepoMap[s.path] = sr
		}
	}
	return zr
}

func vfsSimpleBlob(t testing.TB, rp *vfsRepo, docs []*vfsDoc) []byte {
	b, err := index.NewShardBuilder(rp.zoektRepo())
	if err != nil {
		t.Fatal(err)
	}
	for _, dc := range docs {
		doc := index.Document{Name: dc.name, Content: []byte(dc.content), Branches: dc.branches}
		if dc.sub > 0 {
			doc.SubRepositoryPath = rp.subs[dc.sub-1].path
		}
		if err := b.Add(doc); err != nil {
			t.Fatal(err)
		}
	}
	var buf bytes.Buffer
	if err := b.Write(&buf); err != nil {
		t.Fatal(err)
	}
	return buf.Bytes()
}

func vfsLoad(t testing.TB, blob []byte) zoekt.Searcher {
	s, err := index.NewSearcher(&vfsMemFile{blob})
	if err != nil {
		t.Fatal(err)
	}
	return s
}

func vfsCompoundBlob(t testing.TB, parts []vfsPart, tag string) []byte {
	dir, err := os.MkdirTemp(os.Getenv("VERIF_TMP"), "vfs-"+tag+"-")
	if err != nil {
		t.Fatal(err)
	}
	defer os.RemoveAll(dir)
	var files []index.IndexFile
	for i, p := range parts {
		fn := filepath.Join(dir, fmt.Sprintf("s%d.zoekt", i))
		if err := os.WriteFile(fn, vfsSimpleBlob(t, p.repo, p.docs), 0o600); err != nil {
			t.Fatal(err)
		}
		f, err := os.Open(fn)
		if err != nil {
			t.Fatal(err)
		}
		inf, err := index.NewIndexFile(f)
		if err != nil {
			t.Fatal(err)
		}
		defer inf.Close()
		files = append(files, inf)
	}
	tmpName, _, err := index.Merge(dir, files...)
	if err != nil {
		t.Fatal(err)
	}
	blob, err := os.ReadFile(tmpName)
	if err != nil {
		t.Fatal(err)
	}
	return blob
}

// vfsGenWorld generates repositories and distributes them over simple and compound shards.
func vfsGenWorld(t testing.TB, r *vfRand, o vfsGenOpts, tag string) *vfsWorld {
	w := &vfsWorld{ids: map[string]uint64{}}
	nrepos := 2 + r.Intn(5)
	base := 1 + r.Intn(5)
	for i := 0; i < nrepos; i++ {
		w.repos = append(w.repos, vfsGenRepo(r, base+i, o))
	}
	if o.dupnames {
		for i := 1; i < len(w.repos); i++ {
			if !r.Chance(40) {
				continue
			}
			rp, other := w.repos[i], w.repos[r.Intn(i)]
			clash := rp.shared || other.tenant == rp.tenant
			for _, x := range w.repos {
				if x.name == other.name && x.tenant == rp.tenant {
					clash = true
				}
			}
			if !clash {
				if !other.shared {
					other.name, other.shared = fmt.Sprintf("shared/app%d", other.gi), true
				}
				rp.name, rp.shared = other.name, true
				// RepoURLs / LineFragments are keyed by NAME and merged in the order in which shard results arrive:
				// a caller who sees both repositories (system context) gets either template. Same-named repositories
				// therefore carry the same templates here (the shard-level harness in package index keeps them distinct).
				rp.url, rp.frag = other.url, other.frag
			}
		}
	}
	i := 0
	ns := 0
	for i < len(w.repos) {
		ns++
		key := fmt.Sprintf("shard%d", ns)
		if r.Chance(45) && i+1 < len(w.repos) {
			// compound shard of 2-3 repositories
			k := 2 + r.Intn(2)
			if i+k > len(w.repos) {
				k = len(w.repos) - i
			}
			var parts []vfsPart
			for _, rp := range w.repos[i : i+k] {
				parts = append(parts, vfsPart{rp, rp.docs})
			}
			cblob := vfsCompoundBlob(t, parts, tag+key)
			s := vfsLoad(t, cblob)
			// shard order = order reported by the shard itself
			rl, err := s.List(systemtenant.WithUnsafeContext(context.Background()), &query.Const{Value: true}, nil)
			if err != nil {
				t.Fatal(err)
			}
			byName := map[string]vfsPart{} // keyed by Source (names may be shared between tenants)
			for _, p := range parts {
				byName["/src/"+p.repo.marker] = p
			}
			var ordered []vfsPart
			for _, e := range rl.Repos {
				ordered = append(ordered, byName[e.Repository.Source])
			}
			if len(ordered) != len(parts) {
				t.Fatalf("compound shard lists %d repos, want %d", len(ordered), len(parts))
			}
			w.shards = append(w.shards, &vfsShard{key: key, parts: ordered, s: s, blob: cblob})
			i += k
			continue
		}
		rp := w.repos[i]
		i++
		if o.tombstones && r.Chance(12) {
			rp.tomb = true
		}
		// a repository with a file tombstone is not split: every shard part must keep a live document (the
		// C23 sharded model takes List's include-by-search path for every shard)
		if o.split && len(rp.docs) >= 2 && rp.ftomb == nil && r.Chance(50) {
			cut := 1 + r.Intn(len(rp.docs)-1)
			ba, bb := vfsSimpleBlob(t, rp, rp.docs[:cut]), vfsSimpleBlob(t, rp, rp.docs[cut:])
			w.shards = append(w.shards, &vfsShard{key: key + "a", parts: []vfsPart{{rp, rp.docs[:cut]}}, s: vfsLoad(t, ba), blob: ba})
			w.shards = append(w.shards, &vfsShard{key: key + "b", parts: []vfsPart{{rp, rp.docs[cut:]}}, s: vfsLoad(t, bb), blob: bb})
		} else {
			bs := vfsSimpleBlob(t, rp, rp.docs)
			w.shards = append(w.shards, &vfsShard{key: key, parts: []vfsPart{{rp, rp.docs}}, s: vfsLoad(t, bs), blob: bs})
		}
	}
	for _, rp := range w.repos {
		g := uint64(rp.gi)
		if _, ok := w.ids[rp.name]; !ok {
			w.ids[rp.name] = 100 + g // same name, same identifier
		}
		w.ids[rp.url], w.ids[rp.frag] = 300+g, 500+g
		for k, s := range rp.subs {
			w.ids[s.name], w.ids[s.url], w.ids[s.frag] = 2000+g*4+uint64(k), 3000+g*4+uint64(k), 4000+g*4+uint64(k)
		}
		for _, dc := range rp.docs {
			w.ids[dc.name] = dc.fid
		}
	}
	return w
}

func (w *vfsWorld) id(s string) uint64 {
	if s == "" {
		return 0
	}
	if v, ok := w.ids[s]; ok {
		return v
	}
	return 999999
}

// newSearcher loads the world's shards into the real shardedSearcher (wrapped by typeRepoSearcher, as
// NewDirectorySearcher does).
func (w *vfsWorld) newSearcher() (zoekt.Streamer, *shardedSearcher) {
	ss := newShardedSearcher(4)
	m := map[string]zoekt.Searcher{}
	for _, sh := range w.shards {
		m[sh.key] = sh.s
	}
	ss.replace(m)
	ss.markReady()
	return &typeRepoSearcher{Streamer: ss}, ss
}

// newDirectorySearcher writes the world's shards as files into a fresh directory and loads them with the
// real search.NewDirectorySearcher (directory watcher + shard loader + typeRepoSearcher). The caller closes the
// searcher and removes the directory.
func (w *vfsWorld) newDirectorySearcher(t testing.TB, tag string) (zoekt.Streamer, string) {
	dir, err := os.MkdirTemp(os.Getenv("VERIF_TMP"), "vfsdir-"+tag+"-")
	if err != nil {
		t.Fatal(err)
	}
	for _, sh := range w.shards {
		version := index.IndexFormatVersion
		if len(sh.parts) > 1 {
			version = index.NextIndexFormatVersion
		}
		fn := filepath.Join(dir, fmt.Sprintf("%s_v%d.00000.zoekt", sh.key, version))
		if err := os.WriteFile(fn, sh.blob, 0o600); err != nil {
			t.Fatal(err)
		}
	}
	s, err := NewDirectorySearcher(dir)
	if err != nil {
		t.Fatal(err)
	}
	return s, dir
}

// ---- queries with a reference evaluator

type vfsQ struct {
	q    query.Q
	eval func(rp *vfsRepo, dc *vfsDoc) bool
	desc string
	kind string
	coq  string // term of type Model.Shards.cq (C18)
}

func (rp *vfsRepo) nameID() uint64 { return 100 + uint64(rp.gi) }

var vfsBranchID = map[string]uint64{"HEAD": 1, "main": 2, "dev": 3, "": 4, "ma": 5, "main-old": 6}
var vfsMetaID = map[string]uint64{"yes": 1, "no": 2, "maybe": 3}

func vfsDocsTerm(repos []*vfsRepo, f func(rp *vfsRepo, dc *vfsDoc) bool) string {
	var l []uint64
	for _, rp := range repos {
		for _, dc := range rp.docs {
			if f(rp, dc) {
				l = append(l, dc.fid)
			}
		}
	}
	return "(CDocs " + cNList(l) + ")"
}
func vfsNamesTerm(repos []*vfsRepo, f func(rp *vfsRepo) bool) string {
	var l []uint64
	for _, rp := range repos {
		if f(rp) {
			l = append(l, rp.nameID())
		}
	}
	return "(CNames " + cNList(l) + ")"
}

func vfsHasBranch(dc *vfsDoc, b string) bool {
	for _, x := range dc.branches {
		if x == b {
			return true
		}
	}
	return false
}

// reference meaning of query.Branch (index/matchtree.go): "HEAD" = the repository's first branch; otherwise
// branches equal to / containing the pattern
func vfsBranchEval(pattern string, exact bool) func(rp *vfsRepo, dc *vfsDoc) bool {
	return func(rp *vfsRepo, dc *vfsDoc) bool {
		if pattern == "HEAD" {
			return vfsHasBranch(dc, rp.branches[0])
		}
		for _, b := range dc.branches {
			if (exact && b == pattern) || (!exact && strings.Contains(b, pattern)) {
				return true
			}
		}
		return false
	}
}

func vfsContentAtom(r *vfRand, repos []*vfsRepo) vfsQ {
	pick := repos[r.Intn(len(repos))]
	switch r.Intn(4) {
	case 0, 1:
		w := r.Pick(vfsWords)
		ev := func(_ *vfsRepo, dc *vfsDoc) bool { return strings.Contains(dc.content, w) }
		return vfsQ{&query.Substring{Pattern: w, Content: true}, ev, "content:" + w, "content", vfsDocsTerm(repos, ev)}
	case 2:
		w := "word" + pick.marker
		ev := func(_ *vfsRepo, dc *vfsDoc) bool { return strings.Contains(dc.content, w) }
		return vfsQ{&query.Substring{Pattern: w, Content: true}, ev, "content:" + w, "content", vfsDocsTerm(repos, ev)}
	default:
		w := r.Pick([]string{"f0.txt", "f1", pick.marker + "/"})
		ev := func(_ *vfsRepo, dc *vfsDoc) bool { return strings.Contains(dc.name, w) }
		return vfsQ{&query.Substring{Pattern: w, FileName: true}, ev, "file:" + w, "content", vfsDocsTerm(repos, ev)}
	}
}

// vfsSetAtom: the repository-set filters that selectRepoSet pre-evaluates
func vfsSetAtom(r *vfRand, repos []*vfsRepo, branchNames []string) vfsQ {
	pick := repos[r.Intn(len(repos))]
	p := r.Pick([]string{"30", "60", "100"})
	chance := map[string]int{"30": 30, "60": 60, "100": 100}[p]
	switch r.Intn(6) {
	case 0:
		set := map[string]bool{}
		for _, rp := range repos {
			if r.Chance(chance) {
				set[rp.name] = true
			}
		}
		if r.Chance(20) {
			set["unknown-repo"] = true
		}
		return vfsQ{&query.RepoSet{Set: set}, func(rp *vfsRepo, _ *vfsDoc) bool { return set[rp.name] }, fmt.Sprint("reposet:", vfSortedKeys(set)), "reposet",
			vfsNamesTerm(repos, func(rp *vfsRepo) bool { return set[rp.name] })}
	case 1:
		bm := roaring.New()
		var l []uint32
		for _, rp := range repos {
			if r.Chance(chance) {
				bm.Add(rp.id)
				l = append(l, rp.id)
			}
		}
		var l64 []uint64
		for _, x := range l {
			l64 = append(l64, uint64(x))
		}
		return vfsQ{&query.RepoIDs{Repos: bm}, func(rp *vfsRepo, _ *vfsDoc) bool { return bm.Contains(rp.id) }, fmt.Sprint("repoids:", l), "repoids", "(CIds " + cNList(l64) + ")"}
	case 2:
		pat := r.Pick([]string{"t0-", "t1-", "t2-", pick.marker, "-r", "nomatch", "shared", pick.name})
		re := regexp.MustCompile(regexp.QuoteMeta(pat))
		return vfsQ{&query.Repo{Regexp: re}, func(rp *vfsRepo, _ *vfsDoc) bool { return strings.Contains(rp.name, pat) }, "repo:" + pat, "repo",
			vfsNamesTerm(repos, func(rp *vfsRepo) bool { return strings.Contains(rp.name, pat) })}
	case 3:
		v := r.Pick([]string{"yes", "no", "maybe"})
		re := regexp.MustCompile("^" + v + "$")
		return vfsQ{&query.Meta{Field: "k", Value: re}, func(rp *vfsRepo, _ *vfsDoc) bool { return rp.meta["k"] == v }, "meta.k:" + v, "meta", "(CMeta " + cN(vfsMetaID[v]) + ")"}
	default:
		// BranchesRepos with 1 (common) or 2 entries
		n := 1
		if r.Chance(25) {
			n = 2
		}
		var list []query.BranchRepos
		var descs, terms []string
		for k := 0; k < n; k++ {
			br := r.Pick(branchNames)
			bm := roaring.New()
			var l []uint32
			for _, rp := range repos {
				if r.Chance(chance) {
					bm.Add(rp.id)
					l = append(l, rp.id)
				}
			}
			list = append(list, query.BranchRepos{Branch: br, Repos: bm})
			descs = append(descs, fmt.Sprintf("%q:%v", br, l))
			var l64 []uint64
			for _, x := range l {
				l64 = append(l64, uint64(x))
			}
			terms = append(terms, cTuple(cN(vfsBranchID[br]), cNList(l64)))
		}
		kind := "branchesrepos1:" + list[0].Branch
		if n > 1 {
			kind = "branchesrepos2"
		}
		return vfsQ{&query.BranchesRepos{List: list}, func(rp *vfsRepo, dc *vfsDoc) bool {
			for _, br := range list {
				if br.Repos.Contains(rp.id) && vfsHasBranch(dc, br.Branch) {
					return true
				}
			}
			return false
		}, "branchesrepos:" + strings.Join(descs, ","), kind, "(CBranchesRepos " + cList(terms) + ")"}
	}
}

func vfsAnd(a, b vfsQ) vfsQ {
	return vfsQ{&query.And{Children: []query.Q{a.q, b.q}}, func(rp *vfsRepo, dc *vfsDoc) bool { return a.eval(rp, dc) && b.eval(rp, dc) }, "(and " + a.desc + " " + b.desc + ")", a.kind + "&" + b.kind, "(CAnd " + a.coq + " " + b.coq + ")"}
}
func vfsOr(a, b vfsQ) vfsQ {
	return vfsQ{&query.Or{Children: []query.Q{a.q, b.q}}, func(rp *vfsRepo, dc *vfsDoc) bool { return a.eval(rp, dc) || b.eval(rp, dc) }, "(or " + a.desc + " " + b.desc + ")", "or(" + a.kind + "," + b.kind + ")", "(COr " + a.coq + " " + b.coq + ")"}
}
func vfsNot(a vfsQ) vfsQ {
	return vfsQ{&query.Not{Child: a.q}, func(rp *vfsRepo, dc *vfsDoc) bool { return !a.eval(rp, dc) }, "(not " + a.desc + ")", "not(" + a.kind + ")", "(CNot " + a.coq + ")"}
}
