package search

// C10 end-to-end oracle: the same corpus (2-3 repositories) is indexed under different build configurations
// (ShardMax forcing 1..N shards, Parallelism 1/2/16, permuted insertion order, simple shards vs one compound shard
// made by index.Merge); a directory searcher over each produced directory must return the same canonical result
// sets for a query battery. Mapped into /repo/search by `go test -overlay`.

import (
	"context"
	"fmt"
	"os"
	"path/filepath"
	"regexp/syntax"
	"sort"
	"strings"
	"testing"

	"github.com/RoaringBitmap/roaring/v2"
	"github.com/grafana/regexp"
	"github.com/sourcegraph/zoekt"
	"github.com/sourcegraph/zoekt/index"
	"github.com/sourcegraph/zoekt/query"
)

type vfC10Doc struct {
	name     string
	content  string
	branches []string
}

type vfC10Repo struct {
	name string
	id   uint32
	docs []vfC10Doc
}

type vfC10Cfg struct {
	name        string
	shardMax    int
	parallelism int
	perm        string // "id", "rev", "rand"
	compound    bool
}

func vfC10Build(t *testing.T, dir string, repos []vfC10Repo, cfg vfC10Cfg, r *vfRand) int {
	for _, rp := range repos {
		opts := index.Options{IndexDir: dir, ShardMax: cfg.shardMax, SizeMax: 400, Parallelism: cfg.parallelism, DisableCTags: true,
			RepositoryDescription: zoekt.Repository{Name: rp.name, ID: rp.id,
				Branches: []zoekt.RepositoryBranch{{Name: "main", Version: "v-main"}, {Name: "dev", Version: "v-dev"}}}}
		b, err := index.NewBuilder(opts)
		if err != nil {
			t.Fatal(err)
		}
		docs := append([]vfC10Doc(nil), rp.docs...)
		switch cfg.perm {
		case "rev":
			for i, j := 0, len(docs)-1; i < j; i, j = i+1, j-1 {
				docs[i], docs[j] = docs[j], docs[i]
			}
		case "rand":
			for i := len(docs) - 1; i > 0; i-- {
				j := r.Intn(i + 1)
				docs[i], docs[j] = docs[j], docs[i]
			}
		}
		for _, d := range docs {
			if err := b.Add(index.Document{Name: d.name, Content: []byte(d.content), Branches: d.branches}); err != nil {
				t.Fatal(err)
			}
		}
		if err := b.Finish(); err != nil {
			t.Fatal(err)
		}
	}
	shards, _ := filepath.Glob(filepath.Join(dir, "*.zoekt"))
	nshards := len(shards)
	if cfg.compound {
		var files []index.IndexFile
		for _, p := range shards {
			f, err := os.Open(p)
			if err != nil {
				t.Fatal(err)
			}
			inf, err := index.NewIndexFile(f)
			if err != nil {
				t.Fatal(err)
			}
			files = append(files, inf)
		}
		tmpN, dstN, err := index.Merge(dir, files...)
		if err != nil {
			t.Fatalf("merge: %v", err)
		}
		for _, f := range files {
			f.Close()
		}
		for _, p := range shards {
			os.Remove(p)
		}
		if err := os.Rename(tmpN, dstN); err != nil {
			t.Fatal(err)
		}
	}
	return nshards
}

func vfC10Canon(res *zoekt.SearchResult) string {
	var lines []string
	for _, fm := range res.Files {
		var ms []string
		for _, lm := range fm.LineMatches {
			var fr []string
			for _, f := range lm.LineFragments {
				fr = append(fr, fmt.Sprintf("%d+%d", f.LineOffset, f.MatchLength))
			}
			ms = append(ms, fmt.Sprintf("L%d%v[%s]%q", lm.LineNumber, lm.FileName, strings.Join(fr, ","), lm.Line))
		}
		sort.Strings(ms)
		lines = append(lines, fmt.Sprintf("%s/%s br=%v ver=%s lang=%s :: %s", fm.Repository, fm.FileName, fm.Branches, fm.Version, fm.Language, strings.Join(ms, " ")))
	}
	sort.Strings(lines)
	return strings.Join(lines, "\n")
}

func TestVerifC10E2E(t *testing.T) {
	r := vfNewRand(vfSeed())
	nc := 2
	if vfTier() == "thorough" {
		nc = 8
	}
	tmp, err := os.MkdirTemp(os.Getenv("VERIF_TMP"), "c10e-")
	if err != nil {
		t.Fatal(err)
	}
	defer os.RemoveAll(tmp)
	words := []string{"alpha", "beta", "gamma", "Alpha", "needle", "hay", "func", "return", "héllo", "x", "foo_bar", "needlework"}
	re := func(s string) *syntax.Regexp {
		x, err := syntax.Parse(s, syntax.Perl)
		if err != nil {
			t.Fatal(err)
		}
		return x
	}
	battery := []struct {
		name string
		q    query.Q
	}{
		{"const", &query.Const{Value: true}},
		{"sub:needle", &query.Substring{Pattern: "needle"}},
		{"sub:alpha-cs", &query.Substring{Pattern: "alpha", CaseSensitive: true}},
		{"sub:alpha-ci", &query.Substring{Pattern: "alpha"}},
		{"sub:hé", &query.Substring{Pattern: "héllo"}},
		{"sub:x", &query.Substring{Pattern: "x"}},
		{"sub:content-only", &query.Substring{Pattern: "beta", Content: true}},
		{"file:d0", &query.Substring{Pattern: "d0", FileName: true}},
		{"re:ne+dle", &query.Regexp{Regexp: re("ne+dle(work)?"), CaseSensitive: true}},
		{"re:^func", &query.Regexp{Regexp: re("(?m)^func .*$")}},
		{"and", query.NewAnd(&query.Substring{Pattern: "needle"}, &query.Substring{Pattern: "hay"})},
		{"or", query.NewOr(&query.Substring{Pattern: "gamma"}, &query.Substring{Pattern: "foo_bar"})},
		{"not", query.NewAnd(&query.Substring{Pattern: "alpha"}, &query.Not{Child: &query.Substring{Pattern: "beta"}})},
		{"branch:dev", query.NewAnd(&query.Branch{Pattern: "dev", Exact: true}, &query.Substring{Pattern: "a"})},
		{"branch:main-only", query.NewAnd(&query.Branch{Pattern: "main"}, &query.Not{Child: &query.Branch{Pattern: "dev"}})},
		{"repo:r1", query.NewAnd(&query.Repo{Regexp: regexp.MustCompile("r1")}, &query.Substring{Pattern: "needle"})},
		{"skipped", &query.Substring{Pattern: "NOT-INDEXED"}},
	}
	// repository filters (added for C18/C10: "results do not depend on whether repositories share a compound shard"): every
	// single repository and first+last, as RepoSet / RepoIDs / Repo regexp / single-branch BranchesRepos, alone at the top level and
	// in a top-level And — in the compound builds the selected repositories are a strict subset of the shard's repositories
	// (first only, a later one only, first and last), so the filter must NOT be dropped there.
	{
		type bq = struct {
			name string
			q    query.Q
		}
		ids := func(xs ...uint32) *roaring.Bitmap { return roaring.BitmapOf(xs...) }
		for j := 0; j < 3; j++ {
			nm, id := fmt.Sprintf("r%d", j), uint32(j+1)
			battery = append(battery,
				bq{"reposet:" + nm, &query.RepoSet{Set: map[string]bool{nm: true}}},
				bq{"reposet:" + nm + "&sub", query.NewAnd(&query.RepoSet{Set: map[string]bool{nm: true}}, &query.Substring{Pattern: "a"})},
				bq{"repoids:" + nm, &query.RepoIDs{Repos: ids(id)}},
				bq{"repoids:" + nm + "&sub", query.NewAnd(&query.Substring{Pattern: "needle"}, &query.RepoIDs{Repos: ids(id)})},
				bq{"repo:^" + nm + "$", &query.Repo{Regexp: regexp.MustCompile("^" + nm + "$")}},
				bq{"branchesrepos:main:" + nm, &query.BranchesRepos{List: []query.BranchRepos{{Branch: "main", Repos: ids(id)}}}},
				bq{"branchesrepos:dev:" + nm + "&sub", query.NewAnd(&query.BranchesRepos{List: []query.BranchRepos{{Branch: "dev", Repos: ids(id)}}}, &query.Substring{Pattern: "a"})},
			)
		}
		battery = append(battery,
			bq{"reposet:r0,r2", &query.RepoSet{Set: map[string]bool{"r0": true, "r2": true}}},
			bq{"repoids:r0,r2&sub", query.NewAnd(&query.RepoIDs{Repos: ids(1, 3)}, &query.Substring{Pattern: "a"})},
			bq{"repo:r[02]", query.NewAnd(&query.Repo{Regexp: regexp.MustCompile("^r[02]$")}, &query.Substring{Pattern: "e"})},
			bq{"branchesrepos:main:r0,r2", &query.BranchesRepos{List: []query.BranchRepos{{Branch: "main", Repos: ids(1, 3)}}}},
		)
	}
	for ci := 0; ci < nc; ci++ {
		// ---- corpus
		nr := 2 + r.Intn(2)
		var repos []vfC10Repo
		total := 0
		for ri := 0; ri < nr; ri++ {
			rp := vfC10Repo{name: fmt.Sprintf("r%d", ri), id: uint32(ri + 1)}
			nd := 1 + r.Intn(9)
			for di := 0; di < nd; di++ {
				var sb strings.Builder
				for l := r.Intn(7); l > 0; l-- {
					for w := 1 + r.Intn(5); w > 0; w-- {
						sb.WriteString(r.Pick(words))
						sb.WriteByte(' ')
					}
					sb.WriteByte('\n')
				}
				if r.Chance(10) {
					sb.WriteString(strings.Repeat("needle hay ", 50)) // > SizeMax: skipped
				}
				br := [][]string{{"main"}, {"dev"}, {"main", "dev"}}[r.Intn(3)]
				ext := r.Pick([]string{".go", ".txt", "_test.go", ".md"})
				rp.docs = append(rp.docs, vfC10Doc{fmt.Sprintf("d%d%s%s", di, strings.Repeat("y", r.Intn(6)), ext), sb.String(), br})
				total++
			}
			repos = append(repos, rp)
		}
		cfgs := []vfC10Cfg{
			{"base", 1 << 20, 1, "id", false},
			{"tiny-shards", 1, 1, "id", false},
			{"medium-p2-rev", 120, 2, "rev", false},
			{"small-p16-rand", 60, 16, "rand", false},
			{"compound", 1 << 20, 1, "rand", true},
			{"compound-many", 80, 2, "id", true},
		}
		if vfTier() != "thorough" {
			// quick tier: base + 3 of the others (rotating)
			k := ci % 2
			cfgs = []vfC10Cfg{cfgs[0], cfgs[1+k], cfgs[3+k], cfgs[5-2*k]}
		}
		var baseRes []string
		for _, cfg := range cfgs {
			dir := filepath.Join(tmp, fmt.Sprintf("c%d-%s", ci, cfg.name))
			os.MkdirAll(dir, 0o755)
			nshards := vfC10Build(t, dir, repos, cfg, r)
			ss, err := NewDirectorySearcher(dir)
			if err != nil {
				t.Fatal(err)
			}
			var got []string
			for _, q := range battery {
				res, err := ss.Search(context.Background(), q.q, &zoekt.SearchOptions{})
				if err != nil {
					t.Fatalf("search %s: %v", q.name, err)
				}
				got = append(got, vfC10Canon(res))
			}
			ss.Close()
			nonempty := 0
			for _, g := range got {
				if g != "" {
					nonempty++
				}
			}
			vfInfo(map[string]any{"e2e_corpus": ci, "cfg": cfg.name, "docs": total, "repos": nr, "shards": nshards, "queries_with_results": nonempty})
			if cfg.name == "base" {
				baseRes = got
				if n := strings.Count(got[0], "\n") + 1; total > 0 && n != total {
					vfOracleFail("e2e:base-incomplete", fmt.Sprintf("base index returns %d of %d documents for the constant query", n, total), map[string]any{"docs": total})
				}
				continue
			}
			for qi, q := range battery {
				if got[qi] != baseRes[qi] {
					vfOracleFail("e2e:"+cfg.name+":"+q.name, "query "+q.name+" returns different results on an index of the same corpus built with configuration "+cfg.name,
						map[string]any{"cfg": fmt.Sprintf("%+v", cfg), "query": q.name, "base": baseRes[qi], "got": got[qi], "corpus": fmt.Sprintf("%+v", repos), "seed": vfSeed(), "corpus_index": ci})
				}
			}
			os.RemoveAll(dir)
		}
	}
}
