package search

// C19, first sentence ("every search ... returns, for each repository, results from exactly one consistent version
// of its shard"), end to end and DETERMINISTIC (no sleeps, no timing assumptions):
//
// fake shard searchers whose Search blocks on a gate hold a real shardedSearcher.Search / StreamSearch open — the
// search has taken its list with getLoaded() and its dispatcher cannot have read more than 2*workers+1 entries of it
// (workers blocked in Search + the buffered work channel + the entry it is trying to send) — while the test
// replaces, drops and adds shards through the real shardedSearcher.replace (what the directory watcher's loader
// calls).  Then the gate opens.  The result must hold every repository that was loaded when the search started
// exactly once, answered by the version loaded then; a search started afterwards must see exactly the new state.
//
// The scenario is also a Coq case (CHeld): the published lists go through the store model of Model/RankedStore.v
// and the list the search held must read back as the one it took.

import (
	"context"
	"fmt"
	"runtime"
	"sort"
	"strings"
	"testing"
	"time"

	"github.com/sourcegraph/zoekt"
	"github.com/sourcegraph/zoekt/query"
)

type vfC19Fake struct {
	repo    int
	version int
	gate    chan struct{}
	entered chan string
}

func (s *vfC19Fake) Close()         {}
func (s *vfC19Fake) String() string { return fmt.Sprintf("r%02d@v%d", s.repo, s.version) }
func (s *vfC19Fake) Search(ctx context.Context, q query.Q, opts *zoekt.SearchOptions) (*zoekt.SearchResult, error) {
	select {
	case s.entered <- s.String():
	default:
	}
	select {
	case <-s.gate:
	case <-ctx.Done():
		return nil, ctx.Err()
	}
	return &zoekt.SearchResult{
		Files: []zoekt.FileMatch{{Repository: fmt.Sprintf("r%02d", s.repo), FileName: fmt.Sprintf("v%d", s.version)}},
		Stats: zoekt.Stats{MatchCount: 1, FileCount: 1},
	}, nil
}

func (s *vfC19Fake) List(ctx context.Context, q query.Q, opts *zoekt.ListOptions) (*zoekt.RepoList, error) {
	return &zoekt.RepoList{Repos: []*zoekt.RepoListEntry{{Repository: zoekt.Repository{Name: fmt.Sprintf("r%02d", s.repo)}}}}, nil
}

type vfC19Collect struct{ files []zoekt.FileMatch }

func (c *vfC19Collect) Send(r *zoekt.SearchResult) { c.files = append(c.files, r.Files...) }

func vfC19PairList(m map[int]int) string {
	var ks []int
	for k := range m {
		ks = append(ks, k)
	}
	sort.Ints(ks)
	var xs []string
	for _, k := range ks {
		xs = append(xs, fmt.Sprintf("(%d,%d)", k, m[k]))
	}
	if len(xs) == 0 {
		return "(@nil (N * N))"
	}
	return "[" + strings.Join(xs, ";") + "]"
}

func vfC19HeldSearch(t *testing.T, r *vfRand, trial int) {
	procs := 1 + r.Intn(3)
	oldProcs := runtime.GOMAXPROCS(procs)
	defer runtime.GOMAXPROCS(oldProcs)
	n := 2*procs + 2 + r.Intn(5) // more shards than the dispatcher can read before every worker is blocked

	ss := newShardedSearcher(int64(procs))
	defer ss.Close()
	gate := make(chan struct{})
	entered := make(chan string, 8*n)
	key := func(i int) string { return fmt.Sprintf("r%02d_v16.00000.zoekt", i) }
	mk := func(i, v int) *vfC19Fake { return &vfC19Fake{repo: i, version: v, gate: gate, entered: entered} }

	cur := map[int]int{} // repo -> loaded version
	init := map[string]zoekt.Searcher{}
	for i := 0; i < n; i++ {
		init[key(i)] = mk(i, 1)
		cur[i] = 1
	}
	ss.replace(init)
	atStart := map[int]int{}
	for k, v := range cur {
		atStart[k] = v
	}
	var ops []string
	replay := func() map[string]any {
		return map[string]any{"trial": trial, "gomaxprocs": procs, "shards_at_start": n, "ops_while_search_is_running": ops}
	}

	stream := r.Bool()
	type outcome struct {
		files []zoekt.FileMatch
		err   error
	}
	done := make(chan outcome, 1)
	go func() {
		defer func() {
			if e := recover(); e != nil { // e.g. a nil / stale entry in a list that was rewritten under the search
				done <- outcome{nil, fmt.Errorf("panic in the search goroutine: %v", e)}
			}
		}()
		q := &query.Substring{Pattern: "needle"}
		if stream {
			c := &vfC19Collect{}
			err := ss.StreamSearch(context.Background(), q, &zoekt.SearchOptions{}, c)
			done <- outcome{c.files, err}
			return
		}
		res, err := ss.Search(context.Background(), q, &zoekt.SearchOptions{})
		if res == nil {
			res = &zoekt.SearchResult{}
		}
		done <- outcome{res.Files, err}
	}()
	// every worker of the search is inside a shard's Search now => the search holds its list
	watchdog := time.After(120 * time.Second)
	for i := 0; i < procs; i++ {
		select {
		case <-entered:
		case <-watchdog:
			close(gate)
			vfOracleFail("held:search-did-not-start", "the search did not reach its shards within 120 s", replay())
			return
		}
	}

	// the watcher's loader at work while the search is running
	pubs := []string{}
	next := n
	nops := 1 + r.Intn(4)
	classes := map[string]bool{}
	for o := 0; o < nops; o++ {
		batch := map[string]zoekt.Searcher{}
		for b := 1 + r.Intn(2); b > 0; b-- {
			var ks []int
			for k := range cur {
				ks = append(ks, k)
			}
			sort.Ints(ks)
			switch c := r.Intn(100); {
			case c < 45 && len(ks) > 0: // replaced by a new version (rename over the old file)
				i := ks[r.Intn(len(ks))]
				cur[i]++
				batch[key(i)] = mk(i, cur[i])
				ops = append(ops, fmt.Sprintf("replace r%02d -> v%d", i, cur[i]))
				classes["replace"] = true
			case c < 80 && len(ks) > 0: // deleted
				i := ks[r.Intn(len(ks))]
				delete(cur, i)
				batch[key(i)] = nil
				ops = append(ops, fmt.Sprintf("drop r%02d", i))
				classes["drop"] = true
			default: // a new repository appears
				cur[next] = 1
				batch[key(next)] = mk(next, 1)
				ops = append(ops, fmt.Sprintf("add r%02d", next))
				next++
				classes["add"] = true
			}
		}
		ss.replace(batch)
		pubs = append(pubs, vfC19PairList(cur))
	}
	close(gate)

	var out outcome
	select {
	case out = <-done:
	case <-time.After(120 * time.Second):
		vfOracleFail("held:search-hangs", "the search did not finish within 120 s after its shards answered", replay())
		return
	}
	api := "Search"
	if stream {
		api = "StreamSearch"
	}
	seen := map[int][]int{}
	for _, f := range out.files {
		var i, v int
		fmt.Sscanf(f.Repository, "r%d", &i)
		fmt.Sscanf(f.FileName, "v%d", &v)
		seen[i] = append(seen[i], v)
	}
	if out.err != nil {
		vfOracleFail("held:search-error", api+" failed while shards were being replaced: "+out.err.Error(), replay())
	}
	var bad, mixed []string
	for i := 0; i < next; i++ {
		want, loaded := atStart[i]
		got := seen[i]
		switch {
		case loaded && len(got) == 0:
			bad = append(bad, fmt.Sprintf("r%02d (loaded when the search started) is missing from the result", i))
		case len(got) > 1:
			bad = append(bad, fmt.Sprintf("r%02d is answered %d times (versions %v)", i, len(got), got))
		case !loaded && len(got) > 0:
			mixed = append(mixed, fmt.Sprintf("r%02d (added after the search started) answered by v%d", i, got[0]))
		case loaded && got[0] != want:
			mixed = append(mixed, fmt.Sprintf("r%02d answered by v%d, the list the search took held v%d", i, got[0], want))
		}
	}
	if len(bad) > 0 {
		vfOracleFail("held:repo-missing-or-answered-twice", api+" running while shards were replaced/dropped/added did not answer every repository exactly once: "+strings.Join(bad, "; "), replay())
	}
	if len(mixed) > 0 {
		vfOracleFail("held:search-saw-later-publication", api+" took its shard list before the changes, yet its result is not that list's (the list was rewritten under the running search): "+strings.Join(mixed, "; "), replay())
	}

	// a search started now sees exactly the new state
	res2, err := ss.Search(context.Background(), &query.Substring{Pattern: "needle"}, &zoekt.SearchOptions{})
	after := map[int]int{}
	dup := false
	if err == nil {
		for _, f := range res2.Files {
			var i, v int
			fmt.Sscanf(f.Repository, "r%d", &i)
			fmt.Sscanf(f.FileName, "v%d", &v)
			if _, twice := after[i]; twice {
				dup = true
			}
			after[i] = v
		}
	}
	if err != nil || dup || vfC19PairList(after) != vfC19PairList(cur) {
		vfOracleFail("held:new-search-not-current", fmt.Sprintf("a search started after the changes returned %s (err %v), loaded is %s", vfC19PairList(after), err, vfC19PairList(cur)), replay())
	}

	// Coq case: the search's reading of its held list, flattened to (repo, version) pairs sorted by repo
	var flat []string
	var is []int
	for i := range seen {
		is = append(is, i)
	}
	sort.Ints(is)
	for _, i := range is {
		vs := append([]int(nil), seen[i]...)
		sort.Ints(vs)
		for _, v := range vs {
			flat = append(flat, fmt.Sprintf("(%d,%d)", i, v))
		}
	}
	seenS := "(@nil (N * N))"
	if len(flat) > 0 {
		seenS = "[" + strings.Join(flat, ";") + "]"
	}
	pubsS := "(@nil (list (N * N)))"
	if len(pubs) > 0 {
		pubsS = "[" + strings.Join(pubs, ";") + "]"
	}
	var cls []string
	for _, k := range vfSortedKeys(classes) {
		cls = append(cls, "held-search-"+k)
	}
	vfCase(fmt.Sprintf("(XW (CHeld %s %s %s))", vfC19PairList(atStart), pubsS, seenS), vfKey("held", trial, procs, n, ops),
		classes["replace"] || classes["drop"], append(cls, "held-search"), replay())
}
