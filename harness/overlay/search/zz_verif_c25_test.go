package search

// C25 (collect stage): correspondence + oracle for newFlushCollectSender / collectSender (search/aggregate.go):
// generated results are sent through the real sender with a flush point that is either the FlushWallTime timer
// (after k results) or the final flush; the forwarded results are recorded and compared with Model/StreamCollect.v.
// Mapped into /repo/search by `go test -overlay`.

import (
	"fmt"
	"math"
	"reflect"
	"sort"
	"strconv"
	"strings"
	"sync"
	"testing"
	"time"

	"github.com/sourcegraph/zoekt"
)

func vfC25CounterFields() []int {
	var idx []int
	t := reflect.TypeOf(zoekt.Stats{})
	for i := 0; i < t.NumField(); i++ {
		f := t.Field(i)
		if f.Name == "Duration" || f.Name == "FlushReason" {
			continue
		}
		switch f.Type.Kind() {
		case reflect.Int, reflect.Int64, reflect.Int32, reflect.Uint64, reflect.Uint32:
			idx = append(idx, i)
		}
	}
	return idx
}

func vfC25Counters(s zoekt.Stats, fields []int) []int64 {
	v := reflect.ValueOf(s)
	out := make([]int64, len(fields))
	for k, i := range fields {
		out[k] = v.Field(i).Int()
	}
	return out
}

func vfC25StatsTerm(s zoekt.Stats, fields []int) string {
	cs := vfC25Counters(s, fields)
	xs := make([]string, len(cs))
	for i, c := range cs {
		xs[i] = strconv.FormatInt(c, 10)
	}
	return fmt.Sprintf("(mkstats [%s]%%Z %s %s)", strings.Join(xs, ";"), cZ(int64(s.Duration)), cN(uint64(s.FlushReason)))
}

func vfC25Pri(f float64) string {
	if math.IsInf(f, -1) {
		return "None"
	}
	return cSome(cZ(int64(f)))
}

func vfC25Files(ids []uint64) string {
	if len(ids) == 0 {
		return "(@nil file)"
	}
	xs := make([]string, len(ids))
	for i := range ids {
		xs[i] = cTuple(cN(ids[i]), cN(0))
	}
	return cList(xs)
}

type vfC25Snap struct {
	ids        []uint64
	stats      zoekt.Stats
	prio, maxp float64
}

func vfC25SnapOf(e *zoekt.SearchResult) vfC25Snap {
	sn := vfC25Snap{stats: e.Stats, prio: e.Progress.Priority, maxp: e.Progress.MaxPendingPriority}
	for i := range e.Files {
		id, _ := strconv.ParseUint(strings.TrimSuffix(e.Files[i].FileName, ".go"), 10, 64)
		sn.ids = append(sn.ids, id)
	}
	return sn
}

func (sn vfC25Snap) term(fields []int) string {
	return fmt.Sprintf("(mkev %s %s %s %s)", vfC25Files(sn.ids), vfC25StatsTerm(sn.stats, fields), vfC25Pri(sn.prio), vfC25Pri(sn.maxp))
}

func TestVerifC25(t *testing.T) {
	r := vfNewRand(vfSeed() + 25)
	n := vfN(60)
	fields := vfC25CounterFields()
	names := make([]string, len(fields))
	for k, i := range fields {
		names[k] = reflect.TypeOf(zoekt.Stats{}).Field(i).Name
	}
	const timer = 80 * time.Millisecond
	discarded := 0
	for ci := 0; ci < n; ci++ {
		nev := r.Intn(8)
		var events []*zoekt.SearchResult
		nextID := uint64(1)
		for j := 0; j < nev; j++ {
			e := &zoekt.SearchResult{}
			v := reflect.ValueOf(&e.Stats).Elem()
			for _, i := range fields {
				if r.Chance(60) {
					v.Field(i).SetInt(int64(r.Intn(500)))
				}
			}
			if r.Chance(40) {
				e.Stats.Duration = time.Duration(r.Intn(5000)) * time.Microsecond
			}
			if r.Chance(25) {
				e.Stats.FlushReason = []zoekt.FlushReason{zoekt.FlushReasonTimerExpired, zoekt.FlushReasonFinalFlush, zoekt.FlushReasonMaxSize}[r.Intn(3)]
			}
			e.Progress = zoekt.Progress{Priority: float64(r.Intn(21) - 5), MaxPendingPriority: float64(r.Intn(21) - 5)}
			if r.Chance(10) {
				e.Progress.Priority = math.Inf(-1)
			}
			if r.Chance(10) {
				e.Progress.MaxPendingPriority = math.Inf(-1)
			}
			if r.Chance(65) {
				for k := 1 + r.Intn(4); k > 0; k-- {
					e.Files = append(e.Files, zoekt.FileMatch{FileName: strconv.FormatUint(nextID, 10) + ".go", Repository: "r", Score: float64(r.Intn(50))})
					nextID++
				}
			}
			events = append(events, e)
		}
		// flush point
		useTimer := r.Chance(60)
		k := 0
		if useTimer {
			k = r.Intn(nev + 1)
			if k == 0 && !r.Chance(15) && nev > 0 {
				k = 1 + r.Intn(nev)
			}
		}
		var snaps []vfC25Snap
		for _, e := range events {
			snaps = append(snaps, vfC25SnapOf(e))
		}
		// ---- run the real sender
		var mu sync.Mutex
		var got []vfC25Snap
		rec := zoekt.SenderFunc(func(e *zoekt.SearchResult) {
			mu.Lock()
			got = append(got, vfC25SnapOf(e))
			mu.Unlock()
		})
		opts := &zoekt.SearchOptions{FlushWallTime: time.Hour}
		if useTimer {
			opts.FlushWallTime = timer
		}
		start := time.Now()
		sender, flush := newFlushCollectSender(opts, rec)
		if useTimer {
			for _, e := range events[:k] {
				sender.Send(e)
			}
			if time.Since(start) > timer/3 { // the machine stalled us: the flush point is not the intended one
				flush()
				discarded++
				ci--
				if discarded > 50 {
					t.Fatal("cannot control the flush point: too many stalled cases")
				}
				continue
			}
			// wait for the timer to fire
			deadline := time.Now().Add(20 * time.Second)
			for {
				mu.Lock()
				fired := len(got) > 0
				mu.Unlock()
				if fired && time.Since(start) > timer {
					break
				}
				if k == 0 || !vfC25AnyAgg(events[:k]) {
					// nothing observable will be sent: wait generously
					if time.Since(start) > 25*timer {
						break
					}
				}
				if time.Now().After(deadline) {
					t.Fatalf("FlushWallTime timer did not flush within 20s")
				}
				time.Sleep(5 * time.Millisecond)
			}
			for _, e := range events[k:] {
				sender.Send(e)
			}
		} else {
			for _, e := range events {
				sender.Send(e)
			}
		}
		flush()
		mu.Lock()
		out := append([]vfC25Snap(nil), got...)
		mu.Unlock()
		// the aggregate (first forwarded result when something was collected) has ranked files: observe them as a set
		collected := len(events)
		if useTimer {
			collected = k
		}
		if collected > 0 && len(out) > 0 {
			sort.Slice(out[0].ids, func(i, j int) bool { return out[0].ids[i] < out[0].ids[j] })
		}
		// ---- Go-side oracle: counters conserved, files preserved (as a multiset; in order after the flush point)
		sumW := make([]int64, len(fields))
		sumG := make([]int64, len(fields))
		var wantIDs, gotIDs, tailWant, tailGot []uint64
		for i, sn := range snaps {
			for c, x := range vfC25Counters(sn.stats, fields) {
				sumW[c] += x
			}
			wantIDs = append(wantIDs, sn.ids...)
			if i >= collected {
				tailWant = append(tailWant, sn.ids...)
			}
		}
		for i, sn := range out {
			for c, x := range vfC25Counters(sn.stats, fields) {
				sumG[c] += x
			}
			gotIDs = append(gotIDs, sn.ids...)
			if !(collected > 0 && i == 0) {
				tailGot = append(tailGot, sn.ids...)
			}
		}
		replay := func() map[string]any {
			var evs []map[string]any
			for _, sn := range snaps {
				evs = append(evs, map[string]any{"files": sn.ids, "counters": vfC25Counters(sn.stats, fields)})
			}
			return map[string]any{"stage": "newFlushCollectSender", "events": evs, "timer_flush_after": k, "timer": useTimer, "forwarded": len(out), "counters": names}
		}
		for c := range fields {
			if sumW[c] != sumG[c] {
				rp := replay()
				rp["counter"] = names[c]
				vfOracleFail("collect:stats:not-conserved:"+names[c], fmt.Sprintf("collect stage: counter %s: forwarded sum %d != produced sum %d", names[c], sumG[c], sumW[c]), rp)
				break
			}
		}
		sg := append([]uint64(nil), gotIDs...)
		sort.Slice(sg, func(i, j int) bool { return sg[i] < sg[j] })
		if fmt.Sprint(sg) != fmt.Sprint(wantIDs) || fmt.Sprint(tailGot) != fmt.Sprint(tailWant) {
			rp := replay()
			rp["forwarded_files"] = gotIDs
			vfOracleFail("collect:files:not-preserved", "collect stage: forwarded files are not the produced files (multiset; order after the flush point)", rp)
		}
		// ---- correspondence record
		var evT, outT []string
		for _, sn := range snaps {
			evT = append(evT, sn.term(fields))
		}
		for _, sn := range out {
			outT = append(outT, sn.term(fields))
		}
		el, ol := "(@nil event)", "(@nil event)"
		if len(evT) > 0 {
			el = cList(evT)
		}
		if len(outT) > 0 {
			ol = cList(outT)
		}
		fp := "None"
		if useTimer {
			fp = cSome(cNat(k))
		}
		class := "final-flush"
		if useTimer {
			class = "timer"
			if k == 0 {
				class = "timer-before-first"
			} else if k == nev {
				class = "timer-after-last"
			}
		}
		vfCase(cTuple(fp, el, ol), vfKey("fc", fp, evT), nev >= 2, []string{"collect/" + class}, map[string]any{"stage": "collect", "events": nev, "flush_after": k, "timer": useTimer, "forwarded": len(out)})
	}
	vfInfo(map[string]any{"collect_discarded_stalled_cases": discarded})
}

func vfC25AnyAgg(evs []*zoekt.SearchResult) bool { return len(evs) > 0 }
