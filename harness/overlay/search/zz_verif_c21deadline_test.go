package search

// C21, second sentence: "A cancelled or timed-out search finishes promptly with partial results or the context's
// error and never crashes."
//
// Fake shards behind a REAL shardedSearcher (Search / StreamSearch): a slow shard's Search only returns when the
// context it was given is done (safety net: a hard cap far beyond every bound, so that a broken wiring shows as a
// late return instead of a hung test); fast shards answer at once.  Per trial:
//   * SearchOptions.MaxWallTime = D (or 0) and a caller context without deadline / with its own deadline (a factor 4
//     away from D, so that the earlier one is unambiguous) / cancelled by the test once the slow shards are entered;
//   * WIRING (deterministic, no timing): the context every shard search received is classified by its deadline — none,
//     the caller's, "MaxWallTime after the start" (exactly: between t0+D and t1+D where t0/t1 are the instants just
//     before the call and at the shard's entry) — and compared with the model's explicit wiring step (Coq case);
//   * PROMPTNESS: the search must return within 20x the bound (generous, robust under load; the hard cap is 40x),
//     without panic, with the fast shards' results or the context's error.

import (
	"context"
	"errors"
	"fmt"
	"sync"
	"testing"
	"time"

	"github.com/sourcegraph/zoekt"
	"github.com/sourcegraph/zoekt/query"
)

type vfC21Seen struct {
	hasDeadline bool
	deadline    time.Time
	entered     time.Time
	doneSeen    bool // the shard saw its context done (false: released by the hard cap)
}

type vfC21Slow struct {
	repo    int
	slow    bool
	cap     time.Duration
	mu      *sync.Mutex
	seen    *[]vfC21Seen
	entered chan struct{}
}

func (s *vfC21Slow) Close()         {}
func (s *vfC21Slow) String() string { return fmt.Sprintf("slowshard%d", s.repo) }
func (s *vfC21Slow) List(ctx context.Context, q query.Q, opts *zoekt.ListOptions) (*zoekt.RepoList, error) {
	return &zoekt.RepoList{Repos: []*zoekt.RepoListEntry{{Repository: zoekt.Repository{Name: fmt.Sprintf("r%02d", s.repo)}}}}, nil
}
func (s *vfC21Slow) Search(ctx context.Context, q query.Q, opts *zoekt.SearchOptions) (*zoekt.SearchResult, error) {
	rec := vfC21Seen{entered: time.Now()}
	rec.deadline, rec.hasDeadline = ctx.Deadline()
	if s.slow {
		select {
		case s.entered <- struct{}{}:
		default:
		}
		select {
		case <-ctx.Done():
			rec.doneSeen = true
		case <-time.After(s.cap):
		}
	}
	s.mu.Lock()
	*s.seen = append(*s.seen, rec)
	s.mu.Unlock()
	if s.slow {
		if err := ctx.Err(); err != nil {
			return nil, err
		}
		return &zoekt.SearchResult{}, nil
	}
	return &zoekt.SearchResult{
		Files: []zoekt.FileMatch{{Repository: fmt.Sprintf("r%02d", s.repo), FileName: "fast"}},
		Stats: zoekt.Stats{MatchCount: 1, FileCount: 1},
	}, nil
}

func vfC21DeadlineTrial(t *testing.T, r *vfRand, trial int) {
	const unit = 100 * time.Millisecond
	mode := []string{"maxwall", "maxwall", "maxwall", "maxwall+later-caller-deadline", "maxwall+earlier-caller-deadline",
		"caller-deadline-only", "caller-cancel", "caller-cancel+maxwall-later"}[r.Intn(8)]
	var D, callerD time.Duration // MaxWallTime, caller's deadline (0 = none)
	switch mode {
	case "maxwall":
		D = unit * time.Duration(1+r.Intn(3))
	case "maxwall+later-caller-deadline":
		D = unit * time.Duration(1+r.Intn(2))
		callerD = 3600 * time.Second
	case "maxwall+earlier-caller-deadline":
		callerD = unit * time.Duration(1+r.Intn(2))
		D = 3600 * time.Second
	case "caller-deadline-only":
		callerD = unit * time.Duration(1+r.Intn(3))
	case "caller-cancel":
	case "caller-cancel+maxwall-later":
		D = 3600 * time.Second
	}
	bound := D // the instant (relative to the start) by which the search's contexts are done
	if callerD != 0 && (bound == 0 || callerD < bound) {
		bound = callerD
	}
	cancelMode := mode == "caller-cancel" || mode == "caller-cancel+maxwall-later"
	if cancelMode {
		bound = unit // promptness is measured from the cancel() call
	}
	hardCap := 40 * bound

	nshards := 2 + r.Intn(6)
	nslow := 1 + r.Intn(nshards-1)
	ss := newShardedSearcher(4)
	defer ss.Close()
	var mu sync.Mutex
	var seen []vfC21Seen
	entered := make(chan struct{}, 64)
	shards := map[string]zoekt.Searcher{}
	slowAt := r.Intn(nshards)
	for i := 0; i < nshards; i++ {
		slow := (i+nshards-slowAt)%nshards < nslow
		shards[fmt.Sprintf("r%02d_v16.00000.zoekt", i)] = &vfC21Slow{repo: i, slow: slow, cap: hardCap, mu: &mu, seen: &seen, entered: entered}
	}
	ss.replace(shards)
	nfast := nshards - nslow

	ctx := context.Background()
	var cancel context.CancelFunc = func() {}
	var callerDeadline time.Time
	if callerD != 0 {
		callerDeadline = time.Now().Add(callerD)
		ctx, cancel = context.WithDeadline(ctx, callerDeadline)
	} else if cancelMode {
		ctx, cancel = context.WithCancel(ctx)
	}
	defer cancel()
	opts := &zoekt.SearchOptions{MaxWallTime: D}
	stream := r.Bool()
	api := "Search"
	if stream {
		api = "StreamSearch"
	}
	replay := map[string]any{"trial": trial, "api": api, "mode": mode, "MaxWallTime": D.String(), "caller_deadline": callerD.String(),
		"shards": nshards, "slow_shards_that_return_only_when_their_context_is_done": nslow}

	type outcome struct {
		files    int
		err      error
		panicked any
		at       time.Time
	}
	done := make(chan outcome, 1)
	t0 := time.Now()
	go func() {
		var o outcome
		defer func() {
			if e := recover(); e != nil {
				o.panicked = e
			}
			o.at = time.Now()
			done <- o
		}()
		q := &query.Substring{Pattern: "needle"}
		if stream {
			var fmu sync.Mutex
			o.err = ss.StreamSearch(ctx, q, opts, zoekt.SenderFunc(func(sr *zoekt.SearchResult) {
				fmu.Lock()
				o.files += len(sr.Files)
				fmu.Unlock()
			}))
			return
		}
		res, err := ss.Search(ctx, q, opts)
		o.err = err
		if res != nil {
			o.files = len(res.Files)
		}
	}()
	from := t0
	if cancelMode {
		select {
		case <-entered:
		case <-time.After(60 * time.Second):
			vfOracleFail("deadline:search-did-not-start", "no slow shard was entered within 60 s", replay)
			cancel()
			<-done
			return
		}
		from = time.Now()
		cancel()
	}
	var out outcome
	select {
	case out = <-done:
	case <-time.After(hardCap + 120*time.Second):
		vfOracleFail("deadline:search-hangs", api+" did not return at all", replay)
		return
	}
	took := out.at.Sub(from)
	replay["returned_after"] = took.String()
	replay["bound"] = bound.String()

	// ---- oracle: promptness, no crash, partial results or the context's error
	if out.panicked != nil {
		vfOracleFail("deadline:panic", fmt.Sprintf("%s panicked on a timed-out / cancelled search: %v", api, out.panicked), replay)
	}
	if took > 20*bound {
		what := fmt.Sprintf("%s with %s returned %s after the start, its contexts were done after %s (20x = %s): the deadline does not stop the shard searches", api, mode, took, bound, 20*bound)
		if cancelMode {
			what = fmt.Sprintf("%s returned %s after the caller cancelled its context", api, took)
		}
		vfOracleFail("deadline:not-prompt", what, replay)
	}
	if out.err != nil && !errors.Is(out.err, context.DeadlineExceeded) && !errors.Is(out.err, context.Canceled) {
		vfOracleFail("deadline:other-error", api+" returned an error that is not the context's: "+out.err.Error(), replay)
	}
	if out.err == nil && out.files > nfast {
		vfOracleFail("deadline:too-many-files", fmt.Sprintf("%d files from %d fast shards", out.files, nfast), replay)
	}

	// ---- wiring: which context did the shard searches receive?  0 none, 1 the caller's deadline, 2 MaxWallTime after
	// the start of the search, 3 something else.  All shard searches of one search must agree.
	mu.Lock()
	obs := append([]vfC21Seen(nil), seen...)
	mu.Unlock()
	class := -1
	for _, s := range obs {
		c := 3
		switch {
		case !s.hasDeadline:
			c = 0
		case callerD != 0 && s.deadline.Equal(callerDeadline):
			c = 1
		case D != 0 && !s.deadline.Before(t0.Add(D)) && !s.deadline.After(s.entered.Add(D)):
			c = 2
		}
		if class == -1 {
			class = c
		} else if class != c {
			class = 3
		}
	}
	if class == -1 {
		return // the search was over before any shard was searched (possible under an immediate cancel)
	}
	want := 0
	switch {
	case D != 0 && (callerD == 0 || D < callerD):
		want = 2
	case callerD != 0:
		want = 1
	}
	if class != want {
		names := []string{"no deadline", "the caller's deadline", "the MaxWallTime deadline", "another deadline"}
		vfOracleFail("deadline:not-passed-to-shard-searches", fmt.Sprintf("%s with MaxWallTime=%s and caller deadline %s: the context handed to the shard searches carries %s, expected %s", api, D, callerD, names[class], names[want]), replay)
	}
	ms := func(d time.Duration) uint64 { return uint64(d / time.Millisecond) }
	caller := "None"
	if callerD != 0 {
		caller = cSome(cN(ms(callerD)))
	}
	vfCase(cTuple(cN(ms(D)), caller, cN(uint64(class))), vfKey("deadline", trial, mode, D, callerD, nshards, nslow, stream),
		D != 0 || callerD != 0, []string{"deadline", "deadline:" + mode, "deadline-api:" + api}, replay)
}

func TestVerifC21Deadline(t *testing.T) {
	r := vfNewRand(vfSeed() + 15485863)
	n := vfN(16)
	for i := 0; i < n; i++ {
		vfC21DeadlineTrial(t, r, i)
	}
}
