package search

// C21 (total limit): TotalMaxMatchCount of streamSearch only drops whole shard results. Small in-memory shards behind a
// real shardedSearcher; one worker (GOMAXPROCS(1)) so that results arrive in dispatch order; the arrival sequence under
// a total limit is compared with the model's total_stream and with the unlimited run (oracle).

import (
	"bytes"
	"context"
	"fmt"
	"reflect"
	"runtime"
	"strings"
	"testing"

	"github.com/sourcegraph/zoekt"
	"github.com/sourcegraph/zoekt/index"
	"github.com/sourcegraph/zoekt/query"
)

type vfMemFile struct{ data []byte }

func (s *vfMemFile) Name() string                        { return "verif-mem" }
func (s *vfMemFile) Close()                              {}
func (s *vfMemFile) Size() (uint32, error)               { return uint32(len(s.data)), nil }
func (s *vfMemFile) Read(off, sz uint32) ([]byte, error) { return s.data[off : off+sz], nil }

type vfArrival struct {
	count int
	files []zoekt.FileMatch
}

func vfC21Stream(t *testing.T, ss *shardedSearcher, q query.Q, total int) []vfArrival {
	var out []vfArrival
	sender := zoekt.SenderFunc(func(r *zoekt.SearchResult) {
		out = append(out, vfArrival{count: r.Stats.MatchCount, files: append([]zoekt.FileMatch(nil), r.Files...)})
	})
	opts := zoekt.SearchOptions{TotalMaxMatchCount: total}
	if err := ss.StreamSearch(context.Background(), q, &opts, sender); err != nil {
		t.Fatal(err)
	}
	return out
}

func TestVerifC21Total(t *testing.T) {
	defer runtime.GOMAXPROCS(runtime.GOMAXPROCS(1))
	r := vfNewRand(vfSeed() + 104729)
	n := vfN(60)
	tokens := []string{"a", "a", "b", "ab", "foo", "bar", " ", "\n", "\n", "aa", "x"}
	for i := 0; i < n; i++ {
		ss := newShardedSearcher(1)
		nshards := 2 + r.Intn(4)
		for s := 0; s < nshards; s++ {
			repo := &zoekt.Repository{ID: uint32(100 + s), Name: fmt.Sprintf("repo%d", s),
				RawConfig: map[string]string{"priority": fmt.Sprint(r.Intn(3) * 10)}}
			b, err := index.NewShardBuilder(repo)
			if err != nil {
				t.Fatal(err)
			}
			nd := 1 + r.Intn(4)
			for d := 0; d < nd; d++ {
				var sb strings.Builder
				for k := r.Intn(8); k > 0; k-- {
					sb.WriteString(r.Pick(tokens))
				}
				if err := b.Add(index.Document{Name: fmt.Sprintf("f%d_%d", s, d), Content: []byte(sb.String())}); err != nil {
					t.Fatal(err)
				}
			}
			var buf bytes.Buffer
			if err := b.Write(&buf); err != nil {
				t.Fatal(err)
			}
			sh, err := index.NewSearcher(&vfMemFile{buf.Bytes()})
			if err != nil {
				t.Fatal(err)
			}
			ss.replace(map[string]zoekt.Searcher{fmt.Sprintf("key-%d", s): sh})
		}
		q := &query.Substring{Pattern: r.Pick([]string{"a", "a", "a", "b", "ab", "foo", "o", "aa"}), Content: true, CaseSensitive: true}
		unl := vfC21Stream(t, ss, q, 0)
		fileID := map[string]int{}
		ufile := map[string]zoekt.FileMatch{}
		repoFiles := map[string]int{}
		for _, a := range unl {
			for _, f := range a.files {
				key := f.Repository + ":" + f.FileName
				fileID[key] = len(fileID)
				ufile[key] = f
				repoFiles[f.Repository]++
			}
		}
		var rs []string
		for _, a := range unl {
			var ids []int
			for _, f := range a.files {
				ids = append(ids, fileID[f.Repository+":"+f.FileName])
			}
			rs = append(rs, cPair(cNat(a.count), cNatList(ids)))
		}
		for _, limit := range []int{1, 1 + r.Intn(4)} {
			lim := vfC21Stream(t, ss, q, limit)
			var obs []string
			bad := ""
			got := map[string]int{}
			for _, a := range lim {
				var ids []int
				for _, f := range a.files {
					key := f.Repository + ":" + f.FileName
					id, ok := fileID[key]
					if !ok {
						bad = "total:file-not-in-unlimited-result"
						continue
					}
					if !reflect.DeepEqual(ufile[key], f) {
						bad = "total:file-differs"
					}
					ids = append(ids, id)
					got[f.Repository]++
				}
				obs = append(obs, cNatList(ids))
			}
			for repo, k := range got {
				if k != repoFiles[repo] && bad == "" {
					bad = "total:partial-shard-result"
				}
			}
			if bad != "" {
				vfOracleFail(bad, "the total match limit changed more than the set of whole shard results",
					map[string]any{"query": q.String(), "limit": limit, "unlimited": fmt.Sprint(unl), "limited": fmt.Sprint(lim)})
			}
			empty := "(@nil (nat * list nat))"
			if len(rs) > 0 {
				empty = cList(rs)
			}
			obsl := "(@nil (list nat))"
			if len(obs) > 0 {
				obsl = cList(obs)
			}
			vfCase(cTuple(cNat(limit), empty, obsl), vfKey(i, limit, rs), len(lim) < len(unl),
				[]string{fmt.Sprintf("shards=%d", nshards), fmt.Sprintf("arrived=%d", len(lim))},
				map[string]any{"query": q.String(), "limit": limit, "arrived": len(lim), "shards": len(unl)})
		}
	}
}
