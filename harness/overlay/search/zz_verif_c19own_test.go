package search

// C19, ownership of search results: what shardedSearcher.Search / StreamSearch hand to the caller must be INDEPENDENT
// COPIES of shard memory, because nothing keeps a shard mapped once the search returned (the watcher replaces or drops
// it, the rankedShard's finalizer munmaps the file).  Deterministic, no GC timing:
//
//   - shards are built in memory and served by an index.IndexFile over a []byte the test owns (vfC19MemFile), or by
//     the real mmap index file over a scratch file (variant "unmap");
//   - a search runs (raw index searcher / raw + the real copyFiles / shardedSearcher.Search / StreamSearch), the result
//     is snapshotted deeply by a reflective walk over EVERY []byte and string below *zoekt.SearchResult;
//   - the backing bytes are overwritten (every byte XOR 0xff), resp. the index file is closed (munmap), and the result
//     is walked again: any leaf that changed (or faults) is a view of shard memory.
//
// Go oracle: no leaf of a result returned by the sharded searcher may change: `result-aliases-shard-memory:<field>`.
// Coq case XOwn: the byte/string field paths found by reflection over the COMPILED type zoekt.SearchResult (must equal
// the translator's table Generated/ResultFields.v), the fields that alias shard memory in the raw result, after the
// real copyFiles, after Search and after StreamSearch (the model: raw minus the fields copyFiles' program copies).

import (
	"bytes"
	"context"
	"fmt"
	"os"
	"path/filepath"
	"reflect"
	"runtime/debug"
	"sort"
	"strings"
	"sync"
	"testing"

	"github.com/sourcegraph/zoekt"
	"github.com/sourcegraph/zoekt/index"
	"github.com/sourcegraph/zoekt/query"
)

type vfC19MemFile struct {
	name string
	data []byte
}

func (f *vfC19MemFile) Read(off, sz uint32) ([]byte, error) {
	if uint64(off)+uint64(sz) > uint64(len(f.data)) {
		return nil, fmt.Errorf("out of bounds")
	}
	return f.data[off : off+sz : off+sz], nil
}
func (f *vfC19MemFile) Size() (uint32, error) { return uint32(len(f.data)), nil }
func (f *vfC19MemFile) Close()                {}
func (f *vfC19MemFile) Name() string          { return f.name }

// vfC19OnceFile makes Close idempotent: the trial unmaps a dropped shard explicitly, and the rankedShard's finalizer
// closes it again at some later GC — by then the address range may belong to the NEXT trial's mapping, which a second
// munmap of the stale slice would tear down under a running search.
type vfC19OnceFile struct {
	index.IndexFile
	once sync.Once
}

func (f *vfC19OnceFile) Close() { f.once.Do(f.IndexFile.Close) }

// ---- reflective walk

type vfC19Leaf struct {
	tpath string // type-level path: Files[].ChunkMatches[].Content
	ipath string // instance path: Files[0].ChunkMatches[2].Content
	isStr bool
	data  []byte // deep copy
	fault string // reading the bytes faulted (a view of unmapped memory)
}

// vfC19Read copies the bytes of one leaf; a fault (SetPanicOnFault is on while a result is walked) is recorded for
// THIS leaf and the walk goes on
func vfC19Read(get func() []byte) (data []byte, fault string) {
	defer func() {
		if r := recover(); r != nil {
			data, fault = nil, fmt.Sprint(r)
		}
	}()
	return append([]byte(nil), get()...), ""
}

func vfC19PField(p, f string) string {
	if p == "" {
		return f
	}
	return p + "." + f
}

// vfC19TypePaths: the []byte and string components of a type, in the path syntax of Model/ResultOwn.v
func vfC19TypePaths(t reflect.Type, p string, bs, ss *[]string, seen map[reflect.Type]bool) {
	switch t.Kind() {
	case reflect.String:
		*ss = append(*ss, p)
	case reflect.Slice:
		if t.Elem().Kind() == reflect.Uint8 {
			*bs = append(*bs, p)
			return
		}
		vfC19TypePaths(t.Elem(), p+"[]", bs, ss, seen)
	case reflect.Array:
		vfC19TypePaths(t.Elem(), p+"[]", bs, ss, seen)
	case reflect.Pointer:
		vfC19TypePaths(t.Elem(), p, bs, ss, seen)
	case reflect.Map:
		vfC19TypePaths(t.Key(), p+"{key}", bs, ss, seen)
		vfC19TypePaths(t.Elem(), p+"{}", bs, ss, seen)
	case reflect.Struct:
		if seen[t] {
			return
		}
		seen[t] = true
		for i := 0; i < t.NumField(); i++ {
			vfC19TypePaths(t.Field(i).Type, vfC19PField(p, t.Field(i).Name), bs, ss, seen)
		}
		delete(seen, t)
	case reflect.Interface:
		*bs = append(*bs, p+"<interface>")
	}
}

// vfC19Walk visits every []byte and string below v; it READS the bytes (that is the point: a view of an unmapped
// shard faults here).
func vfC19Walk(v reflect.Value, tp, ip string, out *[]vfC19Leaf) {
	switch v.Kind() {
	case reflect.String:
		d, flt := vfC19Read(func() []byte { return []byte(v.String()) })
		*out = append(*out, vfC19Leaf{tp, ip, true, d, flt})
	case reflect.Slice:
		if v.Type().Elem().Kind() == reflect.Uint8 {
			if v.IsNil() {
				return
			}
			d, flt := vfC19Read(v.Bytes)
			*out = append(*out, vfC19Leaf{tp, ip, false, d, flt})
			return
		}
		for i := 0; i < v.Len(); i++ {
			vfC19Walk(v.Index(i), tp+"[]", fmt.Sprintf("%s[%d]", ip, i), out)
		}
	case reflect.Array:
		for i := 0; i < v.Len(); i++ {
			vfC19Walk(v.Index(i), tp+"[]", fmt.Sprintf("%s[%d]", ip, i), out)
		}
	case reflect.Pointer:
		if !v.IsNil() {
			vfC19Walk(v.Elem(), tp, ip, out)
		}
	case reflect.Map:
		keys := v.MapKeys()
		sort.Slice(keys, func(i, j int) bool { return fmt.Sprint(keys[i].Interface()) < fmt.Sprint(keys[j].Interface()) })
		for i, k := range keys {
			vfC19Walk(k, tp+"{key}", fmt.Sprintf("%s{key %d}", ip, i), out)
			vfC19Walk(v.MapIndex(k), tp+"{}", fmt.Sprintf("%s{%d}", ip, i), out)
		}
	case reflect.Struct:
		for i := 0; i < v.NumField(); i++ {
			vfC19Walk(v.Field(i), vfC19PField(tp, v.Type().Field(i).Name), vfC19PField(ip, v.Type().Field(i).Name), out)
		}
	case reflect.Interface:
		if !v.IsNil() {
			vfC19Walk(v.Elem(), tp, ip, out)
		}
	}
}

func vfC19Snapshot(results []*zoekt.SearchResult) (leaves []vfC19Leaf, fault string) {
	defer debug.SetPanicOnFault(debug.SetPanicOnFault(true))
	defer func() {
		if r := recover(); r != nil {
			fault = fmt.Sprint(r)
		}
	}()
	for k, r := range results {
		pre := ""
		if len(results) > 1 {
			pre = fmt.Sprintf("<result %d>", k)
		}
		vfC19Walk(reflect.ValueOf(r), "", pre, &leaves)
	}
	return leaves, ""
}

type vfC19Alias struct {
	tpath, ipath, was, now string
}

// vfC19Changed compares the result with its snapshot, leaf by leaf; a fault while reading is attributed to the leaf
// the walk had reached.
func vfC19Changed(results []*zoekt.SearchResult, snap []vfC19Leaf) (out []vfC19Alias) {
	now, fault := vfC19Snapshot(results)
	cut := func(b []byte) string {
		if len(b) > 60 {
			return fmt.Sprintf("%q...(%d bytes)", b[:60], len(b))
		}
		return fmt.Sprintf("%q", b)
	}
	for i, l := range snap {
		if i >= len(now) {
			what := "the result has fewer leaves than its snapshot"
			if fault != "" {
				what = "FAULT while reading: " + fault
			}
			out = append(out, vfC19Alias{l.tpath, l.ipath, cut(l.data), what})
			break
		}
		if now[i].fault != "" {
			out = append(out, vfC19Alias{l.tpath, l.ipath, cut(l.data), "a FAULT (" + now[i].fault + ")"})
		} else if now[i].ipath != l.ipath || !bytes.Equal(now[i].data, l.data) {
			out = append(out, vfC19Alias{l.tpath, l.ipath, cut(l.data), cut(now[i].data)})
		}
	}
	return out
}

func vfC19AliasSet(as []vfC19Alias) []string {
	m := map[string]bool{}
	for _, a := range as {
		m[a.tpath] = true
	}
	var out []string
	for k := range m {
		out = append(out, k)
	}
	sort.Strings(out)
	return out
}

// ---- worlds

type vfC19OwnDoc struct {
	Name    string
	Content string
	Sym     bool
}
type vfC19OwnShard struct {
	Repo string
	Docs []vfC19OwnDoc
}

const vfC19Needle = "needle"

func vfC19OwnGenShard(r *vfRand, s int) vfC19OwnShard {
	words := []string{"alpha", "beta", "gamma", "delta", "haystack", "straw", "zoekt", "shard", "mmap", "0123456789"}
	line := func(withNeedle bool) string {
		n := 1 + r.Intn(6)
		ws := make([]string, n)
		for i := range ws {
			ws[i] = r.Pick(words)
		}
		if withNeedle {
			ws[r.Intn(n)] = vfC19Needle + r.Pick([]string{"", "s", "Fn", "_x"})
		}
		return strings.Join(ws, " ")
	}
	sh := vfC19OwnShard{Repo: fmt.Sprintf("own/repo%d", s)}
	for d, nd := 0, 1+r.Intn(4); d < nd; d++ {
		var lines []string
		nl := 1 + r.Intn(9)
		hit := r.Intn(nl)
		for i := 0; i < nl; i++ {
			lines = append(lines, line(i == hit || r.Chance(20)))
		}
		name := fmt.Sprintf("dir%d/file%d.txt", r.Intn(3), d)
		if r.Chance(30) {
			name = fmt.Sprintf("dir%d/%s%d.go", r.Intn(3), vfC19Needle, d)
		}
		doc := vfC19OwnDoc{Name: name, Content: strings.Join(lines, "\n")}
		if !r.Chance(25) {
			doc.Content += "\n"
		}
		doc.Sym = r.Chance(50)
		sh.Docs = append(sh.Docs, doc)
	}
	return sh
}

// building a shard is the expensive step (the builder allocates megabytes): the trials draw 1-3 shards from a pool of
// shard images generated once per run (from the run's PRNG)
type vfC19OwnPoolT struct {
	shards []vfC19OwnShard
	images [][]byte
}

var vfC19OwnPool *vfC19OwnPoolT

func vfC19OwnWorld(t testing.TB, r *vfRand) ([]vfC19OwnShard, [][]byte) {
	if vfC19OwnPool == nil {
		p := &vfC19OwnPoolT{}
		n := 6
		if vfTier() == "thorough" {
			n = 24
		}
		for s := 0; s < n; s++ {
			sh := vfC19OwnGenShard(r, s)
			p.shards = append(p.shards, sh)
			p.images = append(p.images, vfC19OwnBuild(t, sh))
		}
		vfC19OwnPool = p
	}
	var shards []vfC19OwnShard
	var images [][]byte
	first, ns := r.Intn(len(vfC19OwnPool.shards)), 1+r.Intn(3)
	for k := 0; k < ns; k++ {
		i := (first + k) % len(vfC19OwnPool.shards)
		shards = append(shards, vfC19OwnPool.shards[i])
		images = append(images, vfC19OwnPool.images[i])
	}
	return shards, images
}

func vfC19OwnBuild(t testing.TB, sh vfC19OwnShard) []byte {
	b, err := index.NewShardBuilder(&zoekt.Repository{Name: sh.Repo, ID: 7,
		Branches: []zoekt.RepositoryBranch{{Name: "HEAD", Version: "deadbeef"}, {Name: "dev", Version: "cafe"}},
		URL:      "https://example.com/" + sh.Repo, LineFragmentTemplate: "#L{{.LineNumber}}"})
	if err != nil {
		t.Fatal(err)
	}
	for _, d := range sh.Docs {
		doc := index.Document{Name: d.Name, Content: []byte(d.Content), Branches: []string{"HEAD", "dev"}, Language: "Text"}
		if d.Sym {
			if i := strings.Index(d.Content, vfC19Needle); i >= 0 {
				doc.Symbols = []index.DocumentSection{{Start: uint32(i), End: uint32(i + len(vfC19Needle))}}
				doc.SymbolsMetaData = []*zoekt.Symbol{{Sym: vfC19Needle, Kind: "function", Parent: "pkg", ParentKind: "package"}}
			}
		}
		if err := b.Add(doc); err != nil {
			t.Fatal(err)
		}
	}
	var buf bytes.Buffer
	if err := b.Write(&buf); err != nil {
		t.Fatal(err)
	}
	return buf.Bytes()
}

type vfC19OwnLoaded struct {
	files     []index.IndexFile
	datas     [][]byte // memory variant: the backing bytes
	searchers map[string]zoekt.Searcher
	keys      []string
}

// vfC19OwnLoad opens fresh searchers over fresh copies of the shard images (memory) or over scratch files (mmap)
func vfC19OwnLoad(t testing.TB, images [][]byte, mmap bool, dir string) *vfC19OwnLoaded {
	l := &vfC19OwnLoaded{searchers: map[string]zoekt.Searcher{}}
	for i, img := range images {
		key := fmt.Sprintf("own%d_v16.00000.zoekt", i)
		var f index.IndexFile
		if mmap {
			p := filepath.Join(dir, key)
			if err := os.WriteFile(p, img, 0o644); err != nil {
				t.Fatal(err)
			}
			fh, err := os.Open(p)
			if err != nil {
				t.Fatal(err)
			}
			mf, err := index.NewIndexFile(fh)
			if err != nil {
				t.Fatal(err)
			}
			f = &vfC19OnceFile{IndexFile: mf}
		} else {
			data := append([]byte(nil), img...)
			l.datas = append(l.datas, data)
			f = &vfC19MemFile{name: key, data: data}
		}
		s, err := index.NewSearcher(f)
		if err != nil {
			t.Fatal(err)
		}
		l.files = append(l.files, f)
		l.searchers[key] = s
		l.keys = append(l.keys, key)
	}
	return l
}

// unload: what happens to a shard's memory once nothing keeps it alive
func (l *vfC19OwnLoaded) unload(mmap bool) {
	if mmap {
		for _, f := range l.files {
			f.Close() // munmap
		}
		return
	}
	for _, d := range l.datas {
		for i := range d {
			d[i] ^= 0xff
		}
	}
}

type vfC19OwnCollect struct{ results []*zoekt.SearchResult }

func (c *vfC19OwnCollect) Send(r *zoekt.SearchResult) { c.results = append(c.results, r) }

type vfC19OwnQuery struct {
	Kind                string
	Mode                string // line | chunk
	Whole               bool
	Context             int
	Debug               bool
	MaxDocs, MaxMatches int // display limits (0 = none): the truncator re-slices the result before it is copied
}

func (qq vfC19OwnQuery) q() query.Q {
	switch qq.Kind {
	case "content":
		return &query.Substring{Pattern: vfC19Needle, Content: true}
	case "filename":
		return &query.Substring{Pattern: vfC19Needle, FileName: true}
	case "either":
		return &query.Substring{Pattern: vfC19Needle}
	case "regexp":
		q, err := query.Parse("ne+dle[a-zF_]*")
		if err != nil {
			panic(err)
		}
		return q
	case "symbol":
		return &query.Symbol{Expr: &query.Substring{Pattern: vfC19Needle, Content: true}}
	case "all":
		return &query.Const{Value: true}
	}
	return &query.Or{Children: []query.Q{&query.Substring{Pattern: vfC19Needle, Content: true}, &query.Substring{Pattern: "file", FileName: true}}}
}
func (qq vfC19OwnQuery) opts() *zoekt.SearchOptions {
	return &zoekt.SearchOptions{ChunkMatches: qq.Mode == "chunk", Whole: qq.Whole, NumContextLines: qq.Context, DebugScore: qq.Debug,
		MaxDocDisplayCount: qq.MaxDocs, MaxMatchDisplayCount: qq.MaxMatches}
}

func vfC19OwnStrs(xs []string) string {
	qs := make([]string, len(xs))
	for i, x := range xs {
		qs[i] = "\"" + strings.ReplaceAll(x, "\"", "\"\"") + "\"%string"
	}
	return cList(qs)
}

var vfC19OwnKinds = []string{"content", "filename", "either", "regexp", "symbol", "all", "or"}

func vfC19Own(t *testing.T, r *vfRand, trial int) {
	world, images := vfC19OwnWorld(t, r)
	// every result mode is visited systematically (trial number), the rest is random
	qq := vfC19OwnQuery{
		Kind:    vfC19OwnKinds[(trial/12+trial)%len(vfC19OwnKinds)],
		Mode:    []string{"line", "chunk"}[trial%2],
		Whole:   (trial/2)%2 == 1,
		Context: []int{0, 1, 3}[(trial/4)%3],
		Debug:   r.Chance(30),
	}
	if r.Chance(25) {
		qq.MaxDocs = 1 + r.Intn(3)
	}
	if r.Chance(25) {
		qq.MaxMatches = 1 + r.Intn(4)
	}
	mmap := trial%5 == 4 // the sharded searches also run over really mmap'd files that are then munmap'd
	dir := ""
	if mmap {
		d, err := os.MkdirTemp(os.Getenv("VERIF_TMP"), "c19own")
		if err != nil {
			t.Fatal(err)
		}
		dir = d
		defer os.RemoveAll(d)
	}
	ctx := context.Background()
	replay := func(api string, extra map[string]any) map[string]any {
		m := map[string]any{"seed": vfSeed(), "trial": trial, "api": api, "shards": world, "query": qq.q().String(), "query_kind": qq.Kind,
			"options": map[string]any{"ChunkMatches": qq.Mode == "chunk", "Whole": qq.Whole, "NumContextLines": qq.Context, "DebugScore": qq.Debug,
				"MaxDocDisplayCount": qq.MaxDocs, "MaxMatchDisplayCount": qq.MaxMatches},
			"backing": map[bool]string{false: "IndexFile over a []byte; after the search every byte is XORed with 0xff", true: "mmap'd scratch file (index.NewIndexFile); after the search IndexFile.Close() = munmap"}[mmap],
			"how":     "build the shards with index.NewShardBuilder (Documents as listed; Symbols = first 'needle' of the content when Sym), index.NewSearcher over the backing, newShardedSearcher(2).replace(all), run the api, deep-copy the result, unload the backing, compare"}
		for k, v := range extra {
			m[k] = v
		}
		return m
	}

	// (a) raw index searchers: which fields are views of shard memory
	la := vfC19OwnLoad(t, images, false, "")
	var raw []*zoekt.SearchResult
	for _, k := range la.keys {
		res, err := la.searchers[k].Search(ctx, qq.q(), qq.opts())
		if err != nil {
			t.Fatal(err)
		}
		raw = append(raw, res)
	}
	snapA, _ := vfC19Snapshot(raw)
	la.unload(false)
	rawAliased := vfC19AliasSet(vfC19Changed(raw, snapA))

	// (b) raw + the real copyFiles
	lb := vfC19OwnLoad(t, images, false, "")
	var copied []*zoekt.SearchResult
	nfiles := 0
	for _, k := range lb.keys {
		res, err := lb.searchers[k].Search(ctx, qq.q(), qq.opts())
		if err != nil {
			t.Fatal(err)
		}
		copyFiles(res)
		nfiles += len(res.Files)
		copied = append(copied, res)
	}
	snapB, _ := vfC19Snapshot(copied)
	lb.unload(false)
	afterAliased := vfC19AliasSet(vfC19Changed(copied, snapB))

	// (c) (d) the sharded searcher
	e2e := func(api string) []string {
		l := vfC19OwnLoad(t, images, mmap, dir)
		ss := newShardedSearcher(2)
		ss.replace(l.searchers)
		var results []*zoekt.SearchResult
		if api == "Search" {
			res, err := ss.Search(ctx, qq.q(), qq.opts())
			if err != nil {
				t.Fatal(err)
			}
			results = []*zoekt.SearchResult{res}
		} else {
			var c vfC19OwnCollect
			if err := ss.StreamSearch(ctx, qq.q(), qq.opts(), &c); err != nil {
				t.Fatal(err)
			}
			results = c.results
		}
		snap, _ := vfC19Snapshot(results)
		got := 0
		for _, res := range results {
			got += len(res.Files)
		}
		if got != nfiles && qq.MaxDocs == 0 && qq.MaxMatches == 0 {
			vfOracleFail("own:result-count", fmt.Sprintf("%s returned %d files, the shards searched one by one %d", api, got, nfiles), replay(api, nil))
		}
		if !mmap {
			// the shards stay registered while their memory is overwritten: nothing reads them any more
			l.unload(false)
		} else {
			// drop the shards as the watcher does, then unmap explicitly (what the finalizer does at some later GC)
			drop := map[string]zoekt.Searcher{}
			for _, k := range l.keys {
				drop[k] = nil
			}
			ss.replace(drop)
			l.unload(true)
		}
		ch := vfC19Changed(results, snap)
		seen := map[string]bool{}
		for _, a := range ch {
			if seen[a.tpath] {
				continue
			}
			seen[a.tpath] = true
			vfOracleFail("result-aliases-shard-memory:"+a.tpath,
				fmt.Sprintf("%s returned a result whose field %s is a view of shard memory, not a copy: it read %s when the search returned and reads %s after the shard's memory was unloaded (%s)",
					api, a.ipath, a.was, a.now, map[bool]string{false: "backing bytes overwritten", true: "index file closed = munmap"}[mmap]),
				replay(api, map[string]any{"field": a.ipath, "was": a.was, "now": a.now, "all_changed_fields": vfC19AliasSet(ch)}))
		}
		if !mmap {
			ss.Close()
		}
		return vfC19AliasSet(ch)
	}
	searchAliased := e2e("Search")
	streamAliased := e2e("StreamSearch")

	var tb, ts []string
	vfC19TypePaths(reflect.TypeOf(zoekt.SearchResult{}), "", &tb, &ts, map[reflect.Type]bool{})
	coq := fmt.Sprintf("(XOwn %s %s %s %s %s %s)", vfC19OwnStrs(tb), vfC19OwnStrs(ts), vfC19OwnStrs(rawAliased), vfC19OwnStrs(afterAliased),
		vfC19OwnStrs(searchAliased), vfC19OwnStrs(streamAliased))
	cls := []string{"own", "own:" + qq.Mode, "own:q=" + qq.Kind, fmt.Sprintf("own:ctx=%d", qq.Context), fmt.Sprintf("own:views=%d", len(rawAliased))}
	if qq.Whole {
		cls = append(cls, "own:whole")
	}
	if mmap {
		cls = append(cls, "own:munmap")
	}
	if qq.MaxDocs > 0 || qq.MaxMatches > 0 {
		cls = append(cls, "own:display-limits")
	}
	vfCase(coq, vfKey("own", qq, rawAliased, nfiles, len(snapA)), len(rawAliased) >= 2, cls,
		map[string]any{"trial": trial, "query": qq, "files": nfiles, "leaves": len(snapA), "views_in_raw_result": rawAliased,
			"views_after_copyFiles": afterAliased, "views_after_Search": searchAliased, "views_after_StreamSearch": streamAliased})
}

// TestVerifC19Own runs the ownership trials alone (development / replay aid; the check runs them from TestVerifC19).
func TestVerifC19Own(t *testing.T) {
	ro := vfNewRand(vfSeed() + 1299709)
	for i, n := 0, vfN(84); i < n; i++ {
		vfC19Own(t, ro, i)
	}
}
