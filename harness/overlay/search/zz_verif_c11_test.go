package search

// C11 hunt + oracle: corrupt shard files (all truncations, all single-bit flips, garbage, and the witness files of the
// Coq model's refutation theorems) are placed next to a healthy shard and served by NewDirectorySearcher in a
// SUBPROCESS (this test binary re-executed) under a watchdog and an address-space limit.
// Outcome per file: error | served-ok | contained-crash | PROCESS-CRASH | HANG, plus "healthy-affected".
// Mapped into /repo/search by `go test -overlay`.

import (
	"bufio"
	"bytes"
	"context"
	"encoding/json"
	"fmt"
	"io"
	"os"
	"os/exec"
	"path/filepath"
	"regexp"
	"regexp/syntax"
	"runtime"
	"sort"
	"strconv"
	"strings"
	"sync"
	"syscall"
	"testing"
	"time"

	"github.com/sourcegraph/zoekt"
	"github.com/sourcegraph/zoekt/index"
	"github.com/sourcegraph/zoekt/query"
)

type vfC11Variant struct {
	ID   int    `json:"id"`
	Base int    `json:"base"` // index of the base shard; -1 = raw bytes in Hex
	Kind string `json:"kind"` // trunc | flip | garbage | witness | intact
	Pos  int    `json:"pos"`
	Bit  int    `json:"bit"`
	Hex  string `json:"hex,omitempty"`
	// targeted corruption of ONE posting list (written by the Coq model, Model/FormatPosting.v: targets): the trigram
	// whose list is damaged, whether it is a file-name trigram, the kind of damage and the list's place in the file
	Tri   string `json:"tri,omitempty"`
	Name  bool   `json:"name,omitempty"`
	TKind int    `json:"tkind,omitempty"`
	Off   int    `json:"off,omitempty"`
	Sz    int    `json:"sz,omitempty"`
}

// vfC11TriQueries are the queries that read exactly the posting list of trigram tri and walk it to its end (Whole
// search over every document): substring case-sensitive and insensitive, a regexp with that literal.
func vfC11TriQueries(tri string, name bool) []query.Q {
	return []query.Q{
		&query.Substring{Pattern: tri, CaseSensitive: true, Content: !name, FileName: name},
		&query.Substring{Pattern: strings.ToLower(tri), Content: !name, FileName: name},
		&query.Regexp{Regexp: mustParseRE(regexp.QuoteMeta(tri) + "[a-z0-9]*"), CaseSensitive: true, Content: !name, FileName: name},
		&query.Regexp{Regexp: mustParseRE("(?i)" + regexp.QuoteMeta(tri) + "[a-z0-9]*"), Content: !name, FileName: name},
	}
}

// vfC11Extra serves dir and runs the trigram queries of a targeted variant: results of the healthy shard (canonical),
// number of files found in the other shard, crash count.
func vfC11Extra(dir string, v *vfC11Variant) (healthy string, hits int, crashes int, err error) {
	ss, err := NewDirectorySearcher(dir)
	if err != nil {
		return "", 0, 0, err
	}
	defer ss.Close()
	ctx := context.Background()
	qs := vfC11TriQueries(v.Tri, v.Name)
	for _, q := range qs {
		res, err := ss.Search(ctx, q, &zoekt.SearchOptions{Whole: true})
		if err != nil {
			return "", 0, 0, fmt.Errorf("search %s: %w", q, err)
		}
		crashes += res.Stats.Crashes
		healthy += "\n#" + q.String() + "\n" + vfC11Canon(res, "healthy")
		for _, f := range res.Files {
			if f.Repository != "healthy" {
				hits++
			}
		}
	}
	rl, err := ss.List(ctx, qs[0], nil)
	if err != nil {
		return "", 0, 0, fmt.Errorf("list: %w", err)
	}
	crashes += rl.Crashes
	for _, e := range rl.Repos {
		if e.Repository.Name == "healthy" {
			healthy += fmt.Sprintf("#list:%s|%d;", e.Repository.Name, e.Stats.Documents)
		}
	}
	return
}

func vfC11BuildShard(t testing.TB, name string, compound bool, docs int) []byte {
	repo := &zoekt.Repository{Name: name, ID: 7, Branches: []zoekt.RepositoryBranch{{Name: "HEAD", Version: "v1"}, {Name: "dev", Version: "v2"}}}
	b, err := index.NewShardBuilder(repo)
	if err != nil {
		t.Fatal(err)
	}
	for i := 0; i < docs; i++ {
		content := []byte(fmt.Sprintf("package p%d\n\nfunc needle%d() { return }\n// é日本 %s\n", i, i, strings.Repeat("x", i*3)))
		d := index.Document{Name: fmt.Sprintf("dir/f%d.go", i), Content: content, Branches: []string{"HEAD", "dev"}[:1+i%2]}
		if i%2 == 0 {
			p := bytes.Index(content, []byte("needle"))
			d.Symbols = []index.DocumentSection{{Start: uint32(p), End: uint32(p + 7)}}
			d.SymbolsMetaData = []*zoekt.Symbol{{Sym: "needle", Kind: "function", Parent: "p", ParentKind: "package"}}
		}
		if err := b.Add(d); err != nil {
			t.Fatal(err)
		}
	}
	b.IndexTime = time.Unix(1700000000, 0).UTC()
	b.ID = "vfc11shardid00000000"
	var buf bytes.Buffer
	if err := b.Write(&buf); err != nil {
		t.Fatal(err)
	}
	return buf.Bytes()
}

func vfC11Bases(t testing.TB) [][]byte {
	return [][]byte{vfC11BuildShard(t, "victim", false, 2), vfC11BuildShard(t, "victim3", false, 5)}
}

func (v *vfC11Variant) bytes(bases [][]byte) []byte {
	if v.Base < 0 {
		b := make([]byte, len(v.Hex)/2)
		for i := range b {
			x, _ := strconv.ParseUint(v.Hex[2*i:2*i+2], 16, 8)
			b[i] = byte(x)
		}
		return b
	}
	base := bases[v.Base]
	switch v.Kind {
	case "trunc":
		return append([]byte(nil), base[:v.Pos]...)
	case "flip":
		b := append([]byte(nil), base...)
		b[v.Pos] ^= 1 << uint(v.Bit)
		return b
	}
	return append([]byte(nil), base...)
}

// ---- child: serves every variant of the batch, one after the other

type vfC11Healthy struct {
	files string
	repos string
}

func vfC11Canon(res *zoekt.SearchResult, repo string) string {
	var out []string
	for _, f := range res.Files {
		if f.Repository == repo {
			out = append(out, fmt.Sprintf("%s|%s|%q|%v", f.Repository, f.FileName, f.Content, f.Branches))
		}
	}
	sort.Strings(out)
	return strings.Join(out, "\n")
}

func vfC11Serve(dir string) (filesHealthy string, reposHealthy string, otherRepos int, otherFiles int, crashes int, err error) {
	ss, err := NewDirectorySearcher(dir)
	if err != nil {
		return "", "", 0, 0, 0, err
	}
	defer ss.Close()
	ctx := context.Background()
	for _, q := range []query.Q{&query.Const{Value: true}, &query.Substring{Pattern: "needle"}, &query.Substring{Pattern: "f1.go", FileName: true},
		&query.Symbol{Expr: &query.Substring{Pattern: "needle"}}, &query.Regexp{Regexp: mustParseRE("ne+dle[0-9]")}} {
		res, err := ss.Search(ctx, q, &zoekt.SearchOptions{Whole: true})
		if err != nil {
			return "", "", 0, 0, 0, fmt.Errorf("search %s: %w", q, err)
		}
		crashes += res.Stats.Crashes
		filesHealthy += "\n#" + q.String() + "\n" + vfC11Canon(res, "healthy")
		for _, f := range res.Files {
			if f.Repository != "healthy" {
				otherFiles++
			}
		}
	}
	rl, err := ss.List(ctx, &query.Const{Value: true}, nil)
	if err != nil {
		return "", "", 0, 0, 0, fmt.Errorf("list: %w", err)
	}
	crashes += rl.Crashes
	for _, e := range rl.Repos {
		if e.Repository.Name == "healthy" {
			reposHealthy += fmt.Sprintf("%s|%d|%d|%v;", e.Repository.Name, e.Repository.ID, e.Stats.Documents, e.Repository.Branches)
		} else {
			otherRepos++
		}
	}
	// List with a query that needs the posting lists (indexData.List runs Search for it)
	rl2, err := ss.List(ctx, &query.Substring{Pattern: "needle"}, nil)
	if err != nil {
		return "", "", 0, 0, 0, fmt.Errorf("list: %w", err)
	}
	crashes += rl2.Crashes
	reposHealthy += "#substr:"
	for _, e := range rl2.Repos {
		if e.Repository.Name == "healthy" {
			reposHealthy += fmt.Sprintf("%s|%d|%d;", e.Repository.Name, e.Repository.ID, e.Stats.Documents)
		}
	}
	return
}

func TestVerifC11Child(t *testing.T) {
	spec := os.Getenv("VERIF_C11_BATCH")
	if spec == "" {
		t.Skip("child only")
	}
	raw, err := os.ReadFile(spec)
	if err != nil {
		t.Fatal(err)
	}
	var batch struct {
		Work     string
		Variants []vfC11Variant
	}
	if err := json.Unmarshal(raw, &batch); err != nil {
		t.Fatal(err)
	}
	// the shards are built by the parent (ShardBuilder needs two 16 MB posting tables; the child runs under ulimit -v)
	var bases [][]byte
	for i := 0; ; i++ {
		b, err := os.ReadFile(filepath.Join(batch.Work, fmt.Sprintf("base%d.bin", i)))
		if err != nil {
			break
		}
		bases = append(bases, b)
	}
	healthy, err := os.ReadFile(filepath.Join(batch.Work, "healthy.bin"))
	if err != nil || len(bases) == 0 {
		t.Fatal("missing base shards")
	}
	out := bufio.NewWriter(os.Stdout)
	say := func(format string, a ...any) { fmt.Fprintf(out, format+"\n", a...); out.Flush() }
	// baseline: healthy shard alone
	bdir := filepath.Join(batch.Work, "baseline")
	os.MkdirAll(bdir, 0o755)
	os.WriteFile(filepath.Join(bdir, "healthy_v16.00000.zoekt"), healthy, 0o644)
	bf, br, _, _, bc, err := vfC11Serve(bdir)
	if err != nil || bc != 0 || !strings.Contains(bf, "needle") || br == "" {
		t.Fatalf("baseline broken: %v crashes=%d", err, bc)
	}
	for _, v := range batch.Variants {
		say("VFBEGIN %d", v.ID)
		// in-process watchdog: a reliable dump of every goroutine (the parent's SIGQUIT is the backup)
		wd := time.AfterFunc(7*time.Second, func() {
			buf := make([]byte, 4<<20)
			n := runtime.Stack(buf, true)
			os.Stderr.WriteString("VFHANG-DUMP\n\n")
			os.Stderr.Write(buf[:n])
			os.Stderr.WriteString("\n\n")
			os.Exit(97)
		})
		dir := filepath.Join(batch.Work, fmt.Sprintf("v%d", v.ID))
		os.MkdirAll(dir, 0o755)
		os.WriteFile(filepath.Join(dir, "healthy_v16.00000.zoekt"), healthy, 0o644)
		os.WriteFile(filepath.Join(dir, "victim_v16.00000.zoekt"), v.bytes(bases), 0o644)
		f, r, otherRepos, otherFiles, crashes, err := vfC11Serve(dir)
		hits := 0
		if v.Tri != "" && err == nil {
			// targeted variant: queries on exactly the trigram whose posting list is damaged
			eb, _, _, berr := vfC11Extra(bdir, &v)
			if berr != nil {
				t.Fatalf("baseline broken for the trigram queries of %q: %v", v.Tri, berr)
			}
			ef, eh, ec, eerr := vfC11Extra(dir, &v)
			hits, crashes, err = eh, crashes+ec, eerr
			if eerr == nil && ef != eb {
				f = "#trigram-queries-differ#" + ef
			}
		}
		class := "error"
		switch {
		case err != nil:
			class = "api-error:" + err.Error()
		case f != bf || r != br:
			class = "healthy-affected"
		case crashes > 0:
			class = "contained-crash"
		case otherRepos > 0 || otherFiles > 0:
			class = "served-ok"
		}
		wd.Stop()
		say("VFEND %d %d %s", v.ID, hits, class)
		os.RemoveAll(dir)
	}
	say("VFDONE")
}

// ---- parent

var vfC11Waiting = []string{"[chan receive", "[select", "[IO wait", "[sleep", "[semacquire", "[sync.", "[GC ", "[finalizer", "[idle", "[force gc", "[syscall", "[debug call", "[chan send", "[cleanup"}

// vfC11Site returns the first zoekt frame (function name) of the goroutine that panicked / is spinning, and that
// goroutine's stack. Frames of the harness itself are skipped.
func vfC11Site(stderr string, hang bool) (string, string) {
	blocks := strings.Split(stderr, "\n\n")
	for _, b := range blocks {
		lines := strings.Split(b, "\n")
		hdr := ""
		for _, l := range lines {
			if strings.HasPrefix(l, "goroutine ") {
				hdr = l
				break
			}
		}
		if hdr == "" {
			continue
		}
		waiting := false
		for _, w := range vfC11Waiting {
			if strings.Contains(hdr, w) {
				waiting = true
			}
		}
		if hang && waiting {
			continue
		}
		for _, line := range lines {
			if !strings.HasPrefix(line, "github.com/sourcegraph/zoekt/") || strings.Contains(line, "vfC11") || strings.Contains(line, "TestVerif") {
				continue
			}
			fn := line
			if i := strings.LastIndex(fn, "("); i > 0 {
				fn = fn[:i]
			}
			fn = strings.TrimPrefix(fn, "github.com/sourcegraph/zoekt/")
			if k := strings.Index(fn, ".func"); k > 0 { // closures: keep the enclosing function
				fn = fn[:k]
			}
			if len(b) > 5000 {
				b = b[:5000]
			}
			return fn, b
		}
	}
	return "unknown", ""
}

type vfC11Outcome struct {
	v     vfC11Variant
	hits  int
	class string
	site  string
	log   string
}

func vfC11RunBatch(t *testing.T, work string, bases [][]byte, healthy []byte, variants []vfC11Variant, results chan<- vfC11Outcome) {
	for i, b := range bases {
		os.WriteFile(filepath.Join(work, fmt.Sprintf("base%d.bin", i)), b, 0o644)
	}
	os.WriteFile(filepath.Join(work, "healthy.bin"), healthy, 0o644)
	// a hang caused by the file's content is deterministic: a variant is reported as HANG only when it hangs twice
	// (the machine may be heavily loaded; DirectoryWatcher.Stop occasionally takes seconds under load)
	retried := map[int]bool{}
	for len(variants) > 0 {
		spec := filepath.Join(work, "batch.json")
		raw, _ := json.Marshal(map[string]any{"Work": work, "Variants": variants})
		os.WriteFile(spec, raw, 0o644)
		limKB := 4 * 1024 * 1024
		cmd := exec.Command("sh", "-c", fmt.Sprintf("ulimit -v %d; exec \"$0\" -test.run '^TestVerifC11Child$' -test.count=1 -test.timeout=0", limKB), os.Args[0])
		cmd.Env = append(os.Environ(), "VERIF_C11_BATCH="+spec, "GOMEMLIMIT=1GiB", "GOTRACEBACK=all", "GOMAXPROCS=2")
		stdout, _ := cmd.StdoutPipe()
		var stderr bytes.Buffer
		var mu sync.Mutex
		cmd.Stderr = &lockedWriter{w: &stderr, mu: &mu}
		if err := cmd.Start(); err != nil {
			t.Fatal(err)
		}
		lines := make(chan string, 64)
		go func() {
			sc := bufio.NewScanner(stdout)
			sc.Buffer(make([]byte, 1<<20), 1<<20)
			for sc.Scan() {
				lines <- sc.Text()
			}
			close(lines)
		}()
		cur := -1
		done := map[int]bool{}
		finished := false
		hang := false
		timer := time.NewTimer(60 * time.Second) // start-up + baseline
	loop:
		for {
			select {
			case ln, ok := <-lines:
				if !ok {
					break loop
				}
				switch {
				case strings.HasPrefix(ln, "VFBEGIN "):
					cur, _ = strconv.Atoi(strings.TrimPrefix(ln, "VFBEGIN "))
					timer.Reset(10 * time.Second)
				case strings.HasPrefix(ln, "VFEND "):
					parts := strings.SplitN(strings.TrimPrefix(ln, "VFEND "), " ", 3)
					if len(parts) < 3 {
						continue
					}
					id, _ := strconv.Atoi(parts[0])
					hits, _ := strconv.Atoi(parts[1])
					for _, v := range variants {
						if v.ID == id {
							results <- vfC11Outcome{v: v, hits: hits, class: parts[2]}
						}
					}
					done[id] = true
					cur = -1
					timer.Reset(60 * time.Second)
				case ln == "VFDONE":
					finished = true
				}
			case <-timer.C:
				hang = true
				cmd.Process.Signal(syscall.SIGQUIT)
				time.Sleep(1500 * time.Millisecond)
				cmd.Process.Kill()
				break loop
			}
		}
		go io.Copy(io.Discard, stdout)
		cmd.Wait()
		mu.Lock()
		errText := stderr.String()
		mu.Unlock()
		if finished {
			return
		}
		// the child died or hung while serving variant cur
		var rest []vfC11Variant
		found := false
		for _, v := range variants {
			if done[v.ID] {
				continue
			}
			if v.ID == cur && !found {
				found = true
				if (hang || strings.Contains(errText, "VFHANG-DUMP")) && !retried[v.ID] {
					retried[v.ID] = true
					rest = append(rest, v)
					continue
				}
				o := vfC11Outcome{v: v}
				head := errText
				if len(head) > 1500 {
					head = head[:1500]
				}
				if strings.Contains(errText, "VFHANG-DUMP") {
					hang = true
					errText = errText[strings.Index(errText, "VFHANG-DUMP"):]
				}
				switch {
				case hang:
					o.class = "HANG"
					o.site, o.log = vfC11Site(errText, true)
				case strings.Contains(errText, "out of memory") || strings.Contains(errText, "cannot allocate memory"):
					o.class = "PROCESS-CRASH"
					o.site, o.log = vfC11Site(errText, false)
					o.site = "oom:" + o.site
				default:
					o.class = "PROCESS-CRASH"
					o.site, o.log = vfC11Site(errText, false)
				}
				o.log = head + "\n...\n" + o.log
				results <- o
				continue
			}
			rest = append(rest, v)
		}
		if !found {
			// died outside a variant (start-up): report once and stop this batch
			results <- vfC11Outcome{v: vfC11Variant{ID: -1, Kind: "startup"}, class: "HARNESS-FAILURE", log: errText}
			return
		}
		variants = rest
	}
}

type lockedWriter struct {
	w  io.Writer
	mu *sync.Mutex
}

func (l *lockedWriter) Write(p []byte) (int, error) {
	l.mu.Lock()
	defer l.mu.Unlock()
	return l.w.Write(p)
}

const vfC11Dense = 600

func TestVerifC11(t *testing.T) {
	if os.Getenv("VERIF_C11_BATCH") != "" {
		t.Skip("parent only")
	}
	r := vfNewRand(vfSeed())
	n := vfN(200)
	bases := vfC11Bases(t)
	healthy := vfC11BuildShard(t, "healthy", false, 3)
	var vs []vfC11Variant
	add := func(v vfC11Variant) { v.ID = len(vs); vs = append(vs, v) }
	exhaustive := vfTier() == "thorough"
	// second pass (VERIF_C11_TARGETS): ONLY the targeted corruptions of single posting lists written by the Coq model
	// from the bases of the first pass (file bytes + the trigram to query), interleaved over the workers
	targeted := os.Getenv("VERIF_C11_TARGETS")
	if targeted != "" {
		raw, err := os.ReadFile(targeted)
		if err != nil {
			t.Fatal(err)
		}
		var ts []vfC11Variant
		if err := json.Unmarshal(raw, &ts); err != nil {
			t.Fatal(err)
		}
		for _, tv := range ts {
			tv.Base = -1
			add(tv)
		}
	}
	// witnesses of the Coq refutation theorems (raw bytes computed by the model), and the intact shards
	if wf := os.Getenv("VERIF_C11_WITNESSES"); wf != "" && targeted == "" {
		raw, err := os.ReadFile(wf)
		if err == nil {
			var ws []string
			json.Unmarshal(raw, &ws)
			for _, h := range ws {
				add(vfC11Variant{Base: -1, Kind: "witness", Hex: h})
			}
		}
	}
	if targeted == "" {
		for bi := range bases {
			add(vfC11Variant{Base: bi, Kind: "intact"})
		}
	}
	nb := 1
	if exhaustive {
		nb = len(bases)
	}
	if targeted != "" {
		nb = 0
	}
	for bi := 0; bi < nb; bi++ {
		base := bases[bi]
		if exhaustive && len(base) <= 4096 {
			// ALL truncations; ALL single-bit flips of the last vfC11Dense bytes (TOC, trailer and the section tables in
			// front of them: the part of the file the reader trusts most); of the remaining bytes every bit when
			// VERIF_C11_ALL=1 (51k files, ~45 min), otherwise n seeded (byte, bit) pairs
			for p := 0; p < len(base); p++ {
				add(vfC11Variant{Base: bi, Kind: "trunc", Pos: p})
			}
			dense := min(len(base), vfC11Dense)
			all := os.Getenv("VERIF_C11_ALL") == "1"
			for p := 0; p < len(base); p++ {
				if !all && p < len(base)-dense {
					continue
				}
				for b := 0; b < 8; b++ {
					add(vfC11Variant{Base: bi, Kind: "flip", Pos: p, Bit: b})
				}
			}
			if !all && len(base) > dense {
				for i := 0; i < n; i++ {
					add(vfC11Variant{Base: bi, Kind: "flip", Pos: r.Intn(len(base) - dense), Bit: r.Intn(8)})
				}
			}
		} else {
			m := n
			if exhaustive {
				m = 4000
			}
			for i := 0; i < m/4; i++ {
				add(vfC11Variant{Base: bi, Kind: "trunc", Pos: r.Intn(len(base))})
			}
			for i := 0; i < m-m/4; i++ {
				p := r.Intn(len(base))
				if r.Chance(50) { // the TOC and the section tables at the end of the file are the dense part
					p = len(base) - 1 - r.Intn(min(len(base), 700))
				}
				add(vfC11Variant{Base: bi, Kind: "flip", Pos: p, Bit: r.Intn(8)})
			}
		}
	}
	// garbage
	ng := 12
	if exhaustive {
		ng = 200
	}
	if targeted != "" {
		ng = 0
	}
	for i := 0; i < ng; i++ {
		sz := []int{0, 1, 7, 8, 9, 16, 100, 4096, 4097, 70000}[r.Intn(10)]
		b := make([]byte, sz)
		switch r.Intn(3) {
		case 0:
			for j := range b {
				b[j] = byte(r.U64())
			}
		case 1:
			for j := range b {
				b[j] = 0xff
			}
		}
		add(vfC11Variant{Base: -1, Kind: "garbage", Hex: fmt.Sprintf("%x", b)})
	}
	vfInfo(map[string]any{"what": "c11-bases", "hex": []string{fmt.Sprintf("%x", bases[0]), fmt.Sprintf("%x", bases[1])}})
	vfInfo(map[string]any{"what": "c11-plan", "variants": len(vs), "base_sizes": []int{len(bases[0]), len(bases[1])}, "exhaustive": exhaustive})

	workers := 6
	if exhaustive {
		workers = 10
	}
	results := make(chan vfC11Outcome, 1024)
	var wg sync.WaitGroup
	tmp := os.Getenv("VERIF_TMP")
	if tmp == "" {
		tmp = t.TempDir()
	}
	per := (len(vs) + workers - 1) / workers
	for w := 0; w < workers; w++ {
		lo, hi := w*per, min((w+1)*per, len(vs))
		chunk := []vfC11Variant(nil)
		if targeted != "" {
			// round robin: variants that hang cost two watchdog periods each
			for i := w; i < len(vs); i += workers {
				chunk = append(chunk, vs[i])
			}
		} else if lo < hi {
			chunk = vs[lo:hi]
		}
		if len(chunk) == 0 {
			continue
		}
		work := filepath.Join(tmp, fmt.Sprintf("c11-w%d", w))
		if targeted != "" {
			work = filepath.Join(tmp, fmt.Sprintf("c11-t%d", w))
		}
		os.MkdirAll(work, 0o755)
		wg.Add(1)
		go func(chunk []vfC11Variant) {
			defer wg.Done()
			vfC11RunBatch(t, work, bases, healthy, chunk, results)
			os.RemoveAll(work)
		}(chunk)
	}
	go func() { wg.Wait(); close(results) }()
	hist := map[string]int{}
	sites := map[string]int{}
	seen := 0
	for o := range results {
		seen++
		cl := o.class
		if strings.HasPrefix(cl, "api-error:") {
			cl = "api-error"
		}
		hist[o.v.Kind+"/"+cl]++
		replay := map[string]any{"variant": o.v, "class": o.class, "site": o.site}
		switch {
		case o.class == "HARNESS-FAILURE":
			t.Errorf("child failed outside a variant: %s", o.log)
		case o.v.Kind == "target-control" && (o.class != "served-ok" || o.hits == 0):
			vfOracleFail("c11:target-control:"+cl, fmt.Sprintf("the intact shard queried for trigram %q: class %s, %d files found (the targeted queries must reach the posting list)", o.v.Tri, o.class, o.hits), replay)
		case o.v.Kind == "intact" && o.class != "served-ok":
			vfOracleFail("c11:intact:"+cl, "an intact shard is not served: "+o.class, replay)
		case o.class == "HANG" || o.class == "PROCESS-CRASH":
			sites[o.class+" "+o.site]++
			replay["log"] = o.log
			what := "a corrupt shard file hangs the serving process"
			if o.class == "PROCESS-CRASH" {
				what = "a corrupt shard file crashes the serving process"
			}
			if o.v.Kind == "target" {
				replay["queries"] = fmt.Sprint(vfC11TriQueries(o.v.Tri, o.v.Name))
				what += fmt.Sprintf(" — posting list of trigram %q (file-name trigram: %v) at [%d,+%d) damaged (tkind %d), queries on that trigram", o.v.Tri, o.v.Name, o.v.Off, o.v.Sz, o.v.TKind)
			}
			vfOracleFail("c11:"+o.class+":"+o.site, fmt.Sprintf("%s (%s %d/%d) at %s", what, o.v.Kind, o.v.Pos, o.v.Bit, o.site), replay)
		case o.class == "healthy-affected":
			vfOracleFail("c11:healthy-affected", "results of the healthy shard change when a corrupt shard is in the directory", replay)
		case strings.HasPrefix(o.class, "api-error:"):
			op := "list"
			if strings.HasPrefix(o.class, "api-error:search") {
				op = "search"
			}
			msg := "other"
			if strings.Contains(o.class, "out of bounds") {
				msg = "out-of-bounds"
			}
			vfOracleFail("c11:api-error:"+op+":"+msg, "Search/List over a directory that contains a corrupt shard fails as a whole (healthy shards' results are lost): "+o.class, replay)
		}
		vfEmit(map[string]any{"kind": "outcome", "id": o.v.ID, "vkind": o.v.Kind, "base": o.v.Base, "pos": o.v.Pos, "bit": o.v.Bit, "class": cl, "site": o.site,
			"tri": o.v.Tri, "tkind": o.v.TKind, "name": o.v.Name, "hits": o.hits})
	}
	if seen != len(vs) {
		t.Errorf("only %d of %d variants were classified", seen, len(vs))
	}
	vfInfo(map[string]any{"what": "c11-outcomes", "hist": hist, "sites": sites})
}

func mustParseRE(s string) *syntax.Regexp {
	re, err := syntax.Parse(s, syntax.Perl)
	if err != nil {
		panic(err)
	}
	return re
}
