package search

// C20 trace validation + Go-side oracle for the two-semaphore search scheduler (search/sched.go).
// Mapped into /repo/search by `go test -overlay`; never copied into /repo.
//
// One trial = one multiScheduler (random capacity / batchdiv / interactiveDuration) driven by many
// goroutines through Acquire / Yield / Release with random cancellations, in 3 stages.  All API calls
// of a stage have returned when the stage ends (blocked calls are cancelled by the driver), so the
// driver can probe the REAL occupancy of both semaphores (TryAcquire until refusal) at a quiescent
// point and log it (TObs).  The log is a totally ordered list of events:
//
//   releases are logged BEFORE the call, grants AFTER the return, cancellations BEFORE cancel();
//   a Yield reserves its log slot at call time and classifies it at return time (no-op / start).
//
// With this discipline the logged order is a legal linearisation of the real semaphore operations
// whenever the implementation is correct (logged occupancy <= real occupancy at every instant), so a
// rejected trace is never an artefact of the recording.  The trace goes to the Coq model's `accepts`;
// independently the Go oracle below replays the log with plain counters.

import (
	"context"
	"errors"
	"fmt"
	"io"
	"log"
	"sync"
	"sync/atomic"
	"testing"
	"time"
)

const (
	vfC20New = iota
	vfC20Cancel
	vfC20AcqCall
	vfC20AcqOk
	vfC20AcqErr
	vfC20YieldNoop
	vfC20YieldStart
	vfC20YieldOk
	vfC20YieldErr
	vfC20Release
	vfC20Obs
)

var vfC20Names = []string{"new", "cancel", "acq-call", "acq-ok", "acq-err", "yield-noop", "yield-start", "yield-ok", "yield-err", "release", "obs"}

type vfC20Ev struct{ c, a, b int }

type vfC20Log struct {
	mu  sync.Mutex
	evs []vfC20Ev
}

func (l *vfC20Log) add(c, a, b int) int {
	l.mu.Lock()
	defer l.mu.Unlock()
	l.evs = append(l.evs, vfC20Ev{c, a, b})
	return len(l.evs) - 1
}
func (l *vfC20Log) fill(i, c, a, b int) {
	l.mu.Lock()
	defer l.mu.Unlock()
	l.evs[i] = vfC20Ev{c, a, b}
}

type vfC20Act struct {
	yield bool
	work  time.Duration
}

type vfC20Proc struct {
	id           int
	ctx          context.Context
	cancel       context.CancelFunc
	startStage   int
	releaseStage int
	preCancel    bool
	cancelAfter  time.Duration
	acts         [][]vfC20Act // per stage
	proc         *process
	over         bool
	busy         atomic.Bool // a segment of this process is running
	timer        *time.Timer
	timerDone    chan struct{}
}

// vfC20Free returns how many units can be taken from the semaphore right now (only meaningful while no
// call is in flight) and puts them back.
func vfC20Free(s *sema) (n int) {
	defer func() { recover() }() // a semaphore that was over-released earlier panics again here
	for n < 1000 && s.sem.TryAcquire(1) {
		n++
	}
	if n > 0 {
		s.sem.Release(int64(n))
	}
	return n
}

type vfC20Fail struct {
	key, what string
}

func vfC20Trial(t *testing.T, r *vfRand, trial int) bool {
	capacity := []int{1, 1, 2, 2, 3, 4, 5, 8}[r.Intn(8)]
	batchdiv := []int{0, 0, 1, 2, 3}[r.Intn(5)]
	dur := []time.Duration{0, 0, 30 * time.Microsecond, 300 * time.Microsecond, time.Hour}[r.Intn(5)]

	old := zoektSched
	zoektSched = map[string]int{}
	if batchdiv != 0 {
		zoektSched["batchdiv"] = batchdiv
	}
	sched := newMultiScheduler(int64(capacity))
	zoektSched = old
	sched.interactiveDuration = dur

	capIObs := vfC20Free(sched.semInteractive)
	capBObs := vfC20Free(sched.semBatch)

	const nStages = 3
	nproc := 2 + r.Intn(2*capacity+4)
	if nproc > 16 {
		nproc = 16
	}
	lg := &vfC20Log{}
	var fails []vfC20Fail
	var failMu sync.Mutex
	var aborted atomic.Bool // a scheduler call panicked: the semaphores are in an undefined state
	fail := func(key, what string) {
		failMu.Lock()
		fails = append(fails, vfC20Fail{key, what})
		failMu.Unlock()
	}

	procs := make([]*vfC20Proc, nproc)
	for i := range procs {
		p := &vfC20Proc{id: i}
		p.ctx, p.cancel = context.WithCancel(context.Background())
		p.startStage = r.Intn(nStages)
		p.releaseStage = p.startStage + r.Intn(nStages-p.startStage)
		if r.Chance(55) {
			p.releaseStage = p.startStage
		}
		switch r.Intn(10) {
		case 0:
			p.preCancel = true
		case 1, 2, 3:
			p.cancelAfter = time.Duration(1+r.Intn(1500)) * time.Microsecond
		}
		p.acts = make([][]vfC20Act, nStages)
		for s := p.startStage; s <= p.releaseStage; s++ {
			na := r.Intn(5)
			for k := 0; k < na; k++ {
				a := vfC20Act{yield: r.Chance(60)}
				if !a.yield {
					a.work = time.Duration(r.Intn(400)) * time.Microsecond
				}
				p.acts[s] = append(p.acts[s], a)
			}
		}
		procs[i] = p
		lg.add(vfC20New, 0, 0)
	}

	segment := func(p *vfC20Proc, stage int) {
		defer func() {
			if e := recover(); e != nil {
				fail("panic", fmt.Sprint("panic in scheduler call: ", e))
				aborted.Store(true)
				p.over = true
			}
		}()
		if stage == p.startStage {
			if p.preCancel {
				lg.add(vfC20Cancel, p.id, 0)
				p.cancel()
			}
			if p.cancelAfter > 0 {
				p.timerDone = make(chan struct{})
				p.timer = time.AfterFunc(p.cancelAfter, func() {
					lg.add(vfC20Cancel, p.id, 0)
					p.cancel()
					close(p.timerDone)
				})
			}
			lg.add(vfC20AcqCall, p.id, 0)
			proc, err := sched.Acquire(p.ctx)
			if err != nil {
				lg.add(vfC20AcqErr, p.id, 0)
				if p.ctx.Err() == nil {
					fail("acquire-error-without-ctx-done", "Acquire returned an error while its context was not done: "+err.Error())
				} else if !errors.Is(err, p.ctx.Err()) {
					fail("acquire-error-not-ctx-err", "Acquire returned an error other than the context's: "+err.Error())
				}
				if proc != nil {
					fail("acquire-error-with-process", "Acquire returned both a process and an error")
				}
				p.over = true
				return
			}
			lg.add(vfC20AcqOk, p.id, 0)
			if proc == nil {
				fail("acquire-nil-process", "Acquire returned (nil, nil)")
				p.over = true
				return
			}
			p.proc = proc
		}
		for _, a := range p.acts[stage] {
			if !a.yield {
				if a.work > 0 {
					time.Sleep(a.work)
				}
				continue
			}
			slot := lg.add(-1, p.id, 0)
			wasNil := p.proc.yieldTimer == nil
			err := p.proc.Yield(p.ctx)
			switch {
			case err != nil:
				lg.fill(slot, vfC20YieldStart, p.id, 0)
				lg.add(vfC20YieldErr, p.id, 0)
				if p.ctx.Err() == nil {
					fail("yield-error-without-ctx-done", "Yield returned an error while its context was not done: "+err.Error())
				}
			case !wasNil && p.proc.yieldTimer == nil:
				lg.fill(slot, vfC20YieldStart, p.id, 0)
				lg.add(vfC20YieldOk, p.id, 0)
			default:
				lg.fill(slot, vfC20YieldNoop, p.id, 0)
			}
		}
		if stage == p.releaseStage {
			lg.add(vfC20Release, p.id, 0)
			p.proc.Release()
			p.over = true
		}
	}

	hung := false
	for stage := 0; stage < nStages && !hung && !aborted.Load(); stage++ {
		var wg sync.WaitGroup
		for _, p := range procs {
			if p.over || p.startStage > stage {
				continue
			}
			if p.startStage < stage && p.proc == nil {
				continue
			}
			wg.Add(1)
			p.busy.Store(true)
			go func(p *vfC20Proc) {
				defer wg.Done()
				defer p.busy.Store(false)
				segment(p, stage)
			}(p)
		}
		done := make(chan struct{})
		go func() { wg.Wait(); close(done) }()
		patience := time.Duration(200+r.Intn(3000)) * time.Microsecond
		select {
		case <-done:
		case <-time.After(patience):
			// stage cancel: whatever is still inside a call (or working) gets its context cancelled
			for _, p := range procs {
				if p.busy.Load() {
					lg.add(vfC20Cancel, p.id, 0)
					p.cancel()
				}
			}
			select {
			case <-done:
			case <-time.After(20 * time.Second):
				hung = true
				fail("hang", "scheduler calls did not return within 20s after their contexts were cancelled")
			}
		}
		if !hung && !aborted.Load() {
			// quiescent: no call in flight. Probe the real occupancy.
			oI := capIObs - vfC20Free(sched.semInteractive)
			oB := capBObs - vfC20Free(sched.semBatch)
			lg.add(vfC20Obs, oI, oB)
		}
	}
	for _, p := range procs {
		if p.timer != nil && !p.timer.Stop() {
			select {
			case <-p.timerDone:
			case <-time.After(5 * time.Second):
			}
		}
		p.cancel()
	}

	lg.mu.Lock()
	evs := make([]vfC20Ev, 0, len(lg.evs))
	for _, e := range lg.evs {
		if e.c >= 0 {
			evs = append(evs, e)
		}
	}
	lg.mu.Unlock()

	// ---- Go-side oracle: replay the log with plain counters
	wantB := capacity / 4
	if batchdiv != 0 {
		wantB = capacity / batchdiv
	}
	if wantB == 0 {
		wantB = 1
	}
	if capIObs != capacity {
		fail("capacity:interactive", fmt.Sprintf("interactive semaphore admits %d, configured capacity %d", capIObs, capacity))
	}
	if capBObs != wantB {
		fail("capacity:batch", fmt.Sprintf("batch semaphore admits %d, expected %d", capBObs, wantB))
	}
	hold := make([]int, nproc) // 0 nothing, 1 interactive, 2 batch
	hI, hB, maxI, maxB := 0, 0, 0, 0
	cls := map[string]bool{}
	nObsNonzero := 0
	for _, e := range evs {
		switch e.c {
		case vfC20AcqOk:
			hold[e.a] = 1
			hI++
			if hI > capacity {
				fail("bound:interactive", fmt.Sprintf("%d searches hold an interactive slot, capacity %d", hI, capacity))
			}
		case vfC20AcqErr:
			cls["acq-err"] = true
		case vfC20YieldStart:
			if hold[e.a] == 1 {
				hI--
			} else if hold[e.a] == 2 {
				hB--
			}
			hold[e.a] = 0
		case vfC20YieldOk:
			hold[e.a] = 2
			hB++
			cls["yield-ok"] = true
			if hB > wantB {
				fail("bound:batch", fmt.Sprintf("%d searches hold a batch slot, capacity %d", hB, wantB))
			}
		case vfC20YieldErr:
			cls["yield-err"] = true
		case vfC20YieldNoop:
			cls["yield-noop"] = true
		case vfC20Release:
			if hold[e.a] == 1 {
				hI--
			} else if hold[e.a] == 2 {
				hB--
			} else {
				cls["release-after-failed-yield"] = true
			}
			hold[e.a] = 0
		case vfC20Obs:
			if e.a != hI || e.b != hB {
				key := "occupancy-mismatch"
				if e.a > hI || e.b > hB {
					key = "slot-leak"
				} else {
					key = "slot-over-release"
				}
				fail(key, fmt.Sprintf("quiescent point: semaphores hold interactive=%d batch=%d but the searches hold interactive=%d batch=%d", e.a, e.b, hI, hB))
			}
			if e.a+e.b > 0 {
				nObsNonzero++
			}
		}
		if hI > maxI {
			maxI = hI
		}
		if hB > maxB {
			maxB = hB
		}
	}
	if !hung && !aborted.Load() && (hI != 0 || hB != 0) {
		fail("harness", "harness bug: not every process released")
	}
	if maxI == capacity {
		cls["full-interactive"] = true
	}
	if maxB == wantB {
		cls["full-batch"] = true
	}
	if nObsNonzero > 0 {
		cls["carry-over"] = true
	}

	var rows []string
	var human []string
	for _, e := range evs {
		rows = append(rows, cTuple(cN(uint64(e.c)), cN(uint64(e.a)), cN(uint64(e.b))))
		if e.c == vfC20Obs {
			human = append(human, fmt.Sprintf("obs(%d,%d)", e.a, e.b))
		} else if e.c != vfC20New {
			human = append(human, fmt.Sprintf("%s(%d)", vfC20Names[e.c], e.a))
		}
	}
	replay := map[string]any{"trial": trial, "capacity": capacity, "batchdiv": batchdiv, "interactiveDuration": dur.String(),
		"processes": nproc, "trace": human}
	seen := map[string]bool{}
	for _, f := range fails {
		if !seen[f.key] {
			seen[f.key] = true
			vfOracleFail(f.key, f.what, replay)
		}
	}
	var classes []string
	for _, k := range vfSortedKeys(cls) {
		classes = append(classes, k)
	}
	classes = append(classes, fmt.Sprintf("cap=%d/%d", capIObs, capBObs))
	nontrivial := (cls["yield-ok"] || cls["yield-err"]) && (cls["full-interactive"] || cls["acq-err"])
	coq := cTuple(cN(uint64(capacity)), cN(uint64(batchdiv)), cN(uint64(capIObs)), cN(uint64(capBObs)), cList(rows))
	vfCase(coq, vfKey(capacity, batchdiv, human), nontrivial, classes,
		map[string]any{"capacity": capacity, "batchdiv": batchdiv, "dur": dur.String(), "procs": nproc, "events": len(evs), "trace": human})
	return !hung
}

// vfC20CapacitySweep: the sizes newMultiScheduler REALLY gives its two semaphores (probed with TryAcquire on a fresh
// scheduler, nothing running) for every capacity 1..40 and batchdiv in {default, 1..8, 16, 64}.  Each point is a Coq
// case with an empty trace: the model's batch_cap (whose formula is tied to the source by translator/schedconsts and
// theorem C20_batch_capacity_formula) must give the probed sizes; the Go oracle states the documented rule
// ("batch queue size 1/batchdiv of capacity", default 1/4, at least one slot).
func vfC20CapacitySweep(t *testing.T) {
	for capacity := 1; capacity <= 40; capacity++ {
		for _, batchdiv := range []int{0, 1, 2, 3, 4, 5, 6, 7, 8, 16, 64} {
			old := zoektSched
			zoektSched = map[string]int{}
			if batchdiv != 0 {
				zoektSched["batchdiv"] = batchdiv
			}
			sched := newMultiScheduler(int64(capacity))
			zoektSched = old
			capIObs := vfC20Free(sched.semInteractive)
			capBObs := vfC20Free(sched.semBatch)
			div := batchdiv
			if div == 0 {
				div = 4
			}
			wantB := capacity / div
			if wantB < 1 {
				wantB = 1
			}
			replay := map[string]any{"capacity": capacity, "batchdiv": batchdiv, "interactive_slots": capIObs, "batch_slots": capBObs,
				"how": "newMultiScheduler(capacity) with zoektSched[batchdiv]; count successful TryAcquire(1) on semInteractive.sem / semBatch.sem"}
			if capIObs != capacity {
				vfOracleFail("capacity:interactive", fmt.Sprintf("newMultiScheduler(%d): interactive semaphore admits %d searches", capacity, capIObs), replay)
			}
			if capBObs != wantB {
				vfOracleFail("capacity:batch", fmt.Sprintf("newMultiScheduler(%d) with batchdiv %d (0 = default 4): batch semaphore admits %d searches, the batch capacity is %d/%d = %d", capacity, batchdiv, capBObs, capacity, div, wantB), replay)
			}
			class := "sweep:exact-multiple"
			if capacity%div != 0 {
				class = "sweep:remainder"
			}
			if capacity < div {
				class = "sweep:below-batchdiv"
			}
			coq := cTuple(cN(uint64(capacity)), cN(uint64(batchdiv)), cN(uint64(capIObs)), cN(uint64(capBObs)), "(@nil (N * N * N))")
			vfCase(coq, vfKey("sweep", capacity, batchdiv), capacity%div != 0, []string{class, "capacity-sweep"}, replay) // non-trivial: the rounding matters
		}
	}
}

func TestVerifC20(t *testing.T) {
	log.SetOutput(io.Discard)
	vfC20CapacitySweep(t)
	r := vfNewRand(vfSeed())
	n := vfN(200)
	for i := 0; i < n; i++ {
		if !vfC20Trial(t, r, i) {
			t.Fatalf("trial %d hung", i)
		}
	}
}
