package search

// C23 at the sharded-searcher level: typeRepoSearcher{shardedSearcher} over simple + compound shards mixing
// tenants; Search aggregate compared with the model (sendByRepository + collectSender over per-shard
// tenant-filtered results), reflective leak oracle on Search, StreamSearch events and List.

import (
	"context"
	"fmt"
	"reflect"
	"sort"
	"strings"
	"testing"

	"github.com/sourcegraph/zoekt"
	"github.com/sourcegraph/zoekt/internal/tenant/systemtenant"
	"github.com/sourcegraph/zoekt/internal/tenant/tenanttest"
	"github.com/sourcegraph/zoekt/query"
)

func vfsWalk(v reflect.Value, strs *[]string, u32s *[]uint32, depth int) {
	if depth > 40 || !v.IsValid() {
		return
	}
	switch v.Kind() {
	case reflect.String:
		*strs = append(*strs, v.String())
	case reflect.Uint32:
		*u32s = append(*u32s, uint32(v.Uint()))
	case reflect.Ptr, reflect.Interface:
		if !v.IsNil() {
			vfsWalk(v.Elem(), strs, u32s, depth+1)
		}
	case reflect.Struct:
		for i := 0; i < v.NumField(); i++ {
			vfsWalk(v.Field(i), strs, u32s, depth+1)
		}
	case reflect.Slice, reflect.Array:
		if v.Kind() == reflect.Slice && v.Type().Elem().Kind() == reflect.Uint8 {
			*strs = append(*strs, string(v.Bytes()))
			return
		}
		for i := 0; i < v.Len(); i++ {
			vfsWalk(v.Index(i), strs, u32s, depth+1)
		}
	case reflect.Map:
		it := v.MapRange()
		for it.Next() {
			vfsWalk(it.Key(), strs, u32s, depth+1)
			vfsWalk(it.Value(), strs, u32s, depth+1)
		}
	}
}

func vfsLeaks(val any, repos []*vfsRepo, allowed func(*vfsRepo) bool) []string {
	var strs []string
	var u32s []uint32
	vfsWalk(reflect.ValueOf(val), &strs, &u32s, 0)
	leaks := map[string]bool{}
	own := map[string]bool{}
	for _, x := range repos {
		if allowed(x) && x.shared {
			own[x.name], own[x.url], own[x.frag] = true, true, true
		}
	}
	for _, rp := range repos {
		if allowed(rp) {
			continue
		}
		if rp.shared {
			// a shared name is a leak only when no repository the caller may see carries it
			own := false
			for _, x := range repos {
				if allowed(x) && x.name == rp.name {
					own = true
				}
			}
			if !own {
				for _, s := range strs {
					if s == rp.name {
						leaks["name"] = true
					}
				}
			}
		}
		for _, s := range strs {
			if own[s] {
				continue // name / template shared with a repository the caller may see
			}
			if strings.Contains(s, rp.marker) {
				switch {
				case s == rp.name:
					leaks["name"] = true
				case s == rp.url:
					leaks["file-url-template"] = true
				case s == rp.frag:
					leaks["line-fragment-template"] = true
				case strings.HasPrefix(s, "subrepo"):
					leaks["subrepo-name"] = true
				case strings.HasPrefix(s, "http://subhost") || strings.HasPrefix(s, "#S"):
					leaks["subrepo-template"] = true
				default:
					leaks["other-string"] = true
				}
			}
		}
		for _, u := range u32s {
			if u == rp.id {
				leaks["repo-id"] = true
			}
		}
	}
	return vfSortedKeys(leaks)
}

type vfsCtx struct {
	ctx  context.Context
	code int64
	name string
}

func vfsContexts() []vfsCtx {
	tenanttest.ResetTestTenants()
	cs := []vfsCtx{
		{systemtenant.WithUnsafeContext(context.Background()), -2, "system"},
		{context.Background(), -1, "none"},
	}
	for i := 1; i <= 4; i++ {
		cs = append(cs, vfsCtx{tenanttest.NewTestContext(), int64(i), fmt.Sprint("tenant", i)})
	}
	return cs
}

func vfsPairs(w *vfsWorld, m map[string]string) string {
	type kv struct{ k, v uint64 }
	var l []kv
	for k, v := range m {
		l = append(l, kv{w.id(k), w.id(v)})
	}
	sort.Slice(l, func(i, j int) bool { return l[i].k < l[j].k })
	if len(l) == 0 {
		return "[]"
	}
	var xs []string
	for _, p := range l {
		xs = append(xs, cTuple(cN(p.k), cN(p.v)))
	}
	return cList(xs)
}

func vfsC23ShardTerm(w *vfsWorld, sh *vfsShard, match func(rp *vfsRepo, dc *vfsDoc) bool) string {
	var rs []string
	for _, p := range sh.parts {
		rp := p.repo
		subs := "[]"
		if len(rp.subs) > 0 {
			var ss []string
			for _, s := range rp.subs {
				ss = append(ss, cTuple(cN(w.id(s.name)), cN(w.id(s.url)), cN(w.id(s.frag))))
			}
			subs = cList(ss)
		}
		rt := cTuple(cN(w.id(rp.name)), cN(uint64(rp.id)), cZ(int64(rp.tenant)), cBool(rp.tomb), cN(w.id(rp.url)), cN(w.id(rp.frag)), subs)
		var ds []string
		for _, dc := range p.docs {
			_, ft := rp.ftomb[dc.name]
			ds = append(ds, cTuple(cN(dc.fid), cBool(ft), cNat(dc.sub), cBool(match(rp, dc))))
		}
		rs = append(rs, cTuple(rt, cList(ds)))
	}
	return cList(rs)
}

func vfsC23Run(t *testing.T, r *vfRand, n int, strict bool) {
	ctxs := vfsContexts()
	perWorld := 10
	var w *vfsWorld
	var srch zoekt.Streamer
	nw := 0
	for i := 0; i < n; i++ {
		if i%perWorld == 0 {
			nw++
			w = vfsGenWorld(t, r, vfsGenOpts{tenants: true, tombstones: true, subrepos: true, split: true, dupnames: true}, fmt.Sprint("c23s", nw))
			if srch != nil {
				srch.Close()
			}
			srch, _ = w.newSearcher()
		}
		cx := ctxs[r.Intn(len(ctxs))]
		if r.Chance(40) {
			cx = ctxs[2+r.Intn(3)]
		}
		allowed := func(rp *vfsRepo) bool {
			if !strict || cx.code == -2 {
				return true
			}
			return cx.code >= 0 && int64(rp.tenant) == cx.code
		}
		live := func(rp *vfsRepo, dc *vfsDoc) bool {
			_, ft := rp.ftomb[dc.name]
			return !rp.tomb && !ft
		}
		// query: [set filter] x [content atom] x optional type:repo child
		var q vfsQ
		switch r.Intn(5) {
		case 0:
			q = vfsContentAtom(r, w.repos)
		case 1:
			q = vfsAnd(vfsSetAtom(r, w.repos, []string{"main"}), vfsContentAtom(r, w.repos))
		case 2:
			q = vfsSetAtom(r, w.repos, []string{"main"})
		case 3:
			child := vfsContentAtom(r, w.repos)
			if r.Chance(40) {
				child = vfsAnd(vfsSetAtom(r, w.repos, []string{"main"}), child)
			}
			names := map[string]bool{}
			for _, rp := range w.repos {
				if !allowed(rp) {
					continue
				}
				for _, dc := range rp.docs {
					if live(rp, dc) && child.eval(rp, dc) {
						names[rp.name] = true
					}
				}
			}
			tq := vfsQ{&query.Type{Type: query.TypeRepo, Child: child.q}, func(rp *vfsRepo, _ *vfsDoc) bool { return names[rp.name] }, "(type:repo " + child.desc + ")", "typerepo", ""}
			if r.Chance(50) {
				q = vfsAnd(tq, vfsContentAtom(r, w.repos))
			} else {
				q = tq
			}
		default:
			q = vfsOr(vfsAnd(vfsSetAtom(r, w.repos, []string{"main"}), vfsContentAtom(r, w.repos)), vfsContentAtom(r, w.repos))
		}
		replay := map[string]any{"seed": vfSeed(), "case": i, "strict": strict, "ctx": cx.name, "query": q.desc, "query_go": q.q.String()}
		var sdesc []any
		for _, sh := range w.shards {
			var ps []any
			for _, p := range sh.parts {
				ps = append(ps, map[string]any{"name": p.repo.name, "marker": p.repo.marker, "tenant": p.repo.tenant, "tombstone": p.repo.tomb, "docs": len(p.docs)})
			}
			sdesc = append(sdesc, map[string]any{"shard": sh.key, "repos": ps})
		}
		replay["shards"] = sdesc

		opts := &zoekt.SearchOptions{}
		if r.Chance(30) {
			opts.ChunkMatches = true
		}
		if r.Chance(20) {
			opts.Whole = true
		}
		res, err := srch.Search(cx.ctx, q.q, opts)
		if err != nil {
			t.Fatalf("Search(%s): %v", q.desc, err)
		}
		var events []*zoekt.SearchResult
		err = srch.StreamSearch(cx.ctx, q.q, opts, zoekt.SenderFunc(func(ev *zoekt.SearchResult) { events = append(events, ev) }))
		if err != nil {
			t.Fatalf("StreamSearch(%s): %v", q.desc, err)
		}
		lopts := &zoekt.ListOptions{Field: zoekt.RepoListFieldRepos}
		fieldMap := r.Chance(40)
		if fieldMap {
			lopts.Field = zoekt.RepoListFieldReposMap
		}
		rl, err := srch.List(cx.ctx, q.q, lopts)
		if err != nil {
			t.Fatalf("List(%s): %v", q.desc, err)
		}

		// ---- oracle
		report := func(op string, val any) {
			for _, ch := range vfsLeaks(val, w.repos, allowed) {
				rp2 := map[string]any{"op": op}
				for k, v := range replay {
					rp2[k] = v
				}
				vfOracleFail("sharded-"+op+"-leak:"+ch, "sharded "+op+" under context "+cx.name+" exposes the "+ch+" of a repository of another tenant", rp2)
			}
		}
		report("search", res)
		report("streamsearch", events)
		report("list", rl)
		if strict && cx.code == -1 {
			nf := 0
			for _, ev := range events {
				nf += len(ev.Files) + len(ev.RepoURLs)
			}
			if len(res.Files) != 0 || len(res.RepoURLs) != 0 || len(res.LineFragments) != 0 || len(rl.Repos) != 0 || len(rl.ReposMap) != 0 || nf != 0 {
				vfOracleFail("sharded-no-tenant-sees-something", "a request without tenant receives results in strict mode", replay)
			}
		}

		// ---- correspondence record (Search aggregate)
		var shs []string
		for _, sh := range w.shards {
			shs = append(shs, cTuple(vfsC23ShardTerm(w, sh, q.eval), "true"))
		}
		type row struct{ a, b, c, d uint64 }
		var rows []row
		for _, f := range res.Files {
			rows = append(rows, row{w.id(f.Repository), uint64(f.RepositoryID), w.id(f.FileName), w.id(f.SubRepositoryName)})
		}
		sort.Slice(rows, func(a, b int) bool { return rows[a].c < rows[b].c })
		ofiles := "[]"
		if len(rows) > 0 {
			var xs []string
			for _, x := range rows {
				xs = append(xs, cTuple(cN(x.a), cN(x.b), cN(x.c), cN(x.d)))
			}
			ofiles = cList(xs)
		}
		var lnames, lids []uint64
		for _, e := range rl.Repos {
			lnames = append(lnames, w.id(e.Repository.Name))
		}
		for id := range rl.ReposMap {
			lids = append(lids, uint64(id))
		}
		sort.Slice(lnames, func(a, b int) bool { return lnames[a] < lnames[b] })
		sort.Slice(lids, func(a, b int) bool { return lids[a] < lids[b] })
		lobs := cTuple(cBool(fieldMap), cNList(lnames), cNList(lids), cN(uint64(rl.Stats.Documents)))
		coq := cTuple(cBool(strict), cZ(cx.code), cList(shs), cTuple(ofiles, vfsPairs(w, res.RepoURLs), vfsPairs(w, res.LineFragments)), lobs)
		foreign := 0
		for _, rp := range w.repos {
			if !allowed(rp) {
				foreign++
			}
		}
		class := []string{fmt.Sprint("shards=", len(w.shards)), "ctx=" + cx.name, fmt.Sprint("strict=", strict), "q=" + q.kind,
			fmt.Sprint("files>0=", len(res.Files) > 0), fmt.Sprint("foreign>0=", foreign > 0)}
		vfEmit(map[string]any{"kind": "case", "level": "sharded", "coq": coq, "key": vfKey("s", nw, cx.name, q.desc, strict), "nontrivial": foreign > 0 && len(res.Files) > 0,
			"class": class, "sample": map[string]any{"ctx": cx.name, "query": q.desc, "shards": sdesc, "files": len(res.Files), "repourls": len(res.RepoURLs)}})
	}
	if srch != nil {
		srch.Close()
	}
}

func TestVerifC23S(t *testing.T) {
	r := vfNewRand(vfSeed() + 77)
	n := vfN(200)
	nStrict := n - n/8
	t.Run("strict", func(t *testing.T) {
		tenanttest.MockEnforce(t)
		vfsC23Run(t, r, nStrict, true)
	})
	t.Run("nonstrict", func(t *testing.T) {
		vfsC23Run(t, r, n-nStrict, false)
	})
}
