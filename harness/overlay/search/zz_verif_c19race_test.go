package search

// C19, runtime half (supporting evidence only, thorough tier, run with -race): a real directory searcher
// (fsnotify watcher + loader + finalizer-based close) under concurrent searches while shards are
// created, replaced by rename, deleted and get sidecar updates, with forced garbage collections so that
// replaced shards are really unmapped while searches run.
// Checks: no panic / no search error, every search sees at most one version per repository, the loaded set
// converges to the directory once it stops changing. Data races are reported by the race detector.
//
// Bounded so that it completes on a busy machine: all shard contents are built BEFORE the run (building under
// -race is slow), the mutator performs VERIF_N operations or 40 s of them, whichever takes longer, and stops
// early after its time budget (VERIF_C19_RACE_BUDGET_S, default 120 s), the convergence wait is bounded (60 s),
// searches are paced.
// The check treats only a data-race report or a crash/panic as deciding; everything else is supporting evidence.

import (
	"bytes"
	"context"
	"encoding/json"
	"fmt"
	"io"
	"log"
	"os"
	"path/filepath"
	"runtime"
	"sort"
	"strconv"
	"strings"
	"sync"
	"sync/atomic"
	"testing"
	"time"

	"github.com/sourcegraph/zoekt"
	"github.com/sourcegraph/zoekt/index"
	"github.com/sourcegraph/zoekt/query"
)

func vfC19RaceBlob(t testing.TB, repo string, ver int) []byte {
	sb, err := index.NewShardBuilder(&zoekt.Repository{Name: repo})
	if err != nil {
		t.Fatal(err)
	}
	for _, n := range []string{"a", "b", "c"} {
		if err := sb.Add(index.Document{Name: fmt.Sprintf("v%d_%s.txt", ver, n), Content: []byte(fmt.Sprintf("marker %s ver%d\n", n, ver))}); err != nil {
			t.Fatal(err)
		}
	}
	var buf bytes.Buffer
	if err := sb.Write(&buf); err != nil {
		t.Fatal(err)
	}
	return buf.Bytes()
}

func TestVerifC19Race(t *testing.T) {
	log.SetOutput(io.Discard)
	r := vfNewRand(vfSeed())
	nops := vfN(240)
	budget := 120 * time.Second
	if v, err := strconv.Atoi(os.Getenv("VERIF_C19_RACE_BUDGET_S")); err == nil && v > 0 {
		budget = time.Duration(v) * time.Second
	}
	t0 := time.Now()
	dir := filepath.Join(os.Getenv("VERIF_TMP"), "c19race")
	if os.Getenv("VERIF_TMP") == "" {
		dir = filepath.Join(t.TempDir(), "r")
	}
	if err := os.MkdirAll(dir, 0o755); err != nil {
		t.Fatal(err)
	}
	defer os.RemoveAll(dir)

	repos := []string{"repo0", "repo1", "repo2", "repo3"}
	onDisk := map[string]int{} // repo -> version on disk (absent = deleted)
	var diskMu sync.Mutex
	ver := 0
	// strictly increasing explicit mtimes: the equal-mtime blind spot (known finding) is not the subject here,
	// and kernel timestamps are coarse enough (one tick) to hit it by accident
	clock := time.Now().Add(-time.Hour)
	stamp := func(p string) {
		clock = clock.Add(time.Second)
		if err := os.Chtimes(p, clock, clock); err != nil {
			t.Fatal(err)
		}
	}
	// building shards under -race is slow: pre-build 2 content versions per repository, used alternately
	const nver = 2
	blobs := map[string][]byte{}
	for _, rp := range repos {
		for v := 1; v <= nver; v++ {
			blobs[fmt.Sprint(rp, v)] = vfC19RaceBlob(t, rp, v)
		}
	}
	cycle := map[string]int{}
	put := func(repo string) {
		cycle[repo] = cycle[repo]%nver + 1
		ver = cycle[repo]
		base := repo + "_v16.00000.zoekt"
		tmp := filepath.Join(dir, base+".tmpw")
		if err := os.WriteFile(tmp, blobs[fmt.Sprint(repo, ver)], 0o644); err != nil {
			t.Fatal(err)
		}
		stamp(tmp)
		if err := os.Rename(tmp, filepath.Join(dir, base)); err != nil {
			t.Fatal(err)
		}
		diskMu.Lock()
		onDisk[repo] = ver
		diskMu.Unlock()
	}
	for _, rp := range repos[:3] {
		put(rp)
	}

	ds, err := NewDirectorySearcher(dir)
	if err != nil {
		t.Fatal(err)
	}
	defer ds.Close()

	setup := time.Since(t0)
	began := time.Now() // the time budget covers the mutation phase only
	var fails sync.Map
	fail := func(key, what string) {
		if _, dup := fails.LoadOrStore(key, what); !dup {
			vfOracleFail("race:"+key, what, map[string]any{"seed": vfSeed(), "ops": nops})
		}
	}
	var searches, nonEmpty, lists, gcs atomic.Int64
	observe := func() (map[string]int, bool) {
		res, err := ds.Search(context.Background(), &query.Substring{Pattern: "marker"}, &zoekt.SearchOptions{})
		if err != nil {
			fail("search-error", "Search returned an error during reloads: "+err.Error())
			return nil, false
		}
		seen := map[string]int{}
		perRepo := map[string]int{}
		for _, f := range res.Files {
			var v int
			var n string
			if _, err := fmt.Sscanf(strings.ReplaceAll(f.FileName, "_", " "), "v%d %s", &v, &n); err != nil {
				fail("bad-result", "unexpected file in result: "+f.FileName)
				continue
			}
			if old, ok := seen[f.Repository]; ok && old != v {
				fail("mixed-versions", fmt.Sprintf("one search returned versions %d and %d of %s", old, v, f.Repository))
			}
			seen[f.Repository] = v
			perRepo[f.Repository]++
		}
		for rp, c := range perRepo {
			if c != 3 {
				fail("partial-shard", fmt.Sprintf("search returned %d of 3 files of %s (version %d)", c, rp, seen[rp]))
			}
		}
		return seen, true
	}

	stop := make(chan struct{})
	var wg sync.WaitGroup
	for i := 0; i < 4; i++ {
		wg.Add(1)
		go func(i int) {
			defer wg.Done()
			defer func() {
				if e := recover(); e != nil {
					if i == 3 {
						fail("list-panic", fmt.Sprint("List panicked during reloads: ", e))
					} else {
						fail("search-panic", fmt.Sprint("a search panicked during reloads: ", e))
					}
				}
			}()
			for {
				select {
				case <-stop:
					return
				default:
				}
				time.Sleep(500 * time.Microsecond) // leave CPU to the watcher and the mutator
				if i == 3 {
					if _, err := ds.List(context.Background(), &query.Const{Value: true}, nil); err != nil {
						fail("list-error", "List returned an error during reloads: "+err.Error())
					}
					lists.Add(1)
				} else if seen, ok := observe(); ok {
					searches.Add(1)
					if len(seen) > 0 {
						nonEmpty.Add(1)
					}
				}
			}
		}(i)
	}

	done := 0
	// at least nops operations AND at least minDur of mutation (an idle machine finishes 240 operations in a second),
	// at most the budget
	const minDur = 40 * time.Second
	for op := 0; (op < nops || time.Since(began) < minDur) && time.Since(began) < budget; op++ {
		done++
		rp := r.Pick(repos)
		base := rp + "_v16.00000.zoekt"
		switch c := r.Intn(100); {
		case c < 55:
			put(rp)
		case c < 70:
			os.Remove(filepath.Join(dir, base))
			os.Remove(filepath.Join(dir, base+".meta"))
			diskMu.Lock()
			delete(onDisk, rp)
			diskMu.Unlock()
		case c < 90:
			diskMu.Lock()
			_, ok := onDisk[rp]
			diskMu.Unlock()
			if ok {
				b, _ := json.Marshal(&zoekt.Repository{Name: rp, RawConfig: map[string]string{"m": strconv.Itoa(op)}})
				tmp := filepath.Join(dir, base+".meta.tmpw")
				os.WriteFile(tmp, b, 0o644)
				stamp(tmp)
				os.Rename(tmp, filepath.Join(dir, base+".meta"))
			}
		default:
			os.Remove(filepath.Join(dir, base+".meta"))
		}
		if r.Chance(40) {
			runtime.GC() // runs the finalizers of replaced shards (munmap) while searches are in flight
			gcs.Add(1)
		}
		time.Sleep(time.Duration(r.Intn(8)) * time.Millisecond)
	}
	mutated := time.Since(began)

	// quiescence: the loaded set must converge to the directory
	deadline := time.Now().Add(60 * time.Second)
	converged := false
	var last map[string]int
	for time.Now().Before(deadline) {
		runtime.GC()
		seen, ok := observe()
		if ok {
			last = seen
			diskMu.Lock()
			same := len(seen) == len(onDisk)
			for rp, v := range onDisk {
				if seen[rp] != v {
					same = false
				}
			}
			diskMu.Unlock()
			if same {
				converged = true
				break
			}
		}
		time.Sleep(50 * time.Millisecond)
	}
	close(stop)
	wg.Wait()
	if !converged {
		var want []string
		for rp, v := range onDisk {
			want = append(want, fmt.Sprintf("%s=v%d", rp, v))
		}
		sort.Strings(want)
		fail("no-convergence", fmt.Sprintf("60s after the last change the searcher serves %v, the directory holds %v", last, want))
	}
	vfInfo(map[string]any{"race_stress": map[string]any{"ops_planned": nops, "ops": done, "searches": searches.Load(), "non_empty": nonEmpty.Load(),
		"lists": lists.Load(), "forced_gcs": gcs.Load(), "converged": converged, "setup_s": int(setup.Seconds()), "mutation_s": int(mutated.Seconds()), "total_s": int(time.Since(t0).Seconds())}})
}
