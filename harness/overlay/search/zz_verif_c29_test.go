package search

// C29 at the Search API: generated corpora in 1-4 in-memory shards (distinct repository ranks),
// shardedSearcher.Search and StreamSearch, default and BM25 scoring, DebugScore on/off, repeated runs
// with the default GOMAXPROCS (shard results arrive in any order).  Go-side oracle only:
// bitwise-equal repetition, debug neutrality, finite scores, matches by non-increasing score, files by
// non-increasing score except one novel-extension promotion into third place.

import (
	"bytes"
	"context"
	"fmt"
	"math"
	"path"
	"sort"
	"strings"
	"testing"
	"time"

	"github.com/sourcegraph/zoekt"
	webserverv1 "github.com/sourcegraph/zoekt/grpc/protos/zoekt/webserver/v1"
	"github.com/sourcegraph/zoekt/index"
	"github.com/sourcegraph/zoekt/query"
)

type vf29sMem struct{ data []byte }

func (s *vf29sMem) Name() string                        { return "vf29s" }
func (s *vf29sMem) Close()                              {}
func (s *vf29sMem) Read(off, sz uint32) ([]byte, error) { return s.data[off : off+sz], nil }
func (s *vf29sMem) Size() (uint32, error)               { return uint32(len(s.data)), nil }

type vf29sDoc struct{ Name, Content string }
type vf29sShard struct {
	Repo string
	Rank int
	Docs []vf29sDoc
}

func vf29sGen(r *vfRand) []vf29sShard {
	words := []string{"needle", "needle", "Needle", "hay", "stack", "needleX", "xneedle", "foo", "other", "x.needle"}
	exts := []string{".go", ".go", ".py", ".java", ".md"}
	ranks := []int{0, 5, 90, 700, 65535}
	off := r.Intn(len(ranks))
	ns := 1 + r.Intn(4)
	id := 0
	var out []vf29sShard
	for s := 0; s < ns; s++ {
		sh := vf29sShard{Repo: fmt.Sprintf("repo%d", s), Rank: ranks[(s+off)%len(ranks)]}
		nd := 1 + r.Intn(5)
		for d := 0; d < nd; d++ {
			id++
			var b strings.Builder
			nl := 1 + r.Intn(6)
			for l := 0; l < nl; l++ {
				nw := r.Intn(5)
				for w := 0; w < nw; w++ {
					if w > 0 {
						b.WriteByte(' ')
					}
					b.WriteString(r.Pick(words))
				}
				b.WriteByte('\n')
			}
			name := fmt.Sprintf("dir/f%d%s", id, r.Pick(exts))
			if r.Chance(15) {
				name = fmt.Sprintf("dir%d/needle%s", id, r.Pick(exts))
			} else if r.Chance(25) {
				name = fmt.Sprintf("dir/f%d_test%s", id, r.Pick(exts)) // low-priority file: BM25 term frequencies are divided by 5 (possibly to 0)
			}
			sh.Docs = append(sh.Docs, vf29sDoc{name, b.String()})
		}
		out = append(out, sh)
	}
	return out
}

func vf29sSearcher(t *testing.T, shards []vf29sShard) *shardedSearcher {
	ss := newShardedSearcher(4)
	m := map[string]zoekt.Searcher{}
	for i, sh := range shards {
		b, err := index.NewShardBuilder(&zoekt.Repository{ID: uint32(i + 1), Name: sh.Repo, Rank: uint16(sh.Rank)})
		if err != nil {
			t.Fatal(err)
		}
		for _, d := range sh.Docs {
			if err := b.Add(index.Document{Name: d.Name, Content: []byte(d.Content)}); err != nil {
				t.Fatal(err)
			}
		}
		var buf bytes.Buffer
		if err := b.Write(&buf); err != nil {
			t.Fatal(err)
		}
		s, err := index.NewSearcher(&vf29sMem{buf.Bytes()})
		if err != nil {
			t.Fatal(err)
		}
		m[fmt.Sprintf("shard-%d", i)] = s
	}
	ss.replace(m)
	return ss
}

// signature of a result; files with equal scores are put in name order first (the order of ties is
// unspecified: the property is "up to ties"; BM25 file scores have no tie-breakers)
func vf29sSig(in []zoekt.FileMatch) string {
	fs := append([]zoekt.FileMatch{}, in...)
	for i := 0; i < len(fs); {
		j := i + 1 // compare bits: NaN != NaN would never advance (a NaN file score is reported by the finiteness oracle)
		for j < len(fs) && math.Float64bits(fs[j].Score) == math.Float64bits(fs[i].Score) {
			j++
		}
		sort.SliceStable(fs[i:j], func(a, b int) bool {
			x, y := fs[i+a], fs[i+b]
			return x.Repository+"/"+x.FileName < y.Repository+"/"+y.FileName
		})
		i = j
	}
	var b strings.Builder
	for _, f := range fs {
		fmt.Fprintf(&b, "%s/%s:%x[", f.Repository, f.FileName, math.Float64bits(f.Score))
		for _, m := range f.ChunkMatches {
			fmt.Fprintf(&b, "%d:%x,", m.ContentStart.ByteOffset, math.Float64bits(m.Score))
		}
		for _, m := range f.LineMatches {
			fmt.Fprintf(&b, "%d:%x,", m.LineNumber, math.Float64bits(m.Score))
		}
		b.WriteString("]")
	}
	return b.String()
}

func TestVerifC29Search(t *testing.T) {
	r := vfNewRand(vfSeed() + 9292)
	n := vfN(60)
	sub := func(p string) query.Q { return &query.Substring{Pattern: p} }
	queries := []struct {
		name string
		q    query.Q
	}{
		{"needle", sub("needle")},
		{"needle or stack or hay", query.NewOr(sub("needle"), sub("stack"), sub("hay"))},
		{"boost(2 needle) or stack", query.NewOr(&query.Boost{Child: sub("needle"), Boost: 2}, sub("stack"))},
		{"needle and hay", query.NewAnd(sub("needle"), sub("hay"))},
		{"file:needle", &query.Substring{Pattern: "needle", FileName: true}},
	}
	// the real API path of a Boost: a proto double (any float64 incl. NaN / +-Inf), converted by query.QFromProto
	wire := []float64{math.Inf(1), math.NaN(), math.Inf(-1), 1e300, math.MaxFloat64, 0, -2, 1e101, 20}
	pSub := func(p string) *webserverv1.Q {
		return &webserverv1.Q{Query: &webserverv1.Q_Substring{Substring: &webserverv1.Substring{Pattern: p}}}
	}
	pBoost := func(w float64, c *webserverv1.Q) *webserverv1.Q {
		return &webserverv1.Q{Query: &webserverv1.Q_Boost{Boost: &webserverv1.Boost{Boost: w, Child: c}}}
	}
	for _, w := range wire {
		pq := &webserverv1.Q{Query: &webserverv1.Q_Or{Or: &webserverv1.Or{Children: []*webserverv1.Q{pBoost(w, pSub("needle")), pSub("stack")}}}}
		if w == 1e300 { // nested: the product overflows
			pq = &webserverv1.Q{Query: &webserverv1.Q_Or{Or: &webserverv1.Or{Children: []*webserverv1.Q{pBoost(w, pBoost(w, pSub("needle"))), pSub("stack")}}}}
		}
		q, err := query.QFromProto(pq)
		if err != nil { // a rejected weight is fine too: nothing to rank
			continue
		}
		queries = append(queries, struct {
			name string
			q    query.Q
		}{"proto:" + q.String(), q})
	}
	ctx := context.Background()
	stats := map[string]int{}
	for i := 0; i < n; i++ {
		shards := vf29sGen(r)
		ss := vf29sSearcher(t, shards)
		for rep := 0; rep < 2; rep++ {
			q := queries[r.Intn(5)]
			if len(queries) > 5 && r.Chance(45) {
				q = queries[5+r.Intn(len(queries)-5)]
				stats["wire-boost"]++
			}
			opts := zoekt.SearchOptions{ChunkMatches: r.Bool(), UseBM25Scoring: r.Chance(35), NumContextLines: r.Intn(2)}
			stream := r.Chance(35)
			run := func(o zoekt.SearchOptions) []zoekt.FileMatch {
				if !stream {
					res, err := ss.Search(ctx, q.q, &o)
					if err != nil {
						t.Fatal(err)
					}
					return res.Files
				}
				o.FlushWallTime = time.Hour
				var fs []zoekt.FileMatch
				if err := ss.StreamSearch(ctx, q.q, &o, zoekt.SenderFunc(func(sr *zoekt.SearchResult) { fs = append(fs, sr.Files...) })); err != nil {
					t.Fatal(err)
				}
				return fs
			}
			api := "Search"
			if stream {
				api = "StreamSearch(FlushWallTime=1h)"
			}
			kind := "default"
			if opts.UseBM25Scoring {
				kind = "bm25"
			}
			stats[api+"/"+kind]++
			replay := map[string]any{"shards": shards, "query": q.name, "api": api, "chunk_matches": opts.ChunkMatches, "bm25": opts.UseBM25Scoring}
			if strings.HasPrefix(q.name, "proto:") {
				kind += ":wire-boost"
			}
			first := run(opts)
			sig := vf29sSig(first)
			for k := 0; k < 3; k++ {
				if s2 := vf29sSig(run(opts)); s2 != sig {
					vfOracleFail("search:determinism:repeated-search-differs:"+kind, api+": the same search returned different scores/order on repetition: "+sig+" vs "+s2, replay)
					break
				}
			}
			dbg := opts
			dbg.DebugScore = true
			if s2 := vf29sSig(run(dbg)); s2 != sig {
				vfOracleFail("search:debug-neutrality:scores-or-order-differ:"+kind, api+": DebugScore=true changed scores or order: "+sig+" vs "+s2, replay)
			}
			for _, f := range first {
				if math.IsNaN(f.Score) || math.IsInf(f.Score, 0) {
					vfOracleFail("search:finite:file-score:"+kind, fmt.Sprint(f.Score), replay)
				}
				prev := math.Inf(1)
				for _, m := range f.LineMatches {
					if math.IsNaN(m.Score) || math.IsInf(m.Score, 0) {
						vfOracleFail("search:finite:match-score:"+kind, fmt.Sprintf("line match score %v in %s", m.Score, f.FileName), replay)
					} else if !(prev >= m.Score) {
						vfOracleFail("search:order:matches-not-non-increasing:"+kind, "line matches of "+f.FileName, replay)
					}
					prev = m.Score
				}
				prev = math.Inf(1)
				for _, m := range f.ChunkMatches {
					if math.IsNaN(m.Score) || math.IsInf(m.Score, 0) {
						vfOracleFail("search:finite:match-score:"+kind, fmt.Sprintf("chunk match score %v in %s", m.Score, f.FileName), replay)
					} else if !(prev >= m.Score) {
						vfOracleFail("search:order:matches-not-non-increasing:"+kind, "chunk matches of "+f.FileName, replay)
					}
					prev = m.Score
				}
			}
			sorted := func(fs []zoekt.FileMatch) bool {
				for a := 1; a < len(fs); a++ {
					if !(fs[a-1].Score >= fs[a].Score) { // NaN-robust
						return false
					}
				}
				return true
			}
			if !sorted(first) {
				ok := len(first) > 3
				if ok {
					rest := append(append([]zoekt.FileMatch{}, first[:2]...), first[3:]...)
					e := path.Ext(first[2].FileName)
					ok = sorted(rest) && e != path.Ext(first[0].FileName) && e != path.Ext(first[1].FileName) && first[2].Score >= first[3].Score*0.9 // (false for NaN)
				}
				if !ok {
					vfOracleFail("search:order:files-not-sorted-beyond-documented-promotion:"+kind, api+": "+sig, replay)
				}
				stats["promoted"]++
			}
		}
	}
	info := map[string]any{"what": "C29 Search-API oracle"}
	for k, v := range stats {
		info[k] = v
	}
	vfInfo(info)
}
