package search

// C19, notification loop (newDirectoryWatcher / watch): scenario oracle for the theorems about
// coq/Model/WatchLoop.v, run against the REAL watcher (real fsnotify, real loader, real shardedSearcher) on a
// scratch directory. A gate around the loader lets the harness hold a scan() inside loader.load, i.e. after
// the scan has read the directory, to place directory changes exactly in the windows the theorems talk about:
//
//   burst                 many changes after the watch is installed; quiescence => loaded == directory
//                         (C19_no_lost_wakeup + C19_scan_converges)
//   change-during-scan    a change made while a scan is running (after its directory read) must be followed by
//                         another scan: the token of the capacity-1 channel `signal` (C19_no_lost_wakeup)
//   sidecar-only          a change of a .meta file alone must trigger a scan (event filter)
//   startup-window        a change made while the INITIAL scan is running produces no event (the watch is
//                         installed afterwards): predicted by C19_quiescent_implies_scanned_refuted; recorded as an
//                         observation, then any later event (quick tier) or the one-minute tick (thorough tier,
//                         C19_tick_repairs) must bring the change in.
//
// All deadlines are far below the one-minute ticker, measured from the creation of the watcher, so the ticker
// cannot mask a lost wakeup.

import (
	"fmt"
	"os"
	"path/filepath"
	"sync"
	"testing"
	"time"
)

type vfC19Gate struct {
	inner   shardLoader
	mu      sync.Mutex
	holdN   int           // hold the holdN-th next load() call (1 = the next one); 0 = none
	entered chan struct{} // signalled when the held call is inside load (the scan has read the directory)
	release chan struct{}
	scans   int // completed scan() calls (every scan ends with exactly one loader.load call)
}

func (g *vfC19Gate) drop(keys ...string) { g.inner.drop(keys...) }
func (g *vfC19Gate) load(keys ...string) {
	g.mu.Lock()
	hold := false
	if g.holdN > 0 {
		g.holdN--
		hold = g.holdN == 0
	}
	entered, release := g.entered, g.release
	g.mu.Unlock()
	if hold {
		entered <- struct{}{}
		<-release
	}
	g.inner.load(keys...)
	g.mu.Lock()
	g.scans++
	g.mu.Unlock()
}
func (g *vfC19Gate) holdNext() {
	g.mu.Lock()
	g.holdN = 1
	g.mu.Unlock()
}
func (g *vfC19Gate) scanCount() int {
	g.mu.Lock()
	defer g.mu.Unlock()
	return g.scans
}

type vfC19WatchEnv struct {
	t     *testing.T
	r     *vfRand
	dir   string
	clock time.Time
	disk  map[string]uint64 // base -> identity expected once loaded (only v16 builder-style names are used)
	blob  map[string]int
	nb    int
	log   []string
}

func (e *vfC19WatchEnv) stamp(p string) {
	e.clock = e.clock.Add(time.Second) // strictly increasing mtimes: the equal-mtime blind spot is not the subject here
	if err := os.Chtimes(p, e.clock, e.clock); err != nil {
		e.t.Fatal(err)
	}
}
func (e *vfC19WatchEnv) put(base string) {
	e.nb++
	k := e.nb%90 + 1
	tmp := filepath.Join(e.dir, base+".tmpw")
	if err := os.WriteFile(tmp, vfC19Blob(e.t, k), 0o644); err != nil {
		e.t.Fatal(err)
	}
	e.stamp(tmp)
	os.Remove(filepath.Join(e.dir, base+".meta"))
	if err := os.Rename(tmp, filepath.Join(e.dir, base)); err != nil {
		e.t.Fatal(err)
	}
	e.blob[base] = k
	e.disk[base] = uint64(k * 100)
	e.log = append(e.log, "put "+base)
}
func (e *vfC19WatchEnv) del(base string) {
	os.Remove(filepath.Join(e.dir, base))
	os.Remove(filepath.Join(e.dir, base+".meta"))
	delete(e.disk, base)
	delete(e.blob, base)
	e.log = append(e.log, "delete "+base)
}
func (e *vfC19WatchEnv) sidecar(base string) {
	k, ok := e.blob[base]
	if !ok {
		return
	}
	j := 1 + e.r.Intn(90)
	tmp := filepath.Join(e.dir, base+".meta.tmpw")
	if err := os.WriteFile(tmp, vfC19Meta(e.t, k, j), 0o644); err != nil {
		e.t.Fatal(err)
	}
	e.stamp(tmp)
	if err := os.Rename(tmp, filepath.Join(e.dir, base+".meta")); err != nil {
		e.t.Fatal(err)
	}
	e.disk[base] = uint64(k*100 + j)
	e.log = append(e.log, fmt.Sprintf("sidecar %s m=%d", base, j))
}

func vfC19Loaded(ss *shardedSearcher, dir string) map[string]uint64 {
	ss.mu.Lock()
	defer ss.mu.Unlock()
	m := map[string]uint64{}
	for k, v := range ss.shards {
		m[filepath.Base(k)] = vfC19Identity(v)
	}
	return m
}

func vfC19SameMap(a, b map[string]uint64) bool {
	if len(a) != len(b) {
		return false
	}
	for k, v := range a {
		if w, ok := b[k]; !ok || v != w {
			return false
		}
	}
	return true
}

// waits until the loaded set equals the directory; false when the deadline passes first
func (e *vfC19WatchEnv) converge(ss *shardedSearcher, d time.Duration) bool {
	deadline := time.Now().Add(d)
	for {
		if vfC19SameMap(vfC19Loaded(ss, e.dir), e.disk) {
			return true
		}
		if time.Now().After(deadline) {
			return false
		}
		time.Sleep(5 * time.Millisecond)
	}
}

func vfC19Watch(t *testing.T, r *vfRand, trial int) {
	dir := filepath.Join(os.Getenv("VERIF_TMP"), fmt.Sprintf("c19w%d", trial))
	if os.Getenv("VERIF_TMP") == "" {
		dir = filepath.Join(t.TempDir(), "w")
	}
	if err := os.MkdirAll(dir, 0o755); err != nil {
		t.Fatal(err)
	}
	defer os.RemoveAll(dir)
	env := &vfC19WatchEnv{t: t, r: r, dir: dir, clock: time.Now().Add(-2 * time.Hour), disk: map[string]uint64{}, blob: map[string]int{}, nb: trial * 7}
	names := []string{"w0_v16.00000.zoekt", "w1_v16.00000.zoekt", "w2_v16.00000.zoekt", "w3_v16.00000.zoekt", "w4_v16.00000.zoekt"}
	fail := func(key, what string) {
		vfOracleFail("watch:"+key, what, map[string]any{"trial": trial, "ops": env.log})
	}
	const patience = 40 * time.Second // < the one-minute ticker (a watcher lives < 15 s before its last wait starts)

	// ---------- watcher 1: startup window
	env.put(names[0])
	env.put(names[1])
	ss := newShardedSearcher(2)
	gate := &vfC19Gate{inner: &loader{ss: ss}, entered: make(chan struct{}, 1), release: make(chan struct{}, 1)}
	gate.holdNext() // the initial scan is held inside loader.load: it has read the directory
	dw, err := newDirectoryWatcher(dir, gate)
	if err != nil {
		t.Fatal(err)
	}
	born := time.Now()
	select {
	case <-gate.entered:
	case <-time.After(patience):
		t.Fatal("initial scan did not reach loader.load")
	}
	env.log = append(env.log, "-- initial scan running (directory already read)")
	env.put(names[2]) // raced with the startup: no watch is installed yet
	gate.release <- struct{}{}
	if err := dw.WaitUntilReady(); err != nil {
		t.Fatal(err)
	}
	env.log = append(env.log, "-- initial scan done, watch installed")
	time.Sleep(300 * time.Millisecond)
	window := !vfC19SameMap(vfC19Loaded(ss, dir), env.disk)
	class := []string{"watch"}
	if window {
		class = append(class, "startup-window-observed")
	}
	if vfTier() == "thorough" && trial == 0 {
		// C19_tick_repairs: nothing else happens; the one-minute ticker alone must bring the change in
		if !env.converge(ss, 75*time.Second-time.Since(born)) {
			fail("tick-no-repair", fmt.Sprintf("a shard created while the initial scan was running is still not loaded %v after the watcher started, although the one-minute ticker should have triggered a scan: loaded %v, directory %v", time.Since(born).Round(time.Second), vfC19Loaded(ss, dir), env.disk))
		}
		class = append(class, "tick-waited")
	} else {
		// any later relevant event leads to a scan that starts after BOTH changes
		env.sidecar(names[0])
		if !env.converge(ss, patience) {
			fail("no-convergence-after-startup-race", fmt.Sprintf("after a change raced with the startup and a later sidecar update, the loaded set does not converge: loaded %v, directory %v", vfC19Loaded(ss, dir), env.disk))
		}
	}
	dw.Stop()
	ss.Close()

	// ---------- watcher 2: burst, change during a scan, sidecar only
	ss = newShardedSearcher(2)
	gate = &vfC19Gate{inner: &loader{ss: ss}, entered: make(chan struct{}, 1), release: make(chan struct{}, 1)}
	dw, err = newDirectoryWatcher(dir, gate)
	if err != nil {
		t.Fatal(err)
	}
	if err := dw.WaitUntilReady(); err != nil {
		t.Fatal(err)
	}
	defer ss.Close()
	defer dw.Stop()
	env.log = append(env.log, "-- second watcher ready")
	if !env.converge(ss, patience) {
		fail("initial-load", fmt.Sprintf("a fresh watcher does not load the directory: loaded %v, directory %v", vfC19Loaded(ss, dir), env.disk))
		return
	}
	nburst := 3 + r.Intn(6)
	for i := 0; i < nburst; i++ {
		b := r.Pick(names)
		switch c := r.Intn(100); {
		case c < 50:
			env.put(b)
		case c < 70:
			env.del(b)
		default:
			env.sidecar(b)
		}
		if r.Chance(30) {
			time.Sleep(time.Duration(r.Intn(3)) * time.Millisecond)
		}
	}
	if !env.converge(ss, patience) {
		fail("no-convergence-after-burst", fmt.Sprintf("after a burst of changes the loaded set does not converge to the directory: loaded %v, directory %v", vfC19Loaded(ss, dir), env.disk))
		return
	}

	// change during a scan: hold the next scan inside loader.load, change something else meanwhile
	gate.holdNext()
	env.put(names[3])
	select {
	case <-gate.entered:
	case <-time.After(patience):
		fail("no-scan-after-change", "no scan started after a shard was created")
		return
	}
	env.log = append(env.log, "-- scan running (directory already read)")
	other := names[4]
	if r.Bool() {
		other = names[0]
	}
	env.put(other)
	time.Sleep(20 * time.Millisecond) // let goroutine 1 receive the event while goroutine 2 is busy in scan()
	gate.release <- struct{}{}
	env.log = append(env.log, "-- scan released")
	if !env.converge(ss, patience) {
		fail("change-during-scan-lost", fmt.Sprintf("a shard written while a scan was running (after the scan had read the directory) is never loaded: the wakeup was lost; loaded %v, directory %v", vfC19Loaded(ss, dir), env.disk))
		return
	}

	// a sidecar update alone
	var have string
	for _, n := range names {
		if _, ok := env.blob[n]; ok {
			have = n
			break
		}
	}
	if have != "" {
		env.sidecar(have)
		if !env.converge(ss, patience) {
			fail("sidecar-change-unnoticed", fmt.Sprintf("a .meta sidecar written next to %s is not picked up: loaded %v, directory %v", have, vfC19Loaded(ss, dir), env.disk))
			return
		}
	}
	vfInfo(map[string]any{"c19_watch": map[string]any{"trial": trial, "startup_window_observed": window, "scans_second_watcher": gate.scanCount(), "class": class}})
}
