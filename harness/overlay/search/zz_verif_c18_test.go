package search

// C18: the real shardedSearcher (wrapped by typeRepoSearcher, as NewDirectorySearcher does) over generated sets of
// simple (possibly split) and compound shards, against (a) each shard searched on its own with the original
// query (oracle), (b) a brute-force reference evaluation (oracle), (c) the Gallina model (correspondence).

import (
	"context"
	"fmt"
	"os"
	"sort"
	"strings"
	"testing"

	"github.com/RoaringBitmap/roaring/v2"
	"github.com/sourcegraph/zoekt"
	"github.com/sourcegraph/zoekt/query"
)

// vfsC18SameSizeAtoms: k repository-set atoms of ONE kind and ONE cardinality whose members differ (padded with ids / names of
// no repository), so that they print alike: query.RepoIDs prints only `count:N` for more than one id, query.RepoSet only `size=N`
// for more than five names, query.BranchesRepos only the cardinality per branch.  Some atoms repeat an earlier one exactly.
func vfsC18SameSizeAtoms(r *vfRand, repos []*vfsRepo, k int, branchNames []string) []vfsQ {
	kind := r.Intn(3)
	card := 2 + r.Intn(3)
	if kind == 1 && r.Chance(60) {
		card = 6 + r.Intn(3) // above the limit up to which RepoSet.String lists the names
	}
	br := r.Pick(branchNames)
	var out []vfsQ
	var members [][]*vfsRepo
	for j := 0; j < k; j++ {
		var mem []*vfsRepo
		if j > 0 && r.Chance(25) {
			mem = members[r.Intn(j)] // the same members as an earlier atom
		} else {
			for try := 0; try < 8; try++ {
				mem = nil
				for _, rp := range repos {
					if len(mem) < card && r.Chance(45) {
						mem = append(mem, rp)
					}
				}
				fresh := true
				for _, m := range members {
					if fmt.Sprint(m) == fmt.Sprint(mem) {
						fresh = false
					}
				}
				if fresh {
					break
				}
			}
		}
		members = append(members, mem)
		in := map[*vfsRepo]bool{}
		for _, rp := range mem {
			in[rp] = true
		}
		isMem := func(rp *vfsRepo) bool { return in[rp] }
		switch kind {
		case 0, 2:
			bm := roaring.New()
			var l []uint32
			for _, rp := range mem {
				bm.Add(rp.id)
				l = append(l, rp.id)
			}
			for x := 0; len(l) < card; x++ {
				id := uint32(9000000 + j*100 + x)
				bm.Add(id)
				l = append(l, id)
			}
			var l64 []uint64
			for _, x := range l {
				l64 = append(l64, uint64(x))
			}
			if kind == 0 {
				out = append(out, vfsQ{&query.RepoIDs{Repos: bm}, func(rp *vfsRepo, _ *vfsDoc) bool { return isMem(rp) }, fmt.Sprint("repoids:", l), "repoids", "(CIds " + cNList(l64) + ")"})
			} else {
				out = append(out, vfsQ{&query.BranchesRepos{List: []query.BranchRepos{{Branch: br, Repos: bm}}},
					func(rp *vfsRepo, dc *vfsDoc) bool { return isMem(rp) && vfsHasBranch(dc, br) }, fmt.Sprintf("branchesrepos:%q:%v", br, l), "branchesrepos1:" + br,
					"(CBranchesRepos " + cList([]string{cTuple(cN(vfsBranchID[br]), cNList(l64))}) + ")"})
			}
		default:
			set := map[string]bool{}
			for _, rp := range mem {
				set[rp.name] = true
			}
			for x := 0; len(set) < card; x++ {
				set[fmt.Sprintf("no-such-repo-%d-%d", j, x)] = true
			}
			out = append(out, vfsQ{&query.RepoSet{Set: set}, func(rp *vfsRepo, _ *vfsDoc) bool { return isMem(rp) }, fmt.Sprint("reposet:", vfSortedKeys(set)), "reposet",
				vfsNamesTerm(repos, isMem)})
		}
	}
	return out
}

// vfsC18FlakyList: a shard whose FIRST List call fails — the one mkRankedShard makes when the shard is loaded, so that
// rankedShard.repos stays nil ("we don't know what is in it and must search it without simplifying the query").
type vfsC18FlakyList struct {
	zoekt.Searcher
	failed bool
}

func (f *vfsC18FlakyList) List(ctx context.Context, q query.Q, opts *zoekt.ListOptions) (*zoekt.RepoList, error) {
	if !f.failed {
		f.failed = true
		return nil, fmt.Errorf("vfsC18FlakyList: first List fails")
	}
	return f.Searcher.List(ctx, q, opts)
}

func vfsC18ShardTerm(sh *vfsShard, known bool) string {
	var ps []string
	for _, p := range sh.parts {
		var bs []uint64
		for _, b := range p.repo.branches {
			bs = append(bs, vfsBranchID[b])
		}
		rt := cTuple(cN(p.repo.nameID()), cN(uint64(p.repo.id)), cNList(bs), cN(vfsMetaID[p.repo.meta["k"]]))
		var ds []string
		for _, dc := range p.docs {
			var dbs []uint64
			for _, b := range dc.branches {
				dbs = append(dbs, vfsBranchID[b])
			}
			ds = append(ds, cTuple(cN(dc.fid), cNList(dbs)))
		}
		ps = append(ps, cTuple(rt, cList(ds)))
	}
	return cTuple(cBool(known), cList(ps))
}

// vfsC18DisjointBranchesRepos: a BranchesRepos filter with 2-3 entries whose repository sets are DISJOINT (every repository in at
// most one entry): a shard may hold only repositories of a LATER entry, which must still select it.
func vfsC18DisjointBranchesRepos(r *vfRand, repos []*vfsRepo) vfsQ {
	n := 2 + r.Intn(2)
	names := []string{"main", "dev", "HEAD", "main-old", "main", "dev"}
	var list []query.BranchRepos
	var ls [][]uint32
	for k := 0; k < n; k++ {
		list = append(list, query.BranchRepos{Branch: names[r.Intn(len(names))], Repos: roaring.New()})
		ls = append(ls, nil)
	}
	for _, rp := range repos {
		if r.Chance(85) {
			k := r.Intn(n)
			list[k].Repos.Add(rp.id)
			ls[k] = append(ls[k], rp.id)
		}
	}
	var descs, terms []string
	for k := range list {
		var l64 []uint64
		for _, x := range ls[k] {
			l64 = append(l64, uint64(x))
		}
		descs = append(descs, fmt.Sprintf("%q:%v", list[k].Branch, ls[k]))
		terms = append(terms, cTuple(cN(vfsBranchID[list[k].Branch]), cNList(l64)))
	}
	return vfsQ{&query.BranchesRepos{List: list}, func(rp *vfsRepo, dc *vfsDoc) bool {
		for _, br := range list {
			if br.Repos.Contains(rp.id) && vfsHasBranch(dc, br.Branch) {
				return true
			}
		}
		return false
	}, "branchesrepos:" + strings.Join(descs, ","), "branchesrepos2", "(CBranchesRepos " + cList(terms) + ")"}
}

func vfsSortedU64(m map[uint64]bool) []uint64 {
	var l []uint64
	for k := range m {
		l = append(l, k)
	}
	sort.Slice(l, func(i, j int) bool { return l[i] < l[j] })
	return l
}

func vfsEqU64(a, b []uint64) bool {
	if len(a) != len(b) {
		return false
	}
	for i := range a {
		if a[i] != b[i] {
			return false
		}
	}
	return true
}

func TestVerifC18(t *testing.T) {
	r := vfNewRand(vfSeed() + 18)
	n := vfN(200)
	ctx := context.Background()
	perWorld := 12
	var w *vfsWorld
	var srch zoekt.Streamer
	dir, searcherKind := "", ""
	unknown := map[string]bool{} // shards of the current world loaded with an unknown repository list
	nw := 0
	// branch names asked for: incl. names that contain one another (main / main-old / ma) and the empty name
	branchNames := []string{"HEAD", "HEAD", "main", "main", "dev", "", "main-old", "ma"}
	for i := 0; i < n; i++ {
		if i%perWorld == 0 {
			nw++
			if srch != nil {
				srch.Close()
			}
			w = vfsGenWorld(t, r, vfsGenOpts{branchy: true, split: true}, fmt.Sprint("c18w", nw))
			unknown = map[string]bool{}
			if dir != "" {
				os.RemoveAll(dir)
				dir = ""
			}
			if nw%3 == 0 {
				// every third world goes through the real NewDirectorySearcher (shard files + watcher + loader)
				srch, dir = w.newDirectorySearcher(t, fmt.Sprint("c18w", nw))
				searcherKind = "directory"
			} else {
				// as vfsWorld.newSearcher, but some shards fail their first List: unknown repository list (repos == nil)
				ss := newShardedSearcher(4)
				m := map[string]zoekt.Searcher{}
				for _, sh := range w.shards {
					if r.Chance(10) {
						m[sh.key] = &vfsC18FlakyList{Searcher: sh.s}
						unknown[sh.key] = true
					} else {
						m[sh.key] = sh.s
					}
				}
				ss.replace(m)
				ss.markReady()
				srch = &typeRepoSearcher{Streamer: ss}
				searcherKind = "in-memory"
			}
		}
		// ---- query: top-level conjunction of set filters, type:repo and content atoms
		hasTypeRepo := false
		mkTypeRepoOf := func(child vfsQ) vfsQ {
			hasTypeRepo = true
			names := map[string]bool{}
			for _, rp := range w.repos {
				for _, dc := range rp.docs {
					if child.eval(rp, dc) {
						names[rp.name] = true
					}
				}
			}
			return vfsQ{&query.Type{Type: query.TypeRepo, Child: child.q}, func(rp *vfsRepo, _ *vfsDoc) bool { return names[rp.name] },
				"(type:repo " + child.desc + ")", "typerepo", "(CTypeRepo " + child.coq + ")"}
		}
		mkTypeRepo := func() vfsQ {
			child := vfsContentAtom(r, w.repos)
			if r.Chance(50) {
				child = vfsAnd(vfsSetAtom(r, w.repos, branchNames), child)
			}
			return mkTypeRepoOf(child)
		}
		var children []vfsQ
		nset := r.Intn(3)
		multiTR := r.Chance(15)
		if multiTR {
			nset = r.Intn(2)
		}
		for k := 0; k < nset; k++ {
			if r.Chance(12) {
				children = append(children, vfsC18DisjointBranchesRepos(r, w.repos))
				continue
			}
			children = append(children, vfsSetAtom(r, w.repos, branchNames))
		}
		if multiTR {
			// 2-3 type:repo atoms in ONE query, each to be evaluated on ITS OWN child: the children are repository-set atoms of equal
			// kind and cardinality but different members (they print alike), alone or in a conjunction with the same content atom; some
			// children are identical (sharing an evaluation is fine there).  Forms: separate top-level children, alternatives of an
			// or, one of them under not.
			k := 2 + r.Intn(2)
			atoms := vfsC18SameSizeAtoms(r, w.repos, k, branchNames)
			common := vfsContentAtom(r, w.repos)
			withContent := r.Chance(50)
			var trs []vfsQ
			for _, a := range atoms {
				child := a
				if withContent {
					child = vfsAnd(a, common)
				}
				trs = append(trs, mkTypeRepoOf(child))
			}
			switch r.Intn(3) {
			case 0:
				children = append(children, trs...)
			case 1:
				alt := vfsAnd(trs[0], vfsContentAtom(r, w.repos))
				for _, x := range trs[1:] {
					alt = vfsOr(alt, vfsAnd(x, vfsContentAtom(r, w.repos)))
				}
				children = append(children, alt)
			default:
				children = append(children, trs[0], vfsNot(trs[1]))
				if len(trs) > 2 {
					children = append(children, vfsOr(trs[2], vfsContentAtom(r, w.repos)))
				}
			}
		} else if r.Chance(20) {
			children = append(children, mkTypeRepo())
		}
		ncont := r.Intn(3)
		if len(children) == 0 && ncont == 0 {
			ncont = 1
		}
		for k := 0; k < ncont; k++ {
			c := vfsContentAtom(r, w.repos)
			switch r.Intn(8) {
			case 0:
				c = vfsNot(c)
			case 1:
				c = vfsOr(c, vfsSetAtom(r, w.repos, branchNames))
			case 2:
				c = vfsOr(c, vfsContentAtom(r, w.repos))
			case 3, 4:
				// a branch filter under and under or: it contributes to FileMatch.Branches only where the and-node matches
				ba := vfsSetAtom(r, w.repos, branchNames)
				for try := 0; try < 6 && !strings.HasPrefix(ba.kind, "branchesrepos"); try++ {
					ba = vfsSetAtom(r, w.repos, branchNames)
				}
				c = vfsOr(vfsAnd(ba, vfsContentAtom(r, w.repos)), c)
			}
			children = append(children, c)
		}
		// shuffle children so that set filters are not always first
		for k := len(children) - 1; k > 0; k-- {
			j := r.Intn(k + 1)
			children[k], children[j] = children[j], children[k]
		}
		var q query.Q
		var qs []query.Q
		var descs, kinds, terms []string
		for _, c := range children {
			qs = append(qs, c.q)
			descs = append(descs, c.desc)
			kinds = append(kinds, c.kind)
			terms = append(terms, c.coq)
		}
		if len(children) == 1 && r.Chance(70) {
			q = children[0].q // not wrapped in And: selectRepoSet wraps it itself
		} else {
			q = &query.And{Children: qs}
		}
		firstSet := "none"
		for _, c := range children {
			switch {
			case c.kind == "reposet" || c.kind == "repoids" || c.kind == "repo" || c.kind == "meta" || strings.HasPrefix(c.kind, "branchesrepos"):
				firstSet = c.kind
			}
			if firstSet != "none" {
				break
			}
		}
		evalAll := func(rp *vfsRepo, dc *vfsDoc) bool {
			for _, c := range children {
				if !c.eval(rp, dc) {
					return false
				}
			}
			return true
		}
		var sdesc []any
		for _, sh := range w.shards {
			var ps []any
			for _, p := range sh.parts {
				var ds []any
				for _, dc := range p.docs {
					ds = append(ds, map[string]any{"file": dc.name, "branches": dc.branches})
				}
				ps = append(ps, map[string]any{"name": p.repo.name, "id": p.repo.id, "branches": p.repo.branches, "meta.k": p.repo.meta["k"], "docs": ds})
			}
			sdesc = append(sdesc, map[string]any{"shard": sh.key, "repos": ps, "repository_list_unknown": unknown[sh.key]})
		}
		replay := map[string]any{"seed": vfSeed(), "case": i, "searcher": searcherKind, "query": descs, "query_go": q.String(), "shards": sdesc}

		opts := &zoekt.SearchOptions{}
		res, err := srch.Search(ctx, q, opts)
		if err != nil {
			t.Fatalf("Search(%s): %v", q, err)
		}
		got := map[uint64]bool{}
		gotBr := map[uint64]string{}
		gotBrIDs := map[uint64][]uint64{}
		dup := false
		for _, f := range res.Files {
			id := w.id(f.FileName)
			gotBr[id] = fmt.Sprint(f.Branches)
			var bl []uint64
			for _, b := range f.Branches {
				bid, ok := vfsBranchID[b]
				if !ok {
					bid = 999
				}
				bl = append(bl, bid)
			}
			gotBrIDs[id] = bl
			if got[id] {
				dup = true
			}
			got[id] = true
		}
		gotL := vfsSortedU64(got)

		// ---- oracle (a): every shard on its own with the original query (no type:repo: a single shard cannot evaluate it)
		if !hasTypeRepo {
			want := map[uint64]bool{}
			wantBr := map[uint64]string{}
			for _, sh := range w.shards {
				sr, err := sh.s.Search(ctx, q, opts)
				if err != nil {
					t.Fatalf("shard Search(%s): %v", q, err)
				}
				for _, f := range sr.Files {
					want[w.id(f.FileName)] = true
					wantBr[w.id(f.FileName)] = fmt.Sprint(f.Branches)
				}
			}
			for id, b := range gotBr {
				if wb, ok := wantBr[id]; ok && wb != b {
					rp2 := map[string]any{"file": id, "sharded_branches": b, "per_shard_branches": wb}
					for k, v := range replay {
						rp2[k] = v
					}
					vfOracleFail("filematch-branches-differ:first-set-filter="+firstSet, "FileMatch.Branches of the sharded searcher differs from the per-shard answer to the original query", rp2)
					break
				}
			}
			if wl := vfsSortedU64(want); !vfsEqU64(gotL, wl) {
				rp2 := map[string]any{"sharded": gotL, "per_shard_union": wl}
				for k, v := range replay {
					rp2[k] = v
				}
				vfOracleFail("search-differs-from-per-shard-union:first-set-filter="+firstSet, "the sharded searcher's files differ from the union of the per-shard answers to the original query", rp2)
			}
		}
		// ---- oracle (b): brute-force reference
		ref := map[uint64]bool{}
		for _, rp := range w.repos {
			for _, dc := range rp.docs {
				if evalAll(rp, dc) {
					ref[dc.fid] = true
				}
			}
		}
		if rl := vfsSortedU64(ref); !vfsEqU64(gotL, rl) {
			rp2 := map[string]any{"sharded": gotL, "reference": rl}
			for k, v := range replay {
				rp2[k] = v
			}
			vfOracleFail("search-differs-from-reference:first-set-filter="+firstSet, "the sharded searcher's files differ from the brute-force evaluation of the query", rp2)
		}
		if dup {
			vfOracleFail("search-duplicate-file", "a file is returned twice", replay)
		}

		// ---- List
		rl, err := srch.List(ctx, q, &zoekt.ListOptions{Field: zoekt.RepoListFieldRepos})
		if err != nil {
			t.Fatalf("List(%s): %v", q, err)
		}
		type lrow struct{ name, id, docs, shards uint64 }
		var lrows []lrow
		seen := map[string]bool{}
		for _, e := range rl.Repos {
			if seen[e.Repository.Name] {
				vfOracleFail("list-duplicate-repo", "List returns a repository twice", replay)
			}
			seen[e.Repository.Name] = true
			lrows = append(lrows, lrow{w.id(e.Repository.Name), uint64(e.Repository.ID), uint64(e.Stats.Documents), uint64(e.Stats.Shards)})
		}
		sort.Slice(lrows, func(a, b int) bool { return lrows[a].name < lrows[b].name })
		// oracle: each repository once, statistics summed over the shards that list it
		if !hasTypeRepo {
			type st struct{ docs, shards int }
			want := map[string]*st{}
			for _, sh := range w.shards {
				srl, err := sh.s.List(ctx, q, nil)
				if err != nil {
					t.Fatalf("shard List(%s): %v", q, err)
				}
				for _, e := range srl.Repos {
					if want[e.Repository.Name] == nil {
						want[e.Repository.Name] = &st{}
					}
					want[e.Repository.Name].docs += e.Stats.Documents
					want[e.Repository.Name].shards += e.Stats.Shards
				}
			}
			ok := len(want) == len(rl.Repos)
			for _, e := range rl.Repos {
				x := want[e.Repository.Name]
				if x == nil || x.docs != e.Stats.Documents || x.shards != e.Stats.Shards {
					ok = false
				}
			}
			if !ok {
				vfOracleFail("list-differs-from-per-shard-sum:first-set-filter="+firstSet, "List differs from the per-shard listings merged by name with summed statistics", replay)
			}
		}
		// reference for List: the repositories with a matching document
		refRepos := map[string]bool{}
		for _, rp := range w.repos {
			for _, dc := range rp.docs {
				if evalAll(rp, dc) {
					refRepos[rp.name] = true
				}
			}
		}
		okl := len(refRepos) == len(seen)
		for k := range refRepos {
			if !seen[k] {
				okl = false
			}
		}
		if !okl {
			vfOracleFail("list-differs-from-reference:first-set-filter="+firstSet, fmt.Sprintf("List returns %v, reference %v", vfSortedKeys(seen), vfSortedKeys(refRepos)), replay)
		}
		// ReposMap variant: same ids
		rm, err := srch.List(ctx, q, &zoekt.ListOptions{Field: zoekt.RepoListFieldReposMap})
		if err != nil {
			t.Fatalf("List(%s): %v", q, err)
		}
		if len(rm.ReposMap) != len(rl.Repos) {
			vfOracleFail("list-reposmap-differs", "ReposMap listing has a different number of repositories than the Repos listing", replay)
		}

		// ---- correspondence record
		var shs []string
		for _, sh := range w.shards {
			shs = append(shs, vfsC18ShardTerm(sh, !unknown[sh.key]))
		}
		var lr []string
		for _, x := range lrows {
			lr = append(lr, cTuple(cN(x.name), cN(x.id), cN(x.docs), cN(x.shards)))
		}
		olist := "[]"
		if len(lr) > 0 {
			olist = cList(lr)
		}
		obr := "[]"
		if len(gotL) > 0 {
			var xs []string
			for _, id := range gotL {
				xs = append(xs, cTuple(cN(id), cNList(gotBrIDs[id])))
			}
			obr = cList(xs)
		}
		coq := cTuple(cList(shs), cList(terms), cNList(gotL), olist, obr)
		class := []string{"searcher=" + searcherKind, fmt.Sprint("shards=", len(w.shards)), fmt.Sprint("children=", len(children)), fmt.Sprint("files>0=", len(gotL) > 0)}
		for _, k := range kinds {
			class = append(class, "kind="+k)
		}
		if multiTR {
			class = append(class, "multi-typerepo")
		}
		if len(unknown) > 0 {
			class = append(class, "unknown-repo-list-shard")
		}
		nontriv := (nset > 0 || hasTypeRepo) && len(w.shards) > 1
		vfCase(coq, vfKey(nw, descs), nontriv, class, map[string]any{"query": descs, "shards": len(w.shards), "files": len(gotL), "listed": len(rl.Repos)})
	}
	if srch != nil {
		srch.Close()
	}
	if dir != "" {
		os.RemoveAll(dir)
	}
}
