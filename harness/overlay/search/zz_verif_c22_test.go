package search

// C22 in package search:
//   TestVerifC22Collect: correspondence (mode 2) + oracle for collectSender Send*/Done on generated batches
//   TestVerifC22E2E:     oracle on real searches: tiny generated corpora in 1-3 in-memory shards,
//                        Search / StreamSearch with display limits against the unlimited ranked result.

import (
	"bytes"
	"context"
	"crypto/sha1"
	"fmt"
	"runtime"
	"strings"
	"testing"
	"time"

	"github.com/sourcegraph/zoekt"
	"github.com/sourcegraph/zoekt/index"
	"github.com/sourcegraph/zoekt/query"
)

// runs collectSender over the batches; promoted = ranking some intermediate aggregate involved a novel
// extension promotion
func vf22Collect(opts *zoekt.SearchOptions, batches [][]zoekt.FileMatch) (files []zoekt.FileMatch, promoted bool, panicked bool) {
	defer func() {
		if e := recover(); e != nil {
			panicked = true
		}
	}()
	c := newCollectSender(opts)
	for _, b := range batches {
		if c.hasDisplayLimit() && len(b) > 0 {
			var tmp []zoekt.FileMatch
			if c.aggregate != nil {
				tmp = append(tmp, c.aggregate.Files...)
			}
			tmp = append(tmp, b...)
			tmp = vf22CopyFiles(tmp)
			index.SortFiles(tmp)
			if !vf22SortedByScore(tmp) {
				promoted = true
			}
		}
		c.Send(&zoekt.SearchResult{Files: b})
	}
	res, ok := c.Done()
	if ok {
		files = res.Files
	}
	return files, promoted, false
}

func vf22CollectKey(f vf22Fail, opts *zoekt.SearchOptions, promoted bool, nbatches int) string {
	if strings.HasPrefix(f.key, "prefix:") && promoted && nbatches > 1 && opts.MaxMatchDisplayCount > 0 {
		return "collect:incremental-truncation-vs-novel-extension-promotion:match-limit"
	}
	if strings.HasPrefix(f.key, "prefix:") && promoted && nbatches > 1 && opts.MaxDocDisplayCount > 2 {
		// document limit only (C22_incremental_equals_batch_doclimit_refuted); with MaxDocDisplayCount <= 2 the
		// incremental result is proved equal to the batch result, so a failure there keeps its own key
		return "collect:incremental-truncation-vs-novel-extension-promotion:doc-limit"
	}
	return f.key
}

func TestVerifC22Collect(t *testing.T) {
	r := vfNewRand(vfSeed() + 7777)
	n := vfN(250)
	for i := 0; i < n; i++ {
		g := &vf22Gen{r: r, scores: map[int]bool{}, diverse: r.Chance(35)}
		chunkMode := r.Chance(50)
		ctx := r.Intn(3)
		malformed := r.Chance(8)
		nb := 1 + r.Intn(4)
		var batches [][]zoekt.FileMatch
		well := true
		total := 0
		for b := 0; b < nb; b++ {
			nf := r.Intn(6)
			var fs []zoekt.FileMatch
			for k := 0; k < nf; k++ {
				f, w := g.file(chunkMode, ctx, malformed)
				well = well && w
				total += vf22MatchCount(&f, chunkMode)
				fs = append(fs, f)
			}
			batches = append(batches, fs)
		}
		opts := &zoekt.SearchOptions{ChunkMatches: chunkMode}
		switch r.Intn(4) {
		case 0:
			opts.MaxDocDisplayCount = 1 + r.Intn(6)
		case 1:
			opts.MaxMatchDisplayCount = 1 + r.Intn(total+2)
		case 2:
			opts.MaxDocDisplayCount = 2 + r.Intn(5)
			opts.MaxMatchDisplayCount = 1 + r.Intn(total+2)
		}
		if i == 0 {
			// the witness of Props/C22.v C22_incremental_equals_batch_refuted, replayed on the implementation
			mk := func(id int, ext string, score float64, frags int) zoekt.FileMatch {
				lm := zoekt.LineMatch{LineNumber: 100 + id}
				for k := 0; k < frags; k++ {
					lm.LineFragments = append(lm.LineFragments, zoekt.LineFragmentMatch{Offset: uint32(1000*id + k), MatchLength: 1})
				}
				return zoekt.FileMatch{FileName: fmt.Sprintf("d/f%d%s", id, ext), Score: score, RepositoryID: uint32(id), LineMatches: []zoekt.LineMatch{lm}}
			}
			chunkMode, ctx, well, nb, total = false, 0, true, 2, 14
			batches = [][]zoekt.FileMatch{{mk(1, ".go", 1000, 1), mk(2, ".go", 990, 1), mk(3, ".go", 980, 3), mk(4, ".py", 950, 8)}, {mk(5, ".py", 995, 1)}}
			opts = &zoekt.SearchOptions{MaxMatchDisplayCount: 10}
		}
		if i == 1 {
			// the witness of Props/C22.v C22_incremental_equals_batch_doclimit_refuted (document limit only)
			mk := func(id int, ext string, score float64) zoekt.FileMatch {
				lm := zoekt.LineMatch{LineNumber: 100 + id, LineFragments: []zoekt.LineFragmentMatch{{Offset: uint32(1000 * id), MatchLength: 1}}}
				return zoekt.FileMatch{FileName: fmt.Sprintf("d/f%d%s", id, ext), Score: score, RepositoryID: uint32(id), LineMatches: []zoekt.LineMatch{lm}}
			}
			chunkMode, ctx, well, nb, total = false, 0, true, 2, 6
			batches = [][]zoekt.FileMatch{{mk(1, ".go", 1000), mk(2, ".go", 990), mk(3, ".go", 980), mk(4, ".py", 970), mk(5, ".rs", 960)}, {mk(6, ".py", 995)}}
			opts = &zoekt.SearchOptions{MaxDocDisplayCount: 3}
		}
		if i >= 2 && r.Chance(5) {
			// directed: the shape of the document-limit finding with random sizes, scores and extensions — D files of one
			// extension, then two files of two further extensions inside the 0.9 window; a later chunk brings a file of the
			// first novel extension into the top two
			D := 3 + r.Intn(3)
			exts := append([]string(nil), vf22Exts...)
			for k := len(exts) - 1; k > 0; k-- {
				j := r.Intn(k + 1)
				exts[k], exts[j] = exts[j], exts[k]
			}
			mkf := func(ext string, score int) zoekt.FileMatch {
				f, _ := g.file(chunkMode, ctx, false)
				f.FileName = fmt.Sprintf("d/f%d%s", f.RepositoryID, ext)
				f.Score = float64(score)
				return f
			}
			top := 1000 + r.Intn(200)
			var first []zoekt.FileMatch
			for k := 0; k < D; k++ {
				first = append(first, mkf(exts[0], top-10*k-r.Intn(5)))
			}
			low := top - 10*D
			first = append(first, mkf(exts[1], low-1-r.Intn(3)), mkf(exts[2], low-5-r.Intn(3)))
			for k := len(first) - 1; k > 0; k-- {
				j := r.Intn(k + 1)
				first[k], first[j] = first[j], first[k]
			}
			second := []zoekt.FileMatch{mkf(exts[1], top-6-r.Intn(3))}
			malformed, well, nb, total = false, true, 2, 0
			batches = [][]zoekt.FileMatch{first, second}
			for _, b := range batches {
				for k := range b {
					total += vf22MatchCount(&b[k], chunkMode)
				}
			}
			opts = &zoekt.SearchOptions{ChunkMatches: chunkMode, MaxDocDisplayCount: D}
		}
		inputs := make([][]zoekt.FileMatch, len(batches))
		for b := range batches {
			inputs[b] = vf22CopyFiles(batches[b])
		}
		files, promoted, panicked := vf22Collect(opts, batches)
		octx := ctx
		if !well {
			octx = -1
		}
		replay := func() map[string]any {
			var bs []any
			for b := range inputs {
				bs = append(bs, vf22Describe(inputs[b], chunkMode))
			}
			return map[string]any{"mode": 2, "chunk_matches": chunkMode, "num_context_lines": ctx,
				"max_doc_display_count": opts.MaxDocDisplayCount, "max_match_display_count": opts.MaxMatchDisplayCount, "batches": bs,
				"how": "newCollectSender(opts); Send(batch) for each batch; Done()"}
		}
		if panicked && well {
			vfOracleFail("collect:panic-on-well-formed-input", "collectSender panicked on well-formed results", replay())
		}
		if !panicked {
			var ranked []zoekt.FileMatch
			for b := range inputs {
				ranked = append(ranked, vf22CopyFiles(inputs[b])...)
			}
			index.SortFiles(ranked)
			if !vf22SortedByScore(ranked) {
				promoted = true // the final ranking itself contains a promotion
			}
			for _, f := range vf22OraclePrefix(ranked, files, opts, octx) {
				rp := replay()
				rp["got"] = vf22Describe(files, chunkMode)
				rp["ranked_unlimited"] = vf22Describe(ranked, chunkMode)
				vfOracleFail(vf22CollectKey(f, opts, promoted, nb), "collectSender: "+f.what, rp)
			}
		}
		got := 0
		for k := range files {
			got += vf22MatchCount(&files[k], chunkMode)
		}
		cut := !panicked && got < total
		class := []string{"mode=2", fmt.Sprintf("chunk=%v", chunkMode), fmt.Sprintf("cut=%v", cut), fmt.Sprintf("panic=%v", panicked), fmt.Sprintf("promoted=%v", promoted)}
		coq := vf22CoqCase(2, opts, inputs, []vf22Out{{files, true}}, panicked)
		vfCase(coq, fmt.Sprintf("%x", sha1.Sum([]byte(coq))), cut, class, map[string]any{"mode": 2, "opts": fmt.Sprintf("doc=%d match=%d chunk=%v", opts.MaxDocDisplayCount, opts.MaxMatchDisplayCount, chunkMode), "batches": nb, "total_matches": total})
	}
}

// ---------------------------------------------------------------- end to end

type vf22MemFile struct{ data []byte }

func (s *vf22MemFile) Name() string                           { return "vf22" }
func (s *vf22MemFile) Close()                                 {}
func (s *vf22MemFile) Read(off, sz uint32) ([]byte, error)    { return s.data[off : off+sz], nil }
func (s *vf22MemFile) Size() (uint32, error)                  { return uint32(len(s.data)), nil }

type vf22Doc struct{ Name, Content string }
type vf22Shard struct {
	Repo     string
	Priority int
	Docs     []vf22Doc
}

func vf22BuildSearcher(t *testing.T, shards []vf22Shard) *shardedSearcher {
	ss := newShardedSearcher(2)
	m := map[string]zoekt.Searcher{}
	for i, sh := range shards {
		repo := &zoekt.Repository{ID: uint32(i + 1), Name: sh.Repo, RawConfig: map[string]string{"priority": fmt.Sprint(sh.Priority)}}
		b, err := index.NewShardBuilder(repo)
		if err != nil {
			t.Fatal(err)
		}
		for _, d := range sh.Docs {
			if err := b.Add(index.Document{Name: d.Name, Content: []byte(d.Content)}); err != nil {
				t.Fatal(err)
			}
		}
		var buf bytes.Buffer
		if err := b.Write(&buf); err != nil {
			t.Fatal(err)
		}
		s, err := index.NewSearcher(&vf22MemFile{buf.Bytes()})
		if err != nil {
			t.Fatal(err)
		}
		m[fmt.Sprintf("shard-%d", i)] = s
	}
	ss.replace(m)
	return ss
}

func vf22GenShards(r *vfRand) []vf22Shard {
	words := []string{"needle", "needle", "hay", "stack", "needleX", "xneedle", "foo", "bar needle", "other"}
	ns := 1 + r.Intn(3)
	var out []vf22Shard
	id := 0
	for s := 0; s < ns; s++ {
		// distinct priorities => distinct repo ranks => no score ties across shards (tie order is unspecified)
		sh := vf22Shard{Repo: fmt.Sprintf("repo%d", s), Priority: 10 * (ns - s)}
		nd := 1 + r.Intn(5)
		for d := 0; d < nd; d++ {
			id++
			ext := ".go"
			if r.Chance(40) {
				ext = r.Pick(vf22Exts)
			}
			var b strings.Builder
			nl := 1 + r.Intn(9)
			for l := 0; l < nl; l++ {
				nw := r.Intn(4)
				for w := 0; w < nw; w++ {
					if w > 0 {
						b.WriteByte(' ')
					}
					b.WriteString(r.Pick(words))
				}
				if l < nl-1 || r.Chance(70) {
					b.WriteByte('\n')
				}
			}
			name := fmt.Sprintf("dir/f%d%s", id, ext)
			if r.Chance(10) {
				name = fmt.Sprintf("dir/needle%d%s", id, ext)
			}
			sh.Docs = append(sh.Docs, vf22Doc{name, b.String()})
		}
		out = append(out, sh)
	}
	return out
}

func vf22CopyResultFiles(fs []zoekt.FileMatch) []zoekt.FileMatch { return vf22CopyFiles(fs) }

func TestVerifC22E2E(t *testing.T) {
	// one worker: shard results arrive in shard order, so that the streamed result is reproducible
	defer runtime.GOMAXPROCS(runtime.GOMAXPROCS(1))
	r := vfNewRand(vfSeed() + 4242)
	n := vfN(250) / 2
	queries := []struct {
		name string
		q    query.Q
	}{
		{"substr:needle", &query.Substring{Pattern: "needle"}},
		{"substr:needle case", &query.Substring{Pattern: "needle", CaseSensitive: true}},
		{"or(needle,stack)", query.NewOr(&query.Substring{Pattern: "needle"}, &query.Substring{Pattern: "stack"})},
		{"regex:ne+dle\\w*", mustRegexp("ne+dle\\w*")},
		{"substr:hay", &query.Substring{Pattern: "hay"}},
	}
	ctxb := context.Background()
	stats := map[string]int{}
	for i := 0; i < n; i++ {
		shards := vf22GenShards(r)
		ss := vf22BuildSearcher(t, shards)
		for rep := 0; rep < 3; rep++ {
			qi := r.Intn(len(queries))
			chunkMode := r.Chance(65)
			nctx := r.Intn(4)
			base := zoekt.SearchOptions{ChunkMatches: chunkMode, NumContextLines: nctx}
			unl, err := ss.Search(ctxb, queries[qi].q, &base)
			if err != nil {
				t.Fatal(err)
			}
			total := 0
			for k := range unl.Files {
				total += vf22MatchCount(&unl.Files[k], chunkMode)
			}
			if total == 0 {
				stats["empty"]++
				continue
			}
			lim := base
			switch r.Intn(3) {
			case 0:
				lim.MaxDocDisplayCount = 1 + r.Intn(len(unl.Files)+1)
			case 1:
				lim.MaxMatchDisplayCount = 1 + r.Intn(total+1)
			case 2:
				lim.MaxDocDisplayCount = 1 + r.Intn(len(unl.Files)+1)
				lim.MaxMatchDisplayCount = 1 + r.Intn(total+1)
			}
			api := r.Intn(3) // 0 Search, 1 StreamSearch collecting (large FlushWallTime), 2 StreamSearch streaming
			var got, ranked []zoekt.FileMatch
			how := "Search"
			switch api {
			case 0:
				res, err := ss.Search(ctxb, queries[qi].q, &lim)
				if err != nil {
					t.Fatal(err)
				}
				got, ranked = res.Files, unl.Files
			case 1, 2:
				how = "StreamSearch FlushWallTime=1h"
				l2, b2 := lim, base
				if api == 1 {
					l2.FlushWallTime, b2.FlushWallTime = time.Hour, time.Hour
				} else {
					how = "StreamSearch FlushWallTime=0"
				}
				collect := func(o *zoekt.SearchOptions) []zoekt.FileMatch {
					var fs []zoekt.FileMatch
					err := ss.StreamSearch(ctxb, queries[qi].q, o, zoekt.SenderFunc(func(sr *zoekt.SearchResult) {
						fs = append(fs, sr.Files...)
					}))
					if err != nil {
						t.Fatal(err)
					}
					return fs
				}
				ranked = collect(&b2)
				got = collect(&l2)
			}
			stats[how]++
			gotN := 0
			for k := range got {
				gotN += vf22MatchCount(&got[k], chunkMode)
			}
			if gotN < total {
				stats["cut"]++
			}
			fails := vf22OraclePrefix(ranked, got, &lim, nctx)
			if len(fails) == 0 {
				continue
			}
			// attribute prefix failures of the collecting paths to the known incremental-truncation finding
			// by re-running collectSender on the per-shard results and watching for a promotion
			promoted := false
			if api != 2 && len(shards) > 1 {
				var batches [][]zoekt.FileMatch
				var rec zoekt.Sender = zoekt.SenderFunc(func(sr *zoekt.SearchResult) {
					batches = append(batches, vf22CopyFiles(sr.Files))
				})
				_ = ss.StreamSearch(ctxb, queries[qi].q, &base, rec)
				_, promoted, _ = vf22Collect(&lim, batches)
			}
			if api != 2 && !vf22SortedByScore(ranked) {
				promoted = true // the final ranking itself contains a promotion
			}
			for _, f := range fails {
				key := "e2e:" + vf22CollectKey(f, &lim, promoted, len(shards))
				vfOracleFail(key, how+": "+f.what, map[string]any{
					"shards": shards, "query": queries[qi].name, "api": how, "chunk_matches": chunkMode, "num_context_lines": nctx,
					"max_doc_display_count": lim.MaxDocDisplayCount, "max_match_display_count": lim.MaxMatchDisplayCount,
					"got": vf22Describe(got, chunkMode), "unlimited": vf22Describe(ranked, chunkMode)})
			}
		}
	}
	info := map[string]any{"what": "e2e searches"}
	for k, v := range stats {
		info[k] = v
	}
	vfInfo(info)
}

func mustRegexp(s string) query.Q {
	q, err := query.Parse("regex:" + s)
	if err != nil {
		panic(err)
	}
	return q
}
