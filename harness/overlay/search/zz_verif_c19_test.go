package search

// C19 correspondence + oracle: DirectoryWatcher.scan + loader (load/drop/replace) + versionFromPath
// on scripted directory histories in a scratch directory (never inside /repo), with explicit scan() calls.
// Mapped into /repo/search by `go test -overlay`.
//
//   * every step: 1-3 directory changes (create / replace by rename / delete / sidecar write / sidecar
//     delete / junk / oddly named *.zoekt / unloadable file), then the full listing with the REAL Lstat
//     mtimes is recorded, scan() is run (panic recovered), and the observed toDrop / toLoad sets,
//     timestamps map and shards map (key -> identity of the loaded content, read from the loaded shard's
//     repository metadata) are recorded. The Coq model replays the listings and must agree at every step.
//     Case encoding (compact): base names are interned per script (index into a name table), mtimes are
//     exact ns offsets from the smallest mtime of the script.
//   * HELD snapshots: the list a search takes with getLoaded() is taken after the drop and after every scan, KEPT
//     (as a running Search/StreamSearch/List keeps it) while later scans replace / drop / add shards, and iterated
//     again afterwards: it must still show exactly the shards it showed when it was taken (copy-on-write of the
//     published list).  The later readings go into the Coq case (model: store of backing arrays, Model/RankedStore.v)
//     and are judged by the Go oracle (`held-snapshot-mutated`).
//   * Go oracle (independent of scan's code): newest supported version per builder-style name must be
//     loaded with the CURRENT content, nothing else, a second scan is a no-op, every snapshot has one
//     entry per key and one version per name, no panic.

import (
	"bytes"
	"context"
	"encoding/json"
	"fmt"
	"io"
	"log"
	"os"
	"path/filepath"
	"regexp"
	"sort"
	"strconv"
	"strings"
	"testing"
	"time"

	"github.com/sourcegraph/zoekt"
	"github.com/sourcegraph/zoekt/index"
	"github.com/sourcegraph/zoekt/query"
)

var vfC19Blobs = map[int][]byte{}

func vfC19Blob(t testing.TB, k int) []byte {
	if b, ok := vfC19Blobs[k]; ok {
		return b
	}
	sb, err := index.NewShardBuilder(&zoekt.Repository{Name: fmt.Sprintf("blob%d", k)})
	if err != nil {
		t.Fatal(err)
	}
	if err := sb.Add(index.Document{Name: fmt.Sprintf("f%d.txt", k), Content: []byte(fmt.Sprintf("marker ver%d\n", k))}); err != nil {
		t.Fatal(err)
	}
	var buf bytes.Buffer
	if err := sb.Write(&buf); err != nil {
		t.Fatal(err)
	}
	vfC19Blobs[k] = buf.Bytes()
	return vfC19Blobs[k]
}

func vfC19Meta(t testing.TB, k, j int) []byte {
	b, err := json.Marshal(&zoekt.Repository{Name: fmt.Sprintf("blob%d", k), RawConfig: map[string]string{"m": strconv.Itoa(j)}})
	if err != nil {
		t.Fatal(err)
	}
	return b
}

// identity of what a loaded shard serves: blob*100 + sidecar id. The blob is identified by a real search
// on the shard (document name f<k>.txt), the sidecar by the repository metadata cached at load time.
var vfC19IdCache = map[*rankedShard]uint64{}

func vfC19Identity(r *rankedShard) uint64 {
	if id, ok := vfC19IdCache[r]; ok && r != nil {
		return id
	}
	id := vfC19IdentityUncached(r)
	if len(vfC19IdCache) > 4096 {
		vfC19IdCache = map[*rankedShard]uint64{}
	}
	vfC19IdCache[r] = id // r stays referenced here, so its address is not reused by another shard while cached
	return id
}

func vfC19IdentityUncached(r *rankedShard) uint64 {
	if r == nil || len(r.repos) == 0 {
		return 99999
	}
	res, err := r.Search(context.Background(), &query.Substring{Pattern: "marker"}, &zoekt.SearchOptions{})
	if err != nil || len(res.Files) != 1 {
		return 99998
	}
	var k, j int
	if _, err := fmt.Sscanf(res.Files[0].FileName, "f%d.txt", &k); err != nil {
		return 99997
	}
	if r.repos[0].RawConfig != nil {
		j, _ = strconv.Atoi(r.repos[0].RawConfig["m"])
	}
	return uint64(k*100 + j)
}

type vfC19File struct {
	blob     int // 0 = unloadable content
	loadable bool
}

// one step of a script as recorded for the Coq case (rendered at the end of the script: name table + offsets)
type vfC19Ent struct {
	name     string
	mtime    int64
	content  uint64
	loadable bool
}
type vfC19StepRec struct {
	listing      []vfC19Ent
	panicked     bool
	drops, loads []string
	ts           []vfC19Ent // name, mtime
	loaded       []vfC19Ent // name, content
	held         []vfC19HeldObs
}

// a later reading of a held snapshot: id 2i = taken after the drop of scan i, 2i+1 = taken after scan i
type vfC19HeldObs struct {
	id   int
	ents []vfC19Ent // name, content as the held slice shows them now
}

// a snapshot held like a running search holds it: the slice returned by getLoaded (NOT a copy) + what it showed then
type vfC19Held struct {
	id   int
	snap []*rankedShard
	ptrs []*rankedShard
	ents []vfC19Ent
}

func vfC19Render(cur, next int, dir string, recs []vfC19StepRec) string {
	idx := map[string]int{}
	var names []string
	id := func(n string) string {
		i, ok := idx[n]
		if !ok {
			i = len(names)
			idx[n] = i
			names = append(names, cStr(n))
		}
		return strconv.Itoa(i)
	}
	t0 := int64(0)
	first := true
	for _, s := range recs {
		for _, e := range append(append([]vfC19Ent(nil), s.listing...), s.ts...) {
			if first || e.mtime < t0 {
				t0, first = e.mtime, false
			}
		}
	}
	off := func(m int64) string { return strconv.FormatInt(m-t0, 10) }
	lst := func(xs []string, ty string) string {
		if len(xs) == 0 {
			return "(@nil " + ty + ")"
		}
		return "[" + strings.Join(xs, ";") + "]"
	}
	var steps []string
	for _, s := range recs {
		var l, d, ld, ts, lo, hd []string
		for _, e := range s.listing {
			l = append(l, "("+id(e.name)+","+off(e.mtime)+","+strconv.FormatUint(e.content, 10)+","+cBool(e.loadable)+")")
		}
		for _, k := range s.drops {
			d = append(d, id(k))
		}
		for _, k := range s.loads {
			ld = append(ld, id(k))
		}
		for _, e := range s.ts {
			ts = append(ts, "("+id(e.name)+","+off(e.mtime)+")")
		}
		for _, e := range s.loaded {
			lo = append(lo, "("+id(e.name)+","+strconv.FormatUint(e.content, 10)+")")
		}
		for _, h := range s.held {
			var es []string
			for _, e := range h.ents {
				es = append(es, "("+id(e.name)+","+strconv.FormatUint(e.content, 10)+")")
			}
			hd = append(hd, "("+strconv.Itoa(h.id)+","+lst(es, "(N * N)")+")")
		}
		steps = append(steps, fmt.Sprintf("(mkStep %s %s %s %s %s %s %s)", lst(l, "raw_ent"), cBool(s.panicked),
			lst(d, "N"), lst(ld, "N"), lst(ts, "(N * N)"), lst(lo, "(N * N)"), lst(hd, "(N * list (N * N))")))
	}
	return fmt.Sprintf("(CScan %s %s %s %s %s %s)", cZ(int64(cur)), cZ(int64(next)), cStr(dir), cZ(t0), lst(names, "(list N)"), cList(steps))
}

type vfC19Recorder struct {
	inner        shardLoader
	ss           *shardedSearcher
	drops, loads []string
	snapBad      []string
	keyOf        map[*rankedShard]string // every rankedShard that was ever in the shards map -> its key
	afterDrop    []*rankedShard          // getLoaded().shards right after the drop of the current scan
}

func (r *vfC19Recorder) load(keys ...string) {
	r.loads = append(r.loads, keys...)
	r.inner.load(keys...)
	r.checkSnap("after load")
}
func (r *vfC19Recorder) drop(keys ...string) {
	r.drops = append(r.drops, keys...)
	r.inner.drop(keys...)
	r.checkSnap("after drop")
	r.afterDrop = r.ss.getLoaded().shards // what a search starting between drop and load works on
}
func (r *vfC19Recorder) register() {
	r.ss.mu.Lock()
	defer r.ss.mu.Unlock()
	if r.keyOf == nil {
		r.keyOf = map[*rankedShard]string{}
	}
	for k, v := range r.ss.shards {
		r.keyOf[v] = k
	}
}

var vfC19Builder = regexp.MustCompile(`^(.+)_v(\d+)\.(\d{5})\.zoekt$`)

// a snapshot (what a search would take with getLoaded) must hold one entry per key and one version per name
func (r *vfC19Recorder) checkSnap(when string) {
	r.register()
	snap := r.ss.getLoaded().shards
	r.ss.mu.Lock()
	defer r.ss.mu.Unlock()
	if len(snap) != len(r.ss.shards) {
		r.snapBad = append(r.snapBad, fmt.Sprintf("%s: snapshot has %d shards, map has %d", when, len(snap), len(r.ss.shards)))
	}
	inMap := map[*rankedShard]string{}
	for k, v := range r.ss.shards {
		inMap[v] = k
	}
	seen := map[*rankedShard]bool{}
	vers := map[string]string{}
	for _, s := range snap {
		k, ok := inMap[s]
		if !ok || seen[s] {
			r.snapBad = append(r.snapBad, when+": snapshot entry not (uniquely) in the shard map")
			continue
		}
		seen[s] = true
		if m := vfC19Builder.FindStringSubmatch(filepath.Base(k)); m != nil {
			if v, dup := vers[m[1]]; dup && v != m[2] {
				r.snapBad = append(r.snapBad, fmt.Sprintf("%s: snapshot holds versions %s and %s of %s", when, v, m[2], m[1]))
			}
			vers[m[1]] = m[2]
		}
	}
}

func vfC19Script(t *testing.T, r *vfRand, trial int) {
	dir := filepath.Join(os.Getenv("VERIF_TMP"), fmt.Sprintf("c19s%d", trial))
	if os.Getenv("VERIF_TMP") == "" {
		dir = filepath.Join(t.TempDir(), "s")
	}
	if err := os.MkdirAll(dir, 0o755); err != nil {
		t.Fatal(err)
	}
	defer os.RemoveAll(dir)

	ss := newShardedSearcher(2)
	defer ss.Close()
	rec := &vfC19Recorder{inner: &loader{ss: ss}, ss: ss}
	sw := &DirectoryWatcher{dir: dir, timestamps: map[string]time.Time{}, loader: rec}

	names := []string{"repoA", "repoB", "r_c", "x%2Fy"}
	versions := []int{15, 16, 16, 16, 17, 17, 18}
	odd := []string{"plain.zoekt", "a_b.zoekt", "weird_vx.zoekt", "neg_v-3.00000.zoekt", "big_v99.00000.zoekt", "p_v+16.00000.zoekt", "z_v16.zoekt"}
	junk := []string{"notes.txt", "repoA_v16.00000.zoekt.tmp123", "x.tmp", "repoA_v16.00000.zoekt.bak"}

	files := map[string]*vfC19File{} // base -> state (only *.zoekt)
	metas := map[string]int{}        // base (of the shard) -> sidecar id
	clock := 0
	base0 := time.Date(2024, 1, 1, 0, 0, 0, 0, time.UTC)
	fresh := func() time.Time {
		clock++
		return base0.Add(time.Duration(clock)*time.Second + time.Duration(r.Intn(1000))*time.Millisecond)
	}
	nextBlob := 0
	write := func(base string, data []byte, mt time.Time) {
		tmp := filepath.Join(dir, base+".tmpw")
		if err := os.WriteFile(tmp, data, 0o644); err != nil {
			t.Fatal(err)
		}
		if err := os.Chtimes(tmp, mt, mt); err != nil {
			t.Fatal(err)
		}
		if err := os.Rename(tmp, filepath.Join(dir, base)); err != nil {
			t.Fatal(err)
		}
	}
	mtimeOf := func(base string) (time.Time, bool) {
		fi, err := os.Lstat(filepath.Join(dir, base))
		if err != nil {
			return time.Time{}, false
		}
		return fi.ModTime(), true
	}
	effOf := func(base string) time.Time {
		m, _ := mtimeOf(base)
		if mm, ok := mtimeOf(base + ".meta"); ok && mm.After(m) {
			return mm
		}
		return m
	}
	existing := func() []string {
		var ks []string
		for k := range files {
			ks = append(ks, k)
		}
		sort.Strings(ks)
		return ks
	}
	putShard := func(base string, mt time.Time) string {
		f := &vfC19File{}
		var data []byte
		if r.Chance(6) {
			data = [][]byte{{}, []byte("garbage"), bytes.Repeat([]byte{0}, 64)}[r.Intn(3)]
			f.loadable = false
		} else {
			nextBlob++
			f.blob = nextBlob%90 + 1
			f.loadable = true
			data = vfC19Blob(t, f.blob)
		}
		write(base, data, mt)
		files[base] = f
		if f.loadable {
			return "put"
		}
		return "put-unloadable"
	}
	// mtime for a file that replaces `base`: usually later than everything before; sometimes the SAME as the
	// replaced file's (the watcher cannot notice: known blind spot); sometimes OLDER (rename keeps the temp
	// file's mtime: out-of-order completion of two builds, restored files with preserved times, clock steps)
	var classes = map[string]bool{}
	replMtime := func(base string, pEqual, pOlder int) time.Time {
		old, ok := mtimeOf(base)
		if !ok {
			return fresh()
		}
		switch c := r.Intn(100); {
		case c < pEqual:
			classes["equal-mtime-replace"] = true
			return old
		case c < pEqual+pOlder:
			classes["older-mtime-replace"] = true
			return old.Add(-time.Duration(1+r.Intn(3000)) * time.Millisecond)
		}
		return fresh()
	}

	// effective mtime (max of shard and sidecar) at the previous scan of every file that scan had to keep then: a
	// file whose content changed while this value stayed the same cannot be noticed by a watcher that looks at
	// mtimes only
	prevEff := map[string]time.Time{}
	blindSpot := func(base string) bool {
		p, ok := prevEff[base]
		return ok && p.Equal(effOf(base))
	}

	var recs []vfC19StepRec
	var human []any
	var held []*vfC19Held
	relKey := func(p string) string { return strings.TrimPrefix(p, dir+"/") }
	showSnap := func(snap []*rankedShard) []vfC19Ent {
		var es []vfC19Ent
		for _, sh := range snap {
			k, ok := rec.keyOf[sh]
			if !ok {
				k = dir + "/<not-a-loaded-shard>"
			}
			es = append(es, vfC19Ent{name: relKey(k), content: vfC19Identity(sh)})
		}
		sort.Slice(es, func(i, j int) bool {
			if es[i].name != es[j].name {
				return es[i].name < es[j].name
			}
			return es[i].content < es[j].content
		})
		return es
	}
	hold := func(id int, snap []*rankedShard) {
		held = append(held, &vfC19Held{id: id, snap: snap, ptrs: append([]*rankedShard(nil), snap...), ents: showSnap(snap)})
	}
	fmtEnts := func(es []vfC19Ent) string {
		var xs []string
		for _, e := range es {
			xs = append(xs, fmt.Sprintf("%s=%d", e.name, e.content))
		}
		return "[" + strings.Join(xs, " ") + "]"
	}
	var failed = map[string]bool{}
	fail := func(key, what string) {
		if failed[key] {
			return
		}
		failed[key] = true
		vfOracleFail(key, what, map[string]any{"trial": trial, "history": human})
	}

	nsteps := 4 + r.Intn(6)
	for step := 0; step < nsteps; step++ {
		var ops []string
		nops := 1 + r.Intn(3)
		if step == 0 {
			nops = 2 + r.Intn(4)
		}
		for o := 0; o < nops; o++ {
			ex := existing()
			switch c := r.Intn(100); {
			case c < 30 || len(ex) == 0: // create (or overwrite) a builder-style shard
				base := fmt.Sprintf("%s_v%d.%05d.zoekt", r.Pick(names), versions[r.Intn(len(versions))], r.Intn(2))
				mt := replMtime(base, 12, 12)
				ops = append(ops, fmt.Sprintf("%s %s @%d", putShard(base, mt), base, mt.Sub(base0).Milliseconds()))
			case c < 50: // replace an existing shard by rename
				base := ex[r.Intn(len(ex))]
				mt := replMtime(base, 10, 20)
				ops = append(ops, fmt.Sprintf("re%s %s @%d", putShard(base, mt), base, mt.Sub(base0).Milliseconds()))
			case c < 65: // delete
				base := ex[r.Intn(len(ex))]
				os.Remove(filepath.Join(dir, base))
				delete(files, base)
				if r.Chance(70) {
					os.Remove(filepath.Join(dir, base+".meta"))
					delete(metas, base)
				} // else: an orphan sidecar stays (and applies again if the shard comes back)
				ops = append(ops, "delete "+base)
			case c < 80: // sidecar write
				base := ex[r.Intn(len(ex))]
				j := 1 + r.Intn(90)
				mt := fresh()
				if r.Chance(10) { // not later than what the watcher has seen: not noticed by design
					mt = effOf(base)
					classes["equal-mtime-sidecar"] = true
				}
				write(base+".meta", vfC19Meta(t, files[base].blob, j), mt)
				metas[base] = j
				ops = append(ops, fmt.Sprintf("sidecar %s m=%d @%d", base, j, mt.Sub(base0).Milliseconds()))
			case c < 88: // sidecar delete (the effective mtime falls back to the shard's when the sidecar was later)
				base := ex[r.Intn(len(ex))]
				if _, ok := metas[base]; ok {
					if shardM, _ := mtimeOf(base); effOf(base).After(shardM) {
						classes["dominating-sidecar-deleted"] = true
					}
					os.Remove(filepath.Join(dir, base+".meta"))
					delete(metas, base)
					ops = append(ops, "sidecar-delete "+base)
				}
			case c < 92: // junk that must be ignored
				base := r.Pick(junk)
				write(base, []byte("junk"), fresh())
				ops = append(ops, "junk "+base)
			case c < 98: // oddly named *.zoekt
				base := r.Pick(odd)
				ops = append(ops, putShard(base, fresh())+" "+base)
				classes["odd-name"] = true
			default: // the last '_' directly followed by '.'
				base := []string{"bad_.zoekt", "repoA_v16_.00000.zoekt"}[r.Intn(2)]
				ops = append(ops, putShard(base, fresh())+" "+base)
				classes["underscore-dot-name"] = true
			}
		}

		// ---- listing with the real mtimes
		des, err := os.ReadDir(dir)
		if err != nil {
			t.Fatal(err)
		}
		var sr vfC19StepRec
		for _, de := range des {
			fi, err := os.Lstat(filepath.Join(dir, de.Name()))
			if err != nil {
				t.Fatal(err)
			}
			e := vfC19Ent{name: de.Name(), mtime: fi.ModTime().UnixNano()}
			if f, ok := files[de.Name()]; ok {
				e.content = uint64(f.blob*100 + metas[de.Name()])
				e.loadable = f.loadable
			}
			sr.listing = append(sr.listing, e)
		}

		// ---- scan
		rec.drops, rec.loads, rec.snapBad, rec.afterDrop = nil, nil, nil, nil
		panicked := ""
		func() {
			defer func() {
				if e := recover(); e != nil {
					panicked = fmt.Sprint(e)
				}
			}()
			if err := sw.scan(); err != nil {
				t.Fatal(err)
			}
		}()
		human = append(human, map[string]any{"ops": ops, "panic": panicked})
		if panicked != "" {
			fail("scan-panic", "DirectoryWatcher.scan panicked ("+panicked+") on a directory containing: "+strings.Join(func() []string {
				var n []string
				for _, de := range des {
					n = append(n, de.Name())
				}
				return n
			}(), " "))
			classes["scan-panic"] = true
		}
		drops, loads := append([]string(nil), rec.drops...), append([]string(nil), rec.loads...)
		for _, b := range rec.snapBad {
			fail("snapshot-inconsistent", b)
		}

		// ---- observe
		rel := func(p string) string { return strings.TrimPrefix(p, dir+"/") }
		sr.panicked = panicked != ""
		for _, k := range vfSortedKeys(sw.timestamps) {
			sr.ts = append(sr.ts, vfC19Ent{name: rel(k), mtime: sw.timestamps[k].UnixNano()})
		}
		ss.mu.Lock()
		loadedNow := map[string]uint64{}
		for k, v := range ss.shards {
			loadedNow[rel(k)] = vfC19Identity(v)
		}
		ss.mu.Unlock()
		for _, k := range vfSortedKeys(loadedNow) {
			sr.loaded = append(sr.loaded, vfC19Ent{name: k, content: loadedNow[k]})
		}
		sort.Strings(drops)
		sort.Strings(loads)
		for _, k := range drops {
			sr.drops = append(sr.drops, rel(k))
		}
		for _, k := range loads {
			sr.loads = append(sr.loads, rel(k))
		}
		if len(drops) > 0 {
			classes["drop"] = true
		}
		if len(loads) > 0 && step > 0 {
			classes["reload"] = true
		}
		// ---- held snapshots: take the lists a search would take now (after the drop, after the scan), and iterate
		// the ones held since earlier scans again: the previous scan's (a reuse of the published list's storage
		// shows at the very next publication) and this scan's after-drop list; at the last step all of them
		if panicked == "" {
			hold(2*step, rec.afterDrop)
			hold(2*step+1, ss.getLoaded().shards)
			for _, h := range held {
				if !(step == nsteps-1 || h.id >= 2*(step-1)) || h.id == 2*step+1 {
					continue
				}
				now := showSnap(h.snap)
				sr.held = append(sr.held, vfC19HeldObs{id: h.id, ents: now})
				same := len(h.snap) == len(h.ptrs)
				for i := range h.ptrs {
					same = same && h.snap[i] == h.ptrs[i]
				}
				if !same || fmtEnts(now) != fmtEnts(h.ents) {
					when := fmt.Sprintf("after scan %d", h.id/2)
					if h.id%2 == 0 {
						when = fmt.Sprintf("after the drop of scan %d", h.id/2)
					}
					fail("held-snapshot-mutated", fmt.Sprintf("the shard list a search took with getLoaded() %s was rewritten under it: it showed %s then, and shows %s after scan %d (published lists must be copy-on-write: a running search iterates its list while shards are replaced)", when, fmtEnts(h.ents), fmtEnts(now), step))
				}
				if len(now) > 0 && h.id < 2*step {
					classes["held-across-scan"] = true
				}
			}
		}
		recs = append(recs, sr)

		if panicked != "" {
			continue
		}
		// ---- Go-side oracle of the property (independent of scan's code)
		maxSup := index.IndexFormatVersion
		if index.NextIndexFormatVersion > maxSup {
			maxSup = index.NextIndexFormatVersion
		}
		newest := map[string]int{}
		wantedEff := map[string]time.Time{}
		for base := range files {
			if m := vfC19Builder.FindStringSubmatch(base); m != nil {
				v, _ := strconv.Atoi(m[2])
				if v <= maxSup && v >= newest[m[1]] {
					newest[m[1]] = v
				}
			}
		}
		for base, f := range files {
			m := vfC19Builder.FindStringSubmatch(base)
			if m == nil {
				continue
			}
			v, _ := strconv.Atoi(m[2])
			want := v <= maxSup && v == newest[m[1]]
			if want {
				wantedEff[base] = effOf(base)
			}
			got, isLoaded := loadedNow[base]
			onDisk := uint64(f.blob*100 + metas[base])
			switch {
			case want && f.loadable && (!isLoaded || got != onDisk) && blindSpot(base):
				// the content (shard or sidecar) changed while the effective mtime stayed what it was at the previous
				// scan: the known blind spot of an mtime-based watcher
				classes["stale-equal-mtime"] = true
				fail("stale:equal-mtime", fmt.Sprintf("%s was replaced (or its sidecar changed) without changing the effective mtime; the watcher keeps serving the old content (loaded identity %d, on disk %d)", base, got, onDisk))
			case want && f.loadable && !isLoaded:
				fail("not-loaded", "newest supported shard on disk is not loaded after scan: "+base)
			case want && f.loadable && got != onDisk:
				what := fmt.Sprintf("%s: loaded identity %d differs from the content on disk %d", base, got, onDisk)
				if p, ok := prevEff[base]; ok && effOf(base).Before(p) {
					what += " (its effective mtime went BACK since the previous scan: replaced by an older file, or a later sidecar was removed)"
				}
				fail("stale:other", what)
			case want && !f.loadable && isLoaded:
				classes["kept-after-failed-reload"] = true
			case !want && isLoaded:
				fail("superseded-or-unsupported-loaded", "a shard that is not the newest supported version of its name is loaded: "+base)
			}
		}
		for base := range loadedNow {
			if _, ok := files[base]; !ok {
				fail("loaded-but-deleted", "a shard that is no longer on disk is still loaded after scan: "+base)
			}
		}
		// a second scan of the unchanged directory must be a no-op
		rec.drops, rec.loads = nil, nil
		if err := sw.scan(); err != nil {
			t.Fatal(err)
		}
		if len(rec.drops)+len(rec.loads) > 0 {
			fail("rescan-not-noop", fmt.Sprintf("second scan of an unchanged directory drops %v and loads %v", rec.drops, rec.loads))
		}
		prevEff = wantedEff
	}

	var cls []string
	for _, k := range vfSortedKeys(classes) {
		cls = append(cls, k)
	}
	coq := vfC19Render(index.IndexFormatVersion, index.NextIndexFormatVersion, dir, recs)
	nontrivial := classes["drop"] && classes["reload"]
	vfCase("(XW "+coq+")", vfKey(human), nontrivial, append(cls, "script"), map[string]any{"dir": dir, "history": human})
}

func vfC19Vfp(t *testing.T, r *vfRand) {
	var p string
	class := "vfp-random"
	if r.Chance(40) {
		class = "vfp-builder"
		p = fmt.Sprintf("/d%s/%s_v%d.%05d.zoekt", r.Pick([]string{"", "_x", "a.b", "q_v3.1"}), r.Pick([]string{"repo", "a_b", "x%2Fy.z", "", "_"}), r.Intn(30), r.Intn(3))
	} else {
		alpha := []string{"_", "_", ".", ".", "v", "1", "6", "0", "-", "+", "a", "/", "zoekt", "_v", "_v17.", "99999999999999999999"}
		n := r.Intn(9)
		for i := 0; i < n; i++ {
			p += r.Pick(alpha)
		}
	}
	var name string
	var ver int
	panicked := false
	func() {
		defer func() {
			if e := recover(); e != nil {
				panicked = true
			}
		}()
		name, ver = versionFromPath(p)
	}()
	obs := "None"
	if !panicked {
		obs = cSome(cTuple(cStr(name), cZ(int64(ver))))
	} else {
		class = "vfp-panic"
		vfOracleFail("versionFromPath-panic", "versionFromPath panics (slice bounds) when the last '_' of the path is directly followed by '.'", map[string]any{"path": p})
	}
	if m := vfC19Builder.FindStringSubmatch(filepath.Base(p)); m != nil && !panicked {
		v, _ := strconv.Atoi(m[2])
		if want := filepath.Dir(p) + "/" + m[1]; name != want || ver != v {
			vfOracleFail("versionFromPath-wrong", fmt.Sprintf("versionFromPath(%q) = (%q,%d), expected (%q,%d)", p, name, ver, want, v), map[string]any{"path": p})
		}
	}
	vfCase(fmt.Sprintf("(XW (CVfp %s %s))", cStr(p), obs), "vfp:"+p, strings.Contains(p, "_") && strings.Contains(p, "."), class, map[string]any{"path": p})
}

func TestVerifC19(t *testing.T) {
	log.SetOutput(io.Discard)
	r := vfNewRand(vfSeed())
	n := vfN(60)
	for i := 0; i < n; i++ {
		vfC19Script(t, r, i)
	}
	for i := 0; i < 4*n; i++ {
		vfC19Vfp(t, r)
	}
	// notification loop scenarios against the real watcher (zz_verif_c19watch_test.go); own PRNG stream so that the
	// script cases above do not depend on how many scenario trials run
	rw := vfNewRand(vfSeed() + 7919)
	nw := 2
	if vfTier() == "thorough" {
		nw = 8
	}
	for i := 0; i < nw; i++ {
		vfC19Watch(t, rw, i)
	}
	// searches held open by blocking shards while shards are replaced (zz_verif_c19held_test.go); own PRNG stream
	rh := vfNewRand(vfSeed() + 104729)
	nh := 12
	if vfTier() == "thorough" {
		nh = 120
	}
	for i := 0; i < nh; i++ {
		vfC19HeldSearch(t, rh, i)
	}
	// ownership of results: searches over shards whose memory is overwritten / unmapped afterwards
	// (zz_verif_c19own_test.go); own PRNG stream
	ro := vfNewRand(vfSeed() + 1299709)
	no := 84
	if vfTier() == "thorough" {
		no = 400
	}
	for i := 0; i < no; i++ {
		vfC19Own(t, ro, i)
	}
}
