package search

// C12 — crash-point / fault enumeration on REAL builds (ALICE style).
// Mapped into /repo/search by `go test -overlay` together with rewritten copies of index/builder.go and
// index/tombstones.go whose os.* mutation call sites go through the zzfs shim (translator/fsinstrument).
//
// One scenario = an existing index of repository "r" (none / full build with 1-3 shards / full + delta builds
// (sidecars exist) / alive in a compound shard; optionally orphan ".meta" sidecars without shard, as a killed earlier
// run leaves them) + one new build (full with 1-3 shards, delta with 0-2 shards).
// For the scenario:
//   ref   the new build runs undisturbed                                  -> op log L, new digest
//   kill  for every k < |L|: the build is killed (freeze) before its k-th mutation
//   fail  for every j < |L|: the j-th mutation fails (CreateTemp also as "file created, write fails")
// After each run the directory is loaded with search.NewDirectorySearcher (the real watcher scan + loader) and
//   * Go oracle: the digest of List + Search(TRUE, Whole) must be the old or the new one (kill), resp. the new one
//     when Finish reported success (fail); every visible shard must load;
//   * correspondence: the executed op list, the per-slot view (which generation of shard / sidecar is visible),
//     kill flag and Finish's error go to the Coq model (Model/FinishOps.v c12_ok).

import (
	"context"
	"crypto/sha1"
	"encoding/hex"
	"encoding/json"
	"fmt"
	"os"
	"os/exec"
	"path/filepath"
	"regexp"
	"runtime/debug"
	"sort"
	"strconv"
	"strings"
	"testing"

	"github.com/sourcegraph/zoekt"
	"github.com/sourcegraph/zoekt/index"
	"github.com/sourcegraph/zoekt/internal/zzfs"
	"github.com/sourcegraph/zoekt/query"
)

type c12Doc struct {
	Name, Content string
	Branches      []string
}

type c12Build struct {
	Delta   bool     `json:"delta"`
	Docs    []c12Doc `json:"docs"`
	Changed []string `json:"changed,omitempty"`
	Gen     int      `json:"gen"`
	Par     int      `json:"par"`
	Merging bool     `json:"merging"`
}

type c12Scenario struct {
	Old      []c12Build `json:"old"`
	Compound int        `json:"compound"` // 0 none, 1 compound without sidecar, 2 compound with sidecar
	New      c12Build   `json:"new"`
	// Orphan: shard numbers (>= number of old shards) at which a ".meta" sidecar WITHOUT shard waits, as left behind by a
	// run killed between removing a shard and its sidecar; its FileTombstones hide every file, its branch versions are old.
	Orphan []int `json:"orphan,omitempty"`
}

func c12Opts(dir string, b c12Build) index.Options {
	return index.Options{
		IndexDir:     dir,
		ShardMax:     1, // every document flushes its own shard
		Parallelism:  b.Par,
		DisableCTags: true,
		IsDelta:      b.Delta,
		ShardMerging: b.Merging,
		RepositoryDescription: zoekt.Repository{
			Name: "r", ID: 7,
			Branches: []zoekt.RepositoryBranch{{Name: "main", Version: fmt.Sprintf("g%d-main", b.Gen)}, {Name: "dev", Version: fmt.Sprintf("g%d-dev", b.Gen)}},
		},
	}
}

// c12Run runs one build like gitindex.indexGitRepo drives the builder (Add errors abort, Finish always runs).
func c12Run(dir string, b c12Build) error {
	bld, err := index.NewBuilder(c12Opts(dir, b))
	if err != nil {
		return err
	}
	for _, p := range b.Changed {
		bld.MarkFileAsChangedOrRemoved(p)
	}
	for _, d := range b.Docs {
		if err := bld.Add(index.Document{Name: d.Name, Content: []byte(d.Content), Branches: d.Branches}); err != nil {
			bld.Finish()
			return err
		}
	}
	return bld.Finish()
}

func c12CopyDir(t *testing.T, src, dst string) {
	if err := os.MkdirAll(dst, 0o755); err != nil {
		t.Fatal(err)
	}
	es, err := os.ReadDir(src)
	if err != nil {
		t.Fatal(err)
	}
	for _, e := range es {
		b, err := os.ReadFile(filepath.Join(src, e.Name()))
		if err != nil {
			t.Fatal(err)
		}
		if err := os.WriteFile(filepath.Join(dst, e.Name()), b, 0o644); err != nil {
			t.Fatal(err)
		}
	}
}

var c12NameRe = regexp.MustCompile(`^(?:r_v16\.(\d{5})|(compound-[0-9a-f]+_v17\.00000))\.zoekt(\.meta)?(\.[0-9*]+\.tmp)?$`)

// c12Name maps a path to the model's name term; ok=false for anything else.
func c12Name(p string) (string, bool) {
	m := c12NameRe.FindStringSubmatch(filepath.Base(p))
	if m == nil {
		return "", false
	}
	slot := "SComp"
	if m[2] == "" {
		n, _ := strconv.Atoi(m[1])
		slot = fmt.Sprintf("(SReg %d)", n)
	}
	kind := "Shard"
	switch {
	case m[3] != "" && m[4] != "":
		kind = "TmpMeta"
	case m[3] != "":
		kind = "Meta"
	case m[4] != "":
		kind = "TmpShard"
	}
	return "(" + kind + " " + slot + ")", true
}

const c12Unknown = "(OWrite (Shard (SReg 99)) Partial, true)" // an operation the model's program never performs

// c12Ops translates the shim's log into the model's executed-operation list (killed / skipped records dropped).
func c12Ops(log []zzfs.Op) (ops []string, kinds []string) {
	for _, o := range log {
		res := "true"
		switch o.Result {
		case "done", "badwrite":
		case "injected", "failed":
			res = "false"
		default: // killed, skipped: not executed
			continue
		}
		nm := func(i int) string {
			if i < len(o.Args) {
				if s, ok := c12Name(o.Args[i]); ok {
					return s
				}
			}
			return ""
		}
		kinds = append(kinds, o.Kind+":"+o.Result)
		switch o.Kind {
		case "MkdirAll":
			ops = append(ops, "(OMkdirAll, "+res+")")
		case "CreateTemp":
			t := nm(2)
			if t == "" {
				t = nm(1) // failed: derive from the pattern
			}
			if t == "" {
				ops = append(ops, c12Unknown)
				continue
			}
			ops = append(ops, "(OCreateTmp "+t+", "+res+")")
			if o.Result == "done" {
				// Chmod/Write/Close are *os.File methods the shim cannot see; they are complete before the next
				// intercepted operation (Finish waits for all shard builders).
				ops = append(ops, "(OWrite "+t+" (Data GNew), true)")
			} else if o.Result == "badwrite" {
				ops = append(ops, "(OWrite "+t+" Partial, false)")
			}
		case "Rename":
			a, b := nm(0), nm(1)
			if a == "" || b == "" {
				ops = append(ops, c12Unknown)
				continue
			}
			ops = append(ops, "(ORename "+a+" "+b+", "+res+")")
		case "Remove":
			a := nm(0)
			if a == "" {
				ops = append(ops, c12Unknown)
				continue
			}
			ops = append(ops, "(ORemove "+a+", "+res+")")
		default:
			ops = append(ops, c12Unknown)
		}
	}
	return ops, kinds
}

type c12Obs struct {
	rows    []string // (slot, shard code, sidecar code)
	digest  string
	broken  []string
	hasRepo bool
}

// c12Observe loads dir like a searcher does and classifies every visible shard.
// oldIDs: IndexMetadata.ID of the builds that produced the old index; oldMeta: bytes of the old sidecars by base name.
func c12Observe(t *testing.T, dir string, oldIDs map[string]bool, oldMeta map[string]string) c12Obs {
	var o c12Obs
	fns, _ := filepath.Glob(filepath.Join(dir, "*.zoekt"))
	sort.Strings(fns)
	type row struct {
		slot    int
		sc, mc int
	}
	var rows []row
	for _, fn := range fns {
		nm, ok := c12Name(fn)
		if !ok || !strings.HasPrefix(nm, "(Shard") {
			continue
		}
		slot := 0
		if i := strings.Index(nm, "SReg "); i >= 0 {
			n, _ := strconv.Atoi(strings.TrimRight(nm[i+5:], ")"))
			slot = n + 1
		}
		sc := 0
		s, err := loadShard(fn)
		if err != nil {
			o.broken = append(o.broken, filepath.Base(fn)+": "+err.Error())
		} else {
			s.Close()
			_, md, err := index.ReadMetadataPath(fn)
			if err != nil {
				o.broken = append(o.broken, filepath.Base(fn)+": "+err.Error())
			} else if oldIDs[md.ID] {
				sc = 1
			} else {
				sc = 2
			}
		}
		mc := 0
		if mb, err := os.ReadFile(fn + ".meta"); err == nil && len(mb) > 0 {
			if oldMeta[filepath.Base(fn)] == string(mb) {
				mc = 1
			} else if json.Valid(mb) {
				mc = 2
			} else {
				mc = 3
			}
		}
		rows = append(rows, row{slot, sc, mc})
	}
	sort.Slice(rows, func(i, j int) bool { return rows[i].slot < rows[j].slot })
	for _, r := range rows {
		o.rows = append(o.rows, cTuple(cN(uint64(r.slot)), cN(uint64(r.sc)), cN(uint64(r.mc))))
	}
	// what a searcher answers
	ss, err := NewDirectorySearcher(dir)
	if err != nil {
		t.Fatal(err)
	}
	defer ss.Close()
	ctx := context.Background()
	var lines []string
	rl, err := ss.List(ctx, &query.Const{Value: true}, nil)
	if err != nil {
		t.Fatal(err)
	}
	for _, e := range rl.Repos {
		if e.Repository.Name == "r" {
			o.hasRepo = true
		}
		l := fmt.Sprintf("repo %s id=%d", e.Repository.Name, e.Repository.ID)
		for _, b := range e.Repository.Branches {
			l += " " + b.Name + "@" + b.Version
		}
		lines = append(lines, l)
	}
	sr, err := ss.Search(ctx, &query.Const{Value: true}, &zoekt.SearchOptions{Whole: true})
	if err != nil {
		t.Fatal(err)
	}
	for _, f := range sr.Files {
		bs := append([]string(nil), f.Branches...)
		sort.Strings(bs)
		lines = append(lines, fmt.Sprintf("file %s %s %q %v %s", f.Repository, f.FileName, f.Content, bs, f.Version))
	}
	sort.Strings(lines)
	// "repo" lines of a repository appear once per shard: keep multiplicity out of the digest only for identical lines
	uniq := lines[:0]
	for i, l := range lines {
		if i == 0 || l != lines[i-1] || strings.HasPrefix(l, "file ") {
			uniq = append(uniq, l)
		}
	}
	h := sha1.Sum([]byte(strings.Join(uniq, "\n")))
	o.digest = hex.EncodeToString(h[:])
	return o
}

type c12Template struct {
	dir     string
	oldIDs  map[string]bool
	oldMeta map[string]string
	nold    int
	oldmeta []int
	comp    bool
	cmeta   bool
	orph    []int
}

func c12MakeTemplate(t *testing.T, root string, sc c12Scenario) *c12Template {
	zzfs.Reset(zzfs.Plan{})
	tp := &c12Template{dir: filepath.Join(root, "template"), oldIDs: map[string]bool{}, oldMeta: map[string]string{}}
	if err := os.MkdirAll(tp.dir, 0o755); err != nil {
		t.Fatal(err)
	}
	if sc.Compound > 0 {
		// repository r (one shard) and a bystander, merged into a compound shard
		stage := filepath.Join(root, "stage")
		var files []index.IndexFile
		for _, rp := range []zoekt.Repository{{Name: "r", ID: 7, Branches: []zoekt.RepositoryBranch{{Name: "main", Version: "g0-main"}, {Name: "dev", Version: "g0-dev"}}},
			{Name: "other", ID: 8, Branches: []zoekt.RepositoryBranch{{Name: "main", Version: "x"}}}} {
			b, err := index.NewBuilder(index.Options{IndexDir: stage, DisableCTags: true, RepositoryDescription: rp})
			if err != nil {
				t.Fatal(err)
			}
			b.Add(index.Document{Name: "c-" + rp.Name + ".txt", Content: []byte("compound content of " + rp.Name), Branches: []string{"main"}})
			if err := b.Finish(); err != nil {
				t.Fatal(err)
			}
		}
		fns, _ := filepath.Glob(filepath.Join(stage, "*.zoekt"))
		for _, fn := range fns {
			f, err := os.Open(fn)
			if err != nil {
				t.Fatal(err)
			}
			inf, err := index.NewIndexFile(f)
			if err != nil {
				t.Fatal(err)
			}
			defer inf.Close()
			files = append(files, inf)
		}
		tmpN, dstN, err := index.Merge(tp.dir, files...)
		if err != nil {
			t.Fatal(err)
		}
		if err := os.Rename(tmpN, dstN); err != nil {
			t.Fatal(err)
		}
		tp.comp = true
		if sc.Compound == 2 {
			if err := index.SetTombstone(dstN, 8); err != nil {
				t.Fatal(err)
			}
			if err := index.UnsetTombstone(dstN, 8); err != nil {
				t.Fatal(err)
			}
			tp.cmeta = true
		}
		zzfs.Reset(zzfs.Plan{})
	}
	for _, b := range sc.Old {
		if err := c12Run(tp.dir, b); err != nil {
			t.Fatalf("old build: %v", err)
		}
	}
	zzfs.Reset(zzfs.Plan{})
	es, _ := os.ReadDir(tp.dir)
	for _, e := range es {
		fn := filepath.Join(tp.dir, e.Name())
		nm, ok := c12Name(fn)
		if !ok {
			t.Fatalf("unexpected file in template: %s", e.Name())
		}
		switch {
		case strings.HasPrefix(nm, "(Shard"):
			_, md, err := index.ReadMetadataPath(fn)
			if err != nil {
				t.Fatal(err)
			}
			tp.oldIDs[md.ID] = true
			if strings.Contains(nm, "SReg") {
				tp.nold++
			}
		case strings.HasPrefix(nm, "(Meta"):
			b, _ := os.ReadFile(fn)
			tp.oldMeta[strings.TrimSuffix(e.Name(), ".meta")] = string(b)
			if i := strings.Index(nm, "SReg "); i >= 0 {
				n, _ := strconv.Atoi(strings.TrimRight(nm[i+5:], ")"))
				tp.oldmeta = append(tp.oldmeta, n)
			}
		default:
			t.Fatalf("temp file left in template: %s", e.Name())
		}
	}
	for _, n := range sc.Orphan {
		if n < tp.nold {
			t.Fatalf("orphan sidecar at slot %d of an index with %d shards", n, tp.nold)
		}
		shard := filepath.Join(tp.dir, fmt.Sprintf("r_v16.%05d.zoekt", n))
		repo := &zoekt.Repository{Name: "r", ID: 7,
			Branches:       []zoekt.RepositoryBranch{{Name: "main", Version: "orphan-main"}, {Name: "dev", Version: "orphan-dev"}},
			FileTombstones: map[string]struct{}{"f0.txt": {}, "f1.txt": {}, "f2.txt": {}, "f3.txt": {}}}
		tmp, final, err := index.JsonMarshalRepoMetaTemp(shard, repo)
		if err != nil {
			t.Fatal(err)
		}
		if err := os.Rename(tmp, final); err != nil {
			t.Fatal(err)
		}
		b, _ := os.ReadFile(final)
		tp.oldMeta[filepath.Base(shard)] = string(b)
		tp.orph = append(tp.orph, n)
	}
	zzfs.Reset(zzfs.Plan{})
	return tp
}

type c12RunResult struct {
	log  []zzfs.Op
	err  error
	obs  c12Obs
	ops  []string
	kind []string
}

func c12Do(t *testing.T, root string, idx int, tp *c12Template, b c12Build, plan zzfs.Plan) c12RunResult {
	dir := filepath.Join(root, fmt.Sprintf("run%d", idx))
	c12CopyDir(t, tp.dir, dir)
	zzfs.Reset(plan)
	err := c12Run(dir, b)
	lg := zzfs.Log()
	zzfs.Reset(zzfs.Plan{})
	r := c12RunResult{log: lg, err: err}
	r.ops, r.kind = c12Ops(lg)
	r.obs = c12Observe(t, dir, tp.oldIDs, tp.oldMeta)
	os.RemoveAll(dir)
	return r
}

// TestVerifC12Child is the body of the sub-process runs: one real build that the zzfs shim kills with os.Exit(137)
// (ZZFS_PLAN kill_mode "exit") before its k-th mutation; the operation log survives in ZZFS_LOG.
func TestVerifC12Child(t *testing.T) {
	dir := os.Getenv("C12_CHILD_DIR")
	if dir == "" {
		t.Skip("helper of TestVerifC12")
	}
	var b c12Build
	if err := json.Unmarshal([]byte(os.Getenv("C12_CHILD_BUILD")), &b); err != nil {
		t.Fatal(err)
	}
	fmt.Println("C12CHILD-RESULT", c12Run(dir, b))
}

// c12DoExit = c12Do with a REAL kill: the build runs in a child process that dies at the kill point.
func c12DoExit(t *testing.T, root string, idx int, tp *c12Template, b c12Build, k int) c12RunResult {
	dir := filepath.Join(root, fmt.Sprintf("xrun%d", idx))
	c12CopyDir(t, tp.dir, dir)
	logf := dir + ".zzfslog"
	plan, _ := json.Marshal(zzfs.Plan{Kill: &zzfs.Sel{Seq: k}, KillMode: "exit"})
	bj, _ := json.Marshal(b)
	cmd := exec.Command(os.Args[0], "-test.run", "^TestVerifC12Child$")
	cmd.Env = append(os.Environ(), "C12_CHILD_DIR="+dir, "C12_CHILD_BUILD="+string(bj), "ZZFS_PLAN="+string(plan), "ZZFS_LOG="+logf, "VERIF_OUT="+os.DevNull)
	out, err := cmd.CombinedOutput()
	ee, ok := err.(*exec.ExitError)
	if !ok || ee.ExitCode() != 137 {
		t.Fatalf("child build was not killed at op %d: err=%v out=%s", k, err, out)
	}
	var lg []zzfs.Op
	if lb, err := os.ReadFile(logf); err == nil {
		for _, l := range strings.Split(string(lb), "\n") {
			var o zzfs.Op
			if l != "" && json.Unmarshal([]byte(l), &o) == nil {
				lg = append(lg, o)
			}
		}
	}
	r := c12RunResult{log: lg}
	r.ops, r.kind = c12Ops(lg)
	r.obs = c12Observe(t, dir, tp.oldIDs, tp.oldMeta)
	os.RemoveAll(dir)
	os.Remove(logf)
	return r
}

// c12Window classifies where in Finish's install sequence a run stopped, from its own executed log.
func c12Window(r c12RunResult, nArtifacts int, refDeletes int) string {
	ren, del := 0, 0
	interleaved := false
	for _, o := range r.log {
		if o.Result != "done" {
			continue
		}
		switch o.Kind {
		case "CreateTemp":
			if ren > 0 && !strings.Contains(o.Args[1], "compound-") {
				interleaved = true // an artifact's temp file is created after an install rename: not the rename loop of Finish
			}
		case "Rename":
			if strings.HasSuffix(o.Args[1], ".zoekt") || (strings.HasSuffix(o.Args[1], ".meta") && !strings.Contains(o.Args[1], "compound-")) {
				ren++
			} else if strings.HasSuffix(o.Args[1], ".meta") {
				del++ // SetTombstone's rename belongs to the toDelete loop
			}
		case "Remove":
			if !strings.HasSuffix(o.Args[0], ".tmp") {
				del++
			}
		}
	}
	switch {
	case interleaved:
		return "install-interleaved-with-writes"
	case ren == 0:
		return "before-first-rename"
	case ren < nArtifacts:
		return "rename-loop-window"
	case del < refDeletes:
		return "delete-loop-window"
	}
	return "after-install"
}

func c12GenScenarios(r *vfRand, n int) []c12Scenario {
	doc := func(gen, i int) c12Doc {
		br := [][]string{{"main"}, {"main", "dev"}, {"dev"}}[(gen+i)%3]
		return c12Doc{Name: fmt.Sprintf("f%d.txt", i), Content: fmt.Sprintf("generation %d of file %d\nline two\n", gen, i), Branches: br}
	}
	full := func(gen, m, par int) c12Build {
		b := c12Build{Gen: gen, Par: par}
		for i := 0; i < m; i++ {
			b.Docs = append(b.Docs, doc(gen, i))
		}
		return b
	}
	delta := func(gen int, changed []int, removed []int, par int) c12Build {
		b := c12Build{Gen: gen, Par: par, Delta: true}
		for _, i := range changed {
			b.Docs = append(b.Docs, doc(gen, i))
			b.Changed = append(b.Changed, fmt.Sprintf("f%d.txt", i))
		}
		for _, i := range removed {
			b.Changed = append(b.Changed, fmt.Sprintf("f%d.txt", i))
		}
		return b
	}
	var out []c12Scenario
	fullOver := func(o, m int) c12Scenario {
		sc := c12Scenario{New: full(9, m, 1)}
		if o > 0 {
			sc.Old = []c12Build{full(1, o, 1)}
		}
		return sc
	}
	withOrphan := func(sc c12Scenario, slots ...int) c12Scenario {
		sc.Orphan = slots
		return sc
	}
	// systematic core; the first 14 are what the quick tier runs
	out = append(out,
		fullOver(1, 1), fullOver(2, 2), fullOver(3, 1), fullOver(0, 2), withOrphan(fullOver(1, 3), 1, 2, 5),
		c12Scenario{Old: []c12Build{full(1, 1, 1)}, New: delta(9, []int{0}, nil, 1)},
		c12Scenario{Old: []c12Build{full(1, 2, 1)}, New: delta(9, []int{0, 1}, nil, 1)},
		c12Scenario{Old: []c12Build{full(1, 2, 1)}, New: delta(9, nil, []int{0}, 1)},
		c12Scenario{Old: []c12Build{full(1, 2, 1), delta(2, []int{1}, nil, 1)}, New: delta(9, []int{0}, []int{1}, 1)},
		c12Scenario{Old: []c12Build{full(1, 1, 1), delta(2, []int{0}, nil, 1)}, New: full(9, 1, 1)},
		c12Scenario{Old: []c12Build{full(1, 2, 1), delta(2, []int{1}, nil, 1)}, New: full(9, 2, 3)},
		c12Scenario{Compound: 1, New: c12Build{Gen: 9, Par: 1, Merging: true, Docs: []c12Doc{doc(9, 0)}}},
		c12Scenario{Compound: 2, New: c12Build{Gen: 9, Par: 1, Merging: true, Docs: []c12Doc{doc(9, 0), doc(9, 1)}}},
		withOrphan(c12Scenario{Old: []c12Build{full(1, 1, 1)}, New: delta(9, []int{0}, nil, 1)}, 1),
	)
	out = append(out, c12Scenario{Old: []c12Build{full(1, 2, 1)}, New: full(9, 2, 3)}, withOrphan(fullOver(0, 2), 0, 1), withOrphan(fullOver(2, 3), 2),
		withOrphan(c12Scenario{Old: []c12Build{full(1, 2, 1), delta(2, []int{1}, nil, 1)}, New: delta(9, []int{0}, []int{1}, 1)}, 3, 4))
	for o := 0; o <= 3; o++ {
		for m := 1; m <= 3; m++ {
			out = append(out, fullOver(o, m))
		}
	}
	out = append(out,
		c12Scenario{Old: []c12Build{full(1, 2, 1)}, New: delta(9, []int{1}, nil, 1)},
		c12Scenario{Old: []c12Build{full(1, 2, 1), delta(2, []int{1}, nil, 1)}, New: full(9, 3, 3)},
	)
	// random ones
	for len(out) < n {
		var sc c12Scenario
		par := 1
		if r.Chance(30) {
			par = 3
		}
		switch r.Intn(10) {
		case 0, 1:
			sc.Compound = 1 + r.Intn(2)
			sc.New = full(9, 1+r.Intn(3), par)
			sc.New.Merging = true
		default:
			o := r.Intn(4)
			nOld := o
			if o > 0 {
				sc.Old = []c12Build{full(1, o, 1)}
				nd := r.Intn(3)
				for d := 0; d < nd; d++ {
					var ch, rm []int
					for i := 0; i < o; i++ {
						switch r.Intn(4) {
						case 0:
							ch = append(ch, i)
						case 1:
							rm = append(rm, i)
						}
					}
					sc.Old = append(sc.Old, delta(2+d, ch, rm, 1))
					nOld += len(ch)
				}
			}
			if o > 0 && r.Chance(45) {
				var ch, rm []int
				for i := 0; i < o+1; i++ {
					switch r.Intn(3) {
					case 0:
						ch = append(ch, i)
					case 1:
						rm = append(rm, i)
					}
				}
				sc.New = delta(9, ch, rm, par)
			} else {
				sc.New = full(9, 1+r.Intn(3), par)
				sc.New.Merging = r.Chance(20)
			}
			if r.Chance(25) {
				sc.Orphan = []int{nOld + r.Intn(3)}
				if r.Chance(40) {
					sc.Orphan = append(sc.Orphan, sc.Orphan[0]+1)
				}
			}
		}
		out = append(out, sc)
	}
	return out
}

func TestVerifC12(t *testing.T) {
	r := vfNewRand(vfSeed())
	n := vfN(30)
	// every shard builder allocates two postingsBuilders with 16 MiB pointer tables: with the default GOGC the
	// collector rescans them after almost every build (75% of the run time); trade memory for time.
	defer debug.SetGCPercent(debug.SetGCPercent(1000))
	root, err := os.MkdirTemp(os.Getenv("VERIF_TMP"), "c12-")
	if err != nil {
		t.Fatal(err)
	}
	defer os.RemoveAll(root)
	scs := c12GenScenarios(r, n)
	if len(scs) > n {
		scs = scs[:n]
	}
	seen := map[string]bool{}
	for si, sc := range scs {
		sroot := filepath.Join(root, fmt.Sprintf("s%d", si))
		tp := c12MakeTemplate(t, sroot, sc)
		oldObs := c12Observe(t, tp.dir, tp.oldIDs, tp.oldMeta)
		nnew := len(sc.New.Docs)
		if !sc.New.Delta && nnew == 0 {
			nnew = 1
		}
		if sc.New.Delta && tp.nold == 0 {
			continue
		}
		om := "(@nil nat)"
		if len(tp.oldmeta) > 0 {
			sort.Ints(tp.oldmeta)
			om = cNatList(tp.oldmeta)
		}
		orph := "(@nil nat)"
		if len(tp.orph) > 0 {
			orph = cNatList(tp.orph)
		}
		build := fmt.Sprintf("(mkBuild %s %d %s %d %s %s %s)", cBool(sc.New.Delta), tp.nold, om, nnew, cBool(tp.comp), cBool(tp.cmeta), cBool(sc.New.Merging))
		nArtifacts := nnew
		if sc.New.Delta {
			nArtifacts += tp.nold
		}
		scJSON, _ := json.Marshal(sc)
		// ---- reference run
		ref := c12Do(t, sroot, 0, tp, sc.New, zzfs.Plan{})
		if ref.err != nil {
			vfOracleFail("reference-build-failed", "an undisturbed build returns an error: "+ref.err.Error(), map[string]any{"scenario": sc})
			continue
		}
		refDel := 0
		for _, o := range ref.log {
			if o.Kind == "Remove" && !strings.HasSuffix(o.Args[0], ".tmp") {
				refDel++
			}
			if o.Kind == "Rename" && len(o.Args) > 1 && strings.Contains(o.Args[1], "compound-") {
				refDel++
			}
		}
		L := len(ref.log)
		emit := func(kind string, k int, rr c12RunResult, killed bool) {
			rows := "[]"
			if len(rr.obs.rows) > 0 {
				rows = cList(rr.obs.rows)
			}
			ops := "[]"
			if len(rr.ops) > 0 {
				ops = cList(rr.ops)
			}
			coq := cTuple(build, orph, ops, cBool(killed), cBool(rr.err != nil), rows)
			key := vfKey(build, orph, ops, killed, rr.err != nil, rows)
			nontrivial := !seen[key] && (killed || kind != "ref")
			seen[key] = true
			win := c12Window(rr, nArtifacts, refDel)
			class := []string{"run=" + kind, "window=" + win, fmt.Sprintf("old=%d/meta=%d/comp=%v", tp.nold, len(tp.oldmeta), tp.comp), fmt.Sprintf("new=%d/delta=%v", nnew, sc.New.Delta), fmt.Sprintf("orphan-sidecars=%d", len(tp.orph))}
			vfCase(coq, key, nontrivial, class, map[string]any{"scenario": string(scJSON), "run": kind, "k": k, "ops": rr.kind, "view": rr.obs.rows, "err": fmt.Sprint(rr.err)})
		}
		emit("ref", L, ref, false)
		// the undisturbed run must leave nothing of the old index behind (full build) / exactly old shards under new sidecars (delta)
		for _, row := range ref.obs.rows {
			var slot, scode, mcode int
			fmt.Sscanf(strings.NewReplacer("%N", "", "(", "", ")", "", ",", " ").Replace(row), "%d %d %d", &slot, &scode, &mcode)
			if slot == 0 {
				continue
			}
			stale := (!sc.New.Delta && (scode != 2 || mcode != 0)) || (sc.New.Delta && !((scode == 1 && mcode == 2) || (scode == 2 && mcode == 0)))
			if stale && len(tp.orph) > 0 && slot-1 >= tp.nold && mcode == 1 {
				vfOracleFail("success-incomplete:orphan-sidecar-adopted", "an undisturbed successful build leaves its new shard under a left-over .meta of an earlier killed run (stale file tombstones / branch versions in effect): row "+row,
					map[string]any{"scenario": sc, "view_rows(slot,shard,sidecar)": ref.obs.rows, "old_view": oldObs.rows})
			} else if stale {
				vfOracleFail("complete-run-leaves-stale-files", "after an undisturbed successful build an old shard or old sidecar is still in effect: row "+row,
					map[string]any{"scenario": sc, "view_rows(slot,shard,sidecar)": ref.obs.rows, "old_view": oldObs.rows})
			}
		}
		newDigest := ref.obs.digest
		replay := func(kind string, k int, rr c12RunResult) map[string]any {
			return map[string]any{"scenario": sc, "run": kind, "op_index": k, "executed_ops": rr.kind, "view_rows(slot,shard,sidecar)": rr.obs.rows,
				"old_view": oldObs.rows, "new_view": ref.obs.rows, "broken": rr.obs.broken, "finish_error": fmt.Sprint(rr.err),
				"how": "props/C12/NOTES.md (replay): build the old index, run the new build under translator/fsinstrument with ZZFS_PLAN kill/fail at op_index, load the directory"}
		}
		// ---- kill before every mutation: in-process freeze (all scenarios) and a real os.Exit kill of a child process
		// (first scenarios in the quick tier, all in thorough)
		exitKill := si < 2 || vfTier() == "thorough"
		for k := 0; k < L; k++ {
			runs := []c12RunResult{c12Do(t, sroot, 1+k, tp, sc.New, zzfs.Plan{Kill: &zzfs.Sel{Seq: k}, KillMode: "freeze"})}
			kinds := []string{"kill"}
			if exitKill {
				runs = append(runs, c12DoExit(t, sroot, 1+k, tp, sc.New, k))
				kinds = append(kinds, "kill-exit")
			}
			for ri, rr := range runs {
				emit(kinds[ri], k, rr, true)
				win := c12Window(rr, nArtifacts, refDel)
				if len(rr.obs.broken) > 0 {
					vfOracleFail("truncated-or-unloadable-shard-visible:"+win, "after a kill a visible *.zoekt does not load: "+strings.Join(rr.obs.broken, "; "), replay(kinds[ri], k, rr))
				}
				if oldObs.hasRepo && !rr.obs.hasRepo {
					vfOracleFail("repo-missing:"+win, "after a kill the repository is not served at all although it was indexed before", replay(kinds[ri], k, rr))
				} else if rr.obs.digest != oldObs.digest && rr.obs.digest != newDigest {
					vfOracleFail("mix:"+win, "after a kill the searcher sees neither the old nor the new index ("+win+")", replay(kinds[ri], k, rr))
				}
			}
		}
		// ---- every single mutation failing
		for j := 0; j < L; j++ {
			modes := []string{"fail"}
			for mi := 0; mi < len(modes); mi++ {
				m := modes[mi]
				rr := c12Do(t, sroot, 1+L+j, tp, sc.New, zzfs.Plan{Fail: []zzfs.Sel{{Seq: j, Mode: m}}})
				emit("fail", j, rr, false)
				failed := "?"
				for _, o := range rr.log {
					if o.Result == "injected" || o.Result == "badwrite" {
						failed = o.Kind
						if o.Kind == "Rename" && len(o.Args) > 1 && strings.Contains(o.Args[1], "compound-") {
							failed = "Rename(SetTombstone)"
						}
					}
				}
				if failed == "CreateTemp" && m == "fail" {
					modes = append(modes, "badwrite")
				}
				if rr.err == nil && rr.obs.digest != newDigest {
					vfOracleFail("success-incomplete:"+failed, "Finish reported success after a failed "+failed+" but the installed index is not the complete new one", replay("fail/"+m, j, rr))
				}
				if len(rr.obs.broken) > 0 {
					vfOracleFail("truncated-or-unloadable-shard-visible:fault", "after a failed operation a visible *.zoekt does not load: "+strings.Join(rr.obs.broken, "; "), replay("fail/"+m, j, rr))
				}
				// a failing operation must not make a repository that was indexed before disappear (the run reports the
				// error, but nothing would serve the repository until the next successful run)
				if oldObs.hasRepo && !rr.obs.hasRepo {
					vfOracleFail("repo-missing:fault:"+failed, "after a failed "+failed+" the repository is not served at all although it was indexed before (Finish error: "+fmt.Sprint(rr.err)+")", replay("fail/"+m, j, rr))
				}
				// ---- crash prefixes of the FAULTY run: the fault at j, then a kill before a later operation. Only faults of the
				// install phase (renames / removals / SetTombstone steps) change what later operations do.
				if m != "fail" || !(failed == "Rename" || failed == "Rename(SetTombstone)" || (failed == "Remove" && j < len(rr.log) && len(rr.log[j].Args) > 0 && !strings.HasSuffix(rr.log[j].Args[0], ".tmp")) || (failed == "CreateTemp" && j < len(rr.log) && strings.Contains(strings.Join(rr.log[j].Args, " "), "compound-"))) {
					continue
				}
				Lf := len(rr.log)
				var ks []int
				for k := j + 1; k < Lf; k++ {
					ks = append(ks, k)
				}
				if vfTier() != "thorough" && len(ks) > 1 {
					ks = []int{ks[r.Intn(len(ks))]}
				}
				for _, k := range ks {
					fk := c12Do(t, sroot, 1+2*L+j*(L+2)+k, tp, sc.New, zzfs.Plan{Fail: []zzfs.Sel{{Seq: j, Mode: "fail"}}, Kill: &zzfs.Sel{Seq: k}, KillMode: "freeze"})
					emit("fail+kill", k, fk, true)
					if len(fk.obs.broken) > 0 {
						vfOracleFail("truncated-or-unloadable-shard-visible:fault+kill", "after a failed "+failed+" and a kill a visible *.zoekt does not load: "+strings.Join(fk.obs.broken, "; "), replay("fail+kill", k, fk))
					}
					if oldObs.hasRepo && !fk.obs.hasRepo {
						vfOracleFail("repo-missing:fault+kill:"+failed, "after a failed "+failed+" and a kill the repository is not served at all although it was indexed before", replay(fmt.Sprintf("fail@%d+kill", j), k, fk))
					}
				}
			}
		}
		os.RemoveAll(sroot)
	}
}
