package server

// C25 correspondence + oracle: event sequences are pushed by a fake zoekt.Streamer through the real
// Server.StreamSearch (samplingSender -> gRPCChunkSender -> chunk.SendAll, Flush on success) into a
// recording stream. Mapped into /repo/cmd/zoekt-webserver/grpc/server by `go test -overlay`.

import (
	"context"
	"fmt"
	"math"
	"os"
	"reflect"
	"strconv"
	"strings"
	"testing"
	"time"

	"google.golang.org/grpc"
	"google.golang.org/protobuf/proto"

	"github.com/sourcegraph/zoekt"
	webserverv1 "github.com/sourcegraph/zoekt/grpc/protos/zoekt/webserver/v1"
	"github.com/sourcegraph/zoekt/query"
)

// grpc/chunk.maxMessageSize (unexported) of the checked tree, read by harness/overlay/chunk/zz_verif_c25_const_test.go
// and handed over by prop.py; the fallback is only used when the test is run by hand.
var vfC25MaxMessageSize = func() int {
	if v, err := strconv.Atoi(os.Getenv("VERIF_C25_MAX")); err == nil && v > 0 {
		return v
	}
	return 1 << 20
}()

type vfC25Stream struct {
	grpc.ServerStream
	msgs []*webserverv1.StreamSearchResponse
}

func (s *vfC25Stream) Send(m *webserverv1.StreamSearchResponse) error {
	s.msgs = append(s.msgs, proto.Clone(m).(*webserverv1.StreamSearchResponse))
	return nil
}
func (s *vfC25Stream) Context() context.Context { return context.Background() }

type vfC25Streamer struct{ events []*zoekt.SearchResult }

func (f *vfC25Streamer) Search(ctx context.Context, q query.Q, opts *zoekt.SearchOptions) (*zoekt.SearchResult, error) {
	return &zoekt.SearchResult{}, nil
}
func (f *vfC25Streamer) List(ctx context.Context, q query.Q, opts *zoekt.ListOptions) (*zoekt.RepoList, error) {
	return &zoekt.RepoList{}, nil
}
func (f *vfC25Streamer) Close()         {}
func (f *vfC25Streamer) String() string { return "vfC25Streamer" }
func (f *vfC25Streamer) StreamSearch(ctx context.Context, q query.Q, opts *zoekt.SearchOptions, sender zoekt.Sender) error {
	for _, e := range f.events {
		sender.Send(e)
	}
	return nil
}

// the counters: every int/int64/Duration field of zoekt.Stats except Duration (not summed by Stats.Add) and
// FlushReason (sticky), enumerated by reflection (struct order) so that a counter added to the struct is covered
// automatically; prop.py compares this list with the fields that Stats.Add sums (translator/statsfields), and
// Props/C25.v proves about those generated lists that Stats.Zero tests exactly the summed fields
func vfC25CounterFields() []int {
	var idx []int
	t := reflect.TypeOf(zoekt.Stats{})
	for i := 0; i < t.NumField(); i++ {
		f := t.Field(i)
		if f.Name == "Duration" || f.Name == "FlushReason" {
			continue
		}
		switch f.Type.Kind() {
		case reflect.Int, reflect.Int64, reflect.Int32, reflect.Uint64, reflect.Uint32:
			idx = append(idx, i)
		}
	}
	return idx
}

func vfC25Counters(s zoekt.Stats, fields []int) []int64 {
	v := reflect.ValueOf(s)
	out := make([]int64, len(fields))
	for k, i := range fields {
		out[k] = v.Field(i).Int()
	}
	return out
}

func vfC25StatsTerm(s zoekt.Stats, fields []int) string {
	cs := vfC25Counters(s, fields)
	xs := make([]string, len(cs))
	for i, c := range cs {
		xs[i] = strconv.FormatInt(c, 10)
	}
	return fmt.Sprintf("(mkstats [%s]%%Z %s %s)", strings.Join(xs, ";"), cZ(int64(s.Duration)), cN(uint64(s.FlushReason)))
}

func vfC25Pri(f float64) string {
	if math.IsInf(f, -1) {
		return "None"
	}
	return cSome(cZ(int64(f)))
}

func vfC25Files(ids []uint64, sizes []uint64) string {
	if len(ids) == 0 {
		return "(@nil file)"
	}
	xs := make([]string, len(ids))
	for i := range ids {
		xs[i] = cTuple(cN(ids[i]), cN(sizes[i]))
	}
	return cList(xs)
}

func vfC25GenStats(r *vfRand, fields []int, zero bool) zoekt.Stats {
	var s zoekt.Stats
	v := reflect.ValueOf(&s).Elem()
	if !zero {
		for _, i := range fields {
			switch r.Intn(4) {
			case 0:
			case 1:
				v.Field(i).SetInt(1)
			default:
				v.Field(i).SetInt(int64(r.Intn(1000)))
			}
		}
	}
	if r.Chance(50) {
		s.Duration = time.Duration(r.Intn(5000)) * time.Microsecond
	}
	if r.Chance(25) {
		s.FlushReason = []zoekt.FlushReason{zoekt.FlushReasonTimerExpired, zoekt.FlushReasonFinalFlush, zoekt.FlushReasonMaxSize}[r.Intn(3)]
	}
	return s
}

func vfC25GenPri(r *vfRand) float64 {
	if r.Chance(10) {
		return math.Inf(-1)
	}
	return float64(r.Intn(21) - 5)
}

func TestVerifC25(t *testing.T) {
	r := vfNewRand(vfSeed())
	n := vfN(200)
	fields := vfC25CounterFields()
	names := make([]string, len(fields))
	for k, i := range fields {
		names[k] = reflect.TypeOf(zoekt.Stats{}).Field(i).Name
	}
	vfInfo(map[string]any{"counters": names, "maxMessageSize": vfC25MaxMessageSize})
	qp := query.QToProto(&query.Const{Value: true})
	big := make([]byte, 1300<<10)
	for i := range big {
		big[i] = byte('a' + i%23)
	}
	for ci := 0; ci < n; ci++ {
		// ---- generate an event sequence
		// Every second case is a ONE-HOT case: stats-only runs in which exactly one counter field is non-zero.
		// The field and the sub-shape are not drawn at random but cycle with the case index (field = k mod #fields,
		// sub-shape = (k div #fields) mod 5, first round = tail), so that every counter of zoekt.Stats gets a one-hot
		// run that only Flush can deliver within the first 2*#fields cases, and the sub-shapes tail / minimal / period /
		// then-file within 8*#fields (= 144 < the 160 cases of the quick tier for the 18 counters of today).
		shape := r.Intn(7)
		onehot, ohShape := -1, ""
		if ci%2 == 1 && len(fields) > 0 {
			k := ci / 2
			onehot = k % len(fields)
			ohShape = []string{"onehot-tail", "onehot-minimal", "onehot-period", "onehot-then-file", "onehot-whole"}[(k/len(fields))%5]
			shape = 7
		}
		nev := 1 + r.Intn(8)
		var events []*zoekt.SearchResult
		nextID := uint64(1)
		// a run of k stats-only events in which only counter field `onehot` is non-zero (1 or a random value; with
		// `gaps` some events of the run are all-zero). Duration / FlushReason (not looked at by Stats.Zero) stay random.
		addOneHotRun := func(k int, gaps bool) {
			minimal := k == 1 && r.Chance(60) // the smallest non-zero aggregate: a single event with value 1
			for j := 0; j < k; j++ {
				s := vfC25GenStats(r, fields, true)
				if !(gaps && j > 0 && r.Chance(30)) {
					val := int64(1)
					if !minimal && r.Bool() {
						val = int64(1 + r.Intn(1000))
					}
					reflect.ValueOf(&s).Elem().Field(fields[onehot]).SetInt(val)
				}
				events = append(events, &zoekt.SearchResult{
					Stats:    s,
					Progress: zoekt.Progress{Priority: vfC25GenPri(r), MaxPendingPriority: vfC25GenPri(r)},
				})
			}
		}
		addStatsRun := func(k int, zeroChance int) {
			for j := 0; j < k; j++ {
				events = append(events, &zoekt.SearchResult{
					Stats:    vfC25GenStats(r, fields, r.Chance(zeroChance)),
					Progress: zoekt.Progress{Priority: vfC25GenPri(r), MaxPendingPriority: vfC25GenPri(r)},
				})
			}
		}
		addFiles := func(huge bool) {
			nf := 1 + r.Intn(5)
			var fs []zoekt.FileMatch
			for j := 0; j < nf; j++ {
				sz := r.Intn(200)
				if huge {
					switch r.Intn(5) {
					case 0:
						sz = 1100<<10 + r.Intn(1000) // a single file above the budget
					case 1, 2:
						sz = 300<<10 + r.Intn(300<<10)
					case 3:
						sz = 520<<10 + r.Intn(8<<10) // two of these straddle the 1 MiB boundary
					}
				}
				fs = append(fs, zoekt.FileMatch{FileName: strconv.FormatUint(nextID, 10), Repository: "r", Content: big[:sz], Score: float64(r.Intn(10))})
				nextID++
			}
			events = append(events, &zoekt.SearchResult{
				Files:    fs,
				Stats:    vfC25GenStats(r, fields, r.Chance(20)),
				Progress: zoekt.Progress{Priority: vfC25GenPri(r), MaxPendingPriority: vfC25GenPri(r)},
			})
		}
		switch shape {
		case 0: // mixed short sequence
			for j := 0; j < nev; j++ {
				if r.Chance(50) {
					addStatsRun(1, 30)
				} else {
					addFiles(r.Chance(30))
				}
			}
		case 1: // stats-only run around the sampling period, then maybe files
			addStatsRun(95+r.Intn(12), 20)
			if r.Bool() {
				addFiles(false)
			}
			addStatsRun(r.Intn(4), 20)
		case 2: // long runs crossing several periods, with all-zero stretches
			addStatsRun(r.Intn(3), 0)
			addStatsRun(99+r.Intn(3), 100)
			addStatsRun(r.Intn(120), 50)
			if r.Bool() {
				addFiles(r.Chance(30))
			}
			addStatsRun(r.Intn(210), 10)
		case 3: // chunking: huge files
			for j := 0; j < 1+r.Intn(3); j++ {
				addFiles(true)
				addStatsRun(r.Intn(3), 30)
			}
		case 6: // exact boundary: two files whose proto sizes sum to maxMessageSize-1 / +0 / +1
			mk := func(id uint64, n int) zoekt.FileMatch {
				return zoekt.FileMatch{FileName: strconv.FormatUint(id, 10), Repository: "r", Content: big[:n]}
			}
			half := vfC25MaxMessageSize/2 - 100 + r.Intn(50)
			f1 := mk(nextID, half)
			nextID++
			target := vfC25MaxMessageSize + r.Intn(3) - 1 - proto.Size(f1.ToProto())
			n2 := target - 30
			f2 := mk(nextID, n2)
			for it := 0; it < 6 && proto.Size(f2.ToProto()) != target; it++ {
				n2 += target - proto.Size(f2.ToProto())
				f2 = mk(nextID, n2)
			}
			nextID++
			fs := []zoekt.FileMatch{f1, f2}
			if r.Bool() {
				fs = append(fs, mk(nextID, r.Intn(100)))
				nextID++
			}
			events = append(events, &zoekt.SearchResult{Files: fs, Stats: vfC25GenStats(r, fields, false),
				Progress: zoekt.Progress{Priority: vfC25GenPri(r), MaxPendingPriority: vfC25GenPri(r)}})
			addStatsRun(r.Intn(3), 30)
		case 4: // nothing but zero stats / empty
			addStatsRun(r.Intn(150), 100)
		case 7: // one-hot runs (see above)
			// optional prefix that ends with a file event, which drains whatever the sampler has aggregated
			prefix := func() {
				if r.Chance(60) {
					addStatsRun(r.Intn(3), 30)
					addFiles(false)
				}
			}
			switch ohShape {
			case "onehot-tail": // the run ends the stream: only Flush can deliver it
				prefix()
				if r.Chance(30) {
					addOneHotRun(1, false)
				} else {
					addOneHotRun(1+r.Intn(5), true)
				}
			case "onehot-minimal": // the smallest non-zero aggregate: the stream is ONE event with value 1 in one counter
				var s zoekt.Stats
				reflect.ValueOf(&s).Elem().Field(fields[onehot]).SetInt(1)
				events = append(events, &zoekt.SearchResult{Stats: s, Progress: zoekt.Progress{Priority: vfC25GenPri(r), MaxPendingPriority: vfC25GenPri(r)}})
			case "onehot-whole": // the run is the whole stream
				if r.Chance(40) {
					addOneHotRun(1+r.Intn(250), true)
				} else {
					addOneHotRun(1+r.Intn(4), false)
				}
			case "onehot-period": // the every-100th sampling point
				prefix()
				if onehot%3 == 1 {
					// all-zero events up to the 99th stats-only event, so that the 100th is the FIRST non-zero one:
					// the aggregate is empty before it and must be sent because of it
					nso := 0
					for _, e := range events {
						if len(e.Files) == 0 {
							nso++
						}
					}
					addStatsRun(99-nso%100, 100)
					addOneHotRun(1+r.Intn(3), false)
				} else {
					addOneHotRun(99+r.Intn(3), r.Bool()) // 99 / 100 / 101 one-hot events
				}
				if r.Chance(30) {
					addFiles(false)
				}
			default: // "onehot-then-file": the run is merged into the next file event
				prefix()
				addOneHotRun(1+r.Intn(4), true)
				events = append(events, &zoekt.SearchResult{
					Files:    []zoekt.FileMatch{{FileName: strconv.FormatUint(nextID, 10), Repository: "r", Content: big[:r.Intn(200)]}},
					Stats:    vfC25GenStats(r, fields, r.Chance(60)),
					Progress: zoekt.Progress{Priority: vfC25GenPri(r), MaxPendingPriority: vfC25GenPri(r)},
				})
				nextID++
				addStatsRun(r.Intn(3), 100)
			}
		default:
			addStatsRun(r.Intn(3), 10)
			addFiles(r.Chance(50))
			addStatsRun(99+r.Intn(3), 10)
			addFiles(r.Chance(50))
		}
		// ---- snapshot the inputs (the sampler mutates events in place)
		type evSnap struct {
			ids, sizes []uint64
			stats      zoekt.Stats
			prio, maxp float64
		}
		var snaps []evSnap
		var evTerms []string
		nStatsOnly, nHuge := 0, 0
		for _, e := range events {
			sn := evSnap{stats: e.Stats, prio: e.Progress.Priority, maxp: e.Progress.MaxPendingPriority}
			for i := range e.Files {
				id, _ := strconv.ParseUint(e.Files[i].FileName, 10, 64)
				sz := uint64(proto.Size(e.Files[i].ToProto()))
				if sz >= uint64(vfC25MaxMessageSize) {
					nHuge++
				}
				sn.ids = append(sn.ids, id)
				sn.sizes = append(sn.sizes, sz)
			}
			if len(e.Files) == 0 {
				nStatsOnly++
			}
			snaps = append(snaps, sn)
			evTerms = append(evTerms, fmt.Sprintf("(mkev %s %s %s %s)", vfC25Files(sn.ids, sn.sizes), vfC25StatsTerm(sn.stats, fields), vfC25Pri(sn.prio), vfC25Pri(sn.maxp)))
		}
		// ---- run the real path
		rec := &vfC25Stream{}
		srv := NewServer(&vfC25Streamer{events: events})
		err := srv.StreamSearch(&webserverv1.StreamSearchRequest{Request: &webserverv1.SearchRequest{Query: qp}}, rec)
		if err != nil {
			t.Fatalf("StreamSearch: %v", err)
		}
		// ---- observe
		var msgTerms []string
		var gotIDs, wantIDs []uint64
		sumGot := make([]int64, len(fields))
		sumWant := make([]int64, len(fields))
		for _, sn := range snaps {
			wantIDs = append(wantIDs, sn.ids...)
			for k, c := range vfC25Counters(sn.stats, fields) {
				sumWant[k] += c
			}
		}
		replay := func() map[string]any {
			var evs []map[string]any
			for _, sn := range snaps {
				evs = append(evs, map[string]any{"files": sn.ids, "sizes": sn.sizes, "counters": vfC25Counters(sn.stats, fields), "flush_reason": int(sn.stats.FlushReason), "priority": fmt.Sprint(sn.prio), "max_pending": fmt.Sprint(sn.maxp)})
			}
			rp := map[string]any{"events": evs, "counters": names, "messages": len(rec.msgs), "case_index": ci}
			if onehot >= 0 {
				rp["shape"] = ohShape
				rp["onehot"] = names[onehot]
			}
			return rp
		}
		budgetFail := false
		nBoundary := 0
		for _, m := range rec.msgs {
			c := m.GetResponseChunk()
			var ids, sizes []uint64
			total := 0
			for _, f := range c.GetFiles() {
				id, _ := strconv.ParseUint(string(f.GetFileName()), 10, 64)
				ids = append(ids, id)
				sz := proto.Size(f)
				sizes = append(sizes, uint64(sz))
				total += sz
			}
			gotIDs = append(gotIDs, ids...)
			if total == vfC25MaxMessageSize-1 || total == vfC25MaxMessageSize {
				nBoundary++
			}
			if total >= vfC25MaxMessageSize && len(ids) > 1 {
				budgetFail = true
			}
			st := "None"
			if c.GetStats() != nil {
				zs := zoekt.StatsFromProto(c.GetStats())
				for k, x := range vfC25Counters(zs, fields) {
					sumGot[k] += x
				}
				st = cSome(vfC25StatsTerm(zs, fields))
			}
			msgTerms = append(msgTerms, fmt.Sprintf("(mkmsg %s %s %s %s)", vfC25Files(ids, sizes), st, vfC25Pri(c.GetProgress().GetPriority()), vfC25Pri(c.GetProgress().GetMaxPendingPriority())))
		}
		// ---- Go-side oracle: the property itself
		if fmt.Sprint(gotIDs) != fmt.Sprint(wantIDs) {
			rp := replay()
			rp["delivered_files"] = gotIDs
			vfOracleFail("files:not-exactly-once-in-order", "the files delivered to the client differ from the files produced (exactly once, in order)", rp)
		}
		for k := range fields {
			if sumGot[k] != sumWant[k] {
				rp := replay()
				rp["counter"] = names[k]
				rp["delivered_sum"] = sumGot[k]
				rp["produced_sum"] = sumWant[k]
				vfOracleFail("stats:not-conserved:"+names[k], fmt.Sprintf("counter %s: sum over delivered messages %d != sum over produced results %d", names[k], sumGot[k], sumWant[k]), rp)
				break
			}
		}
		if budgetFail {
			vfOracleFail("chunk:over-budget", "a message with more than one file reaches maxMessageSize", replay())
		}
		// ---- correspondence record
		evl, ml := "(@nil event)", "(@nil msg)"
		if len(evTerms) > 0 {
			evl = cList(evTerms)
		}
		if len(msgTerms) > 0 {
			ml = cList(msgTerms)
		}
		coq := cTuple(cN(uint64(vfC25MaxMessageSize)), evl, ml)
		class := []string{fmt.Sprintf("shape=%d", shape)}
		if onehot >= 0 {
			class = []string{"shape=" + ohShape, "onehot=" + names[onehot]}
		}
		if nStatsOnly >= 100 {
			class = append(class, "stats-run>=100")
		}
		if nHuge > 0 {
			class = append(class, "file>=budget")
		}
		if shape == 6 {
			class = append(class, "sum-at-budget-boundary")
		}
		_ = nBoundary
		if len(rec.msgs) > len(events)-nStatsOnly {
			class = append(class, "extra-messages(chunks/samples/flush)")
		}
		vfCase(coq, vfKey(evTerms), len(events) >= 3 && len(rec.msgs) >= 2, class,
			map[string]any{"events": len(events), "stats_only": nStatsOnly, "messages": len(rec.msgs), "files": len(wantIDs)})
	}
}
