package server

// C24, service level of StreamSearch: "every search result survives conversion to the wire format and back".
// Search and List responses are compared in zz_verif_c24_test.go (response-roundtrip); a streamed result reaches the
// client as a SEQUENCE of StreamSearchResponse messages (stats-only events are sampled, events with files are cut
// into chunks below 1 MiB by gRPCChunkSender). This stage is a Go-side oracle only (the chunking is not in the Coq
// model of C24): a scripted Streamer emits events with known stats and files — small, medium and >= 1 MiB file
// matches, a big match first / in the middle / last, stats-only events in between — through the REAL
// Server.StreamSearch; the client side decodes every message with the real SearchResultFromProto and must get back
// (a) every file match, in order, and (b) the sum of the stats of all events.

import (
	"context"
	"fmt"
	"reflect"
	"strings"
	"testing"
	"time"

	"google.golang.org/grpc"
	"google.golang.org/protobuf/proto"

	"github.com/sourcegraph/zoekt"
	webserverv1 "github.com/sourcegraph/zoekt/grpc/protos/zoekt/webserver/v1"
	"github.com/sourcegraph/zoekt/query"
)

type c24sStreamer struct {
	events []*zoekt.SearchResult
}

func (s *c24sStreamer) Search(ctx context.Context, q query.Q, o *zoekt.SearchOptions) (*zoekt.SearchResult, error) {
	return &zoekt.SearchResult{}, nil
}
func (s *c24sStreamer) List(ctx context.Context, q query.Q, o *zoekt.ListOptions) (*zoekt.RepoList, error) {
	return &zoekt.RepoList{}, nil
}
func (s *c24sStreamer) Close()         {}
func (s *c24sStreamer) String() string { return "c24s" }
func (s *c24sStreamer) StreamSearch(ctx context.Context, q query.Q, o *zoekt.SearchOptions, sender zoekt.Sender) error {
	for _, ev := range s.events {
		cp := *ev // the sampling sender adds aggregated stats INTO the event it forwards
		cp.Files = append([]zoekt.FileMatch(nil), ev.Files...)
		sender.Send(&cp)
	}
	return nil
}

type c24sStream struct {
	grpc.ServerStream
	ctx  context.Context
	msgs []*webserverv1.StreamSearchResponse
}

func (s *c24sStream) Context() context.Context { return s.ctx }
// Send does what the transport does: the message is serialised at once (the chunker re-uses its buffer for the next
// chunk, so a retained message would alias later chunks) and the client side sees the decoded bytes
func (s *c24sStream) Send(m *webserverv1.StreamSearchResponse) error {
	b, err := proto.Marshal(m)
	if err != nil {
		return err
	}
	m2 := &webserverv1.StreamSearchResponse{}
	if err := proto.Unmarshal(b, m2); err != nil {
		return err
	}
	s.msgs = append(s.msgs, m2)
	return nil
}

const c24sMiB = 1 << 20

// sizes of the Content of a file match by class
func c24sSize(r *vfRand, class string) int {
	switch class {
	case "small":
		return r.Intn(200)
	case "medium":
		return 50_000 + r.Intn(400_000)
	case "near": // a little below the chunk limit: with the other fields the message is around 1 MiB
		return c24sMiB - 200 + r.Intn(400)
	default: // "big"
		return c24sMiB + r.Intn(c24sMiB/2)
	}
}

func c24sStats(r *vfRand) zoekt.Stats {
	if r.Chance(20) {
		return zoekt.Stats{}
	}
	return zoekt.Stats{
		MatchCount: 1 + r.Intn(1000), FileCount: 1 + r.Intn(100), FilesConsidered: r.Intn(1000), FilesLoaded: r.Intn(1000),
		ShardsScanned: r.Intn(50), ShardsSkipped: r.Intn(50), Crashes: r.Intn(3), ContentBytesLoaded: int64(r.Intn(1 << 30)),
		IndexBytesLoaded: int64(r.Intn(1 << 30)), NgramMatches: r.Intn(10000), NgramLookups: r.Intn(10000),
		Wait: time.Duration(r.Intn(1_000_000)), MatchTreeSearch: time.Duration(r.Intn(1_000_000)), RegexpsConsidered: r.Intn(100),
	}
}

func TestVerifC24Stream(t *testing.T) {
	r := vfNewRand(vfSeed() + 0x2424)
	nScen := 10
	if vfTier() == "thorough" {
		nScen = 60
	}
	classes := map[string]int{}
	for sc := 0; sc < nScen; sc++ {
		// the first scenarios are directed: where the >= 1 MiB match sits in the event
		var layout [][]string // per event: size classes of its files ([] = stats-only event)
		switch sc {
		case 0:
			layout = [][]string{{"big"}}
		case 1:
			layout = [][]string{{"big", "small", "small"}}
		case 2:
			layout = [][]string{{"small", "big", "small"}}
		case 3:
			layout = [][]string{{}, {"small", "small", "big"}, {}}
		case 4:
			layout = [][]string{{"near", "near", "small"}, {"big", "big"}}
		case 5:
			layout = [][]string{{}, {}, {"small"}}
		default:
			for e := 0; e < 1+r.Intn(4); e++ {
				var fs []string
				if !r.Chance(25) {
					for f := 0; f < 1+r.Intn(4); f++ {
						fs = append(fs, []string{"small", "small", "medium", "near", "big"}[r.Intn(5)])
					}
				}
				layout = append(layout, fs)
			}
		}
		st := &c24sStreamer{}
		var want zoekt.Stats
		var wantFiles []string
		var desc []string
		label := "stream"
		for ei, fs := range layout {
			ev := &zoekt.SearchResult{Stats: c24sStats(r), Progress: zoekt.Progress{Priority: float64(r.Intn(10)), MaxPendingPriority: float64(r.Intn(10))}}
			if len(fs) == 0 && ev.Stats.Zero() {
				ev.Stats.MatchCount = 1 + r.Intn(5)
			}
			for fi, cl := range fs {
				n := c24sSize(r, cl)
				fm := zoekt.FileMatch{FileName: fmt.Sprintf("e%d/f%d.txt", ei, fi), Repository: "r", Content: []byte(strings.Repeat("x", n)), Checksum: []byte{byte(ei), byte(fi)}}
				ev.Files = append(ev.Files, fm)
				wantFiles = append(wantFiles, fmt.Sprintf("%s:%d", fm.FileName, n))
				if fi == 0 && (cl == "big" || cl == "near") {
					label = "stream/first-match-" + cl
				}
			}
			want.Add(ev.Stats)
			desc = append(desc, fmt.Sprintf("event %d: stats{MatchCount:%d FileCount:%d Crashes:%d} files%v", ei, ev.Stats.MatchCount, ev.Stats.FileCount, ev.Stats.Crashes, fs))
			st.events = append(st.events, ev)
		}
		classes[label]++
		srv := NewServer(st)
		ctx, cancel := context.WithTimeout(context.Background(), 60*time.Second)
		stream := &c24sStream{ctx: ctx}
		req := &webserverv1.StreamSearchRequest{Request: &webserverv1.SearchRequest{Query: query.QToProto(&query.Const{Value: true}), Opts: &webserverv1.SearchOptions{}}}
		var herr error
		_, p, w := c24Call(func() any { herr = srv.StreamSearch(req, stream); return nil })
		cancel()
		replay := map[string]any{"events": desc, "how": "Server.StreamSearch over a Streamer that sends these events; decode every StreamSearchResponse with SearchResultFromProto; sum the Stats, concatenate the Files"}
		if p || herr != nil {
			vfOracleFail("stream-response:handler-failed", fmt.Sprintf("StreamSearch over a scripted streamer fails: panic=%v %s err=%v", p, w, herr), replay)
			continue
		}
		var got zoekt.Stats
		var gotFiles, chunks []string
		for _, m := range stream.msgs {
			res, bp, bw := c24Call(func() any { return zoekt.SearchResultFromProto(m.GetResponseChunk(), nil, nil) })
			if bp {
				vfOracleFail("stream-response:from-panic", "the client-side SearchResultFromProto panics on a stream chunk: "+bw, replay)
				continue
			}
			sr := res.(*zoekt.SearchResult)
			if sr == nil {
				chunks = append(chunks, "nil")
				continue
			}
			got.Add(sr.Stats)
			for _, f := range sr.Files {
				gotFiles = append(gotFiles, fmt.Sprintf("%s:%d", f.FileName, len(f.Content)))
			}
			chunks = append(chunks, fmt.Sprintf("{files:%d stats:%v}", len(sr.Files), m.GetResponseChunk().GetStats() != nil))
		}
		replay["chunks"] = chunks
		want.FlushReason, got.FlushReason = 0, 0
		if !reflect.DeepEqual(want, got) {
			replay["want_stats"], replay["got_stats"] = fmt.Sprintf("%+v", want), fmt.Sprintf("%+v", got)
			vfOracleFail("stream-response:stats-lost["+strings.TrimPrefix(label, "stream/")+"]", "the stats the searcher sent with its events do not reach the client of StreamSearch (sum over all stream messages differs from the sum over the events)", replay)
		}
		if strings.Join(wantFiles, ",") != strings.Join(gotFiles, ",") {
			replay["want_files"], replay["got_files"] = wantFiles, gotFiles
			vfOracleFail("stream-response:files-differ", "the file matches of the events do not reach the client of StreamSearch unchanged and in order", replay)
		}
	}
	vfInfo(map[string]any{"stream_response_scenarios": classes})
}
