package server

// C24 correspondence + oracle. Mapped into /repo/cmd/zoekt-webserver/grpc/server by `go test -overlay`.
//
//  1. Random Go values of every type that has a ToProto/FromProto pair are converted with the REAL
//     functions; the Go value, the protobuf message and the value that comes back are encoded
//     reflectively into the universal `val` of the Coq model (Lib/WireTypes.v) and emitted as WConv
//     cases; the model must compute the same message and the same value from the generated tables.
//     Oracle: the value that comes back equals the original (empty collections identified,
//     named exclusions masked).
//  2. Random query trees through QToProto/QFromProto (all kinds), and random protobuf Q messages
//     (after a Marshal/Unmarshal round, as a server receives them) with unset children, unset
//     oneofs, invalid patterns and bitmaps through QFromProto with recover().
//  3. Random Search/StreamSearch/List requests with arbitrary subsets of fields set, sent to the real
//     Server implementation backed by a real directory searcher over one shard, with recover():
//     outcome class vs the handler model. Oracle: no request may panic the handler.

import (
	"context"
	"fmt"
	"math"
	"os"
	"path/filepath"
	"reflect"
	"regexp/syntax"
	"sort"
	"strings"
	"testing"
	"time"
	"unsafe"

	"github.com/RoaringBitmap/roaring/v2"
	"github.com/grafana/regexp"
	"google.golang.org/grpc"
	"google.golang.org/grpc/codes"
	"google.golang.org/grpc/status"
	"google.golang.org/protobuf/proto"
	"google.golang.org/protobuf/types/known/durationpb"

	"github.com/sourcegraph/zoekt"
	webserverv1 "github.com/sourcegraph/zoekt/grpc/protos/zoekt/webserver/v1"
	"github.com/sourcegraph/zoekt/index"
	"github.com/sourcegraph/zoekt/query"
	"github.com/sourcegraph/zoekt/search"
)

// ---------------------------------------------------------------- encoding into the Coq `val`

var (
	c24TimeT    = reflect.TypeOf(time.Time{})
	c24BitmapT  = reflect.TypeOf((*roaring.Bitmap)(nil))
	c24SyntaxT  = reflect.TypeOf((*syntax.Regexp)(nil))
	c24RegexpT  = reflect.TypeOf((*regexp.Regexp)(nil))
	c24QT       = reflect.TypeOf((*query.Q)(nil)).Elem()
	c24PQT      = reflect.TypeOf((*webserverv1.Q)(nil))
	c24FlushT   = reflect.TypeOf(zoekt.FlushReason(0))
	c24FieldT   = reflect.TypeOf(zoekt.RepoListField(0))
	c24RawCfgT  = reflect.TypeOf(query.RawConfig(0))
	c24EmptyT   = reflect.TypeOf(struct{}{})
	c24ByteT    = reflect.TypeOf(byte(0))
	c24RepoPtrT = reflect.TypeOf((*zoekt.Repository)(nil))
)

func c24Str(s string) string { return "(VS " + cStr(s) + ")" }
func c24Z(n int64) string {
	if n < 0 {
		return fmt.Sprintf("(VZ (%d))", n)
	}
	return fmt.Sprintf("(VZ %d)", n)
}
func c24U(n uint64) string { return fmt.Sprintf("(VZ %d)", n) }
func c24Fld(name, v string) string {
	return "(\"" + name + "\"%string, " + v + ")"
}
func c24List(ctor string, xs []string) string {
	if len(xs) == 0 {
		return "(" + ctor + " [])"
	}
	return "(" + ctor + " [" + strings.Join(xs, "; ") + "])"
}

// accessible returns a value on which Interface() may be called even for unexported fields
func c24Accessible(v reflect.Value) reflect.Value {
	if v.CanInterface() {
		return v
	}
	if v.CanAddr() {
		return reflect.NewAt(v.Type(), unsafe.Pointer(v.UnsafeAddr())).Elem()
	}
	c := reflect.New(v.Type()).Elem()
	return c
}

func c24Bitmap(bm *roaring.Bitmap) string {
	if bm == nil {
		return "VNil"
	}
	var xs []string
	for _, x := range bm.ToArray() {
		xs = append(xs, c24U(uint64(x)))
	}
	return c24List("VL", xs)
}

func c24Enc(v reflect.Value) string {
	t := v.Type()
	switch t {
	case c24TimeT:
		tm := c24Accessible(v).Interface().(time.Time)
		return fmt.Sprintf("(VTime (%d) %d)", tm.Unix(), tm.Nanosecond())
	case c24BitmapT:
		return c24Bitmap(c24Accessible(v).Interface().(*roaring.Bitmap))
	case c24SyntaxT:
		re := c24Accessible(v).Interface().(*syntax.Regexp)
		if re == nil {
			return "VNil"
		}
		return c24Str((&query.Regexp{Regexp: re}).RegexpString())
	case c24RegexpT:
		re := c24Accessible(v).Interface().(*regexp.Regexp)
		if re == nil {
			return "VNil"
		}
		return c24Str(re.String())
	case c24PQT:
		return c24EncPQ(c24Accessible(v).Interface().(*webserverv1.Q))
	case c24QT:
		if v.IsNil() {
			return "VNil"
		}
		return c24EncQ(c24Accessible(v).Interface().(query.Q))
	}
	switch v.Kind() {
	case reflect.Bool:
		return "(VB " + cBool(v.Bool()) + ")"
	case reflect.Int, reflect.Int8, reflect.Int16, reflect.Int32, reflect.Int64:
		return c24Z(v.Int())
	case reflect.Uint, reflect.Uint8, reflect.Uint16, reflect.Uint32, reflect.Uint64:
		return c24U(v.Uint())
	case reflect.Float64, reflect.Float32:
		return c24U(math.Float64bits(v.Float()))
	case reflect.String:
		return c24Str(v.String())
	case reflect.Ptr, reflect.Interface:
		if v.IsNil() {
			return "VNil"
		}
		return c24Enc(v.Elem())
	case reflect.Slice:
		if t.Elem() == c24ByteT {
			return c24Str(string(v.Bytes()))
		}
		var xs []string
		for i := 0; i < v.Len(); i++ {
			xs = append(xs, c24Enc(v.Index(i)))
		}
		return c24List("VL", xs)
	case reflect.Map:
		keys := v.MapKeys()
		sort.Slice(keys, func(i, j int) bool {
			if keys[i].Kind() == reflect.String {
				return keys[i].String() < keys[j].String()
			}
			return keys[i].Uint() < keys[j].Uint()
		})
		var xs []string
		for _, k := range keys {
			if t.Elem() == c24EmptyT {
				xs = append(xs, c24Enc(k))
			} else {
				xs = append(xs, "("+c24Enc(k)+", "+c24Enc(v.MapIndex(k))+")")
			}
		}
		if t.Elem() == c24EmptyT {
			return c24List("VL", xs)
		}
		return c24List("VM", xs)
	case reflect.Struct:
		var fs []string
		for i := 0; i < t.NumField(); i++ {
			name := t.Field(i).Name
			if name == "state" || name == "sizeCache" || name == "unknownFields" {
				continue
			}
			fv := v.Field(i)
			// canonicalisation of wire-side representations of sets and bitmaps
			if (t.Name() == "Repository" && name == "FileTombstones" || t.Name() == "FileNameSet" && name == "Set") && fv.Kind() == reflect.Slice && strings.HasSuffix(t.PkgPath(), "webserver/v1") {
				ss := append([]string(nil), c24Accessible(fv).Interface().([]string)...)
				sort.Strings(ss)
				var xs []string
				for _, s := range ss {
					xs = append(xs, c24Str(s))
				}
				fs = append(fs, c24Fld(name, c24List("VL", xs)))
				continue
			}
			if (t.Name() == "RepoIds" || t.Name() == "BranchRepos") && name == "Repos" && fv.Kind() == reflect.Slice && strings.HasSuffix(t.PkgPath(), "webserver/v1") {
				bm := roaring.NewBitmap()
				if err := bm.UnmarshalBinary(fv.Bytes()); err != nil {
					fs = append(fs, c24Fld(name, c24Str(string(fv.Bytes()))))
				} else {
					fs = append(fs, c24Fld(name, c24Bitmap(bm)))
				}
				continue
			}
			fs = append(fs, c24Fld(name, c24Enc(fv)))
		}
		return c24List("VR", fs)
	}
	panic("c24Enc: unsupported kind " + t.String())
}

func c24EncQ(q query.Q) string {
	v := reflect.ValueOf(q)
	name := ""
	payload := ""
	if v.Kind() == reflect.Ptr {
		if v.IsNil() {
			return "VNil"
		}
		name = v.Type().Elem().Name()
		payload = c24Enc(v.Elem())
	} else {
		name = v.Type().Name()
		payload = c24Enc(v)
	}
	return "(VQ \"query." + name + "\"%string " + payload + ")"
}

func c24EncPQ(p *webserverv1.Q) string {
	if p == nil {
		return "VNil"
	}
	if p.Query == nil {
		return "(VQ \"\"%string VNil)"
	}
	w := reflect.ValueOf(p.Query).Elem() // the Q_X wrapper struct
	return "(VQ \"" + w.Type().Name() + "\"%string " + c24Enc(w.Field(0)) + ")"
}

// ---------------------------------------------------------------- generators

var c24ValidRe = []string{"foo", "a.*b", "(x|y)+", "^ab$", "[a-z]+\\d", "", "f.o", "bar|baz"}
var c24InvalidRe = []string{"(", "[z-a]", "a**", "x{2,1}"}
var c24Strings = []string{"", "a", "foo", "bar/baz.go", "HEAD", "main", "héllo", "x y", "r1", "r2", "zzz"}

type c24Gen struct {
	r   *vfRand
	ood bool // the value left the round-trip domain (nil *Repository in a map, unnamed enum value, ...)
	cls map[string]bool
}

func (g *c24Gen) str() string { return g.r.Pick(c24Strings) }

func (g *c24Gen) i64() int64 {
	switch g.r.Intn(8) {
	case 0:
		return 0
	case 1:
		return int64(g.r.Intn(100))
	case 2:
		return -int64(g.r.Intn(100))
	case 3:
		return math.MaxInt64
	case 4:
		return math.MinInt64
	case 5:
		return int64(g.r.U64())
	default:
		return int64(g.r.Intn(1 << 20))
	}
}

func (g *c24Gen) f64() float64 {
	switch g.r.Intn(6) {
	case 0:
		return 0
	case 1:
		return math.NaN()
	case 2:
		return math.Inf(-1)
	case 3:
		return -2.5
	default:
		return float64(g.r.Intn(1000)) / 8
	}
}

func (g *c24Gen) time() time.Time {
	switch g.r.Intn(6) {
	case 0:
		return time.Time{}
	case 1:
		return time.Unix(0, 0)
	case 2:
		return time.Unix(int64(g.r.Intn(2000000000)), int64(g.r.Intn(1000000000))).In(time.FixedZone("x", 3600))
	case 3:
		return time.Unix(-int64(g.r.Intn(2000000000)), int64(g.r.Intn(1000000000)))
	default:
		return time.Unix(int64(g.r.Intn(2000000000)), int64(g.r.Intn(1000))).UTC()
	}
}

func (g *c24Gen) bitmap() *roaring.Bitmap {
	bm := roaring.NewBitmap()
	n := g.r.Intn(5)
	for i := 0; i < n; i++ {
		if g.r.Chance(20) {
			bm.Add(uint32(g.r.U64()))
		} else {
			bm.Add(uint32(g.r.Intn(50)))
		}
	}
	return bm
}

func (g *c24Gen) val(t reflect.Type, depth int) reflect.Value {
	switch t {
	case c24TimeT:
		return reflect.ValueOf(g.time())
	case c24BitmapT:
		return reflect.ValueOf(g.bitmap())
	case c24SyntaxT:
		re, err := syntax.Parse(g.r.Pick(c24ValidRe), syntax.Perl)
		if err != nil {
			panic(err)
		}
		return reflect.ValueOf(re)
	case c24RegexpT:
		return reflect.ValueOf(regexp.MustCompile(g.r.Pick(c24ValidRe)))
	case c24QT:
		v := reflect.New(c24QT).Elem()
		if q := g.q(depth); q != nil {
			v.Set(reflect.ValueOf(q))
		}
		return v
	case c24FlushT:
		vals := []zoekt.FlushReason{0, zoekt.FlushReasonTimerExpired, zoekt.FlushReasonFinalFlush, zoekt.FlushReasonMaxSize}
		if g.r.Chance(6) {
			g.ood = true
			g.cls["enum-unnamed"] = true
			return reflect.ValueOf(zoekt.FlushReason(3 + 5*g.r.Intn(2)))
		}
		return reflect.ValueOf(vals[g.r.Intn(len(vals))])
	case c24FieldT:
		if g.r.Chance(6) {
			g.ood = true
			g.cls["enum-unnamed"] = true
			return reflect.ValueOf(zoekt.RepoListField(1))
		}
		return reflect.ValueOf([]zoekt.RepoListField{zoekt.RepoListFieldRepos, zoekt.RepoListFieldReposMap}[g.r.Intn(2)])
	}
	v := reflect.New(t).Elem()
	switch t.Kind() {
	case reflect.Bool:
		v.SetBool(g.r.Bool())
	case reflect.Int, reflect.Int64:
		v.SetInt(g.i64())
	case reflect.Int8, reflect.Int16, reflect.Int32:
		v.SetInt(g.i64() % (1 << (uint(t.Bits()) - 1)))
	case reflect.Uint, reflect.Uint64:
		v.SetUint(uint64(g.i64()))
	case reflect.Uint8, reflect.Uint16, reflect.Uint32:
		if g.r.Chance(20) {
			v.SetUint(1<<uint(t.Bits()) - 1)
		} else {
			v.SetUint(uint64(g.i64()) % (1 << uint(t.Bits())))
		}
	case reflect.Float64:
		v.SetFloat(g.f64())
	case reflect.String:
		v.SetString(g.str())
	case reflect.Ptr:
		nilOK := t != c24RepoPtrT
		if depth > 3 || g.r.Chance(15) {
			if !nilOK && depth <= 3 {
				g.ood = true
				g.cls["nil-repo-in-map"] = true
			}
			if nilOK || depth <= 3 {
				g.cls["nil-ptr"] = true
				return v
			}
		}
		p := reflect.New(t.Elem())
		p.Elem().Set(g.val(t.Elem(), depth+1))
		return p
	case reflect.Slice:
		if depth > 3 || g.r.Chance(25) {
			if g.r.Bool() {
				return reflect.MakeSlice(t, 0, 0)
			}
			return v
		}
		n := 1 + g.r.Intn(3)
		s := reflect.MakeSlice(t, n, n)
		for i := 0; i < n; i++ {
			s.Index(i).Set(g.val(t.Elem(), depth+1))
		}
		return s
	case reflect.Map:
		if depth > 2 || g.r.Chance(30) {
			if g.r.Bool() {
				return reflect.MakeMap(t)
			}
			return v
		}
		m := reflect.MakeMap(t)
		n := 1 + g.r.Intn(3)
		for i := 0; i < n; i++ {
			m.SetMapIndex(g.val(t.Key(), depth+1), g.val(t.Elem(), depth+1))
		}
		return m
	case reflect.Struct:
		for i := 0; i < t.NumField(); i++ {
			f := v.Field(i)
			fv := g.val(t.Field(i).Type, depth+1)
			if f.CanSet() {
				f.Set(fv)
			} else {
				reflect.NewAt(f.Type(), unsafe.Pointer(f.UnsafeAddr())).Elem().Set(fv)
			}
		}
	default:
		panic("c24Gen: unsupported " + t.String())
	}
	return v
}

// q generates a query tree; with small probability an out-of-domain node (nil child, unnamed Type value, unknown RawConfig bit)
func (g *c24Gen) q(depth int) query.Q {
	child := func() query.Q {
		if g.r.Chance(4) {
			g.ood = true
			g.cls["q-nil-child"] = true
			return nil
		}
		return g.q(depth + 1)
	}
	k := g.r.Intn(19)
	if depth > 3 && (k == 2 || k >= 13 && k <= 17) {
		k = 12
	}
	g.cls[fmt.Sprintf("qkind=%d", k)] = true
	switch k {
	case 0:
		rc := query.RawConfig(g.r.Intn(64))
		if g.r.Chance(8) {
			rc |= 64
			g.ood = true
			g.cls["rawconfig-unknown-bit"] = true
		}
		return rc
	case 1:
		re, _ := syntax.Parse(g.r.Pick(c24ValidRe), syntax.Perl)
		return &query.Regexp{Regexp: re, FileName: g.r.Bool(), Content: g.r.Bool(), CaseSensitive: g.r.Bool()}
	case 2:
		return &query.Symbol{Expr: child()}
	case 3:
		return &query.Language{Language: g.str()}
	case 4:
		return &query.Const{Value: g.r.Bool()}
	case 5:
		return &query.Repo{Regexp: regexp.MustCompile(g.r.Pick(c24ValidRe))}
	case 6:
		return &query.RepoRegexp{Regexp: regexp.MustCompile(g.r.Pick(c24ValidRe))}
	case 7:
		n := g.r.Intn(3)
		br := &query.BranchesRepos{}
		for i := 0; i < n; i++ {
			br.List = append(br.List, query.BranchRepos{Branch: g.str(), Repos: g.bitmap()})
		}
		return br
	case 8:
		return &query.RepoIDs{Repos: g.bitmap()}
	case 9:
		m := map[string]bool{}
		for i := g.r.Intn(3); i > 0; i-- {
			m[g.str()] = g.r.Bool()
		}
		if g.r.Chance(30) {
			m = nil
		}
		return &query.RepoSet{Set: m}
	case 10:
		m := map[string]struct{}{}
		for i := g.r.Intn(4); i > 0; i-- {
			m[g.str()] = struct{}{}
		}
		if g.r.Chance(30) {
			m = nil
		}
		return &query.FileNameSet{Set: m}
	case 11:
		ty := uint8(g.r.Intn(3))
		if g.r.Chance(8) {
			ty = 7
			g.ood = true
			g.cls["type-unnamed"] = true
		}
		return &query.Type{Child: child(), Type: ty}
	case 12:
		return &query.Substring{Pattern: g.str(), CaseSensitive: g.r.Bool(), FileName: g.r.Bool(), Content: g.r.Bool()}
	case 13, 14:
		var cs []query.Q
		for i := g.r.Intn(4); i > 0; i-- {
			cs = append(cs, child())
		}
		if k == 13 {
			return &query.And{Children: cs}
		}
		return &query.Or{Children: cs}
	case 15:
		return &query.Not{Child: child()}
	case 16:
		return &query.Branch{Pattern: g.str(), Exact: g.r.Bool()}
	case 17:
		return &query.Boost{Child: child(), Boost: g.f64()}
	default:
		return &query.Meta{Field: g.str(), Value: regexp.MustCompile(g.r.Pick(c24ValidRe))}
	}
}

// pq generates a protobuf query message the way a client could send it: any child / oneof may be unset
func (g *c24Gen) pq(depth int) *webserverv1.Q {
	if g.r.Chance(7) {
		g.cls["pq-nil"] = true
		return nil
	}
	child := func() *webserverv1.Q { return g.pq(depth + 1) }
	re := func() string {
		if g.r.Chance(10) {
			g.cls["pq-invalid-re"] = true
			return g.r.Pick(c24InvalidRe)
		}
		return g.r.Pick(c24ValidRe)
	}
	bm := func() []byte {
		if g.r.Chance(12) {
			g.cls["pq-invalid-bitmap"] = true
			return [][]byte{nil, {1, 2, 3}, {0xff, 0xff, 0xff, 0xff, 0xff, 0xff, 0xff, 0xff, 0xff}}[g.r.Intn(3)]
		}
		b, _ := g.bitmap().ToBytes()
		return b
	}
	k := g.r.Intn(21)
	if depth > 3 && (k == 2 || k == 11 || k >= 13 && k <= 17 && k != 16) {
		k = 12
	}
	g.cls[fmt.Sprintf("pqkind=%d", k)] = true
	switch k {
	case 0:
		var fl []webserverv1.RawConfig_Flag
		for i := g.r.Intn(4); i > 0; i-- {
			fl = append(fl, webserverv1.RawConfig_Flag([]int32{0, 1, 2, 4, 8, 16, 32, 3, 77}[g.r.Intn(9)]))
		}
		return &webserverv1.Q{Query: &webserverv1.Q_RawConfig{RawConfig: &webserverv1.RawConfig{Flags: fl}}}
	case 1:
		return &webserverv1.Q{Query: &webserverv1.Q_Regexp{Regexp: &webserverv1.Regexp{Regexp: re(), FileName: g.r.Bool(), Content: g.r.Bool(), CaseSensitive: g.r.Bool()}}}
	case 2:
		return &webserverv1.Q{Query: &webserverv1.Q_Symbol{Symbol: &webserverv1.Symbol{Expr: child()}}}
	case 3:
		return &webserverv1.Q{Query: &webserverv1.Q_Language{Language: &webserverv1.Language{Language: g.str()}}}
	case 4:
		return &webserverv1.Q{Query: &webserverv1.Q_Const{Const: g.r.Bool()}}
	case 5:
		return &webserverv1.Q{Query: &webserverv1.Q_Repo{Repo: &webserverv1.Repo{Regexp: re()}}}
	case 6:
		return &webserverv1.Q{Query: &webserverv1.Q_RepoRegexp{RepoRegexp: &webserverv1.RepoRegexp{Regexp: re()}}}
	case 7:
		br := &webserverv1.BranchesRepos{}
		for i := g.r.Intn(3); i > 0; i-- {
			br.List = append(br.List, &webserverv1.BranchRepos{Branch: g.str(), Repos: bm()})
		}
		return &webserverv1.Q{Query: &webserverv1.Q_BranchesRepos{BranchesRepos: br}}
	case 8:
		return &webserverv1.Q{Query: &webserverv1.Q_RepoIds{RepoIds: &webserverv1.RepoIds{Repos: bm()}}}
	case 9:
		m := map[string]bool{}
		for i := g.r.Intn(3); i > 0; i-- {
			m[g.str()] = g.r.Bool()
		}
		return &webserverv1.Q{Query: &webserverv1.Q_RepoSet{RepoSet: &webserverv1.RepoSet{Set: m}}}
	case 10:
		var s []string
		for i := g.r.Intn(4); i > 0; i-- {
			s = append(s, g.str())
		}
		return &webserverv1.Q{Query: &webserverv1.Q_FileNameSet{FileNameSet: &webserverv1.FileNameSet{Set: s}}}
	case 11:
		return &webserverv1.Q{Query: &webserverv1.Q_Type{Type: &webserverv1.Type{Child: child(), Type: webserverv1.Type_Kind(g.r.Intn(5))}}}
	case 12:
		return &webserverv1.Q{Query: &webserverv1.Q_Substring{Substring: &webserverv1.Substring{Pattern: g.str(), CaseSensitive: g.r.Bool(), FileName: g.r.Bool(), Content: g.r.Bool()}}}
	case 13, 14:
		var cs []*webserverv1.Q
		for i := g.r.Intn(4); i > 0; i-- {
			c := child()
			if c == nil {
				c = &webserverv1.Q{} // a nil element cannot be marshalled; the wire form is an empty message
			}
			cs = append(cs, c)
		}
		if k == 13 {
			return &webserverv1.Q{Query: &webserverv1.Q_And{And: &webserverv1.And{Children: cs}}}
		}
		return &webserverv1.Q{Query: &webserverv1.Q_Or{Or: &webserverv1.Or{Children: cs}}}
	case 15:
		return &webserverv1.Q{Query: &webserverv1.Q_Not{Not: &webserverv1.Not{Child: child()}}}
	case 16:
		return &webserverv1.Q{Query: &webserverv1.Q_Branch{Branch: &webserverv1.Branch{Pattern: g.str(), Exact: g.r.Bool()}}}
	case 17:
		return &webserverv1.Q{Query: &webserverv1.Q_Boost{Boost: &webserverv1.Boost{Child: child(), Boost: g.f64()}}}
	case 18:
		return &webserverv1.Q{Query: &webserverv1.Q_Meta{Meta: &webserverv1.Meta{Key: g.str(), Value: re()}}}
	case 19:
		g.cls["pq-unset-oneof"] = true
		return &webserverv1.Q{}
	default:
		// a set oneof whose message is empty
		return &webserverv1.Q{Query: &webserverv1.Q_Not{Not: &webserverv1.Not{}}}
	}
}

func (g *c24Gen) pdur() *durationpb.Duration {
	switch g.r.Intn(6) {
	case 0:
		return nil
	case 1:
		return &durationpb.Duration{Seconds: g.i64(), Nanos: int32(g.i64())}
	case 2:
		return &durationpb.Duration{Seconds: int64(g.r.Intn(100)), Nanos: -int32(g.r.Intn(1000))}
	default:
		return durationpb.New(time.Duration(g.r.Intn(3000)) * time.Millisecond)
	}
}

func (g *c24Gen) popts() *webserverv1.SearchOptions {
	if g.r.Chance(25) {
		g.cls["opts-nil"] = true
		return nil
	}
	o := &webserverv1.SearchOptions{
		EstimateDocCount: g.r.Chance(10), Whole: g.r.Chance(20), ChunkMatches: g.r.Bool(), Trace: g.r.Chance(5),
		DebugScore: g.r.Chance(20), UseBm25Scoring: g.r.Chance(20),
		MaxWallTime: g.pdur(), FlushWallTime: g.pdur(),
	}
	small := func() int64 {
		if g.r.Chance(60) {
			return 0
		}
		if g.r.Chance(10) {
			return g.i64()
		}
		return int64(g.r.Intn(20))
	}
	o.ShardMaxMatchCount, o.TotalMaxMatchCount, o.ShardRepoMaxMatchCount = small(), small(), small()
	o.MaxDocDisplayCount, o.MaxMatchDisplayCount, o.NumContextLines = small(), small(), int64(g.r.Intn(4))
	return o
}

// ---------------------------------------------------------------- the types with a ToProto/FromProto pair

type c24Pair struct {
	name string
	typ  reflect.Type
	to   func(v reflect.Value) any // v is addressable
	from func(p any) any
}

func c24Pairs() []c24Pair {
	mk := func(name string, sample any, to func(reflect.Value) any, from func(any) any) c24Pair {
		return c24Pair{name, reflect.TypeOf(sample), to, from}
	}
	return []c24Pair{
		mk("ChunkMatch", zoekt.ChunkMatch{}, func(v reflect.Value) any { return v.Addr().Interface().(*zoekt.ChunkMatch).ToProto() }, func(p any) any { return zoekt.ChunkMatchFromProto(p.(*webserverv1.ChunkMatch)) }),
		mk("FileMatch", zoekt.FileMatch{}, func(v reflect.Value) any { return v.Addr().Interface().(*zoekt.FileMatch).ToProto() }, func(p any) any { return zoekt.FileMatchFromProto(p.(*webserverv1.FileMatch)) }),
		mk("IndexMetadata", zoekt.IndexMetadata{}, func(v reflect.Value) any { return v.Addr().Interface().(*zoekt.IndexMetadata).ToProto() }, func(p any) any { return zoekt.IndexMetadataFromProto(p.(*webserverv1.IndexMetadata)) }),
		mk("LineFragmentMatch", zoekt.LineFragmentMatch{}, func(v reflect.Value) any { return v.Addr().Interface().(*zoekt.LineFragmentMatch).ToProto() }, func(p any) any { return zoekt.LineFragmentMatchFromProto(p.(*webserverv1.LineFragmentMatch)) }),
		mk("LineMatch", zoekt.LineMatch{}, func(v reflect.Value) any { return v.Addr().Interface().(*zoekt.LineMatch).ToProto() }, func(p any) any { return zoekt.LineMatchFromProto(p.(*webserverv1.LineMatch)) }),
		mk("ListOptions", zoekt.ListOptions{}, func(v reflect.Value) any { return v.Addr().Interface().(*zoekt.ListOptions).ToProto() }, func(p any) any { return zoekt.ListOptionsFromProto(p.(*webserverv1.ListOptions)) }),
		mk("Location", zoekt.Location{}, func(v reflect.Value) any { return v.Addr().Interface().(*zoekt.Location).ToProto() }, func(p any) any { return zoekt.LocationFromProto(p.(*webserverv1.Location)) }),
		mk("MinimalRepoListEntry", zoekt.MinimalRepoListEntry{}, func(v reflect.Value) any { return v.Addr().Interface().(*zoekt.MinimalRepoListEntry).ToProto() }, func(p any) any { return zoekt.MinimalRepoListEntryFromProto(p.(*webserverv1.MinimalRepoListEntry)) }),
		mk("Progress", zoekt.Progress{}, func(v reflect.Value) any { return v.Addr().Interface().(*zoekt.Progress).ToProto() }, func(p any) any { return zoekt.ProgressFromProto(p.(*webserverv1.Progress)) }),
		mk("Range", zoekt.Range{}, func(v reflect.Value) any { return v.Addr().Interface().(*zoekt.Range).ToProto() }, func(p any) any { return zoekt.RangeFromProto(p.(*webserverv1.Range)) }),
		mk("RepoList", zoekt.RepoList{}, func(v reflect.Value) any { return v.Addr().Interface().(*zoekt.RepoList).ToProto() }, func(p any) any { return zoekt.RepoListFromProto(p.(*webserverv1.ListResponse)) }),
		mk("RepoListEntry", zoekt.RepoListEntry{}, func(v reflect.Value) any { return v.Addr().Interface().(*zoekt.RepoListEntry).ToProto() }, func(p any) any { return zoekt.RepoListEntryFromProto(p.(*webserverv1.RepoListEntry)) }),
		mk("RepoStats", zoekt.RepoStats{}, func(v reflect.Value) any { return v.Addr().Interface().(*zoekt.RepoStats).ToProto() }, func(p any) any { return zoekt.RepoStatsFromProto(p.(*webserverv1.RepoStats)) }),
		mk("Repository", zoekt.Repository{}, func(v reflect.Value) any { return v.Addr().Interface().(*zoekt.Repository).ToProto() }, func(p any) any { return zoekt.RepositoryFromProto(p.(*webserverv1.Repository)) }),
		mk("RepositoryBranch", zoekt.RepositoryBranch{}, func(v reflect.Value) any { return v.Addr().Interface().(*zoekt.RepositoryBranch).ToProto() }, func(p any) any { return zoekt.RepositoryBranchFromProto(p.(*webserverv1.RepositoryBranch)) }),
		mk("SearchOptions", zoekt.SearchOptions{}, func(v reflect.Value) any { return v.Addr().Interface().(*zoekt.SearchOptions).ToProto() }, func(p any) any { return zoekt.SearchOptionsFromProto(p.(*webserverv1.SearchOptions)) }),
		mk("SearchResult", zoekt.SearchResult{}, func(v reflect.Value) any { return v.Addr().Interface().(*zoekt.SearchResult).ToProto() }, func(p any) any { return zoekt.SearchResultFromProto(p.(*webserverv1.SearchResponse), nil, nil) }),
		mk("Stats", zoekt.Stats{}, func(v reflect.Value) any { return v.Addr().Interface().(*zoekt.Stats).ToProto() }, func(p any) any { return zoekt.StatsFromProto(p.(*webserverv1.Stats)) }),
		mk("Symbol", zoekt.Symbol{}, func(v reflect.Value) any { return v.Addr().Interface().(*zoekt.Symbol).ToProto() }, func(p any) any { return zoekt.SymbolFromProto(p.(*webserverv1.SymbolInfo)) }),
	}
}

// c24Unset sets a random subset of the singular sub-messages reachable from the message m to nil
// (elements of repeated fields cannot be unset on the wire; map values can) and returns how many.
func c24Unset(g *c24Gen, m reflect.Value) int {
	if m.Kind() != reflect.Ptr || m.IsNil() || m.Elem().Kind() != reflect.Struct {
		return 0
	}
	n := 0
	st := m.Elem()
	for i := 0; i < st.NumField(); i++ {
		name := st.Type().Field(i).Name
		if name == "state" || name == "sizeCache" || name == "unknownFields" {
			continue
		}
		f := st.Field(i)
		switch f.Kind() {
		case reflect.Ptr:
			if f.IsNil() || f.Type().Elem().Kind() != reflect.Struct {
				continue
			}
			if g.r.Chance(35) {
				f.Set(reflect.Zero(f.Type()))
				n++
			} else {
				n += c24Unset(g, f)
			}
		case reflect.Slice:
			if f.Type().Elem().Kind() == reflect.Ptr {
				for k := 0; k < f.Len(); k++ {
					n += c24Unset(g, f.Index(k))
				}
			}
		case reflect.Map:
			if f.Type().Elem().Kind() == reflect.Ptr {
				for _, k := range f.MapKeys() {
					if g.r.Chance(20) {
						f.SetMapIndex(k, reflect.Zero(f.Type().Elem()))
						n++
					} else {
						n += c24Unset(g, f.MapIndex(k))
					}
				}
			}
		}
	}
	return n
}

type c24QNil struct {
	name string
	f    func() (any, error)
}

// the FromProto function of every query node type, called with a nil message
func c24QueryNilCalls() []c24QNil {
	return []c24QNil{
		{"And", func() (any, error) { return query.AndFromProto(nil) }},
		{"Boost", func() (any, error) { return query.BoostFromProto(nil) }},
		{"Branch", func() (any, error) { return query.BranchFromProto(nil), nil }},
		{"BranchRepos", func() (any, error) { return query.BranchReposFromProto(nil) }},
		{"BranchesRepos", func() (any, error) { return query.BranchesReposFromProto(nil) }},
		{"FileNameSet", func() (any, error) { return query.FileNameSetFromProto(nil), nil }},
		{"Language", func() (any, error) { return query.LanguageFromProto(nil), nil }},
		{"Meta", func() (any, error) { return query.MetaFromProto(nil) }},
		{"Not", func() (any, error) { return query.NotFromProto(nil) }},
		{"Or", func() (any, error) { return query.OrFromProto(nil) }},
		{"Regexp", func() (any, error) { return query.RegexpFromProto(nil) }},
		{"Repo", func() (any, error) { return query.RepoFromProto(nil) }},
		{"RepoIDs", func() (any, error) { return query.RepoIDsFromProto(nil) }},
		{"RepoRegexp", func() (any, error) { return query.RepoRegexpFromProto(nil) }},
		{"RepoSet", func() (any, error) { return query.RepoSetFromProto(nil), nil }},
		{"Substring", func() (any, error) { return query.SubstringFromProto(nil), nil }},
		{"Symbol", func() (any, error) { return query.SymbolFromProto(nil) }},
		{"Type", func() (any, error) { return query.TypeFromProto(nil) }},
	}
}

// c24Call runs f with recover: (result, panicked, panic text)
func c24Call(f func() any) (res any, panicked bool, what string) {
	defer func() {
		if e := recover(); e != nil {
			panicked = true
			what = fmt.Sprint(e)
		}
	}()
	return f(), false, ""
}

// c24ReTable: for every pattern string the harness uses (and every printed form), whether it
// parses and how syntax.Parse + RegexpString prints it. This is the model's external `e_re_norm`.
func c24ReTable() string {
	seen := map[string]bool{}
	var xs []string
	var add func(s string, depth int)
	add = func(s string, depth int) {
		if seen[s] || depth > 3 {
			return
		}
		seen[s] = true
		re, err := syntax.Parse(s, syntax.ClassNL|syntax.PerlX|syntax.UnicodeGroups)
		if err != nil {
			xs = append(xs, "("+cStr(s)+", None)")
			return
		}
		p := (&query.Regexp{Regexp: re}).RegexpString()
		xs = append(xs, "("+cStr(s)+", Some "+cStr(p)+")")
		add(p, depth+1)
	}
	for _, s := range c24ValidRe {
		add(s, 0)
	}
	for _, s := range c24InvalidRe {
		add(s, 0)
	}
	return cList(xs)
}

func c24Classes(m map[string]bool) []string {
	var ks []string
	for k := range m {
		if !strings.HasPrefix(k, "qkind=") && !strings.HasPrefix(k, "pqkind=") {
			ks = append(ks, k)
		}
	}
	sort.Strings(ks)
	return ks
}

// ---------------------------------------------------------------- the test

// c24Rec records what the searcher behind the server returned (encoded at once), so that the
// handler's response can be compared with the model's encoding of exactly that result
type c24Rec struct {
	zoekt.Streamer
	called bool
	failed bool
	enc    string
	want   string // what a client must get back: the result with the named exclusions reset
	argQ   string // the arguments the handler called the searcher with
	argO   string
}

func (s *c24Rec) StreamSearch(ctx context.Context, q query.Q, o *zoekt.SearchOptions, sender zoekt.Sender) error {
	s.called, s.argQ, s.argO = true, c24EncQ(q), c24Enc(reflect.ValueOf(o))
	err := s.Streamer.StreamSearch(ctx, q, o, sender)
	s.failed = err != nil
	return err
}

func (s *c24Rec) Search(ctx context.Context, q query.Q, o *zoekt.SearchOptions) (*zoekt.SearchResult, error) {
	s.argQ, s.argO = c24EncQ(q), c24Enc(reflect.ValueOf(o))
	r, err := s.Streamer.Search(ctx, q, o)
	s.called, s.failed, s.enc, s.want = true, err != nil, c24Enc(reflect.ValueOf(r)), ""
	if r != nil {
		m := *r
		m.RepoURLs, m.LineFragments = nil, nil
		s.want = c24Enc(reflect.ValueOf(&m))
	}
	return r, err
}

func (s *c24Rec) List(ctx context.Context, q query.Q, o *zoekt.ListOptions) (*zoekt.RepoList, error) {
	s.argQ, s.argO = c24EncQ(q), c24Enc(reflect.ValueOf(o))
	r, err := s.Streamer.List(ctx, q, o)
	s.called, s.failed, s.enc = true, err != nil, c24Enc(reflect.ValueOf(r))
	s.want = s.enc
	return r, err
}

type c24Stream struct {
	grpc.ServerStream
	ctx context.Context
	n   int
}

func (s *c24Stream) Context() context.Context { return s.ctx }
func (s *c24Stream) Send(*webserverv1.StreamSearchResponse) error {
	s.n++
	return nil
}

// 0 = a response or an error of the searcher behind the server, 1 = InvalidArgument, 3 = panic
func c24ErrClass(err error, panicked bool) uint64 {
	switch {
	case panicked:
		return 3
	case err == nil:
		return 0
	case status.Code(err) == codes.InvalidArgument:
		return 1
	default:
		return 0
	}
}

func c24PanicKey(what string) string {
	switch {
	case strings.Contains(what, "nil pointer"):
		return "nil-deref"
	case strings.Contains(what, "unknown query node"):
		return "unknown-query-node"
	default:
		return "other"
	}
}

func TestVerifC24(t *testing.T) {
	// the pattern pools must be classified the same way by both regexp front ends
	for _, s := range c24ValidRe {
		if _, err := syntax.Parse(s, syntax.ClassNL|syntax.PerlX|syntax.UnicodeGroups); err != nil {
			t.Fatalf("pool: %q should parse: %v", s, err)
		}
		if _, err := regexp.Compile(s); err != nil {
			t.Fatalf("pool: %q should compile: %v", s, err)
		}
	}
	for _, s := range c24InvalidRe {
		if _, err := syntax.Parse(s, syntax.ClassNL|syntax.PerlX|syntax.UnicodeGroups); err == nil {
			t.Fatalf("pool: %q should not parse", s)
		}
		if _, err := regexp.Compile(s); err == nil {
			t.Fatalf("pool: %q should not compile", s)
		}
	}
	r := vfNewRand(vfSeed())
	n := vfN(300)
	invalid := c24ReTable()
	pairs := c24Pairs()

	// ---- 1. record types
	nRec := n * 4 / 10
	for i := 0; i < nRec; i++ {
		p := pairs[i%len(pairs)]
		g := &c24Gen{r: r, cls: map[string]bool{}}
		v := reflect.New(p.typ).Elem()
		v.Set(g.val(p.typ, 0))
		tn := "\"zoekt." + p.name + "\"%string"
		goEnc := c24Enc(v)
		pb, panicked, what := c24Call(func() any { return p.to(v) })
		if panicked {
			if !g.ood {
				vfOracleFail("to-panic:"+p.name+":"+c24PanicKey(what), p.name+".ToProto panics: "+what, map[string]any{"type": p.name, "value": goEnc})
			}
			vfCase(fmt.Sprintf("(WConv (CRec true false %s) %s (Panic 0) %s)", tn, goEnc, invalid), "to:"+goEnc, true, append(c24Classes(g.cls), "rec:"+p.name, "to-panic"), map[string]any{"type": p.name, "go": goEnc})
			continue
		}
		pbEnc := c24Enc(reflect.ValueOf(pb))
		back, panicked2, what2 := c24Call(func() any { return p.from(pb) })
		if panicked2 {
			vfOracleFail("from-panic:"+p.name+":"+c24PanicKey(what2), p.name+"FromProto panics on the output of ToProto: "+what2, map[string]any{"type": p.name, "value": goEnc})
			continue
		}
		backEnc := c24Enc(reflect.ValueOf(back))
		cls := append(c24Classes(g.cls), "rec:"+p.name)
		if g.ood {
			cls = append(cls, "out-of-domain")
		} else {
			cls = append(cls, "in-domain")
		}
		nontrivial := len(goEnc) > 200
		vfCase(fmt.Sprintf("(WConv (CRec true false %s) %s (Ok %s) %s)", tn, goEnc, pbEnc, invalid), "to:"+goEnc, nontrivial, cls, map[string]any{"type": p.name, "go": goEnc})
		// (a nil *Repository in SubRepoMap is an unset map value on the wire: RepositoryFromProto(nil), inside the model)
		vfCase(fmt.Sprintf("(WConv (CRec false false %s) %s (Ok %s) %s)", tn, pbEnc, backEnc, invalid), "from:"+pbEnc, nontrivial, cls, map[string]any{"type": p.name, "pb": pbEnc})
		// the same message with a random subset of its sub-messages unset (what a client / server of
		// another version may send): FromProto must neither panic nor differ from the model
		if msg, ok := pb.(proto.Message); ok {
			cl := proto.Clone(msg)
			if k := c24Unset(g, reflect.ValueOf(cl)); k > 0 {
				clEnc := c24Enc(reflect.ValueOf(cl))
				back3, panicked3, what3 := c24Call(func() any { return p.from(cl) })
				obs3 := "(Panic 0)"
				if panicked3 {
					vfOracleFail("from-panic:"+p.name+":unset-submessage:"+c24PanicKey(what3), p.name+"FromProto panics on a message with unset sub-messages: "+what3, map[string]any{"type": p.name, "message": fmt.Sprint(cl), "value": clEnc})
				} else {
					obs3 = "(Ok " + c24Enc(reflect.ValueOf(back3)) + ")"
				}
				vfCase(fmt.Sprintf("(WConv (CRec false false %s) %s %s %s)", tn, clEnc, obs3, invalid), "from-unset:"+clEnc, true, append(append([]string(nil), cls...), "unset-submessages"), map[string]any{"type": p.name, "pb": clEnc, "unset": k})
			}
		}
		if !g.ood {
			vfCase(fmt.Sprintf("(WDom (CRec true false %s) (CRec false false %s) %s %s)", tn, tn, goEnc, invalid), "dom:"+goEnc, nontrivial, cls, map[string]any{"type": p.name, "go": goEnc})
			// oracle: the property itself. Named exclusions are masked.
			masked := reflect.New(p.typ).Elem()
			masked.Set(v)
			switch p.name {
			case "SearchOptions":
				masked.FieldByName("SpanContext").Set(reflect.Zero(masked.FieldByName("SpanContext").Type()))
			case "SearchResult":
				masked.FieldByName("RepoURLs").Set(reflect.Zero(masked.FieldByName("RepoURLs").Type()))
				masked.FieldByName("LineFragments").Set(reflect.Zero(masked.FieldByName("LineFragments").Type()))
			}
			if want := c24Enc(masked); want != backEnc {
				vfOracleFail("roundtrip:"+p.name+":"+c24FirstDiff(masked, reflect.ValueOf(back)), "zoekt."+p.name+" does not survive ToProto/FromProto", map[string]any{"type": p.name, "value": goEnc, "back": backEnc})
			}
		}
	}

	// ---- 1b. unset messages: XFromProto(nil) and XFromProto(&X{}) of every struct type (every run)
	for _, p := range pairs {
		zv := reflect.New(p.typ).Elem()
		pb0, panicked, _ := c24Call(func() any { return p.to(zv) })
		if panicked || pb0 == nil {
			t.Fatalf("C24: %s.ToProto of the zero value", p.name)
		}
		mt := reflect.TypeOf(pb0) // *webserverv1.X
		tn := "\"zoekt." + p.name + "\"%string"
		enc := func(res any, panicked bool) string {
			if panicked {
				return "(Panic 0)"
			}
			return "(Ok " + c24Enc(reflect.ValueOf(res)) + ")"
		}
		resNil, pNil, wNil := c24Call(func() any { return p.from(reflect.Zero(mt).Interface()) })
		if pNil {
			vfOracleFail("from-panic:"+p.name+":nil-message:"+c24PanicKey(wNil), p.name+"FromProto(nil) panics (an unset sub-message): "+wNil, map[string]any{"type": p.name, "message": "nil"})
		}
		vfCase(fmt.Sprintf("(WNilFrom %s %s %s)", tn, enc(resNil, pNil), invalid), "nilfrom:"+p.name, true, []string{"rec:" + p.name, "nil-message"}, map[string]any{"type": p.name, "message": "nil"})
		empty := reflect.New(mt.Elem()).Interface()
		emptyEnc := c24Enc(reflect.ValueOf(empty))
		resE, pE, wE := c24Call(func() any { return p.from(empty) })
		if pE {
			vfOracleFail("from-panic:"+p.name+":empty-message:"+c24PanicKey(wE), p.name+"FromProto panics on the message with every field unset: "+wE, map[string]any{"type": p.name, "message": "empty", "value": emptyEnc})
		}
		vfCase(fmt.Sprintf("(WConv (CRec false false %s) %s %s %s)", tn, emptyEnc, enc(resE, pE), invalid), "emptyfrom:"+p.name, true, []string{"rec:" + p.name, "empty-message"}, map[string]any{"type": p.name, "message": "empty"})
		// generated getters answer zero values on a nil receiver: unless the function returns nil for nil,
		// an unset message must convert like the message with every field unset
		if !pNil && !pE {
			rv := reflect.ValueOf(resNil)
			guarded := rv.Kind() == reflect.Ptr && rv.IsNil()
			if !guarded && enc(resNil, false) != enc(resE, false) {
				vfOracleFail("nil-vs-empty:"+p.name, p.name+"FromProto(nil) differs from FromProto of the message with every field unset", map[string]any{"type": p.name, "nil": enc(resNil, false), "empty": enc(resE, false)})
			}
		}
	}
	// ... and the FromProto functions of the query nodes
	for _, qn := range c24QueryNilCalls() {
		var res any
		var ferr error
		_, panicked, what := c24Call(func() any { res, ferr = qn.f(); return nil })
		obs := ""
		switch {
		case panicked:
			obs = "(Panic 0)"
			vfOracleFail("qnode-from-panic:"+qn.name+":nil-message:"+c24PanicKey(what), "query."+qn.name+"FromProto(nil) panics: "+what, map[string]any{"type": qn.name, "message": "nil"})
		case ferr != nil:
			obs = "(Err 0)"
		default:
			obs = "(Ok " + c24Enc(reflect.ValueOf(res)) + ")"
		}
		vfCase(fmt.Sprintf("(WNilFrom \"query.%s\"%%string %s %s)", qn.name, obs, invalid), "nilfrom:query."+qn.name, true, []string{"qnode:" + qn.name, "nil-message"}, map[string]any{"type": "query." + qn.name, "message": "nil", "obs": obs[:5]})
	}

	// RawConfigFromProto is not a struct conversion; a nil payload cannot come from the wire (a set oneof
	// carries a message), so its behaviour on nil is only compared, not required to be panic-free
	{
		res, panicked, _ := c24Call(func() any { return query.RawConfigFromProto(nil) })
		obs := "(Panic 0)"
		if !panicked {
			obs = "(Ok " + c24Enc(reflect.ValueOf(res)) + ")"
		}
		vfCase(fmt.Sprintf("(WNilQPayload \"Q_RawConfig\"%%string %s %s)", obs, invalid), "nilpayload:RawConfig", true, []string{"qnode:RawConfig", "nil-message"}, map[string]any{"type": "query.RawConfig", "message": "nil", "obs": obs[:5]})
	}

	// ---- 2a. query trees, Go side
	nQ := n * 2 / 10
	for i := 0; i < nQ; i++ {
		g := &c24Gen{r: r, cls: map[string]bool{}}
		q := g.q(0)
		goEnc := c24EncQ(q)
		pb, panicked, what := c24Call(func() any { return query.QToProto(q) })
		cls := append(c24Classes(g.cls), "q-go")
		if panicked {
			if !g.ood {
				vfOracleFail("qto-panic:"+c24PanicKey(what), "QToProto panics on a well-formed query: "+what, map[string]any{"query": q.String(), "value": goEnc})
			}
			vfCase(fmt.Sprintf("(WConv CQTo %s (Panic 0) %s)", goEnc, invalid), "qto:"+goEnc, true, append(cls, "to-panic"), map[string]any{"q": goEnc})
			continue
		}
		// as received by a server
		wire, err := proto.Marshal(pb.(*webserverv1.Q))
		if err != nil {
			t.Fatal(err)
		}
		var pb2 webserverv1.Q
		if err := proto.Unmarshal(wire, &pb2); err != nil {
			t.Fatal(err)
		}
		pbEnc := c24Enc(reflect.ValueOf(&pb2))
		vfCase(fmt.Sprintf("(WConv CQTo %s (Ok %s) %s)", goEnc, pbEnc, invalid), "qto:"+goEnc, len(goEnc) > 150, cls, map[string]any{"q": goEnc})
		var back query.Q
		var ferr error
		_, panicked2, what2 := c24Call(func() any { back, ferr = query.QFromProto(&pb2); return nil })
		switch {
		case panicked2:
			vfOracleFail("qfrom-panic:"+c24PanicKey(what2), "QFromProto panics on the output of QToProto: "+what2, map[string]any{"value": goEnc})
			vfCase(fmt.Sprintf("(WConv CQFrom %s (Panic 0) %s)", pbEnc, invalid), "qfrom:"+pbEnc, true, cls, map[string]any{"pb": pbEnc})
		case ferr != nil:
			if !g.ood {
				vfOracleFail("qfrom-error", "QFromProto rejects the output of QToProto: "+ferr.Error(), map[string]any{"value": goEnc})
			}
			vfCase(fmt.Sprintf("(WConv CQFrom %s (Err 0) %s)", pbEnc, invalid), "qfrom:"+pbEnc, true, cls, map[string]any{"pb": pbEnc})
		default:
			backEnc := c24EncQ(back)
			vfCase(fmt.Sprintf("(WConv CQFrom %s (Ok %s) %s)", pbEnc, backEnc, invalid), "qfrom:"+pbEnc, len(goEnc) > 150, cls, map[string]any{"pb": pbEnc})
			if !g.ood {
				vfCase(fmt.Sprintf("(WDom CQTo CQFrom %s %s)", goEnc, invalid), "qdom:"+goEnc, len(goEnc) > 150, append(cls, "in-domain"), map[string]any{"q": goEnc})
				if backEnc != goEnc {
					vfOracleFail("roundtrip:Q:"+reflect.TypeOf(q).String(), "query does not survive QToProto/QFromProto", map[string]any{"query": q.String(), "value": goEnc, "back": backEnc})
				}
			}
		}
	}

	// ---- 2b. protobuf query messages with arbitrary subsets of fields set
	c24wire := func(m proto.Message, into proto.Message) {
		b, err := proto.Marshal(m)
		if err != nil {
			t.Fatal(err)
		}
		if err := proto.Unmarshal(b, into); err != nil {
			t.Fatal(err)
		}
	}
	nPQ := n * 2 / 10
	for i := 0; i < nPQ; i++ {
		g := &c24Gen{r: r, cls: map[string]bool{}}
		p0 := g.pq(0)
		var p *webserverv1.Q
		if p0 != nil {
			p = &webserverv1.Q{}
			c24wire(p0, p)
		}
		pbEnc := c24EncPQ(p)
		var back query.Q
		var ferr error
		_, panicked, what := c24Call(func() any { back, ferr = query.QFromProto(p); return nil })
		cls := append(c24Classes(g.cls), "q-wire")
		obs := ""
		switch {
		case panicked:
			obs = "(Panic 0)"
			cls = append(cls, "from-panic")
			vfOracleFail("qfrom-panic:"+c24PanicKey(what), "QFromProto panics on a wire message with unset fields: "+what, map[string]any{"message": fmt.Sprint(p), "value": pbEnc})
		case ferr != nil:
			obs = "(Err 0)"
			cls = append(cls, "from-error")
		default:
			obs = "(Ok " + c24EncQ(back) + ")"
			cls = append(cls, "from-ok")
			// an accepted message must be a well-formed query tree: it can be printed and converted again
			// (a tree with a nil child panics in String / QToProto / the searchers)
			if _, p2, w2 := c24Call(func() any { _ = back.String(); return query.QToProto(back) }); p2 {
				vfOracleFail("qfrom-illformed:"+c24PanicKey(w2), "QFromProto accepts a wire message but returns an ill-formed query (String/QToProto panic on it): "+w2, map[string]any{"message": fmt.Sprint(p), "value": pbEnc})
			}
		}
		vfCase(fmt.Sprintf("(WConv CQFrom %s %s %s)", pbEnc, obs, invalid), "pq:"+pbEnc, true, cls, map[string]any{"pb": pbEnc, "obs": obs[:5]})
	}

	// ---- 3. handlers
	dir, err := os.MkdirTemp(os.Getenv("VERIF_TMP"), "c24-index-")
	if err != nil {
		t.Fatal(err)
	}
	defer os.RemoveAll(dir)
	opts := index.Options{IndexDir: dir, RepositoryDescription: zoekt.Repository{Name: "r1", ID: 1, Branches: []zoekt.RepositoryBranch{{Name: "HEAD", Version: "v"}}}, DisableCTags: true}
	opts.SetDefaults()
	b, err := index.NewBuilder(opts)
	if err != nil {
		t.Fatal(err)
	}
	for k, body := range []string{"package main\nfunc foo() { bar() }\n", "foo bar baz\nx y\n", "héllo zzz\n"} {
		if err := b.AddFile(filepath.Join("d", fmt.Sprintf("f%d.go", k)), []byte(body)); err != nil {
			t.Fatal(err)
		}
	}
	if err := b.Finish(); err != nil {
		t.Fatal(err)
	}
	streamer, err := search.NewDirectorySearcher(dir)
	if err != nil {
		t.Fatal(err)
	}
	defer streamer.Close()
	rec := &c24Rec{Streamer: streamer}
	srv := NewServer(rec)
	nH := n - nRec - nQ - nPQ
	for i := 0; i < nH; i++ {
		g := &c24Gen{r: r, cls: map[string]bool{}}
		h := uint64(i % 3)
		ctx, cancel := context.WithTimeout(context.Background(), 20*time.Second)
		var reqEnc string
		var cls uint64
		var what string
		var msg string
		var hresp any // the response message of Search / List
		var reqQ *webserverv1.Q
		var reqSO *webserverv1.SearchOptions
		var reqLO *webserverv1.ListOptions
		rec.called, rec.failed, rec.enc = false, false, ""
		// the first rounds are directed (every run): each handler with every subset of {query, options}
		// set, and StreamSearch with the inner request unset
		directed := i < 15
		dq, dopts, dreq := (i/3)&1 == 1, (i/3)&2 == 2, i/3 < 4
		constQ := &webserverv1.Q{Query: &webserverv1.Q_Const{Const: true}}
		if directed {
			g.cls["directed"] = true
			if !dq {
				g.cls["pq-nil"] = true
			}
			if !dopts {
				g.cls["opts-nil"] = true
			}
		}
		switch {
		case directed && h == 0:
			in := &webserverv1.SearchRequest{}
			if dq {
				in.Query = constQ
			}
			if dopts {
				in.Opts = &webserverv1.SearchOptions{}
			}
			reqEnc = c24Enc(reflect.ValueOf(in))
			msg = fmt.Sprint(in)
			reqQ, reqSO = in.GetQuery(), in.GetOpts()
			var herr error
			_, p, w := c24Call(func() any { hresp, herr = srv.Search(ctx, in); return nil })
			cls, what = c24ErrClass(herr, p), w
		case directed && h == 1:
			in := &webserverv1.StreamSearchRequest{}
			if dreq {
				in.Request = &webserverv1.SearchRequest{}
				if dq {
					in.Request.Query = constQ
				}
				if dopts {
					in.Request.Opts = &webserverv1.SearchOptions{}
				}
			} else {
				g.cls["stream-request-unset"] = true
			}
			reqEnc = c24Enc(reflect.ValueOf(in))
			msg = fmt.Sprint(in)
			reqQ, reqSO = in.GetRequest().GetQuery(), in.GetRequest().GetOpts()
			var herr error
			_, p, w := c24Call(func() any { herr = srv.StreamSearch(in, &c24Stream{ctx: ctx}); return nil })
			cls, what = c24ErrClass(herr, p), w
		case directed && h == 2:
			in := &webserverv1.ListRequest{}
			if dq {
				in.Query = constQ
			}
			if dopts {
				in.Opts = &webserverv1.ListOptions{}
			}
			reqEnc = c24Enc(reflect.ValueOf(in))
			msg = fmt.Sprint(in)
			reqQ, reqLO = in.GetQuery(), in.GetOpts()
			var herr error
			_, p, w := c24Call(func() any { hresp, herr = srv.List(ctx, in); return nil })
			cls, what = c24ErrClass(herr, p), w
		case h == 0:
			req := &webserverv1.SearchRequest{Query: g.pq(0), Opts: g.popts()}
			var in *webserverv1.SearchRequest
			if g.r.Chance(3) {
				g.cls["req-nil"] = true
			} else {
				in = &webserverv1.SearchRequest{}
				c24wire(req, in)
			}
			reqEnc = c24Enc(reflect.ValueOf(in))
			msg = fmt.Sprint(in)
			reqQ, reqSO = in.GetQuery(), in.GetOpts()
			var herr error
			_, p, w := c24Call(func() any { hresp, herr = srv.Search(ctx, in); return nil })
			cls, what = c24ErrClass(herr, p), w
		case h == 1:
			req := &webserverv1.StreamSearchRequest{}
			if !g.r.Chance(8) {
				req.Request = &webserverv1.SearchRequest{Query: g.pq(0), Opts: g.popts()}
			} else {
				g.cls["stream-request-unset"] = true
			}
			in := &webserverv1.StreamSearchRequest{}
			c24wire(req, in)
			reqEnc = c24Enc(reflect.ValueOf(in))
			msg = fmt.Sprint(in)
			reqQ, reqSO = in.GetRequest().GetQuery(), in.GetRequest().GetOpts()
			var herr error
			_, p, w := c24Call(func() any { herr = srv.StreamSearch(in, &c24Stream{ctx: ctx}); return nil })
			cls, what = c24ErrClass(herr, p), w
		default:
			req := &webserverv1.ListRequest{Query: g.pq(0)}
			if g.r.Chance(70) {
				req.Opts = &webserverv1.ListOptions{Field: webserverv1.ListOptions_RepoListField([]int32{0, 1, 3}[g.r.Intn(3)])}
			} else {
				g.cls["opts-nil"] = true
			}
			in := &webserverv1.ListRequest{}
			c24wire(req, in)
			reqEnc = c24Enc(reflect.ValueOf(in))
			msg = fmt.Sprint(in)
			reqQ, reqLO = in.GetQuery(), in.GetOpts()
			var herr error
			_, p, w := c24Call(func() any { hresp, herr = srv.List(ctx, in); return nil })
			cls, what = c24ErrClass(herr, p), w
		}
		cancel()
		hn := []string{"Search", "StreamSearch", "List"}[h]
		classes := append(c24Classes(g.cls), "handler:"+hn, fmt.Sprintf("class=%d", cls))
		if cls == 3 {
			key := "handler-panic:" + hn + ":" + c24PanicKey(what)
			if g.cls["opts-nil"] && !g.cls["pq-nil"] && !g.cls["pq-unset-oneof"] {
				key += ":nil-opts"
			}
			if g.cls["req-nil"] {
				key += ":nil-request-pointer" // a direct call with a nil request; gRPC itself always passes a message
			}
			if g.cls["stream-request-unset"] {
				key += ":request-unset"
			}
			vfOracleFail(key, "gRPC handler "+hn+" panics (no recovery interceptor is installed: the server process dies): "+what, map[string]any{"handler": hn, "request": msg, "value": reqEnc})
		}
		if rec.called {
			// decoding: the query and the options the handler handed to the searcher
			// oracle (reference decoding with the real conversion functions): the searcher gets the query and
			// the option set of the request - "every query and search option set survives", at the service level
			wantQ, wantO := "", ""
			if q0, err := query.QFromProto(reqQ); err == nil {
				wantQ = c24EncQ(q0)
			}
			if h == 2 {
				wantO = c24Enc(reflect.ValueOf(zoekt.ListOptionsFromProto(reqLO)))
			} else if so := zoekt.SearchOptionsFromProto(reqSO); so != nil {
				wantO = c24Enc(reflect.ValueOf(so))
			} else {
				wantO = c24Enc(reflect.ValueOf(&zoekt.SearchOptions{}))
			}
			if wantQ != rec.argQ {
				vfOracleFail("handler-args:"+hn+":query", hn+" hands the searcher a query that is not the request's query", map[string]any{"handler": hn, "request": msg, "want": wantQ, "got": rec.argQ})
			}
			if wantO != rec.argO {
				vfOracleFail("handler-args:"+hn+":options", hn+" hands the searcher options that are not the request's options (defaults when unset)", map[string]any{"handler": hn, "request": msg, "want": wantO, "got": rec.argO})
			}
			vfCase(fmt.Sprintf("(WHandlerA %d %s %s %s %s)", h, reqEnc, rec.argQ, rec.argO, invalid), "ha:"+hn+reqEnc, true, append(append([]string(nil), classes...), "searcher-args"), map[string]any{"handler": hn, "request": msg})
		}
		if h != 1 && cls == 0 && rec.called && !rec.failed && hresp != nil {
			// decode + call + encode: the response is the model's encoding of what the searcher returned
			respEnc := c24Enc(reflect.ValueOf(hresp))
			// oracle: the property at the level of the service - the client decodes what the searcher returned
			back, bp, bw := c24Call(func() any {
				if h == 0 {
					return zoekt.SearchResultFromProto(hresp.(*webserverv1.SearchResponse), nil, nil)
				}
				return zoekt.RepoListFromProto(hresp.(*webserverv1.ListResponse))
			})
			if bp {
				vfOracleFail("response-from-panic:"+hn+":"+c24PanicKey(bw), "the client-side FromProto panics on the response of "+hn+": "+bw, map[string]any{"handler": hn, "request": msg, "response": respEnc})
			} else if got := c24Enc(reflect.ValueOf(back)); got != rec.want {
				vfOracleFail("response-roundtrip:"+hn, "the response of "+hn+" does not decode to the result the searcher returned", map[string]any{"handler": hn, "request": msg, "result": rec.want, "decoded": got})
			}
			vfCase(fmt.Sprintf("(WHandlerR %d %s %s %s %s)", h, reqEnc, rec.enc, respEnc, invalid), "hr:"+hn+reqEnc, true, append(append([]string(nil), classes...), "response"), map[string]any{"handler": hn, "request": msg, "result_len": len(rec.enc), "response_len": len(respEnc)})
		}
		vfCase(fmt.Sprintf("(WHandler %d %s %d %s)", h, reqEnc, cls, invalid), "h:"+hn+reqEnc, true, classes, map[string]any{"handler": hn, "request": msg, "class": cls})
	}
}

// c24FirstDiff names the first top-level field whose encodings differ
func c24FirstDiff(a, b reflect.Value) string {
	for b.Kind() == reflect.Ptr && !b.IsNil() {
		b = b.Elem()
	}
	if a.Kind() != reflect.Struct || b.Kind() != reflect.Struct || a.Type() != b.Type() {
		return "?"
	}
	for i := 0; i < a.NumField(); i++ {
		if c24Enc(a.Field(i)) != c24Enc(b.Field(i)) {
			return a.Type().Field(i).Name
		}
	}
	return "?"
}
